(* List-based (polynomial-time) version of the accepted_inputs model, proved equal to [acc]. *)
From TN Require Export Proofs.AcceptedP Sem.Fast.
Local Open Scope Z_scope.

Notation nthZ := (nthK (K:=ZO)).
Definition sumsZ (l : list Z) : Z := sums (K:=ZO) l.

(* rights[mu]: vector of length rl(cs) *)
Fixpoint rights_l (cs : list ZS) : list Z :=
  match cs with
  | [] => [1]
  | c :: cs' =>
      let rr' := rights_l cs' in
      map (fun p => sumn (K:=ZO) (rr c) (fun q => sumn (K:=ZO) (dm c) (fun i => sl c i p q) * nthZ rr' q)) (seq 0 (rl c))
  end.

Fixpoint acc_l (cs : list ZS) (left : list Z) : list (list nat) :=
  match cs with
  | [] => repeat [] (Z.to_nat (sumsZ left))
  | c :: cs' =>
      let rts := rights_l cs' in
      flat_map (fun i =>
        let left' := vml (K:=ZO) left (rl c) (rr c) (sl c i) in
        if Z.eqb (sumn (K:=ZO) (rr c) (fun q => nthZ left' q * nthZ rts q)) 0 then []
        else map (cons i) (acc_l cs' left')) (seq 0 (dm c))
  end.

Definition accepted_inputs_l (cs : list ZS) : list (list nat) :=
  match cs with [] => [] | c :: _ => acc_l cs (repeat 1 (rl c)) end.

Lemma rights_l_nth (cs : list ZS) : forall r p, chain r cs = true -> last_rr r cs = 1%nat -> (p < r)%nat ->
  nthZ (rights_l cs) p = rights cs p.
Proof.
  induction cs as [|c cs IH]; intros r p Hc H1 Hp.
  - cbn in H1. subst r. assert (p = O) by lia. subst p. reflexivity.
  - cbn [chain] in Hc. apply andb_true_iff in Hc. destruct Hc as [Er Hc]. apply Nat.eqb_eq in Er.
    cbn [rights_l rights]. unfold nthK at 1. rewrite nth_map_seq by lia. cbn [Nat.add].
    apply (sumn_ext (K:=ZO)). intros q Hq. f_equal. apply (IH (rr c)); auto.
Qed.

Lemma acc_ext (cs : list ZS) : forall r (left left' : nat -> Z), chain r cs = true ->
  (forall p, (p < r)%nat -> left p = left' p) -> acc cs r left = acc cs r left'.
Proof.
  induction cs as [|c cs IH]; intros r left left' Hc H.
  - cbn [acc]. f_equal. f_equal. unfold dotv. apply (sumn_ext (K:=ZO)). intros p Hp. rewrite H by exact Hp. reflexivity.
  - cbn [chain] in Hc. apply andb_true_iff in Hc. destruct Hc as [Er Hc]. apply Nat.eqb_eq in Er.
    cbn [acc]. apply flat_map_ext_in. intros i _.
    assert (E: forall q, vm (rl c) left (sl c i) q = vm (rl c) left' (sl c i) q).
    { intros q. unfold vm. apply (sumn_ext (K:=ZO)). intros p Hp. rewrite H by lia. reflexivity. }
    assert (E2: dotv (rr c) (vm (rl c) left (sl c i)) (rights cs) = dotv (rr c) (vm (rl c) left' (sl c i)) (rights cs)).
    { unfold dotv. apply (sumn_ext (K:=ZO)). intros q _. rewrite E. reflexivity. }
    rewrite E2. destruct (Z.eqb _ 0); [reflexivity|]. f_equal.
    apply (IH (rr c)); auto.
Qed.

Theorem acc_l_sound (cs : list ZS) : forall r (left : list Z), chain r cs = true -> last_rr r cs = 1%nat ->
  length left = r -> acc_l cs left = acc cs r (nthZ left).
Proof.
  induction cs as [|c cs IH]; intros r left Hc H1 Hl.
  - cbn [acc_l acc]. f_equal. f_equal. unfold sumsZ, dotv. rewrite (sums_sumn ZO ZO_laws).
    change (sumn (K:=ZO) (length left) (nthZ left) = sumn (K:=ZO) r (fun p => nthZ left p * 1)). rewrite Hl.
    apply (sumn_ext (K:=ZO)). intros p _. rewrite Z.mul_1_r. reflexivity.
  - cbn [chain] in Hc. apply andb_true_iff in Hc. destruct Hc as [Er Hc]. apply Nat.eqb_eq in Er.
    cbn [acc_l acc]. apply flat_map_ext_in. intros i _.
    set (ll := vml (K:=ZO) left (rl c) (rr c) (sl c i)).
    assert (En: forall q, (q < rr c)%nat -> nthZ ll q = vm (rl c) (nthZ left) (sl c i) q).
    { intros q Hq. unfold ll. rewrite nth_vml by exact Hq. reflexivity. }
    assert (Ed: sumn (K:=ZO) (rr c) (fun q => nthZ ll q * nthZ (rights_l cs) q) =
                dotv (rr c) (vm (rl c) (nthZ left) (sl c i)) (rights cs)).
    { unfold dotv. apply (sumn_ext (K:=ZO)). intros q Hq. rewrite En by exact Hq.
      rewrite (rights_l_nth cs (rr c)) by (auto). reflexivity. }
    rewrite Ed. destruct (Z.eqb _ 0); [reflexivity|]. f_equal.
    rewrite (IH (rr c) ll Hc H1 (vml_length ZO _ _ _ _)).
    apply (acc_ext cs (rr c)); auto.
Qed.

Theorem accepted_inputs_l_sound (cs : list ZS) :
  chain (match cs with c :: _ => rl c | [] => O end) cs = true ->
  last_rr (match cs with c :: _ => rl c | [] => O end) cs = 1%nat ->
  accepted_inputs_l cs = accepted_inputs cs.
Proof.
  intros Hc H1. destruct cs as [|c cs]; [reflexivity|]. unfold accepted_inputs_l, accepted_inputs.
  rewrite (acc_l_sound (c :: cs) (rl c)); auto; [|apply repeat_length].
  apply (acc_ext (c :: cs) (rl c)); auto. intros p Hp. apply (nthK_repeat1 ZO). exact Hp.
Qed.
