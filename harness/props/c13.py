"""C13: orthogonalisation yields the documented gauge without changing the tensor.

A case is a tensor in explicit form plus a *history* of orthogonalisation steps
  ["orth", mu]  -> t.orthogonalize(mu)          (mu may be negative)
  ["left", mu]  -> t.left_orthogonalize(mu)     (0 <= mu < N-1)
  ["right", mu] -> t.right_orthogonalize(mu)    (1 <= mu < N)
The runner records the explicit form of the tensor (and the returned factor) after every step; the oracle
(NumPy only) checks after *every* step the guarantee of that step: Gram matrices of the unfoldings / factors
against the identity, the dense tensor against the dense input, the norm identity, and for single-core steps
that the returned factor is triangular and is exactly what was multiplied into the neighbouring core.
"""
from lib import *

TOL = 1e-6


def _np(a):
    return np.array(a, dtype=np.float64)


def _gram_err(A):
    """max |A^T A - I| for a 2-D array A (columns orthonormal?)"""
    if A.shape[1] == 0:
        return 0.0
    return float(np.max(np.abs(A.T @ A - np.eye(A.shape[1]))))


def _left_err(core):
    c = _np(core)
    if c.ndim != 3:
        return None
    return _gram_err(c.reshape(-1, c.shape[2]))


def _right_err(core):
    c = _np(core)
    if c.ndim != 3:
        return None
    return _gram_err(c.reshape(c.shape[0], -1).T)


def _fro(a):
    return float(np.sqrt(np.sum(_np(a) ** 2)))


def _le(v, tol):
    """NaN/inf-safe  v <= tol  (None, NaN and inf are never small)"""
    return v is not None and bool(np.isfinite(v)) and v <= tol


def _finite(*arrs):
    return all(a is not None and np.all(np.isfinite(_np(a))) for a in arrs)


def steps_valid(N, steps):
    for op, mu in steps:
        if op == "orth" and not (-N <= mu < N):
            return False
        if op == "left" and not (0 <= mu < N - 1):
            return False
        if op == "right" and not (1 <= mu < N):
            return False
    return True


def cp_touch(tj, steps):
    """does a single-core step act on (or push into) a core that is still in CP form at that moment?"""
    kinds = [m["kind"] for m in tj["modes"]]
    converted = False
    for op, mu in steps:
        if op == "orth":
            converted = True
            continue
        nb = mu + 1 if op == "left" else mu - 1
        if not converted and (kinds[mu] == "cp" or kinds[nb] == "cp"):
            return True
    return False


class Prop:
    ID = "C13"
    LEVEL = "proof"
    COQ_HEADER = "From TN Require Import Harness.H_C13.\nFrom Coq Require Import QArith.\nOpen Scope Q_scope.\n"
    CHECK_FN = "check"
    RULE = ("enumerated format lattice ({TT,CP}x{U,no U} per mode) for N=2,3 with every mu in -N..N-1; seeded random "
            "formats for N=4,5; mode sizes 1..4, bond ranks 1..5 (above and below the mode sizes), Tucker factors "
            "taller, square and wider than their core; zero and rank-deficient tensors; single-core "
            "left_/right_orthogonalize at every admissible mu (TT cores; CP cores tagged cp_touch); histories of 2..4 "
            "successive steps mixing orthogonalize/left/right about different cores, every step's gauge checked. "
            "Non-trivial: no exception and the tensor is not identically zero; distinct = distinct (format "
            "signature, shape, bond ranks, history).")
    TRUSTED = ["NumPy float64 Gram matrices / dense decompression (lib.dense_np) as the oracle, tolerance 1e-6",
               "harness/props/c13.py (runner + oracle)"]
    ASSUMPTIONS = ["orthonormality, triangularity and equality of tensors are checked to 1e-6 (relative to the tensor's "
                   "norm where a scale exists); exact-arithmetic statements are not claimed",
                   "invalid mu (outside the documented ranges) is not exercised: the property has no error clause",
                   "batch tensors are not exercised"]
    THEOREMS = ["C13_left_unchanged", "C13_left_gauge", "C13_right_unchanged", "C13_right_gauge", "C13_isometry", "C13_norm", "C13_orthogonalize", "C13_factor_unchanged", "C13_factor_gauge"]

    # ------------------------------------------------------------------ generation
    def generate(self, rng, tier):
        quick = tier == "quick"
        cases = []

        def mk(tj, steps, kind, **tags):
            N = len(tj["modes"])
            assert steps_valid(N, steps)
            tg = dict(kind=kind, formats=tsig(tj), N=N, nsteps=len(steps), first_op=steps[0][0], last_op=steps[-1][0],
                      neg_mu=any(mu < 0 for _, mu in steps), cp_touch=cp_touch(tj, steps),
                      has_cp=any(m["kind"] == "cp" for m in tj["modes"]),
                      has_U=any(m["U"] is not None for m in tj["modes"]))
            tg.update(tags)
            cases.append({"t": tj, "steps": [list(s) for s in steps], "tags": tg})

        def rshape(N, hi=4):
            return [rng.randint(1, hi) for _ in range(N)]

        def rt(N, kinds=None, **kw):
            kw.setdefault("maxr", rng.choice([2, 3, 5]))
            kw.setdefault("maxs", 4)
            return rand_tensor_json(rng, rshape(N), kinds, **kw)

        # 1. orthogonalize(mu): whole lattice for N = 2, 3, every mu (negative included)
        for N in (2, 3):
            for kinds in itertools.product(KINDS, repeat=N):
                for mu in range(-N, N):
                    if quick and N == 3 and rng.random() > 0.7:
                        continue
                    mk(rt(N, list(kinds)), [["orth", mu]], "orth-lattice", mu_pos=("first" if mu % N == 0 else
                                                                                 "last" if mu % N == N - 1 else "middle"))
        # 2. seeded formats, N = 4, 5
        for N in (4, 5):
            for _ in range(200 if quick else 1500):
                mk(rt(N, maxr=rng.choice([2, 3, 4])), [["orth", rng.randint(-N, N - 1)]], "orth-random")
        # 3. degenerate inputs: zero tensors, rank-deficient (0/1 entries, constant cores), size-1 modes, rank 1
        for _ in range(60 if quick else 500):
            N = rng.randint(2, 4)
            r = rng.random()
            if r < 0.3:
                tj = rand_tensor_json(rng, rshape(N), maxr=3, zero=True); k = "zero"
            elif r < 0.6:
                tj = rand_tensor_json(rng, rshape(N), maxr=5, lo=0, hi=1); k = "rankdef"
            elif r < 0.8:
                tj = rand_tensor_json(rng, [1] * N, maxr=3, maxs=3); k = "size1"
            else:
                tj = rand_tensor_json(rng, rshape(N), maxr=1); k = "rank1"
            mk(tj, [["orth", rng.randint(-N, N - 1)]], "orth-" + k)
        # 4. single-core steps, TT cores (with/without factors), all admissible mu; CP cores -> tagged cp_touch
        for N in (2, 3, 4):
            ttk = [("tt", False), ("tt", True)]
            combos = list(itertools.product(ttk, repeat=N))
            for kinds in combos:
                for op in ("left", "right"):
                    mus = range(0, N - 1) if op == "left" else range(1, N)
                    for mu in mus:
                        if quick and N == 4 and rng.random() > 0.4:
                            continue
                        mk(rt(N, list(kinds)), [[op, mu]], "single-tt")
        for _ in range(80 if quick else 600):
            N = rng.randint(2, 5)
            tj = rt(N)
            op = rng.choice(["left", "right"])
            mu = rng.randint(0, N - 2) if op == "left" else rng.randint(1, N - 1)
            mk(tj, [[op, mu]], "single-any")
        for _ in range(30 if quick else 200):
            N = rng.randint(2, 4)
            r = rng.random()
            kinds = [rng.choice([("tt", False), ("tt", True)]) for _ in range(N)]
            tj = rand_tensor_json(rng, rshape(N), kinds, maxr=4, zero=r < 0.3, lo=0 if r > 0.6 else -2, hi=1 if r > 0.6 else 2)
            op = rng.choice(["left", "right"])
            mu = rng.randint(0, N - 2) if op == "left" else rng.randint(1, N - 1)
            mk(tj, [[op, mu]], "single-degenerate")
        # 5. histories
        for _ in range(500 if quick else 4000):
            N = rng.randint(2, 5)
            tj = rt(N, maxr=rng.choice([2, 3, 4]))
            L = rng.randint(2, 4)
            steps = []
            # a history starts with a full orthogonalisation in 3 of 4 cases (after it all cores are TT cores)
            if rng.random() < 0.75:
                steps.append(["orth", rng.randint(-N, N - 1)])
            while len(steps) < L:
                r = rng.random()
                if r < 0.5:
                    steps.append(["orth", rng.randint(-N, N - 1)])
                elif r < 0.75:
                    steps.append(["left", rng.randint(0, N - 2)])
                else:
                    steps.append(["right", rng.randint(1, N - 1)])
            mk(tj, steps, "history")
        # 9. tensors that come out of the arithmetic (TT x CP products: a CP factor at either end of one operand), then
        #    orthogonalize(mu) for every mu: gauge, factors and the norm identity on what `*` returns
        for _ in range(60 if quick else 400):
            N = rng.randint(2, 4); shape = rshape(N, 3)
            k1 = [("tt", rng.random() < 0.3) for _ in range(N)]
            k2 = [(rng.choice(["tt", "cp"]), rng.random() < 0.3) for _ in range(N)]
            k2[rng.choice([0, N - 1])] = ("cp", rng.random() < 0.3)
            a = rand_tensor_json(rng, shape, k1, maxr=2, maxs=3); b = rand_tensor_json(rng, shape, k2, maxr=3, maxs=3)
            if rng.random() < 0.5:
                a, b = b, a
            mk(a, [["orth", rng.randint(-N, N - 1)]], "product")
            cases[-1]["times"] = b
            cases[-1]["tags"]["formats"] = tsig(a) + "*" + tsig(b)
        return cases

    # ------------------------------------------------------------------ implementation
    def run(self, case):
        t = to_tn(case["t"])
        if case.get("times") is not None:     # the operand of the sweep is a product built through the API
            t = t * to_tn(case["times"])
        snaps = []
        i = -1
        try:
            for i, (op, mu) in enumerate(case["steps"]):
                if op == "orth":
                    ret = t.orthogonalize(mu)
                    rets = None
                elif op == "left":
                    ret = t.left_orthogonalize(mu)
                    rets = ret.detach().tolist()
                else:
                    ret = t.right_orthogonalize(mu)
                    rets = ret.detach().tolist()
                snaps.append({"t": from_tn(t), "ret": rets})
            return {"ok": True, "snaps": snaps}
        except Exception as e:
            return {"ok": False, "err": type(e).__name__, "msg": str(e)[:200], "step": i}

    # ------------------------------------------------------------------ specification
    def expected(self, case):
        x = dense_np(case["t"])
        if case.get("times") is not None:
            x = x * dense_np(case["times"])
        return {"ok": True, "shape": list(x.shape), "dense": x.reshape(-1).tolist(), "norm": _fro(x)}

    def agree(self, case, res, exp):
        if not res.get("ok"):
            return False, "implementation raised %s at step %s: %s" % (res.get("err"), res.get("step"), res.get("msg"))
        x = _np(exp["dense"]).reshape(exp["shape"])
        nx = exp["norm"]
        N = len(case["t"]["modes"])
        prev = case["t"]
        if len(res["snaps"]) != len(case["steps"]):
            return False, "runner recorded %d snapshots for %d steps" % (len(res["snaps"]), len(case["steps"]))
        for i, ((op, mu), snap) in enumerate(zip(case["steps"], res["snaps"])):
            cur = snap["t"]
            where = "step %d (%s %d): " % (i, op, mu)
            # ---- the represented tensor is unchanged
            try:
                y = dense_np(cur)
            except Exception as e:
                return False, where + "result is not a well-formed network (%s)" % type(e).__name__
            if list(y.shape) != list(x.shape):
                return False, where + "shape changed to %s" % (list(y.shape),)
            if not _le(_fro(y - x), TOL * nx + 1e-12):
                return False, where + "tensor changed, |diff| = %g (|x| = %g)" % (_fro(y - x), nx)
            cores = [m["core"] for m in cur["modes"]]
            Us = [m["U"] for m in cur["modes"]]
            if not _finite(*cores) or not _finite(*[U for U in Us if U is not None]):
                return False, where + "cores / factors contain non-finite entries"
            if op == "orth":
                m = mu % N
                for n in range(N):
                    if _np(cores[n]).ndim != 3:
                        return False, where + "core %d was not converted to a TT core" % n
                    if n < m:
                        e = _left_err(cores[n])
                        if not _le(e, TOL):
                            return False, where + "core %d left unfolding not orthonormal (%g)" % (n, e)
                    if n > m:
                        e = _right_err(cores[n])
                        if not _le(e, TOL):
                            return False, where + "core %d right unfolding not orthonormal (%g)" % (n, e)
                    if n != m and Us[n] is not None:
                        e = _gram_err(_np(Us[n]))
                        if not _le(e, TOL):
                            return False, where + "factor %d columns not orthonormal (%g)" % (n, e)
                # norm of the tensor = norm of core mu combined with its own factor
                c = _np(cores[m])
                if Us[m] is not None:
                    c = np.einsum("pjq,ij->piq", c, _np(Us[m]))
                if not _le(abs(_fro(c) - nx), TOL * nx + 1e-12):
                    return False, where + "|core mu with its factor| = %g but |tensor| = %g" % (_fro(c), nx)
            else:
                nb = mu + 1 if op == "left" else mu - 1
                pc = _np(prev["modes"][nb]["core"])
                if pc.ndim == 2:
                    # the step converts CP cores first (documented): compare against the converted old neighbour
                    s_, R_ = pc.shape
                    if nb == 0:
                        pc = pc[None, :, :]
                    elif nb == N - 1:
                        pc = pc.T[:, :, None]
                    else:
                        g = np.zeros((R_, s_, R_))
                        for r_ in range(R_):
                            g[r_, :, r_] = pc[:, r_]
                        pc = g
                cm = _np(cores[mu]); cn = _np(cores[nb])
                if cm.ndim != 3 or cn.ndim != 3 or pc.ndim != 3:
                    return False, where + "CP core was not converted to a TT core"
                e = _left_err(cores[mu]) if op == "left" else _right_err(cores[mu])
                if not _le(e, TOL):
                    return False, where + "core %d %s unfolding not orthonormal (%g)" % (mu, op, e)
                if Us[mu] is not None:
                    e = _gram_err(_np(Us[mu]))
                    if not _le(e, TOL):
                        return False, where + "factor %d columns not orthonormal (%g)" % (mu, e)
                R = _np(snap["ret"])
                if R.ndim != 2 or not _finite(R):
                    return False, where + "returned factor is not a finite matrix"
                scale = max(1.0, float(np.max(np.abs(R))) if R.size else 1.0)
                if op == "left":
                    # upper triangular, shape (new bond, old bond); new neighbour = R x_1 old neighbour
                    if R.shape != (cm.shape[2], pc.shape[0]):
                        return False, where + "returned factor has shape %s, bonds are %d -> %d" % (R.shape, pc.shape[0], cm.shape[2])
                    if not _le(float(np.max(np.abs(R - np.triu(R)), initial=0.0)), TOL * scale):
                        return False, where + "returned factor is not upper triangular"
                    want = (R @ pc.reshape(pc.shape[0], -1)).reshape((R.shape[0],) + pc.shape[1:])
                else:
                    if R.shape != (pc.shape[2], cm.shape[0]):
                        return False, where + "returned factor has shape %s, bonds are %d -> %d" % (R.shape, pc.shape[2], cm.shape[0])
                    if not _le(float(np.max(np.abs(R - np.tril(R)), initial=0.0)), TOL * scale):
                        return False, where + "returned factor is not lower triangular"
                    want = (pc.reshape(-1, pc.shape[2]) @ R).reshape(pc.shape[:2] + (R.shape[1],))
                if want.shape != cn.shape or not close(cn, want, TOL):
                    return False, where + "neighbouring core is not (old neighbour) x (returned factor)"
            prev = cur
        return True, ""

    # ------------------------------------------------------------------ evidence
    def nontrivial(self, case, res):
        if not res.get("ok"):
            return False
        return bool(np.any(dense_np(case["t"]) != 0))

    def signature(self, case):
        tj = case["t"]
        ranks = [np.array(m["core"]).shape[-1] for m in tj["modes"]]
        return "%s;%s;%s;%s" % (tsig(tj), tshape(tj), ranks, json.dumps(case["steps"]))

    def coq_term(self, case, res):
        """oracle replay: histories made of one orthogonalize(mu) on small tensors; torch.linalg.qr is intercepted, its
        arguments and answers are recorded and handed to the Coq model together with the implementation's final tensor"""
        from fractions import Fraction
        if not res.get("ok") or len(case["steps"]) != 1 or case["steps"][0][0] != "orth" or case.get("times") is not None:
            return None
        tj = case["t"]; N = len(tj["modes"])
        if N > 4 or max(max(np.array(m["core"]).shape) for m in tj["modes"]) > 4:
            return None
        mu = int(case["steps"][0][1]) % N
        t = to_tn(tj); recs = []
        orig = torch.linalg.qr
        def wrap(A, *a, **k):
            Q, R = orig(A, *a, **k)
            recs.append((A.detach().clone(), Q.detach().clone(), R.detach().clone()))
            return Q, R
        torch.linalg.qr = wrap
        try:
            t.orthogonalize(int(case["steps"][0][1]))
        except Exception:
            return None
        finally:
            torch.linalg.qr = orig
        # the recorded doubles are handed over exactly: rounding them (formerly to 2^-30) puts an absolute error of 1e-9
        # into every product, which is visible whenever the exact result cancels (zero tensors, rank-deficient factors)
        ql = lambda x: qlit(Fraction(float(x)))
        def a2(M):
            return "(mkA2 %d %d %s)" % (M.shape[0], M.shape[1], coq_list(M.reshape(-1).tolist(), ql, "Q"))
        # each recorded contract is also validated numerically (orthonormal columns, exact factorisation)
        for A, Q, R in recs:
            if float((Q @ R - A).abs().max()) > 1e-9 * max(1.0, float(A.abs().max())) or \
                    float((Q.T @ Q - torch.eye(Q.shape[1], dtype=Q.dtype)).abs().max()) > 1e-9:
                return "mkCase [] 0%nat [] [] []"        # contract violated: force a disagreement
        ans = "[" + "; ".join("mkAns %d %s %s %s" % (Q.shape[1], a2(Q), a2(R), a2(A)) for A, Q, R in recs) + "]"
        d = t.torch().detach().double()
        lit = lambda x: qlit(Fraction(x))
        return "mkCase %s %d%%nat %s %s %s" % (coq_tensor(tj, lit, "Q"), mu, ans, coq_natlist(list(d.shape)),
                                              coq_list(d.reshape(-1).tolist(), ql, "Q"))

    def shrink(self, case, fails):
        """drop leading steps / trailing steps while the case still fails"""
        best = case
        changed = True
        while changed and len(best["steps"]) > 1:
            changed = False
            for cand_steps in (best["steps"][1:], best["steps"][:-1]):
                if not steps_valid(len(best["t"]["modes"]), cand_steps):
                    continue
                c2 = json.loads(json.dumps(best)); c2["steps"] = cand_steps
                if cp_touch(c2["t"], cand_steps) != bool(best["tags"].get("cp_touch")):
                    continue            # do not shrink into (or out of) the known CP-core defect class
                c2["tags"]["nsteps"] = len(cand_steps)
                try:
                    if fails(c2):
                        best = c2; changed = True
                        break
                except Exception:
                    pass
        return best
