(* C08 -- proofs about the cross-approximation model (Model/Cross.v).
   Part 1 (any commutative ring): the interpolation identity.  A core built as (coefficients) x (inverse of the
   coefficient rows picked by maxvol) restricted to the picked (mode index, right index) pairs is the identity;
   with nested right index sets the product of the cores 1..N-1 along the k-th tuple of rsets[0] is the k-th unit
   vector, hence the returned tensor reproduces the sampled fibres of the first mode.
   Part 2 (no scalars): nestedness and grid membership of the index sets, for every maxvol answer in range, and the
   invariant of the whole replayed run: every point the model asks the function for is a point of the grid, and the
   reported argmin is one of them.
   Part 3: the interface matrices are the partial products of the given tensors' cores at the index sets, so the
   argument vectors handed to the function are entries of the given tensors at the requested grid points. *)
From TN Require Import Model.Cross Sem.Moves Sem.Fast.
From Coq Require Import QArith.
Local Open Scope nat_scope.

Lemma nth_map_lt {A B} (f : A -> B) (l : list A) k d d' : k < length l -> nth k (map f l) d' = f (nth k l d).
Proof. intros H. rewrite (nth_indep _ d' (f d)) by (rewrite map_length; exact H). apply map_nth. Qed.

(* ================================================================== Part 1 *)
Section Interp.
Variable K : Ops.
Hypothesis Kth : laws K.
Add Ring Kring : Kth.
Local Open Scope K_scope.
Notation score := (score K).

(* C = Qm Binv, B = rows [loc] of Qm, B Binv = I  ==>  rows [loc] of C are the identity *)
Definition mmulK (n : nat) (A B : nat -> nat -> K) : nat -> nat -> K := fun i j => sumn n (fun t => A i t * B t j).

Lemma coeff_rows_identity (r : nat) (Qm Binv : nat -> nat -> K) (loc : nat -> nat) :
  (forall k a, (k < r)%nat -> (a < r)%nat -> mmulK r (fun k t => Qm (loc k) t) Binv k a = delta k a) ->
  forall k a, (k < r)%nat -> (a < r)%nat -> mmulK r Qm Binv (loc k) a = delta k a.
Proof. intros H k a Hk Ha. exact (H k a Hk Ha). Qed.

(* the core of the right-to-left sweep as a semantic core: core[a, i, b] = C[i * Rj1 + b, a]   (cross.py:435-436) *)
Definition core_of (Rj Ij Rj1 : nat) (C : nat -> nat -> K) : score :=
  mkScore Rj Rj1 Ij (fun i a b => C (i * Rj1 + b)%nat a).

Lemma divmod_recompose (x d : nat) : (d <> 0)%nat -> (x / d * d + x mod d = x)%nat.
Proof. intros H. rewrite Nat.mul_comm. symmetry. apply Nat.div_mod. exact H. Qed.

(* restricted to the picked pairs (local_i, local_r) = unravel_index(local, [Is[j], Rs[j+1]]) the core is the identity *)
Lemma core_identity_pattern (Rj Ij Rj1 : nat) (Qm Binv : nat -> nat -> K) (loc : nat -> nat) :
  (Rj1 <> 0)%nat ->
  (forall k a, (k < Rj)%nat -> (a < Rj)%nat -> mmulK Rj (fun k t => Qm (loc k) t) Binv k a = delta k a) ->
  forall k a, (k < Rj)%nat -> (a < Rj)%nat ->
    sl (core_of Rj Ij Rj1 (mmulK Rj Qm Binv)) (loc k / Rj1) a (loc k mod Rj1) = delta a k.
Proof.
  intros Hd H k a Hk Ha. cbn [core_of sl]. rewrite divmod_recompose by exact Hd.
  pose proof (H k a Hk Ha) as E. unfold mmulK in *. cbv beta in E. rewrite E.
  unfold delta. rewrite Nat.eqb_sym. reflexivity.
Qed.

(* nested right index sets carrying cores with the identity pattern.
   cs = cores j, j+1, ..  ;  Rs = rsets[j-1], rsets[j], ..  (rows keep their trailing dummy 0, as in the code) *)
Fixpoint skeleton (cs : list score) (Rs : list rows) : Prop :=
  match cs, Rs with
  | [], [R] => length R = 1%nat
  | c :: cs', R :: ((R' :: _) as Rs') =>
      rl c = length R /\ rr c = length R' /\
      (forall k, (k < length R)%nat -> exists i b, nth k R [] = i :: nth b R' [] /\ (b < length R')%nat /\
          forall a, (a < rl c)%nat -> sl c i a b = delta a k) /\
      skeleton cs' Rs'
  | _, _ => False
  end.

Theorem skeleton_unit (cs : list score) : forall Rs, skeleton cs Rs ->
  forall k a, (k < length (hd [] Rs))%nat -> (a < length (hd [] Rs))%nat ->
    evalv cs (nth k (hd [] Rs) []) ones a = delta a k.
Proof.
  induction cs as [|c cs IH]; intros Rs H k a Hk Ha.
  - destruct Rs as [|R [|? ?]]; cbn [skeleton] in H; try contradiction.
    cbn [hd] in *. rewrite H in Hk, Ha. assert (k = 0%nat) by lia. assert (a = 0%nat) by lia. subst.
    destruct (nth 0 R []); reflexivity.
  - destruct Rs as [|R [|R' Rs']]; cbn [skeleton] in H; try contradiction.
    destruct H as (Hl & Hr & Hpat & Hrest). cbn [hd] in *.
    destruct (Hpat k Hk) as (i & b & Erow & Hb & Hid). rewrite Erow. cbn [evalv].
    rewrite (sumn_ext (rr c) _ (fun q => sl c i a q * delta q b)).
    2:{ intros q Hq. f_equal. apply (IH (R' :: Rs') Hrest b q); cbn [hd]; lia. }
    rewrite (sumn_delta_r Kth (rr c) b (fun q => sl c i a q)) by lia. apply Hid. lia.
Qed.

(* the returned tensor: first core = the sampled fibres (cross.py:453-455), then the skeleton cores.
   fv i k = value of the function on the first-mode fibre through the k-th tuple of rsets[0], at first index i *)
Theorem interpolation (c0 : score) (cs : list score) (Rs : list rows) (fv : nat -> nat -> K) :
  rl c0 = 1%nat -> rr c0 = length (hd [] Rs) -> skeleton cs Rs ->
  (forall i b, (b < rr c0)%nat -> sl c0 i 0%nat b = fv i b) ->
  forall i k, (k < length (hd [] Rs))%nat -> eval (c0 :: cs) (i :: nth k (hd [] Rs) []) = fv i k.
Proof.
  intros H1 Hr Hs Hf i k Hk. unfold eval. rewrite H1. cbn [sumn]. cbn [evalv].
  rewrite (sumn_ext (rr c0) _ (fun q => sl c0 i 0%nat q * delta q k)).
  2:{ intros q Hq. f_equal. apply (skeleton_unit cs Rs Hs k q); lia. }
  rewrite (sumn_delta_r Kth (rr c0) k (fun q => sl c0 i 0%nat q)) by lia. rewrite Hf by lia. ring.
Qed.

(* one step of the right-to-left sweep extends a skeleton: new core from maxvol's rows, new index set by rupdate *)
Lemma skeleton_step (cs : list score) (R' : rows) (Rs' : list rows) (Ij : nat) (Qm Binv : nat -> nat -> K)
      (loc : list nat) :
  skeleton cs (R' :: Rs') -> length R' <> 0%nat ->
  (forall x, In x loc -> (x < Ij * length R')%nat) ->
  (forall k a, (k < length loc)%nat -> (a < length loc)%nat ->
      mmulK (length loc) (fun k t => Qm (nth k loc 0%nat) t) Binv k a = delta k a) ->
  skeleton (core_of (length loc) Ij (length R') (mmulK (length loc) Qm Binv) :: cs)
           (rupdate (length R') R' loc :: R' :: Rs').
Proof.
  intros Hs Hne Hrange Hinv. cbn [skeleton]. unfold rupdate at 1 2. rewrite map_length.
  split; [reflexivity|]. split; [reflexivity|]. split; [|exact Hs].
  intros k Hk. exists (nth k loc 0%nat / length R')%nat, (nth k loc 0%nat mod length R')%nat.
  split.
  - unfold rupdate. rewrite (nth_map_lt _ loc k 0%nat []) by exact Hk. reflexivity.
  - split. { apply Nat.mod_upper_bound. exact Hne. }
    intros a Ha. cbn [core_of rl] in Ha.
    apply (core_identity_pattern (length loc) Ij (length R') Qm Binv (fun k => nth k loc 0%nat)); auto.
Qed.

(* every state the right-to-left sweep can reach (any number of modes, any maxvol answer in range, any coefficient
   matrices whose picked rows are invertible) is a skeleton *)
Inductive sweep_reach : list score -> list rows -> Prop :=
| sw_base R : length R = 1%nat -> sweep_reach [] [R]
| sw_step cs R' Rs' Ij Qm Binv loc :
    sweep_reach cs (R' :: Rs') -> length R' <> 0%nat ->
    (forall x, In x loc -> (x < Ij * length R')%nat) ->
    (forall k a, (k < length loc)%nat -> (a < length loc)%nat ->
        mmulK (length loc) (fun k t => Qm (nth k loc 0%nat) t) Binv k a = delta k a) ->
    sweep_reach (core_of (length loc) Ij (length R') (mmulK (length loc) Qm Binv) :: cs)
                (rupdate (length R') R' loc :: R' :: Rs').

Theorem sweep_reach_skeleton cs Rs : sweep_reach cs Rs -> skeleton cs Rs.
Proof.
  induction 1 as [R H|cs R' Rs' Ij Qm Binv loc _ IH Hne Hr Hi].
  - exact H.
  - apply skeleton_step; assumption.
Qed.

Theorem cross_interpolates (c0 : score) cs Rs (fv : nat -> nat -> K) :
  sweep_reach cs Rs -> rl c0 = 1%nat -> rr c0 = length (hd [] Rs) ->
  (forall i b, (b < rr c0)%nat -> sl c0 i 0%nat b = fv i b) ->
  forall i k, (k < length (hd [] Rs))%nat -> eval (c0 :: cs) (i :: nth k (hd [] Rs) []) = fv i k.
Proof. intros H. intros. apply interpolation; auto. apply sweep_reach_skeleton. exact H. Qed.

End Interp.

(* non-vacuity: a 3-mode instance over Z (two sweep steps, ranks 2 and 2) *)
Example sweep_reach_instance :
  let Q2 := fun (i t : nat) => nth t (nth i [[1;0];[0;1];[2;3]]%Z []) 0%Z in
  let Q1 := fun (i t : nat) => nth t (nth i [[1;1];[5;7];[0;1];[4;4]]%Z []) 0%Z in
  let B1 := fun (i t : nat) => nth t (nth i [[1;(-1)];[0;1]]%Z []) 0%Z in
  let Id := fun (i t : nat) => if Nat.eqb i t then 1%Z else 0%Z in
  sweep_reach ZO
    [core_of ZO 2 2 2 (mmulK ZO 2 Q1 B1); core_of ZO 2 3 1 (mmulK ZO 2 Q2 Id)]
    [rupdate 2 (rupdate 1 [[0]] [0;1]) [0;2]; rupdate 1 [[0]] [0;1]; [[0]]].
Proof.
  cbv zeta.
  apply (sw_step ZO [core_of ZO 2 3 1 _] (rupdate 1 [[0]] [0;1]) [[[0]]] 2 _ _ [0;2]).
  - apply (sw_step ZO [] [[0]] [] 3 _ _ [0;1]).
    + apply sw_base. reflexivity.
    + discriminate.
    + cbn [In length]. intros x [E|[E|[]]]; subst; lia.
    + intros k a Hk Ha. cbn [length] in Hk, Ha.
      destruct k as [|[|k]]; try lia; destruct a as [|[|a]]; try lia; reflexivity.
  - discriminate.
  - cbn [In length rupdate map]. intros x [E|[E|[]]]; subst; lia.
  - intros k a Hk Ha. cbn [length] in Hk, Ha.
    destruct k as [|[|k]]; try lia; destruct a as [|[|a]]; try lia; reflexivity.
Qed.

(* ================================================================== Part 2 *)
Definition in_grid (Is p : list nat) : Prop := Forall2 lt p Is.
(* rows of lsets[j]: a dummy entry followed by indices of modes 0..j-1; rows of rsets[j]: indices of modes j+1..N-1
   followed by a dummy entry *)
Definition lrow_ok (Is : list nat) (j : nat) (l : list nat) : Prop :=
  exists d l', l = d :: l' /\ Forall2 lt l' (firstn j Is).
Definition rrow_ok (Is : list nat) (j : nat) (r : list nat) : Prop :=
  exists r' d, r = r' ++ [d] /\ Forall2 lt r' (skipn (S j) Is).

Lemma in_grid_in_range Is : forall p, in_grid Is p <-> in_range Is p = true.
Proof.
  unfold in_grid. induction Is as [|d Is IH]; intros p; split; intros H.
  - inversion H. reflexivity.
  - destruct p; [constructor|discriminate].
  - inversion H as [|i ? p' ? Hi Hp]; subst. cbn [in_range]. apply andb_true_iff. split.
    + apply Nat.ltb_lt. exact Hi.
    + apply IH. exact Hp.
  - destruct p as [|i p]; [discriminate|]. cbn [in_range] in H. apply andb_true_iff in H. destruct H as [Hi Hp].
    constructor. { apply Nat.ltb_lt. exact Hi. } apply IH. exact Hp.
Qed.

Lemma skipn_nth_cons {A} (d : A) : forall (l : list A) j, j < length l -> skipn j l = nth j l d :: skipn (S j) l.
Proof. induction l as [|x l IH]; intros j H; cbn [length] in H; [lia|]. destruct j; [reflexivity|].
  cbn [skipn nth]. apply IH. lia. Qed.

Lemma firstn_S_snoc {A} (d : A) : forall (l : list A) j, j < length l -> firstn (S j) l = firstn j l ++ [nth j l d].
Proof. induction l as [|x l IH]; intros j H; cbn [length] in H; [lia|]. destruct j; [reflexivity|].
  change (firstn (S (S j)) (x :: l)) with (x :: firstn (S j) l). rewrite (IH j) by lia. reflexivity. Qed.

Lemma Forall2_skipn {A B} (P : A -> B -> Prop) : forall n l1 l2, Forall2 P l1 l2 -> Forall2 P (skipn n l1) (skipn n l2).
Proof. induction n; intros l1 l2 H; [exact H|]. destruct H; cbn [skipn]; [constructor|]. apply IHn. exact H0. Qed.

Lemma In_firstn {A} (x : A) : forall n l, In x (firstn n l) -> In x l.
Proof. induction n; intros l H; [destruct H|]. destruct l; [destruct H|]. cbn [firstn] in H.
  destruct H as [<-|H]; [left; reflexivity|right; apply IHn; exact H]. Qed.

Lemma Forall2_length' {A B} (P : A -> B -> Prop) l1 l2 : Forall2 P l1 l2 -> length l1 = length l2.
Proof. induction 1; cbn; congruence. Qed.

(* (a) the index arithmetic of evaluate_function produces grid points *)
Theorem point_in_grid Is j l i r : j < length Is ->
  lrow_ok Is j l -> i < nth j Is 0 -> rrow_ok Is j r -> in_grid Is (point l i r).
Proof.
  intros Hj (d & l' & El & Hl) Hi (r' & d2 & Er & Hr). subst. unfold point, in_grid. cbn [tl].
  rewrite removelast_last. rewrite <- (firstn_skipn j Is) at 1. apply Forall2_app; [exact Hl|].
  rewrite (skipn_nth_cons 0 Is j Hj). constructor; assumption.
Qed.

Theorem points_in_grid Is j L R p : j < length Is ->
  (forall l, In l L -> lrow_ok Is j l) -> (forall r, In r R -> rrow_ok Is j r) ->
  In p (points L (nth j Is 0) R) -> in_grid Is p.
Proof.
  intros Hj HL HR Hp. unfold points in Hp. apply in_flat_map in Hp. destruct Hp as (l & Hl & Hp).
  apply in_flat_map in Hp. destruct Hp as (i & Hi & Hp). apply in_map_iff in Hp. destruct Hp as (r & E & Hr).
  subst p. apply in_seq in Hi. apply (point_in_grid Is j); auto. lia.
Qed.

(* (b) nestedness, for every answer of maxvol whose row numbers are in range *)
Theorem lupdate_nested Ij L loc l : (forall x, In x loc -> x < length L * Ij) ->
  In l (lupdate Ij L loc) -> exists l0 i, In l0 L /\ i < Ij /\ l = l0 ++ [i].
Proof.
  intros Hr Hl. unfold lupdate in Hl. apply in_map_iff in Hl. destruct Hl as (x & E & Hx).
  assert (Hx' := Hr x Hx). assert (Ij <> 0) by (intros ->; lia).
  exists (nth (x / Ij) L []), (x mod Ij). split; [|split].
  - apply nth_In. apply Nat.div_lt_upper_bound; [assumption|]. rewrite Nat.mul_comm. exact Hx'.
  - apply Nat.mod_upper_bound. assumption.
  - symmetry. exact E.
Qed.

Theorem rupdate_nested Ij R loc r : (forall x, In x loc -> x < Ij * length R) ->
  In r (rupdate (length R) R loc) -> exists r0 i, In r0 R /\ i < Ij /\ r = i :: r0.
Proof.
  intros Hr Hl. unfold rupdate in Hl. apply in_map_iff in Hl. destruct Hl as (x & E & Hx).
  assert (Hx' := Hr x Hx). assert (length R <> 0) by (intros E0; rewrite E0 in Hx'; lia).
  exists (nth (x mod length R) R []), (x / length R). split; [|split].
  - apply nth_In. apply Nat.mod_upper_bound. assumption.
  - apply Nat.div_lt_upper_bound; [assumption|]. rewrite Nat.mul_comm. exact Hx'.
  - symmetry. exact E.
Qed.

Theorem lupdate_ok Is j L loc : j < length Is ->
  (forall l, In l L -> lrow_ok Is j l) -> (forall x, In x loc -> x < length L * nth j Is 0) ->
  forall l, In l (lupdate (nth j Is 0) L loc) -> lrow_ok Is (S j) l.
Proof.
  intros Hj HL Hr l Hl. destruct (lupdate_nested _ _ _ _ Hr Hl) as (l0 & i & Hl0 & Hi & E). subst l.
  destruct (HL l0 Hl0) as (d & l' & E & Hf). subst l0. exists d, (l' ++ [i]). split; [reflexivity|].
  rewrite (firstn_S_snoc 0 Is j Hj). apply Forall2_app; [exact Hf|]. constructor; [exact Hi|constructor].
Qed.

Theorem rupdate_ok Is j R loc : 1 <= j -> j < length Is ->
  (forall r, In r R -> rrow_ok Is j r) -> (forall x, In x loc -> x < nth j Is 0 * length R) ->
  forall r, In r (rupdate (length R) R loc) -> rrow_ok Is (j - 1) r.
Proof.
  intros H1 Hj HR Hr r Hin. destruct (rupdate_nested _ _ _ _ Hr Hin) as (r0 & i & Hr0 & Hi & E). subst r.
  destruct (HR r0 Hr0) as (r' & d & E & Hf). subst r0. exists (i :: r'), d. split; [reflexivity|].
  replace (S (j - 1)) with j by lia. rewrite (skipn_nth_cons 0 Is j Hj). constructor; assumption.
Qed.

(* initial and appended right index tuples: rows of random integers, column n drawn below Is[n+1], last column 0 *)
Lemma skipn_rrow_ok Is n row : rrow_ok Is 0 row -> S n <= length Is -> rrow_ok Is n (skipn n row).
Proof.
  intros (r' & d & E & Hf) Hn. subst row. exists (skipn n r'), d.
  assert (Hlen : length r' = length Is - 1).
  { rewrite (Forall2_length' _ _ _ Hf). rewrite skipn_length. reflexivity. }
  split.
  - rewrite skipn_app. replace (n - length r') with 0 by lia. reflexivity.
  - replace (skipn (S n) Is) with (skipn n (skipn 1 Is)).
    + apply Forall2_skipn. exact Hf.
    + clear. destruct Is as [|x l]; [rewrite !skipn_nil; reflexivity|reflexivity].
Qed.

(* ---------- the invariant of the whole replayed run ---------- *)
Definition sets_ok (Is : list nat) (ls rs : list rows) : Prop :=
  (forall j l, In l (nth j ls []) -> lrow_ok Is j l) /\ (forall j r, In r (nth j rs []) -> rrow_ok Is j r).
Definition inv (Is : list nat) (s : xst) : Prop :=
  x_ok s = true ->
  sets_ok Is (x_ls s) (x_rs s) /\ (forall p, In p (x_evals s) -> in_grid Is p) /\
  (forall p, x_argmin s = Some p -> in_grid Is p).

Lemma nth_upd_eq {A} (d : A) : forall k (l : list A) x, k < length l -> nth k (upd k l x) d = x.
Proof. induction k; destruct l; cbn [length upd nth]; intros; try lia; auto. apply IHk. lia. Qed.
Lemma nth_upd_neq {A} (d : A) : forall k (l : list A) x j, j <> k -> nth j (upd k l x) d = nth j l d.
Proof. induction k; destruct l; cbn [upd nth]; intros; auto; destruct j; try lia; auto; cbn [nth]; apply IHk; lia. Qed.
Lemma nth_upd_cases {A} (d : A) k (l : list A) x j :
  nth j (upd k l x) d = nth j l d \/ (j = k /\ nth j (upd k l x) d = x).
Proof.
  destruct (Nat.eq_dec j k) as [->|Hn]; [|left; apply nth_upd_neq; exact Hn].
  destruct (Nat.lt_ge_cases k (length l)) as [Hl|Hl]; [right; split; auto; apply nth_upd_eq; exact Hl|].
  left. revert l Hl. induction k; destruct l; cbn [length upd nth]; intros; auto; try lia. apply IHk. lia.
Qed.

Section RunInv.
Variable ts : list (list (cdata QO)).
Variable Is : list nat.
Variable ftab : list Q.
Notation N := (length Is).

Lemma evaluate_fields j sp s :
  let s' := fst (evaluate ts Is ftab j sp s) in
  x_Rs s' = x_Rs s /\ x_ls s' = x_ls s /\ x_rs s' = x_rs s /\ x_li s' = x_li s /\ x_ri s' = x_ri s /\
  x_cores s' = x_cores s /\
  x_evals s' = rev (points (nth j (x_ls s) []) (nth j Is 0) (nth j (x_rs s) [])) ++ x_evals s /\
  (x_ok s' = true -> x_ok s = true /\ length (nth j (x_ls s) []) = nth j (x_Rs s) 0 /\
                     length (nth j (x_rs s) []) = nth (S j) (x_Rs s) 0) /\
  (forall p, x_argmin s' = Some p -> x_ok s' = true ->
      x_argmin s = Some p \/ In p (points (nth j (x_ls s) []) (nth j Is 0) (nth j (x_rs s) []))).
Proof.
  unfold evaluate. cbv zeta. cbn [fst x_Rs x_ls x_rs x_li x_ri x_cores x_evals x_ok x_argmin].
  repeat (split; [reflexivity|]). split.
  - intros H. apply andb_true_iff in H. destruct H as [H _]. apply andb_true_iff in H. destruct H as [H H1].
    apply andb_true_iff in H1. destruct H1 as [H1 _]. apply andb_true_iff in H1. destruct H1 as [H1 _].
    apply andb_true_iff in H1. destruct H1 as [Ha Hb].
    split; [exact H|]. split; apply Nat.eqb_eq; assumption.
  - intros p Hp Hok. destruct (st_upd sp) as [k|]; [|left; exact Hp].
    apply andb_true_iff in Hok. destruct Hok as [_ Hk]. rewrite Hk in Hp. inversion Hp. right.
    apply nth_In. apply Nat.ltb_lt. exact Hk.
Qed.

Lemma evaluate_inv j sp s : j < N -> inv Is s -> inv Is (fst (evaluate ts Is ftab j sp s)).
Proof.
  intros Hj Hinv. destruct (evaluate_fields j sp s) as (ERs & Els & Ers & _ & _ & _ & Eev & Hok & Ham).
  intros Hok'. destruct (Hok Hok') as (Hs & _ & _). destruct (Hinv Hs) as ((HL & HR) & Hev & Hmin).
  assert (Hpts : forall p, In p (points (nth j (x_ls s) []) (nth j Is 0) (nth j (x_rs s) [])) -> in_grid Is p).
  { intros p Hp. apply (points_in_grid Is j _ _ p Hj (HL j) (HR j) Hp). }
  rewrite Els, Ers, Eev. split; [split; assumption|]. split.
  - intros p Hp. apply in_app_or in Hp. destruct Hp as [Hp|Hp]; [|apply Hev; exact Hp].
    apply Hpts. apply in_rev. exact Hp.
  - intros p Hp. destruct (Ham p Hp Hok') as [H|H]; [apply Hmin; exact H|apply Hpts; exact H].
Qed.

Lemma forallb_ltb n l : in_rangeb n l = true -> forall x, In x l -> x < n.
Proof. unfold in_rangeb. intros H x Hx. rewrite forallb_forall in H. apply Nat.ltb_lt. apply H. exact Hx. Qed.

Lemma left_step_inv j sp s : S j < N -> inv Is s -> inv Is (left_step ts Is ftab j sp s).
Proof.
  intros Hj Hinv. assert (Hj0 : j < N) by lia.
  pose proof (evaluate_inv j sp s Hj0 Hinv) as Hinv'.
  destruct (evaluate_fields j sp s) as (ERs & Els & Ers & _ & _ & _ & _ & Hok & _).
  unfold left_step. destruct (evaluate ts Is ftab j sp s) as [s' vals]. cbn [fst] in *.
  intros Hok'. cbn [x_ok x_ls x_rs x_evals x_argmin] in *.
  apply andb_true_iff in Hok'. destruct Hok' as [Hs' Hloc]. apply andb_true_iff in Hloc. destruct Hloc as [_ Hloc].
  destruct (Hinv' Hs') as ((HL & HR) & Hev & Hmin). destruct (Hok Hs') as (_ & HlenL & _).
  split; [|split; assumption]. split; [|exact HR].
  intros j' l Hl. destruct (@nth_upd_cases rows [] (S j) (x_ls s') (lupdate (nth j Is 0) (nth j (x_ls s') []) (st_local sp)) j')
    as [E|[-> E]]; rewrite E in Hl; [apply HL; exact Hl|].
  apply (lupdate_ok Is j (nth j (x_ls s') []) (st_local sp) Hj0 (HL j)); [|exact Hl].
  intros x Hx. rewrite Els, HlenL, <- ERs. apply (forallb_ltb _ _ Hloc x Hx).
Qed.

Lemma right_step_inv j sp s : 1 <= j -> j < N -> inv Is s -> inv Is (right_step ts Is ftab j sp s).
Proof.
  intros H1 Hj Hinv.
  pose proof (evaluate_inv j sp s Hj Hinv) as Hinv'.
  destruct (evaluate_fields j sp s) as (ERs & Els & Ers & _ & _ & _ & _ & Hok & _).
  unfold right_step. destruct (evaluate ts Is ftab j sp s) as [s' vals]. cbn [fst] in *.
  destruct (match st_Q sp with [] => _ | _ :: _ => _ end) as [cores okc].
  intros Hok'. cbn [x_ok x_ls x_rs x_evals x_argmin] in *.
  apply andb_true_iff in Hok'. destruct Hok' as [Hok' _].
  apply andb_true_iff in Hok'. destruct Hok' as [Hs' Hloc]. apply andb_true_iff in Hloc. destruct Hloc as [_ Hloc].
  destruct (Hinv' Hs') as ((HL & HR) & Hev & Hmin). destruct (Hok Hs') as (_ & _ & HlenR).
  split; [|split; assumption]. split; [exact HL|].
  intros j' r Hr.
  destruct (@nth_upd_cases rows [] (j - 1) (x_rs s') (rupdate (nth (S j) (x_Rs s') 0) (nth j (x_rs s') []) (st_local sp)) j')
    as [E|[-> E]]; rewrite E in Hr; [apply HR; exact Hr|].
  rewrite ERs, <- HlenR, <- Ers in Hr.
  apply (rupdate_ok Is j (nth j (x_rs s') []) (st_local sp) H1 Hj (HR j)); [|exact Hr].
  intros x Hx. rewrite Ers, HlenR, <- ERs. apply (forallb_ltb _ _ Hloc x Hx).
Qed.

Lemma close_step_inv sp s : 0 < N -> inv Is s -> inv Is (close_step ts Is ftab sp s).
Proof.
  intros H0 Hinv. pose proof (evaluate_inv 0 sp s H0 Hinv) as Hinv'.
  unfold close_step. destruct (evaluate ts Is ftab 0 sp s) as [s' vals]. cbn [fst] in *. exact Hinv'.
Qed.

Definition sched_ok (kj : nat * nat) : Prop :=
  match fst kj with 0 => S (snd kj) < N | 1 => 1 <= snd kj /\ snd kj < N | _ => 0 < N end.

Lemma run_steps_inv : forall js sps s, Forall sched_ok js -> inv Is s -> inv Is (run_steps ts Is ftab js sps s).
Proof.
  induction js as [|[k j] js IH]; intros sps s Hs Hinv.
  - destruct sps; cbn [run_steps]; [exact Hinv|]. intros H; discriminate H.
  - destruct sps as [|sp sps]; cbn [run_steps]; [intros H; discriminate H|].
    inversion Hs as [|? ? Hkj Hrest]; subst. apply IH; [exact Hrest|].
    unfold sched_ok in Hkj. cbn [fst snd] in Hkj. destruct k as [|[|k]].
    + apply left_step_inv; assumption.
    + apply right_step_inv; tauto.
    + apply close_step_inv; assumption.
Qed.

Lemma schedule_ok : 0 < N -> Forall sched_ok (schedule Is).
Proof.
  intros H0. unfold schedule. apply Forall_app. split; [|apply Forall_app; split].
  - apply Forall_forall. intros kj H. apply in_map_iff in H. destruct H as (j & <- & Hj). apply in_seq in Hj.
    unfold sched_ok. cbn [fst snd]. lia.
  - apply Forall_forall. intros kj H. apply in_map_iff in H. destruct H as (j & <- & Hj). apply in_rev in Hj.
    apply in_seq in Hj. unfold sched_ok. cbn [fst snd]. lia.
  - constructor; [|constructor]. unfold sched_ok. cbn [fst]. exact H0.
Qed.

Lemma nth_map_seq_in {A} (f : nat -> A) (d : A) n j : j < n -> nth j (map f (seq 0 n)) d = f j.
Proof. intros H. rewrite (nth_map_lt f (seq 0 n) j 0 d) by (rewrite seq_length; exact H). rewrite seq_nth by exact H. reflexivity. Qed.

Lemma do_kick_inv kick rmax extra s : (forall row, In row extra -> rrow_ok Is 0 row) ->
  inv Is s -> inv Is (do_kick ts Is kick rmax extra s).
Proof.
  intros Hex Hinv. destruct kick as [k|]; cbn [do_kick]; [|exact Hinv].
  intros Hok. cbn [x_ok x_ls x_rs x_evals x_argmin] in *. destruct (Hinv Hok) as ((HL & HR) & Hev & Hmin).
  split; [|split; assumption]. split; [exact HL|].
  intros j r Hr. unfold kick_rsets in Hr.
  destruct (Nat.lt_ge_cases j N) as [Hj|Hj].
  2:{ rewrite nth_overflow in Hr by (rewrite map_length, seq_length; exact Hj). destruct Hr. }
  rewrite (@nth_map_seq_in rows _ [] N j Hj) in Hr.
  destruct ((j <? N - 1) && _) eqn:Eb; [|apply HR; exact Hr].
  apply in_app_or in Hr. destruct Hr as [Hr|Hr]; [apply HR; exact Hr|].
  apply in_map_iff in Hr. destruct Hr as (row & <- & Hrow).
  apply skipn_rrow_ok; [|lia]. apply Hex. eapply In_firstn; eauto.
Qed.

Lemma init_state_inv ranks randint : (forall row, In row randint -> rrow_ok Is 0 row) ->
  inv Is (init_state ts Is ranks randint).
Proof.
  intros Hrand _. unfold init_state. cbv zeta. cbn [x_ls x_rs x_evals x_argmin].
  split; [split|split].
  - intros j l Hl. unfold init_lsets in Hl. destruct j as [|j]; cbn [nth] in Hl.
    + destruct Hl as [<-|[]]. exists 0, []. split; [reflexivity|]. cbn [firstn]. constructor.
    + exfalso. revert j Hl. generalize (N - 1). induction n; intros j Hl; cbn [repeat nth] in Hl.
      * destruct j; destruct Hl.
      * destruct j; [destruct Hl|]. eapply IHn; eauto.
  - intros j r Hr. unfold init_rsets in Hr.
    destruct (Nat.lt_ge_cases j (N - 1)) as [Hj|Hj].
    + rewrite app_nth1 in Hr by (rewrite map_length, seq_length; exact Hj).
      rewrite (@nth_map_seq_in rows _ [] (N - 1) j Hj) in Hr.
      apply in_map_iff in Hr. destruct Hr as (row & <- & Hrow).
      apply skipn_rrow_ok; [|lia]. apply Hrand. eapply In_firstn; eauto.
    + rewrite app_nth2 in Hr by (rewrite map_length, seq_length; exact Hj).
      rewrite map_length, seq_length in Hr.
      destruct (j - (N - 1)) as [|[|m]] eqn:E; cbn [nth] in Hr; try destruct Hr as [<-|[]]; try destruct Hr.
      exists [], 0. split; [reflexivity|]. rewrite skipn_all2 by lia. constructor.
  - intros p [].
  - intros p H. discriminate H.
Qed.

Lemma run_iters_inv kick rmax : forall its first s, 0 < N ->
  (forall it row, In it its -> In row (it_extra it) -> rrow_ok Is 0 row) ->
  inv Is s -> inv Is (run_iters ts Is ftab first kick rmax its s).
Proof.
  induction its as [|it its IH]; intros first s H0 Hex Hinv; cbn [run_iters]; [exact Hinv|].
  apply IH; [exact H0|intros; eapply Hex; eauto; right; assumption|].
  apply run_steps_inv; [apply schedule_ok; exact H0|].
  destruct first; [exact Hinv|]. apply do_kick_inv; [|exact Hinv].
  intros row Hrow. apply (Hex it row); [left; reflexivity|exact Hrow].
Qed.

(* every point the replayed run asks the function for, and the reported argmin, are points of the grid, and the
   index sets stay within the grid -- whatever rows maxvol returns, whatever the random integers (in range) are *)
Theorem run_in_grid ranks kick rmax randint its : 0 < N ->
  (forall row, In row randint -> rrow_ok Is 0 row) ->
  (forall it row, In it its -> In row (it_extra it) -> rrow_ok Is 0 row) ->
  let s := cross_run ts Is ftab ranks kick rmax randint its in
  x_ok s = true ->
  (forall p, In p (x_evals s) -> in_range Is p = true) /\
  (forall p, x_argmin s = Some p -> in_range Is p = true) /\
  sets_ok Is (x_ls s) (x_rs s).
Proof.
  intros H0 Hrand Hex s Hok.
  assert (Hinv : inv Is s).
  { unfold s, cross_run. apply run_iters_inv; [exact H0|exact Hex|]. apply init_state_inv. exact Hrand. }
  destruct (Hinv Hok) as (Hsets & Hev & Hmin).
  split; [|split; [|exact Hsets]]; intros p Hp; apply in_grid_in_range; auto.
Qed.
End RunInv.

(* ---------- (d) the reported argmin is a point the function was evaluated at; attained values bound the minimum ---------- *)
Section ArgminInv.
Variable ts : list (list (cdata QO)).
Variable Is : list nat.
Variable ftab : list Q.
Definition amin_inv (s : xst) : Prop := forall p, x_argmin s = Some p -> In p (x_evals s).

Lemma evaluate_amin j sp s : amin_inv s -> amin_inv (fst (evaluate ts Is ftab j sp s)).
Proof.
  intros H p. unfold evaluate. cbv zeta. cbn [fst x_argmin x_evals]. intros Hp. apply in_or_app.
  destruct (st_upd sp) as [k|]; [|right; apply H; exact Hp].
  destruct (k <? _) eqn:E; [|discriminate Hp]. inversion Hp. left. apply in_rev. rewrite rev_involutive.
  apply nth_In. apply Nat.ltb_lt. exact E.
Qed.

Lemma run_steps_amin : forall js sps s, amin_inv s -> amin_inv (run_steps ts Is ftab js sps s).
Proof.
  induction js as [|[k j] js IH]; intros sps s H.
  - destruct sps; cbn [run_steps]; exact H.
  - destruct sps as [|sp sps]; cbn [run_steps]; [exact H|]. apply IH.
    pose proof (evaluate_amin j sp s H) as H1. pose proof (evaluate_amin 0 sp s H) as H0.
    destruct k as [|[|k]].
    + unfold left_step. destruct (evaluate ts Is ftab j sp s). exact H1.
    + unfold right_step. destruct (evaluate ts Is ftab j sp s).
      destruct (match st_Q sp with [] => _ | _ :: _ => _ end). exact H1.
    + unfold close_step. destruct (evaluate ts Is ftab 0 sp s). exact H0.
Qed.

Lemma run_iters_amin kick rmax : forall its first s, amin_inv s -> amin_inv (run_iters ts Is ftab first kick rmax its s).
Proof.
  induction its as [|it its IH]; intros first s H; cbn [run_iters]; [exact H|].
  apply IH. apply run_steps_amin. destruct first; [exact H|]. destruct kick; exact H.
Qed.

Theorem argmin_evaluated ranks kick rmax randint its p :
  x_argmin (cross_run ts Is ftab ranks kick rmax randint its) = Some p ->
  In p (x_evals (cross_run ts Is ftab ranks kick rmax randint its)).
Proof. apply run_iters_amin. intros q H. discriminate H. Qed.
End ArgminInv.

Lemma minq_le (l : list Q) (x : Q) : In x l -> (minq l <= x)%Q.
Proof.
  destruct l as [|a t]; [intros []|]. cbn [minq].
  assert (G : forall t a, (fold_right (fun y acc => if Qle_bool y acc then y else acc) a t <= a)%Q /\
                          forall x, In x t -> (fold_right (fun y acc => if Qle_bool y acc then y else acc) a t <= x)%Q).
  { clear. induction t as [|y t IH]; intros a; cbn [fold_right].
    - split; [apply Qle_refl|intros x []].
    - destruct (IH a) as [Ha Ht]. destruct (Qle_bool y _) eqn:E.
      + apply Qle_bool_iff in E. split; [eapply Qle_trans; eauto|].
        intros x [<-|Hx]; [apply Qle_refl|]. eapply Qle_trans; [exact E|]. apply Ht. exact Hx.
      + assert (E' : (fold_right (fun y acc => if Qle_bool y acc then y else acc) a t <= y)%Q).
        { apply Qnot_lt_le. intros Hlt. apply Qlt_le_weak in Hlt. apply Qle_bool_iff in Hlt. congruence. }
        split; [exact Ha|]. intros x [<-|Hx]; [exact E'|apply Ht; exact Hx]. }
  intros [<-|Hx]; [apply (proj1 (G t a))|apply (proj2 (G t a)); exact Hx].
Qed.

(* ---------- non-vacuity: a recorded run (4 x 2 grid, adaptive ranks, two iterations) satisfies every hypothesis ---------- *)
Local Open Scope Q_scope.
Definition ex_ts : list (list (cdata QO)) :=
  [[@lit_tt QO 1 4 1 [0;1#2;1;3#2]; @lit_tt QO 1 2 1 [1;1]]; [@lit_tt QO 1 4 1 [1;1;1;1]; @lit_tt QO 1 2 1 [0;1#2]]].
Definition ex_ftab : list Q := [0;1#4;1#4;1#2;1;5#4;9#4;5#2].
Definition ex_iters : list xiter :=
  [mkIter [] [mkStep [[0;1#2;1;3#2];[1#2;1#2;1#2;1#2]] None [3%nat] [];
              mkStep [[3#2;3#2];[0;1#2]] None [1%nat] [];
              mkStep [[0;1#2;1;3#2];[1#2;1#2;1#2;1#2]] None [] []];
   mkIter [[0;0]%nat;[0;0]%nat]
             [mkStep [[0;0;1#2;1#2;1;1;3#2;3#2];[1#2;0;1#2;0;1#2;0;1#2;0]] None [3;0]%nat [];
              mkStep [[3#2;3#2;0;0];[0;1#2;0;1#2]] None [0;1]%nat
                     [[-735534500991#1099511627776;-817260556657#1099511627776];
                      [-817260556657#1099511627776;735534500991#1099511627776]];
              mkStep [[0;0;1#2;1#2;1;1;3#2;3#2];[0;1#2;0;1#2;0;1#2;0;1#2]] None [] []]].
Example run_in_grid_instance :
  let s := cross_run ex_ts [4;2]%nat ex_ftab [1;1;1]%nat (Some 1%nat) 3%nat [[1;0]%nat] ex_iters in
  x_ok s = true /\ (forall row, In row [[1;0]%nat] -> rrow_ok [4;2]%nat 0 row) /\
  (forall it row, In it ex_iters -> In row (it_extra it) -> rrow_ok [4;2]%nat 0 row) /\
  x_rs s = [[[0;0];[1;0]];[[0]]]%nat /\ length (x_evals s) = 30%nat.
Proof.
  cbv zeta. split; [vm_compute; reflexivity|]. split; [|split; [|split; vm_compute; reflexivity]].
  - intros row [<-|[]]. exists [1%nat], 0%nat. split; [reflexivity|]. repeat constructor.
  - intros it row [<-|[<-|[]]]; cbn [it_extra In]; [intros []|].
    intros [<-|[<-|[]]]; exists [0%nat], 0%nat; (split; [reflexivity|repeat constructor]).
Qed.
(* ================================================================== Part 3 *)
Section Interfaces.
Variable K : Ops.
Hypothesis Kth : laws K.
Add Ring Kring3 : Kth.
Local Open Scope K_scope.

Definition score_of (c : cdata K) : score K := mkScore (c_rl c) (c_rr c) (c_sz c) (c_sl c).

Lemma vnth_repeat (n p : nat) : (p < n)%nat -> vnth (repeat (r1 K) n) p = 1.
Proof. unfold vnth. revert p. induction n; intros p H; [lia|]. destruct p; cbn [repeat nth]; [reflexivity|]. apply IHn. lia. Qed.

Lemma vnth_matvec (c : cdata K) i v p : (p < c_rl c)%nat ->
  vnth (c_matvec c i v) p = sumn (c_rr c) (fun q => c_sl c i p q * vnth v q).
Proof. intros H. unfold vnth at 1, c_matvec. rewrite (nth_map_seq _ 0 (c_rl c) 0%nat p H). reflexivity. Qed.

(* a column of a right interface matrix is the product of the remaining cores along the index tuple, applied to
   the all-ones vector: exactly the vector Tensor.torch() contracts with *)
Theorem rvec_evalv (cs : list (cdata K)) : forall r idx p, chain r (map score_of cs) = true ->
  (length cs <= length idx)%nat -> (p < r)%nat ->
  vnth (rvec cs idx (last_rr r (map score_of cs))) p = evalv (map score_of cs) idx ones p.
Proof.
  induction cs as [|c cs IH]; intros r idx p Hc Hl Hp.
  - cbn [map rvec evalv]. unfold last_rr. cbn [fold_left].
    destruct idx; apply vnth_repeat; exact Hp.
  - destruct idx as [|i idx]; [cbn [length] in Hl; lia|].
    cbn [map chain] in Hc. apply andb_true_iff in Hc. destruct Hc as [Er Hc]. apply Nat.eqb_eq in Er.
    cbn [score_of rl] in Er.
    change (last_rr r (map score_of (c :: cs))) with (last_rr (c_rr c) (map score_of cs)).
    cbn [rvec map evalv]. rewrite vnth_matvec by lia. cbn [score_of rr sl].
    apply sumn_ext. intros q Hq. f_equal. apply IH; [exact Hc|cbn [length] in Hl; lia|exact Hq].
Qed.

(* the incremental update of a right interface (cross.py:441-451) equals init_interfaces on the updated index set:
   the interface matrices stay consistent with the pivots *)
Theorem rint_update_consistent (c : cdata K) (post : list (cdata K)) (rN : nat) (R : rows) (loc : list nat) :
  (forall x, In x loc -> (x mod length R < length R)%nat) ->
  rint_update c (length R) (map (fun row => rvec post row rN) R) loc =
  map (fun row => rvec (c :: post) row rN) (rupdate (length R) R loc).
Proof.
  intros Hr. unfold rint_update, rupdate. rewrite map_map. apply map_ext_in. intros x Hx.
  cbn [rvec]. f_equal.
  rewrite (nth_indep _ [] ((fun row => rvec post row rN) [])) by (rewrite map_length; apply Hr; exact Hx).
  apply (map_nth (fun row => rvec post row rN)).
Qed.

(* ---- left interfaces ---- *)
Definition lvec (cs : list (cdata K)) (idx : list nat) (r0 : nat) : list K :=
  fold_left (fun u ci => c_vecmat u (fst ci) (snd ci)) (combine cs idx) (repeat 1 r0).

Lemma combine_app' {A B} : forall (l1 l1' : list A) (l2 l2' : list B), length l1 = length l2 ->
  combine (l1 ++ l1') (l2 ++ l2') = combine l1 l2 ++ combine l1' l2'.
Proof. induction l1; destruct l2; cbn [length app combine]; intros; try discriminate; auto. f_equal. apply IHl1. lia. Qed.

Lemma lvec_snoc pre c idx i r0 : length pre = length idx ->
  lvec (pre ++ [c]) (idx ++ [i]) r0 = c_vecmat (lvec pre idx r0) c i.
Proof. intros H. unfold lvec. rewrite combine_app' by exact H. rewrite fold_left_app. reflexivity. Qed.

(* the incremental update of a left interface (cross.py:410-420) is the left partial product along the updated
   index tuple *)
Theorem lint_update_consistent (c : cdata K) (pre : list (cdata K)) (r0 Ij : nat) (L : rows) (loc : list nat) :
  (forall l, In l L -> length l = S (length pre)) ->
  (forall x, In x loc -> (x / Ij < length L)%nat) ->
  lint_update c Ij (map (fun l => lvec pre (tl l) r0) L) loc =
  map (fun l => lvec (pre ++ [c]) (tl l) r0) (lupdate Ij L loc).
Proof.
  intros Hlen Hr. unfold lint_update, lupdate. rewrite map_map. apply map_ext_in. intros x Hx.
  rewrite (nth_indep _ [] ((fun l => lvec pre (tl l) r0) [])) by (rewrite map_length; apply Hr; exact Hx).
  rewrite (map_nth (fun l => lvec pre (tl l) r0)).
  assert (Hin : In (nth (x / Ij) L []) L) by (apply nth_In; apply Hr; exact Hx).
  pose proof (Hlen _ Hin) as Hl. destruct (nth (x / Ij) L []) as [|d l']; [discriminate Hl|].
  cbn [app tl]. rewrite lvec_snoc; [reflexivity|]. cbn [length] in Hl. lia.
Qed.

Lemma vnth_vecmat (u : list K) (c : cdata K) i q : (q < c_rr c)%nat ->
  vnth (c_vecmat u c i) q = sumn (c_rl c) (fun p => vnth u p * c_sl c i p q).
Proof. intros H. unfold vnth at 1, c_vecmat. rewrite (nth_map_seq _ 0 (c_rr c) 0%nat q H). reflexivity. Qed.

Lemma lfold_prop (cs : list (cdata K)) : forall r idx (u : list K) (uf : nat -> K) q,
  chain r (map score_of cs) = true -> length idx = length cs ->
  (forall p, (p < r)%nat -> vnth u p = uf p) -> (q < last_rr r (map score_of cs))%nat ->
  vnth (fold_left (fun u ci => c_vecmat u (fst ci) (snd ci)) (combine cs idx) u) q = prop uf (map score_of cs) idx q.
Proof.
  induction cs as [|c cs IH]; intros r idx u uf q Hc Hl Hu Hq.
  - destruct idx; [|discriminate]. cbn [combine fold_left map prop]. apply Hu. exact Hq.
  - destruct idx as [|i idx]; [discriminate|].
    cbn [map chain] in Hc. apply andb_true_iff in Hc. destruct Hc as [Er Hc]. apply Nat.eqb_eq in Er.
    cbn [score_of rl] in Er.
    change (last_rr r (map score_of (c :: cs))) with (last_rr (c_rr c) (map score_of cs)) in Hq.
    cbn [combine fold_left map prop fst snd].
    apply (IH (c_rr c)); [exact Hc|cbn [length] in Hl; lia| |exact Hq].
    intros p Hp. rewrite vnth_vecmat by exact Hp. unfold vecmat. cbn [score_of rl sl].
    apply sumn_ext. intros t Ht. rewrite Hu by lia. reflexivity.
Qed.

Theorem lvec_prop (cs : list (cdata K)) r0 idx q : chain r0 (map score_of cs) = true -> length idx = length cs ->
  (q < last_rr r0 (map score_of cs))%nat ->
  vnth (lvec cs idx r0) q = prop ones (map score_of cs) idx q.
Proof. intros Hc Hl Hq. unfold lvec. apply (lfold_prop cs r0); auto. intros p Hp. apply vnth_repeat. exact Hp. Qed.

(* the argument handed to the function for entry (a, i, b) of evaluate_function(j) is the entry of the given tensor at
   the grid point  lsets[j][a][1:] + (i,) + rsets[j][b][:-1]  *)
Theorem eval_arg_is_entry (pre post : list (cdata K)) (c : cdata K) (r0 : nat) (idxl idxr : list nat) (i : nat) :
  chain r0 (map score_of (pre ++ c :: post)) = true ->
  length idxl = length pre -> (length post <= length idxr)%nat ->
  vdot (c_rl c) (lvec pre idxl r0)
       (c_matvec c i (rvec post idxr (last_rr r0 (map score_of (pre ++ c :: post))))) =
  bil ones (map score_of (pre ++ c :: post)) (idxl ++ i :: idxr) ones.
Proof.
  intros Hc Hl Hr.
  assert (Hsplit : (chain r0 (map score_of pre) = true) /\ 
                   (chain (last_rr r0 (map score_of pre)) (map score_of (c :: post)) = true) /\ 
                   (last_rr r0 (map score_of (pre ++ (c :: post))) =
                    last_rr (last_rr r0 (map score_of pre)) (map score_of (c :: post)))).
  { clear Hl Hr. revert r0 Hc. induction pre as [|a pre IH]; intros r0 Hc.
    - cbn [app map chain last_rr fold_left] in *. auto.
    - cbn [app map chain] in Hc. apply andb_true_iff in Hc. destruct Hc as [Ea Hc].
      destruct (IH _ Hc) as (H1 & H2 & H3). cbn [app map chain]. rewrite Ea. cbn [andb].
      change (last_rr r0 (score_of a :: map score_of pre)) with (last_rr (rr (score_of a)) (map score_of pre)).
      change (last_rr r0 (score_of a :: map score_of (pre ++ c :: post))) with
             (last_rr (rr (score_of a)) (map score_of (pre ++ c :: post))). auto. }
  destruct Hsplit as (Hc1 & Hc2 & Elast). rewrite Elast.
  set (rm := last_rr r0 (map score_of pre)) in *.
  assert (Erm : c_rl c = rm).
  { cbn [map chain] in Hc2. apply andb_true_iff in Hc2. destruct Hc2 as [E _]. apply Nat.eqb_eq in E. exact E. }
  (* the right factor *)
  assert (HR : forall p, (p < rm)%nat ->
     vnth (c_matvec c i (rvec post idxr (last_rr rm (map score_of (c :: post))))) p =
     evalv (map score_of (c :: post)) (i :: idxr) ones p).
  { intros p Hp. apply (rvec_evalv (c :: post) rm (i :: idxr) p Hc2); [cbn [length]; lia|exact Hp]. }
  unfold vdot. rewrite Erm.
  rewrite (sumn_ext rm _ (fun p => prop ones (map score_of pre) idxl p * evalv (map score_of (c :: post)) (i :: idxr) ones p)).
  2:{ intros p Hp. rewrite HR by exact Hp. f_equal. apply lvec_prop; auto. }
  rewrite map_app.
  destruct pre as [|a pre].
  - destruct idxl; [|discriminate]. cbn [map app prop]. unfold bil. rewrite <- Erm. reflexivity.
  - rewrite (prop_bil K Kth (map score_of (a :: pre)) r0 idxl ones _ ltac:(discriminate) Hc1
               ltac:(rewrite map_length; exact Hl)).
    unfold bil. cbn [map app]. apply sumn_ext. intros p Hp. f_equal.
    symmetry. apply (evalv_app K (score_of a :: map score_of pre) (score_of c :: map score_of post) idxl (i :: idxr) ones p).
    cbn [length]. rewrite map_length. exact Hl.
Qed.

Corollary eval_arg_is_tensor_entry (pre post : list (cdata K)) (c : cdata K) (r0 : nat) (idxl idxr : list nat) (i : nat) :
  chain r0 (map score_of (pre ++ c :: post)) = true ->
  length idxl = length pre -> (length post <= length idxr)%nat ->
  vdot (c_rl c) (lvec pre idxl r0)
       (c_matvec c i (rvec post idxr (last_rr r0 (map score_of (pre ++ c :: post))))) =
  den (map (fun c => mkMode c None) (pre ++ c :: post)) (idxl ++ i :: idxr).
Proof.
  intros Hc Hl Hr. rewrite (eval_arg_is_entry pre post c r0 idxl idxr i Hc Hl Hr).
  unfold den, sem. rewrite map_map. change (fun x : cdata K => sem_mode (mkMode x None)) with score_of.
  apply bil_ones_eval. exact Kth. destruct pre; discriminate.
Qed.
End Interfaces.

(* non-vacuity of eval_arg_is_tensor_entry: a 3-mode tensor over Z with a CP factor in the middle *)
Example eval_arg_instance :
  let c0 := @lit_tt ZO 1 2 2 [1;2;3;4]%Z in let c1 := @lit_cp ZO 3 2 [1;0;2;5;(-1);3]%Z in
  let c2 := @lit_tt ZO 2 2 1 [2;1;0;7]%Z in
  chain 1%nat (map (score_of ZO) ([c0] ++ c1 :: [c2])) = true /\
  vdot (c_rl c1) (lvec ZO [c0] [1%nat] 1%nat) (c_matvec c1 2%nat (rvec [c2] [1;0]%nat 1%nat)) = (-3 + 84)%Z.
Proof. split; vm_compute; reflexivity. Qed.

