(* C07 -- gradients through compressed operations equal gradients through the dense arrays.
   Every kernel theorem of C02 / C03 / C06 is proved for an arbitrary commutative ring; instantiated at the
   dual numbers D(K) = K[eps]/(eps^2) it states that value AND first-order tangent of the compressed
   computation equal those of the dense one, for every choice of tangents on the parameters (forward-mode
   differentiation; the gradient is determined by all directional derivatives). *)
From TN Require Import Properties.C02 Properties.C03 Properties.C06 Alg.Inst.

Section C07.
Variable K : Ops.
Hypothesis Kth : laws K.
Definition DK := DO K.
Definition DK_laws : laws DK := DO_laws K Kth.

Definition C07_expr := C02_expr DK DK_laws.
Definition C07_add := C02_add DK DK_laws.
Definition C07_mul := C02_mul DK DK_laws.
Definition C07_scalar_mul := C02_scalar_mul DK DK_laws.
Definition C07_scalar_add := C02_scalar_add DK DK_laws.
Definition C07_getitem := C03_getitem DK DK_laws.
Definition C07_dot := C06_dot DK DK_laws.
Definition C07_dot_partial := C06_dot_partial DK DK_laws.
Definition C07_sum := C06_sum DK DK_laws.
Definition C07_wsum := C06_wsum DK DK_laws.
End C07.

(* the tangent component really is the derivative: eps^2 = 0 and the product rule *)
Lemma C07_dual_product_rule : forall (K : Ops) (a b da db : K),
  rmul (DO K) (a, da) (b, db) = (rmul K a b, radd K (rmul K a db) (rmul K da b)).
Proof. reflexivity. Qed.

Check C07_expr.
Print Assumptions C07_expr.
Print Assumptions C07_getitem.
Print Assumptions C07_dot.
Print Assumptions C07_dot_partial.
Print Assumptions C07_sum.
Print Assumptions C07_dual_product_rule.
