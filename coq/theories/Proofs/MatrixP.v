From TN Require Export Model.Matrix.
From TN Require Import Sem.Moves Model.Format.
Section MatrixP.
Variable K : Ops.
Hypothesis Kth : laws K.
Add Ring Kring : Kth.
Local Open Scope K_scope.
Notation mcore := (mcore K).

Lemma divmod_io b i o : (o < b)%nat -> ((i * b + o) / b = i /\ (i * b + o) mod b = o)%nat.
Proof. intros H. split; [rewrite Nat.div_add_l by lia; rewrite Nat.div_small by lia; lia
                         | rewrite Nat.add_comm, Nat.mod_add by lia; apply Nat.mod_small; lia]. Qed.

Lemma flat_sl (c : mcore) i o p q : (o < mo c)%nat -> sl (flat c) (i * mo c + o) p q = msl c i o p q.
Proof. intros H. cbn [flat sl]. destruct (divmod_io (mo c) i o H) as [-> ->]. reflexivity. Qed.

(* ---------- tt_multiply ---------- *)
Lemma mul_loop_spec (cs : list mcore) : forall R oo r0, chainm r0 cs -> in_dims (odims cs) oo ->
  mul_loop cs R oo =
  sumidx (idims cs) (fun ii => sumn r0 (fun r => R ii r * evalv (map (flat) cs) (mzip cs ii oo) ones r)).
Proof.
  induction cs as [|c cs IH]; intros R oo r0 Hc Ho.
  - cbn in Hc. subst r0. destruct oo; cbn; unfold ones; ring.
  - destruct oo as [|o oo]; [cbn in Ho; contradiction|]. cbn in Hc, Ho. destruct Hc as [Hl Hc]. destruct Ho as [Ho1 Ho].
    cbn [mul_loop]. rewrite (IH _ oo (mr c) Hc Ho). cbn [idims map sumidx].
    rewrite <- (sumidx_sumn Kth (idims cs) (mi c)). apply sumidx_ext. intros ii.
    subst r0. cbn [mzip evalv map]. cbn [rr flat] .
    (* LHS: sum_q (sum_i sum_r R * msl) * E q ;  RHS: sum_i sum_r R * sum_q sl * E q *)
    rewrite (sumn_ext (mr c) _ (fun q => sumn (mi c) (fun i => sumn (ml c) (fun r => R (i :: ii) r * msl c i o r q * evalv (map (flat) cs) (mzip cs ii oo) ones q)))).
    2:{ intros q _. rewrite <- (sumn_mul_r Kth). apply sumn_ext. intros i _. rewrite <- (sumn_mul_r Kth). reflexivity. }
    rewrite (sumn_exch Kth (mr c) (mi c)). apply sumn_ext. intros i _.
    rewrite (sumn_exch Kth (mr c) (ml c)). apply sumn_ext. intros r _.
    rewrite <- (sumn_mul_l Kth). apply sumn_ext. intros q _.
    change (sl (flat c) (i * mo c + o) r q) with (sl (flat c) (i * mo c + o) r q).
    rewrite (flat_sl c i o r q Ho1). ring.
Qed.

Theorem tt_multiply_sound (cs : list mcore) (x : list nat -> K) oo :
  chainm 1 cs -> in_dims (odims cs) oo ->
  tt_multiply cs x oo = sumidx (idims cs) (fun ii => x ii * mentry cs ii oo).
Proof.
  intros Hc Ho. unfold tt_multiply. rewrite (mul_loop_spec cs _ oo 1 Hc Ho). apply sumidx_ext. intros ii.
  unfold mentry, eval. destruct cs as [|c cs]; [cbn; unfold ones; ring|].
  cbn [map]. cbn in Hc. destruct Hc as [Hl _]. cbn [rl flat]. rewrite Hl. cbn [sumn]. ring.
Qed.

(* ---------- trace ---------- *)
Lemma trace_spec (cs : list mcore) : forall f r0, chainm r0 cs -> Forall (fun c => mi c = mo c) cs ->
  fold_left (trace_step) cs f O =
  sumidx (idims cs) (fun ii => sumn r0 (fun p => f p * evalv (map (flat) cs) (mzip cs ii ii) ones p)).
Proof.
  induction cs as [|c cs IH]; intros f r0 Hc Hs.
  - cbn in Hc. subst r0. cbn. unfold ones. ring.
  - cbn in Hc. destruct Hc as [Hl Hc]. inversion Hs as [|c0 l0 Hsq Hs']; subst c0 l0.
    cbn [fold_left]. rewrite (IH _ (mr c) Hc Hs'). cbn [idims map sumidx].
    rewrite <- (sumidx_sumn Kth (idims cs) (mi c)). apply sumidx_ext. intros ii. subst r0.
    cbn [mzip evalv map]. cbn [rr flat]. unfold trace_step.
    rewrite (sumn_ext (mr c) _ (fun q => sumn (ml c) (fun p => sumn (mi c) (fun a => f p * msl c a a p q * evalv (map (flat) cs) (mzip cs ii ii) ones q)))).
    2:{ intros q _. rewrite <- (sumn_mul_r Kth). apply sumn_ext. intros p _. rewrite <- (sumn_mul_r Kth). reflexivity. }
    rewrite (sumn_exch Kth (mr c) (ml c)).
    rewrite (sumn_exch Kth (mi c) (ml c)). apply sumn_ext. intros p _.
    rewrite (sumn_exch Kth (mr c) (mi c)). apply sumn_ext. intros a Ha.
    rewrite <- (sumn_mul_l Kth). apply sumn_ext. intros q _.
    rewrite (flat_sl c a a p q) by (rewrite <- Hsq; exact Ha). ring.
Qed.

Theorem trace_sound (cs : list mcore) : chainm 1 cs -> Forall (fun c => mi c = mo c) cs ->
  trace cs = sumidx (idims cs) (fun ii => mentry cs ii ii).
Proof.
  intros Hc Hs. unfold trace. rewrite (trace_spec cs _ 1 Hc Hs). apply sumidx_ext. intros ii.
  unfold mentry, eval. destruct cs as [|c cs]; [cbn; unfold ones; ring|].
  cbn [map]. cbn in Hc. destruct Hc as [Hl _]. cbn [rl flat]. rewrite Hl. cbn [sumn]. ring.
Qed.


(* ---------- flat (row, column) indices ---------- *)
Lemma prodl_cons d ds : prodl (d :: ds) = (d * prodl ds)%nat.
Proof. reflexivity. Qed.
Lemma unravel_cons d ds i j : (j < prodl ds)%nat -> unravel (d :: ds) (i * prodl ds + j) = i :: unravel ds j.
Proof. intros H. cbn [unravel]. destruct (divmod_io (prodl ds) i j H) as [-> ->]. reflexivity. Qed.
Lemma sum_unravel (ds : list nat) : forall f : list nat -> K,
  sumn (prodl ds) (fun n => f (unravel ds n)) = sumidx ds f.
Proof.
  induction ds as [|d ds IH]; intros f; [cbn; ring|].
  rewrite prodl_cons, (sumn_prod Kth). cbn [sumidx]. apply sumn_ext. intros i _.
  rewrite <- (IH (fun idx => f (i :: idx))). apply sumn_ext. intros j Hj. rewrite unravel_cons by exact Hj. reflexivity.
Qed.
Lemma unravel_in_dims (ds : list nat) : forall n, (n < prodl ds)%nat -> in_dims ds (unravel ds n).
Proof.
  induction ds as [|d ds IH]; intros n Hn; [exact Logic.I|]. rewrite prodl_cons in Hn. cbn [unravel in_dims].
  assert (0 < prodl ds)%nat by (destruct (prodl ds); lia).
  split; [apply Nat.div_lt_upper_bound; lia | apply IH, Nat.mod_upper_bound; lia].
Qed.
Lemma ravel_unravel (ds : list nat) : forall n, (n < prodl ds)%nat -> ravel ds (unravel ds n) = n.
Proof.
  induction ds as [|d ds IH]; intros n Hn; [cbn in *; lia|]. rewrite prodl_cons in Hn. cbn [unravel ravel].
  assert (0 < prodl ds)%nat by (destruct (prodl ds); lia).
  rewrite IH by (apply Nat.mod_upper_bound; lia). rewrite (Nat.div_mod n (prodl ds)) at 3 by lia. lia.
Qed.

(* tt_multiply against the decompressed matrix, in flat indices: (x M)[col] = sum_row x[row] M[row, col] *)
Theorem tt_multiply_flat (cs : list mcore) (xf : nat -> K) col : chainm 1 cs -> (col < prodl (odims cs))%nat ->
  tt_multiply cs (fun ii => xf (ravel (idims cs) ii)) (unravel (odims cs) col) =
  sumn (prodl (idims cs)) (fun row => xf row * mat cs row col).
Proof.
  intros Hc Hcol. rewrite tt_multiply_sound by (auto; apply unravel_in_dims; exact Hcol).
  rewrite <- sum_unravel. apply sumn_ext. intros row Hrow. rewrite ravel_unravel by exact Hrow. reflexivity.
Qed.
Theorem trace_flat (cs : list mcore) : chainm 1 cs -> Forall (fun c => mi c = mo c) cs ->
  trace cs = sumn (prodl (idims cs)) (fun row => mat cs row row).
Proof.
  intros Hc Hs. rewrite trace_sound by assumption. rewrite <- sum_unravel. apply sumn_ext. intros row _. unfold mat.
  replace (odims cs) with (idims cs); [reflexivity|]. unfold idims, odims. apply map_ext_in. intros c Hin.
  rewrite Forall_forall in Hs. exact (Hs c Hin).
Qed.

(* ---------- cp_multiply ---------- *)
Notation cpcore := (cpcore K).
Lemma cp_loop_spec (cs : list cpcore) : forall Rf oo R, length oo = length cs ->
  cp_loop cs Rf oo R = sumn R (fun r => sumidx (cidims cs) (fun ii => Rf ii r * cp_prod cs ii oo r)).
Proof.
  induction cs as [|c cs IH]; intros Rf oo R Hlen.
  - destruct oo; [|discriminate]. cbn. apply sumn_ext. intros r _. ring.
  - destruct oo as [|o oo]; [discriminate|]. cbn [cp_loop]. rewrite IH by (cbn in Hlen; lia).
    apply sumn_ext. intros r _. cbn [cidims map sumidx]. rewrite <- (sumidx_sumn Kth (cidims cs) (ci c)).
    apply sumidx_ext. intros ii. rewrite <- (sumn_mul_r Kth). apply sumn_ext. intros i _. cbn [cp_prod]. ring.
Qed.

Theorem cp_multiply_sound R (cs : list cpcore) (x : list nat -> K) oo : length oo = length cs ->
  cp_multiply R cs x oo = sumidx (cidims cs) (fun ii => x ii * cp_entry R cs ii oo).
Proof.
  intros Hlen. unfold cp_multiply. rewrite cp_loop_spec by exact Hlen. unfold cp_entry.
  rewrite <- (sumidx_sumn Kth (cidims cs) R). apply sumidx_ext. intros ii. rewrite (sumn_mul_l Kth). reflexivity.
Qed.

(* ---------- Kronecker products ---------- *)
Lemma mentry_kron (cs : list mcore) : forall ii oo, is_kron cs -> in_dims (odims cs) oo -> length ii = length cs ->
  mentry cs ii oo = kentry (map (kmat) cs) ii oo.
Proof.
  assert (G: forall (cs : list mcore) ii oo, is_kron cs -> in_dims (odims cs) oo -> length ii = length cs ->
     evalv (map (flat) cs) (mzip cs ii oo) ones O = kentry (map (kmat) cs) ii oo).
  { clear cs. induction cs as [|c cs IH]; intros ii oo Hk Ho Hl.
    - destruct ii; [|discriminate]. cbn. reflexivity.
    - destruct ii as [|i ii]; [discriminate|]. destruct oo as [|o oo]; [cbn in Ho; contradiction|].
      cbn in Ho. destruct Ho as [Ho1 Ho]. inversion Hk as [|c0 l0 [H1 H2] Hk']; subst c0 l0.
      cbn [map mzip evalv kentry]. cbn [rr flat]. rewrite H2. cbn [sumn].
      rewrite (flat_sl c i o 0 0 Ho1). rewrite IH by (auto; cbn in Hl; lia). unfold kmat. ring. }
  intros ii oo Hk Ho Hl. unfold mentry, eval. destruct cs as [|c cs].
  - destruct ii; [|discriminate]. reflexivity.
  - specialize (G (c :: cs) ii oo Hk Ho Hl). cbn [map] in *. cbn [rl flat].
    inversion Hk as [|c0 l0 [H1 H2] Hk']; subst c0 l0. rewrite H1. cbn [sumn]. rewrite G. ring.
Qed.

(* mixed-product property: (A_1 (x) ... (x) A_d)(B_1 (x) ... (x) B_d) = (A_1 B_1) (x) ... (x) (A_d B_d) *)
Theorem kron_mixed_product (ds : list nat) : forall (xs ys : list (nat -> nat -> K)) ii oo,
  length xs = length ds -> length ys = length ds -> length ii = length ds -> length oo = length ds ->
  sumidx ds (fun mm => kentry xs ii mm * kentry ys mm oo) = kentry (zip_matmul ds xs ys) ii oo.
Proof.
  induction ds as [|d ds IH]; intros xs ys ii oo Hx Hy Hi Ho.
  - destruct xs; [|discriminate]. destruct ys; [|discriminate]. cbn. ring.
  - destruct xs as [|a xs]; [discriminate|]. destruct ys as [|b ys]; [discriminate|].
    destruct ii as [|i ii]; [discriminate|]. destruct oo as [|o oo]; [discriminate|].
    cbn [sumidx zip_matmul kentry]. rewrite <- (IH xs ys ii oo) by (cbn in *; lia).
    unfold matmul. rewrite <- (sumn_mul_r Kth). apply sumn_ext. intros m _.
    rewrite <- (sumidx_mul_l Kth ds). apply sumidx_ext. intros mm. ring.
Qed.

Fixpoint deltas (ii oo : list nat) : K :=
  match ii, oo with i :: ii', o :: oo' => delta i o * deltas ii' oo' | _, _ => 1 end.

Lemma kentry_ext : forall (xs ys : list (nat -> nat -> K)) ds ii oo,
  length xs = length ds -> length ys = length ds -> in_dims ds ii -> in_dims ds oo ->
  (forall k i o, (i < nth k ds 0)%nat -> (o < nth k ds 0)%nat -> nth k xs (fun _ _ => 0) i o = nth k ys (fun _ _ => 0) i o) ->
  kentry xs ii oo = kentry ys ii oo.
Proof.
  induction xs as [|a xs IH]; intros ys ds ii oo Hx Hy Hi Ho H.
  - destruct ds; [|discriminate]. destruct ys; [|discriminate]. reflexivity.
  - destruct ds as [|d ds]; [discriminate|]. destruct ys as [|b ys]; [discriminate|].
    destruct ii as [|i ii]; [cbn in Hi; contradiction|]. destruct oo as [|o oo]; [cbn in Ho; contradiction|].
    cbn in Hi, Ho. destruct Hi as [Hi1 Hi]. destruct Ho as [Ho1 Ho]. cbn [kentry].
    rewrite (H 0%nat i o Hi1 Ho1 : a i o = b i o).
    rewrite (IH ys ds ii oo) by (try (cbn in *; lia); auto; intros k; exact (H (S k))). reflexivity.
Qed.

Lemma kentry_delta : forall (ds : list nat) ii oo, length ii = length ds -> length oo = length ds ->
  kentry (map (fun _ : nat => @delta K) ds) ii oo = deltas ii oo.
Proof.
  induction ds as [|d ds IH]; intros ii oo Hi Ho.
  - destruct ii; [|discriminate]. reflexivity.
  - destruct ii as [|i ii]; [discriminate|]. destruct oo as [|o oo]; [discriminate|].
    cbn [map kentry deltas]. rewrite IH by (cbn in *; lia). reflexivity.
Qed.

Lemma in_dims_length ds : forall idx, in_dims ds idx -> length idx = length ds.
Proof. induction ds as [|d ds IH]; intros [|i idx] H; cbn in *; try contradiction; auto. destruct H. f_equal. auto. Qed.

Lemma zip_matmul_length : forall (ds : list nat) (xs ys : list (nat -> nat -> K)),
  length xs = length ds -> length ys = length ds -> length (zip_matmul ds xs ys) = length ds.
Proof. induction ds as [|d ds IH]; intros [|a xs] [|b ys] Hx Hy; cbn in *; try discriminate; auto. Qed.

Lemma zip_matmul_nth : forall (ds : list nat) (xs ys : list (nat -> nat -> K)) k,
  length xs = length ds -> length ys = length ds -> (k < length ds)%nat ->
  nth k (zip_matmul ds xs ys) (fun _ _ => 0) = matmul (nth k ds 0%nat) (nth k xs (fun _ _ => 0)) (nth k ys (fun _ _ => 0)).
Proof.
  induction ds as [|d ds IH]; intros [|a xs] [|b ys] k Hx Hy Hk; cbn in *; try discriminate; try lia.
  destruct k; [reflexivity|]. apply IH; lia.
Qed.

(* inv(): block-wise inverses give the inverse of the Kronecker product *)
Theorem kron_inverse (ds : list nat) (xs ys : list (nat -> nat -> K)) ii oo :
  length xs = length ds -> length ys = length ds -> in_dims ds ii -> in_dims ds oo ->
  (forall k i o, (i < nth k ds 0)%nat -> (o < nth k ds 0)%nat ->
     matmul (nth k ds 0%nat) (nth k xs (fun _ _ => 0)) (nth k ys (fun _ _ => 0)) i o = delta i o) ->
  sumidx ds (fun mm => kentry xs ii mm * kentry ys mm oo) = deltas ii oo.
Proof.
  intros Hx Hy Hi Ho H. pose proof (in_dims_length ds ii Hi) as Li. pose proof (in_dims_length ds oo Ho) as Lo.
  rewrite kron_mixed_product by assumption. rewrite <- (kentry_delta ds ii oo Li Lo).
  apply (kentry_ext _ _ ds); auto.
  - apply zip_matmul_length; assumption.
  - rewrite map_length; reflexivity.
  - intros k i o Hi' Ho'. destruct (Nat.lt_ge_cases k (length ds)) as [Hk|Hk].
    + rewrite zip_matmul_nth by assumption. rewrite H by assumption.
      rewrite (nth_indep _ (fun _ _ => 0) (@delta K)) by (rewrite map_length; exact Hk).
      assert (E: forall (l : list nat) k', nth k' (map (fun _ : nat => @delta K) l) (@delta K) = @delta K) by (induction l; destruct k'; cbn; auto).
      rewrite E. reflexivity.
    + rewrite (nth_overflow ds) in Hi' by exact Hk. lia.
Qed.

(* cholesky(): block-wise factors L_k L_k^T = A_k give (x)L_k ((x)L_k)^T = (x)A_k *)
Lemma kentry_transpose : forall (xs : list (nat -> nat -> K)) ii oo,
  kentry (map (fun m i o => m o i) xs) ii oo = kentry xs oo ii.
Proof.
  induction xs as [|a xs IH]; intros ii oo; [destruct ii, oo; reflexivity|].
  destruct ii as [|i ii], oo as [|o oo]; cbn [map kentry]; try reflexivity. rewrite IH. reflexivity.
Qed.

Theorem kron_cholesky (ds : list nat) (ls : list (nat -> nat -> K)) ii oo :
  length ls = length ds -> length ii = length ds -> length oo = length ds ->
  sumidx ds (fun mm => kentry ls ii mm * kentry ls oo mm) =
  kentry (zip_matmul ds ls (map (fun m i o => m o i) ls)) ii oo.
Proof.
  intros Hl Hi Ho. rewrite <- kron_mixed_product by (try rewrite map_length; assumption).
  apply sumidx_ext. intros mm. rewrite kentry_transpose. reflexivity.
Qed.

(* the constructor interleaves (i_k, o_k) into a_k = i_k O_k + o_k and torch() splits it again *)
Fixpoint unzip_i (cs : list mcore) (aa : list nat) : list nat :=
  match cs, aa with c :: cs', a :: aa' => (a / mo c)%nat :: unzip_i cs' aa' | _, _ => [] end.
Fixpoint unzip_o (cs : list mcore) (aa : list nat) : list nat :=
  match cs, aa with c :: cs', a :: aa' => (a mod mo c)%nat :: unzip_o cs' aa' | _, _ => [] end.
Theorem interleave_roundtrip (cs : list mcore) : forall ii oo, length ii = length cs -> in_dims (odims cs) oo ->
  unzip_i cs (mzip cs ii oo) = ii /\ unzip_o cs (mzip cs ii oo) = oo.
Proof.
  induction cs as [|c cs IH]; intros ii oo Hi Ho.
  - destruct ii; [|discriminate]. destruct oo; [|cbn in Ho; contradiction]. split; reflexivity.
  - destruct ii as [|i ii]; [discriminate|]. destruct oo as [|o oo]; [cbn in Ho; contradiction|].
    cbn in Ho. destruct Ho as [Ho1 Ho]. cbn [mzip unzip_i unzip_o].
    destruct (divmod_io (mo c) i o Ho1) as [-> ->]. destruct (IH ii oo) as [-> ->]; auto.
Qed.
Theorem mzip_in_dims (cs : list mcore) : forall ii oo, in_dims (idims cs) ii -> in_dims (odims cs) oo ->
  in_dims (sshape (map flat cs)) (mzip cs ii oo).
Proof.
  induction cs as [|c cs IH]; intros ii oo Hi Ho.
  - destruct ii, oo; cbn in *; auto.
  - destruct ii as [|i ii]; [cbn in Hi; contradiction|]. destruct oo as [|o oo]; [cbn in Ho; contradiction|].
    cbn in Hi, Ho. destruct Hi as [Hi1 Hi]. destruct Ho as [Ho1 Ho]. cbn [map sshape mzip in_dims dm flat].
    split; [nia | apply IH; assumption].
Qed.

(* CPMatrix.torch(): cores reshaped to (i*o, R), decompressed as a CP tensor, un-interleaved *)
Definition cp_flat (R : nat) (c : cpcore) : mode K :=
  mkMode (CCP (ci c * co c) R (fun a r => cg c (a / co c) (a mod co c) r)) None.
Fixpoint cpzip (cs : list cpcore) (ii oo : list nat) : list nat :=
  match cs, ii, oo with c :: cs', i :: ii', o :: oo' => (i * co c + o)%nat :: cpzip cs' ii' oo' | _, _, _ => [] end.
Lemma cp_evalv R (cs : list cpcore) : forall ii oo p, (p < R)%nat -> in_dims (map (@co K) cs) oo -> length ii = length cs ->
  evalv (map (fun c => sem_mode (cp_flat R c)) cs) (cpzip cs ii oo) ones p = cp_prod cs ii oo p.
Proof.
  induction cs as [|c cs IH]; intros ii oo p Hp Ho Hi.
  - destruct ii; [|discriminate]. reflexivity.
  - destruct ii as [|i ii]; [discriminate|]. destruct oo as [|o oo]; [cbn in Ho; contradiction|].
    cbn in Ho. destruct Ho as [Ho1 Ho]. cbn [map cpzip evalv cp_prod].
    change (rr (sem_mode (cp_flat R c))) with R.
    rewrite (sumn_ext R _ (fun q => delta p q * (cg c i o p * evalv (map (fun c0 => sem_mode (cp_flat R c0)) cs) (cpzip cs ii oo) ones q))).
    2:{ intros q _. change (sl (sem_mode (cp_flat R c)) (i * co c + o) p q)
          with (if Nat.eqb p q then cg c ((i * co c + o) / co c) ((i * co c + o) mod co c) p else 0).
        destruct (divmod_io (co c) i o Ho1) as [-> ->]. unfold delta. destruct (Nat.eqb p q); ring. }
    rewrite (sumn_delta Kth) by exact Hp. rewrite IH by (auto; cbn in Hi; lia). reflexivity.
Qed.
Theorem cp_torch_sound R (cs : list cpcore) ii oo : cs <> [] -> in_dims (map (@co K) cs) oo -> length ii = length cs ->
  den (map (cp_flat R) cs) (cpzip cs ii oo) = cp_entry R cs ii oo.
Proof.
  intros Hne Ho Hi. unfold den, sem, eval, cp_entry. rewrite map_map. destruct cs as [|c cs]; [congruence|].
  cbn [map]. unfold sem_mode at 1. cbn [cp_flat fac core c_rl rl]. apply sumn_ext. intros p Hp.
  exact (cp_evalv R (c :: cs) ii oo p Hp Ho Hi).
Qed.
End MatrixP.
