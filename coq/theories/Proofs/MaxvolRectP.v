(* Theorems about the rectangular maxvol model (py_rect_maxvol of tntorch/maxvol.py), for all sizes and every lawful
   carrier: parameter clamping, the reproduction identity C A[index[:K]] = A of one loop pass, exactness of the
   row_norm_sqr bookkeeping, the chosen mask / distinctness of the selected rows, the loop counter, the exit
   condition, the final identity rows. *)
From TN Require Export Proofs.MaxvolKit.
From Coq Require Import ZArith Lia.

(* the record projections take the carrier implicitly in this file only *)
#[local] Arguments rs_index {K} r.
#[local] Arguments rs_chosen {K} r.
#[local] Arguments rs_C {K} r.
#[local] Arguments rs_rns {K} r.
#[local] Arguments rs_i {K} r.
#[local] Arguments rs_K {K} r.

Section RectP.
Variable K : Ops.
Hypothesis Kth : laws K.
Add Ring KringR : Kth.
Variable inv absv : K -> K.
Variable leb : K -> K -> bool.
Variable c105 : K.
Hypothesis leb_total : forall x y, leb x y = false -> leb y x = true.
Hypothesis leb_trans : forall x y z, leb x y = true -> leb y z = true -> leb x z = true.
Local Open Scope K_scope.
Variable A : nat -> nat -> K.     (* the input matrix, any shape *)

Definition r_repro (C : mat K) (idx : list nat) (N Kc : nat) :=
  forall t c, (t < N)%nat -> sumn Kc (fun p => mget C t p * A (nth p idx O) c) = A t c.
Definition inj_on (idx : list nat) (n : nat) :=
  forall p q, (p < n)%nat -> (q < n)%nat -> nth p idx O = nth q idx O -> p = q.

(* ------------------------------------------------------------------ R1 *)
Theorem rect_params_bounds N r : (r < N)%nat -> forall maxK madd minK,
  let '(mK, mn) := rect_params N r maxK madd minK in (r <= mK <= N)%nat /\ (mn <= mK)%nat /\ (r <= mn)%nat.
Proof.
  intros HrN maxK madd minK. unfold rect_params. cbv zeta.
  destruct maxK as [m|]; destruct minK as [m'|]; destruct madd as [a|];
  repeat match goal with
  | |- context [(?x >? ?y)%Z] => destruct (Z.gtb_spec x y)
  | |- context [(?x <? ?y)%Z] => destruct (Z.ltb_spec x y)
  end; lia.
Qed.

(* ------------------------------------------------------------------ R2 *)
(* one pass of the loop keeps C A[index[:K]] = A, for ANY value of l (no reciprocal law needed) *)
Theorem rect_step_repro N topk (s : rstate K) :
  (rs_i s < N)%nat -> (rs_K s < length (rs_index s))%nat ->
  r_repro (rs_C s) (rs_index s) N (rs_K s) ->
  r_repro (rs_C (rect_step K inv leb N topk s)) (rs_index (rect_step K inv leb N topk s)) N (S (rs_K s)).
Proof.
  destruct s as [index chosen C rns i Kc]. cbn [rs_i rs_K rs_index rs_C].
  intros Hi HK Hrep t c Ht. unfold rect_step. cbn [rs_i rs_K rs_index rs_C rs_chosen rs_rns].
  set (v := map (fun t0 => dotrow K C t0 i Kc) (seq 0 N)).
  set (l := inv (1 + nth i v 0)).
  set (vt := nth t v 0).
  cbn [sumn].
  rewrite (mget_mtab K N (S Kc) _ t Kc Ht) by lia. rewrite Nat.ltb_irrefl.
  rewrite (nth_upd_same index Kc i O HK).
  rewrite (sumn_ext Kc _ (fun p => mget C t p * A (nth p index O) c - (l * vt) * (mget C i p * A (nth p index O) c))).
  2:{ intros p Hp. rewrite (mget_mtab K N (S Kc) _ t p Ht) by lia.
      apply Nat.ltb_lt in Hp. rewrite Hp. apply Nat.ltb_lt in Hp.
      rewrite (nth_upd_other index Kc p i O) by lia. fold vt. ring. }
  rewrite (sumn_sub Kth), (sumn_mul_l Kth). rewrite (Hrep t c Ht), (Hrep i c Hi). fold vt. ring.
Qed.

(* ------------------------------------------------------------------ R3 *)
Definition rns_ok (topk : nat) (s : rstate K) :=
  forall t, (t < topk)%nat ->
    nth t (rs_rns s) 0 = b2k K (nth t (rs_chosen s) false) * dotrow K (rs_C s) t t (rs_K s).

Lemma sumn_sq_shift n (a c : nat -> K) (s : K) :
  sumn n (fun p => (a p - s * c p) * (a p - s * c p)) =
  sumn n (fun p => a p * a p) - (s + s) * sumn n (fun p => a p * c p) + s * s * sumn n (fun p => c p * c p).
Proof. induction n as [|n IH]; cbn [sumn]; [ring | rewrite IH; ring]. Qed.

(* ||C'[t]||^2 = ||C[t]||^2 - l v_t^2 when l (1 + v_i) = 1 and v_t = <C[t], C[i]> *)
Lemma step_rownorm N Kc (C : mat K) i t (l : K) (w : nat -> K) :
  (t < N)%nat -> w t = dotrow K C t i Kc -> l * (1 + dotrow K C i i Kc) = 1 ->
  dotrow K (mtab N (S Kc) (fun t0 p => if (p <? Kc)%nat then mget C t0 p - l * w t0 * mget C i p else l * w t0))
         t t (S Kc) = dotrow K C t t Kc - l * w t * w t.
Proof.
  intros Ht Hw Hl. unfold dotrow in *. cbn [sumn].
  rewrite (mget_mtab K N (S Kc) _ t Kc Ht) by lia. rewrite Nat.ltb_irrefl.
  rewrite (sumn_ext Kc _ (fun p => (mget C t p - (l * w t) * mget C i p) * (mget C t p - (l * w t) * mget C i p))).
  2:{ intros p Hp. rewrite (mget_mtab K N (S Kc) _ t p Ht) by lia.
      apply Nat.ltb_lt in Hp. rewrite Hp. ring. }
  rewrite sumn_sq_shift. rewrite <- Hw.
  set (n := sumn Kc (fun p => mget C t p * mget C t p)).
  set (vi := sumn Kc (fun p => mget C i p * mget C i p)) in *.
  set (wt := w t).
  transitivity (n - (l * wt + l * wt) * wt + l * wt * wt * (l * (1 + vi))); [ring | rewrite Hl; ring].
Qed.

Theorem rect_step_norms N topk (s : rstate K) :
  (topk <= N)%nat -> (rs_i s < N)%nat -> length (rs_chosen s) = topk ->
  let v_i := dotrow K (rs_C s) (rs_i s) (rs_i s) (rs_K s) in
  inv (1 + v_i) * (1 + v_i) = 1 ->
  rns_ok topk s -> rns_ok topk (rect_step K inv leb N topk s).
Proof.
  destruct s as [index chosen C rns i Kc].
  intros HtN Hi Hlen v_i Hl Hok. unfold rns_ok in *. cbn [rs_i rs_K rs_index rs_C rs_chosen rs_rns] in *.
  intros t Ht. unfold rect_step. cbn [rs_i rs_K rs_index rs_C rs_chosen rs_rns].
  set (v := map (fun t0 => dotrow K C t0 i Kc) (seq 0 N)).
  assert (Hvi : nth i v 0 = v_i) by exact (nth_map_seq0 (fun t0 => dotrow K C t0 i Kc) 0 N i Hi).
  assert (Hvt : nth t v 0 = dotrow K C t i Kc) by exact (nth_map_seq0 (fun t0 => dotrow K C t0 i Kc) 0 N t ltac:(lia)).
  rewrite Hvi. set (l := inv (1 + v_i)) in *.
  rewrite (nth_map_seq0 _ 0 topk t Ht).
  destruct (nth t (upd i chosen false) false) eqn:E; cbn [b2k]; [|ring].
  assert (Hc : nth t chosen false = true).
  { rewrite nth_upd in E. destruct ((t =? i)%nat && (i <? length chosen)%nat); [discriminate|exact E]. }
  rewrite (Hok t Ht), Hc. cbn [b2k].
  pose proof (step_rownorm N Kc C i t l (fun t0 => nth t0 v 0) ltac:(lia) Hvt Hl) as Hn. cbv beta in Hn.
  rewrite Hn. ring.
Qed.

(* ------------------------------------------------------------------ R4 *)
Definition mask_ok (topk : nat) (s : rstate K) :=
  length (rs_chosen s) = topk /\
  (forall t, (t < topk)%nat ->
     (nth t (rs_chosen s) false = true <-> forall p, (p < rs_K s)%nat -> nth p (rs_index s) O <> t)).

Theorem rect_step_distinct N topk (s : rstate K) :
  (rs_K s < length (rs_index s))%nat -> (rs_i s < topk)%nat -> nth (rs_i s) (rs_chosen s) false = true ->
  mask_ok topk s -> inj_on (rs_index s) (rs_K s) ->
  mask_ok topk (rect_step K inv leb N topk s) /\
  inj_on (rs_index (rect_step K inv leb N topk s)) (S (rs_K s)).
Proof.
  destruct s as [index chosen C rns i Kc]. unfold mask_ok. cbn [rs_i rs_K rs_index rs_C rs_chosen rs_rns].
  intros HK Hi Hci [Hlen Hm] Hinj. unfold rect_step. cbn [rs_i rs_K rs_index rs_C rs_chosen rs_rns].
  assert (Hfresh : forall p, (p < Kc)%nat -> nth p index O <> i) by (apply (Hm i Hi); exact Hci).
  split; [split|].
  - rewrite upd_length. exact Hlen.
  - intros t Ht. rewrite nth_upd.
    destruct (Nat.eq_dec t i) as [->|Hne].
    + rewrite Nat.eqb_refl. assert (Hlt : (i <? length chosen)%nat = true) by (apply Nat.ltb_lt; lia).
      rewrite Hlt. cbn [andb]. split; [discriminate|].
      intros Hall. exfalso. apply (Hall Kc); [lia|]. apply nth_upd_same. exact HK.
    + assert (Hneb : (t =? i)%nat = false) by (apply Nat.eqb_neq; exact Hne).
      rewrite Hneb. cbn [andb]. rewrite (Hm t Ht). split.
      * intros Hall p Hp. destruct (Nat.eq_dec p Kc) as [->|Hpk].
        -- rewrite (nth_upd_same index Kc i O HK). intros Heq. apply Hne. symmetry. exact Heq.
        -- rewrite (nth_upd_other index Kc p i O Hpk). apply Hall. lia.
      * intros Hall p Hp. rewrite <- (nth_upd_other index Kc p i O) by lia. apply Hall. lia.
  - intros p q Hp Hq. destruct (Nat.eq_dec p Kc) as [->|Hpk]; destruct (Nat.eq_dec q Kc) as [->|Hqk].
    + reflexivity.
    + rewrite (nth_upd_same index Kc i O HK), (nth_upd_other index Kc q i O Hqk).
      intros Heq. exfalso. apply (Hfresh q); [lia|]. symmetry. exact Heq.
    + rewrite (nth_upd_same index Kc i O HK), (nth_upd_other index Kc p i O Hpk).
      intros Heq. exfalso. apply (Hfresh p); [lia|]. exact Heq.
    + rewrite (nth_upd_other index Kc p i O Hpk), (nth_upd_other index Kc q i O Hqk).
      apply Hinj; lia.
Qed.

Theorem rect_pick_unchosen topk (chosen : list bool) (rns : list K) :
  (forall t, (t < topk)%nat -> nth t chosen false = true -> gtb K leb (nth t rns 0) (- (1)) = true) ->
  (exists t, (t < topk)%nat /\ nth t chosen false = true) ->
  nth (rect_pick K leb topk chosen rns) chosen false = true /\ (rect_pick K leb topk chosen rns < topk)%nat.
Proof.
  intros Hgt [t0 [Ht0 Hc0]]. unfold rect_pick.
  set (f := fun t => if nth t chosen false then nth t rns 0 else - (1)).
  split; [|apply (amax_lt K leb f topk); lia].
  pose proof (amax_max K leb leb_total leb_trans f topk t0 Ht0) as Hmax.
  destruct (nth (amax K leb f topk) chosen false) eqn:E; [reflexivity|exfalso].
  unfold f at 1 2 in Hmax. rewrite Hc0, E in Hmax.
  specialize (Hgt t0 Ht0 Hc0). unfold gtb in Hgt. rewrite Hmax in Hgt. discriminate.
Qed.

Theorem rect_pick_dominates topk (chosen : list bool) (rns : list K) :
  nth (rect_pick K leb topk chosen rns) chosen false = true ->
  forall t, (t < topk)%nat -> nth t chosen false = true ->
  leb (nth t rns 0) (nth (rect_pick K leb topk chosen rns) rns 0) = true.
Proof.
  unfold rect_pick. set (f := fun t => if nth t chosen false then nth t rns 0 else - (1)).
  intros Hp t Ht Hc.
  pose proof (amax_max K leb leb_total leb_trans f topk t Ht) as Hmax.
  unfold f at 1 2 in Hmax. rewrite Hc, Hp in Hmax. exact Hmax.
Qed.

(* ------------------------------------------------------------------ R5, R6 *)
Lemma rect_step_K N topk (s : rstate K) : rs_K (rect_step K inv leb N topk s) = S (rs_K s).
Proof. reflexivity. Qed.

Lemma rect_cond_lt mK mn tol2 (s : rstate K) :
  (mn <= mK)%nat -> rect_cond K leb mK mn tol2 s = true -> (rs_K s < mK)%nat.
Proof.
  intros Hmn Hc. unfold rect_cond in Hc. apply orb_true_iff in Hc. destruct Hc as [Hc|Hc].
  - apply andb_true_iff in Hc. destruct Hc as [_ Hc]. apply Nat.ltb_lt in Hc. exact Hc.
  - apply Nat.ltb_lt in Hc. lia.
Qed.

Theorem rect_loop_K_bounds N topk mK mn tol2 : (mn <= mK)%nat -> forall fuel (s : rstate K),
  (rs_K s <= rs_K (rect_loop K inv leb fuel N topk mK mn tol2 s))%nat /\
  (rs_K (rect_loop K inv leb fuel N topk mK mn tol2 s) <= Nat.max (rs_K s) mK)%nat.
Proof.
  intros Hmn fuel. induction fuel as [|f IH]; intros s; cbn [rect_loop]; [lia|].
  destruct (rect_cond K leb mK mn tol2 s) eqn:E; [|lia].
  pose proof (rect_cond_lt mK mn tol2 s Hmn E) as Hlt.
  specialize (IH (rect_step K inv leb N topk s)). rewrite rect_step_K in IH. lia.
Qed.

(* the while loop exits by its own condition as soon as fuel >= maxK - K (the model passes fuel N >= maxK) *)
Theorem rect_fuel_enough N topk mK mn tol2 : (mn <= mK)%nat -> forall fuel (s : rstate K),
  (mK - rs_K s <= fuel)%nat ->
  rect_cond K leb mK mn tol2 (rect_loop K inv leb fuel N topk mK mn tol2 s) = false.
Proof.
  intros Hmn fuel. induction fuel as [|f IH]; intros s Hf; cbn [rect_loop].
  - destruct (rect_cond K leb mK mn tol2 s) eqn:E; [|reflexivity].
    pose proof (rect_cond_lt mK mn tol2 s Hmn E). lia.
  - destruct (rect_cond K leb mK mn tol2 s) eqn:E; [|exact E].
    pose proof (rect_cond_lt mK mn tol2 s Hmn E) as Hlt.
    apply IH. rewrite rect_step_K. lia.
Qed.

(* ------------------------------------------------------------------ R7 *)
(* on exit before maxK is reached, every still-unchosen row among the first topk has squared norm <= tol^2 *)
Theorem rect_exit_norms topk mK mn tol2 (s : rstate K) :
  (forall n (f : nat -> K), gtb K leb (sumn n (fun p => f p * f p)) (- (1)) = true) ->
  rect_cond K leb mK mn tol2 s = false -> (rs_K s < mK)%nat ->
  rs_i s = rect_pick K leb topk (rs_chosen s) (rs_rns s) -> rns_ok topk s ->
  forall t, (t < topk)%nat -> nth t (rs_chosen s) false = true ->
  leb (dotrow K (rs_C s) t t (rs_K s)) tol2 = true.
Proof.
  destruct s as [index chosen C rns i Kc]. unfold rns_ok, rect_cond. cbn [rs_i rs_K rs_index rs_C rs_chosen rs_rns].
  intros Hsq Hc HK Hi Hok t Ht Hct.
  apply orb_false_iff in Hc. destruct Hc as [Hc _].
  apply Nat.ltb_lt in HK. rewrite HK, andb_true_r in Hc. unfold gtb in Hc. apply negb_false_iff in Hc.
  assert (Hrt : nth t rns 0 = dotrow K C t t Kc).
  { rewrite (Hok t Ht), Hct. cbn [b2k]. ring. }
  rewrite <- Hrt.
  destruct (nth i chosen false) eqn:Eci.
  - apply leb_trans with (nth i rns 0); [|exact Hc].
    rewrite Hi. rewrite Hi in Eci. apply rect_pick_dominates; assumption.
  - exfalso. rewrite Hi in Eci. unfold rect_pick in Eci.
    set (f := fun t0 => if nth t0 chosen false then nth t0 rns 0 else - (1)) in Eci.
    pose proof (amax_max K leb leb_total leb_trans f topk t Ht) as Hmax.
    unfold f at 1 2 in Hmax. rewrite Hct, Eci, Hrt in Hmax.
    pose proof (Hsq Kc (fun p => mget C t p)) as Hs. cbv beta in Hs. unfold gtb in Hs.
    unfold dotrow in Hmax. rewrite Hmax in Hs. discriminate.
Qed.

(* ------------------------------------------------------------------ R8 *)
Section SetId.
Variable idx : list nat.
Variable Kc : nat.

Definition sid_step (M : mat K) (p : nat) : mat K := upd (nth p idx O) M (map (fun q => delta p q) (seq 0 Kc)).
Definition sid (m : nat) (C : mat K) : mat K := fold_left sid_step (seq 0 m) C.

Lemma set_identity_sid (C : mat K) : set_identity K C idx Kc = sid Kc C.
Proof. reflexivity. Qed.

Lemma sid_S m (C : mat K) : sid (S m) C = sid_step (sid m C) m.
Proof. unfold sid. rewrite seq_S, fold_left_app. reflexivity. Qed.

Lemma sid_length m (C : mat K) : length (sid m C) = length C.
Proof. induction m as [|m IH]; [reflexivity|]. rewrite sid_S. unfold sid_step. rewrite upd_length. exact IH. Qed.

Lemma sid_touched (C : mat K) : inj_on idx Kc -> (forall p, (p < Kc)%nat -> (nth p idx O < length C)%nat) ->
  forall m, (m <= Kc)%nat -> forall p, (p < m)%nat ->
  nth (nth p idx O) (sid m C) [] = map (fun q => delta p q) (seq 0 Kc).
Proof.
  intros Hinj Hlen m. induction m as [|m IH]; intros Hm p Hp; [lia|].
  rewrite sid_S. unfold sid_step. destruct (Nat.eq_dec p m) as [->|Hne].
  - apply nth_upd_same. rewrite sid_length. apply Hlen. lia.
  - rewrite nth_upd_other.
    + apply IH; lia.
    + intros Heq. apply Hne. apply Hinj; [lia|lia|exact Heq].
Qed.

Lemma sid_untouched (C : mat K) t : forall m, (forall p, (p < m)%nat -> nth p idx O <> t) ->
  nth t (sid m C) [] = nth t C [].
Proof.
  induction m as [|m IH]; intros Hall; [reflexivity|].
  rewrite sid_S. unfold sid_step. rewrite nth_upd_other.
  - apply IH. intros p Hp. apply Hall. lia.
  - intros Heq. apply (Hall m); [lia|]. symmetry. exact Heq.
Qed.

Lemma hit_dec t : forall m, {p | (p < m)%nat /\ nth p idx O = t} + {forall p, (p < m)%nat -> nth p idx O <> t}.
Proof.
  induction m as [|m [[p [Hp He]]|Hno]].
  - right. intros p Hp. lia.
  - left. exists p. split; [lia|exact He].
  - destruct (Nat.eq_dec (nth m idx O) t) as [He|Hne].
    + left. exists m. split; [lia|exact He].
    + right. intros p Hp. destruct (Nat.eq_dec p m) as [->|Hpm]; [exact Hne|]. apply Hno. lia.
Qed.

Theorem set_identity_rows (C : mat K) :
  inj_on idx Kc -> (forall p, (p < Kc)%nat -> (nth p idx O < length C)%nat) ->
  (forall p q, (p < Kc)%nat -> (q < Kc)%nat -> mget (set_identity K C idx Kc) (nth p idx O) q = delta p q) /\
  (forall t, (forall p, (p < Kc)%nat -> nth p idx O <> t) -> nth t (set_identity K C idx Kc) [] = nth t C []).
Proof.
  intros Hinj Hlen. rewrite set_identity_sid. split.
  - intros p q Hp Hq. unfold mget. rewrite (sid_touched C Hinj Hlen Kc (le_n Kc) p Hp).
    exact (nth_map_seq0 (fun q0 => delta p q0) 0 Kc q Hq).
  - intros t Hall. apply sid_untouched. exact Hall.
Qed.

(* the hypothesis "length C = N" of the brief is not needed *)
Theorem set_identity_repro (C : mat K) N :
  inj_on idx Kc -> (forall p, (p < Kc)%nat -> (nth p idx O < length C)%nat) ->
  r_repro C idx N Kc -> r_repro (set_identity K C idx Kc) idx N Kc.
Proof.
  intros Hinj Hlen Hrep t c Ht. destruct (set_identity_rows C Hinj Hlen) as [Hrows Hrest].
  destruct (hit_dec t Kc) as [[p0 [Hp0 He]]|Hno].
  - subst t.
    rewrite (sumn_ext Kc _ (fun p => delta p0 p * A (nth p idx O) c)).
    2:{ intros p Hp. rewrite (Hrows p0 p Hp0 Hp). reflexivity. }
    apply (sumn_delta Kth Kc p0 (fun p => A (nth p idx O) c)). exact Hp0.
  - rewrite <- (Hrep t c Ht). apply sumn_ext. intros p Hp. unfold mget. rewrite (Hrest t Hno). reflexivity.
Qed.
End SetId.

(* ------------------------------------------------------------------ R9 *)
Definition rinv (topk N : nat) (s : rstate K) :=
  r_repro (rs_C s) (rs_index s) N (rs_K s) /\
  rns_ok topk s /\
  mask_ok topk s /\
  inj_on (rs_index s) (rs_K s) /\
  length (rs_index s) = N /\
  rs_i s = rect_pick K leb topk (rs_chosen s) (rs_rns s) /\
  (forall p, (p < rs_K s)%nat -> (nth p (rs_index s) O < topk)%nat).

Lemma chosen_search (chosen : list bool) : forall m,
  (exists t, (t < m)%nat /\ nth t chosen false = true) \/ (forall t, (t < m)%nat -> nth t chosen false = false).
Proof.
  induction m as [|m [[t [Ht Hc]]|Hall]].
  - right. intros t Ht. lia.
  - left. exists t. split; [lia|exact Hc].
  - destruct (nth m chosen false) eqn:E.
    + left. exists m. split; [lia|exact E].
    + right. intros t Ht. destruct (Nat.eq_dec t m) as [->|Hne]; [exact E|]. apply Hall. lia.
Qed.

(* counting: fewer than topk rows have been selected, so a row with chosen = true remains *)
Lemma exists_chosen topk (s : rstate K) : mask_ok topk s -> (rs_K s < topk)%nat ->
  exists t, (t < topk)%nat /\ nth t (rs_chosen s) false = true.
Proof.
  intros [Hlen Hm] HK. destruct (chosen_search (rs_chosen s) topk) as [H|Hall]; [exact H|exfalso].
  assert (Hincl : incl (seq 0 topk) (map (fun p => nth p (rs_index s) O) (seq 0 (rs_K s)))).
  { intros t Hin. apply in_seq in Hin. assert (Ht : (t < topk)%nat) by lia.
    destruct (hit_dec (rs_index s) t (rs_K s)) as [[p [Hp He]]|Hno].
    - apply in_map_iff. exists p. split; [exact He|]. apply in_seq. lia.
    - apply (Hm t Ht) in Hno. rewrite (Hall t Ht) in Hno. discriminate. }
  pose proof (NoDup_incl_length (seq_NoDup topk 0) Hincl) as Hle.
  rewrite seq_length, map_length, seq_length in Hle. lia.
Qed.

Section LoopInv.
Variables N topk mK mn : nat.
Variable tol2 : K.
Hypothesis HtopkN : (topk <= N)%nat.
Hypothesis Htopk0 : (0 < topk)%nat.
Hypothesis Hmn : (mn <= mK)%nat.
Hypothesis HmKN : (mK <= N)%nat.
(* needed for the forced branch K < minK only: with minK > topk the code is forced to continue after all topk
   candidate rows are used up; argmax of the all -1 vector is then 0 and row index 0 is selected a second time *)
Hypothesis Hmntopk : (mn <= topk)%nat.
(* reciprocal contract, only at 1 + (sum of squares) *)
Hypothesis Hinv : forall n (f : nat -> K), let x := sumn n (fun p => f p * f p) in inv (1 + x) * (1 + x) = 1.
Hypothesis Hsq : forall n (f : nat -> K), gtb K leb (sumn n (fun p => f p * f p)) (- (1)) = true.
Hypothesis Htol : leb 0 tol2 = true.

Lemma rinv_pick_lt (s : rstate K) : rinv topk N s -> (rs_i s < topk)%nat.
Proof.
  intros (_ & _ & _ & _ & _ & Hi & _). rewrite Hi. unfold rect_pick. apply (amax_lt K leb). exact Htopk0.
Qed.

Lemma rinv_gt_m1 (s : rstate K) : rns_ok topk s ->
  forall t, (t < topk)%nat -> nth t (rs_chosen s) false = true -> gtb K leb (nth t (rs_rns s) 0) (- (1)) = true.
Proof.
  intros Hrns t Ht Hc. rewrite (Hrns t Ht), Hc. cbn [b2k].
  replace (1 * dotrow K (rs_C s) t t (rs_K s)) with (dotrow K (rs_C s) t t (rs_K s)) by ring.
  unfold dotrow. exact (Hsq (rs_K s) (fun p => mget (rs_C s) t p)).
Qed.

(* whenever the loop body runs, the picked row is still unchosen *)
Lemma rinv_pick_chosen (s : rstate K) : rinv topk N s -> rect_cond K leb mK mn tol2 s = true ->
  nth (rs_i s) (rs_chosen s) false = true.
Proof.
  intros Hinvs Hc. pose proof (rinv_pick_lt s Hinvs) as Hilt.
  destruct Hinvs as (_ & Hrns & Hmask & _ & _ & Hi & _).
  unfold rect_cond in Hc. apply orb_true_iff in Hc. destruct Hc as [Hc|Hc].
  - apply andb_true_iff in Hc. destruct Hc as [Hc _].
    destruct (nth (rs_i s) (rs_chosen s) false) eqn:E; [reflexivity|exfalso].
    assert (Hz : nth (rs_i s) (rs_rns s) 0 = 0).
    { rewrite (Hrns (rs_i s) Hilt), E. cbn [b2k]. ring. }
    rewrite Hz in Hc. unfold gtb in Hc. rewrite Htol in Hc. discriminate.
  - apply Nat.ltb_lt in Hc.
    assert (Hex : exists t, (t < topk)%nat /\ nth t (rs_chosen s) false = true)
      by (apply exists_chosen; [exact Hmask|lia]).
    rewrite Hi. apply (rect_pick_unchosen topk (rs_chosen s) (rs_rns s) (rinv_gt_m1 s Hrns) Hex).
Qed.

Theorem rect_step_inv (s : rstate K) : rinv topk N s -> rect_cond K leb mK mn tol2 s = true ->
  rinv topk N (rect_step K inv leb N topk s).
Proof.
  intros Hinvs Hc.
  pose proof (rinv_pick_lt s Hinvs) as Hilt.
  pose proof (rinv_pick_chosen s Hinvs Hc) as Hci.
  pose proof (rect_cond_lt mK mn tol2 s Hmn Hc) as HKm.
  destruct Hinvs as (Hrep & Hrns & Hmask & Hinj & Hlen & Hi & Hlt).
  assert (HiN : (rs_i s < N)%nat) by lia.
  assert (HKl : (rs_K s < length (rs_index s))%nat) by lia.
  destruct (rect_step_distinct N topk s HKl Hilt Hci Hmask Hinj) as [Hmask' Hinj'].
  split; [apply rect_step_repro; assumption|].
  split; [apply rect_step_norms; try assumption|].
  { destruct Hmask as [Hl _]. exact Hl. }
  { exact (Hinv (rs_K s) (fun p => mget (rs_C s) (rs_i s) p)). }
  split; [exact Hmask'|]. split; [exact Hinj'|].
  split; [|split].
  - unfold rect_step. cbn [rs_index]. rewrite upd_length. exact Hlen.
  - reflexivity.
  - rewrite rect_step_K. unfold rect_step. cbn [rs_index]. intros p Hp.
    destruct (Nat.eq_dec p (rs_K s)) as [->|Hne].
    + rewrite (nth_upd_same (rs_index s) (rs_K s) (rs_i s) O HKl). exact Hilt.
    + rewrite (nth_upd_other (rs_index s) (rs_K s) p (rs_i s) O Hne). apply Hlt. lia.
Qed.

Theorem rect_loop_inv : forall fuel (s : rstate K), rinv topk N s ->
  rinv topk N (rect_loop K inv leb fuel N topk mK mn tol2 s).
Proof.
  induction fuel as [|f IH]; intros s Hs; cbn [rect_loop]; [exact Hs|].
  destruct (rect_cond K leb mK mn tol2 s) eqn:E; [|exact Hs].
  apply IH. apply rect_step_inv; assumption.
Qed.

Lemma rect_loop_C_length : forall fuel (s : rstate K), length (rs_C s) = N ->
  length (rs_C (rect_loop K inv leb fuel N topk mK mn tol2 s)) = N.
Proof.
  induction fuel as [|f IH]; intros s Hs; cbn [rect_loop]; [exact Hs|].
  destruct (rect_cond K leb mK mn tol2 s); [|exact Hs].
  apply IH. unfold rect_step. cbn [rs_C]. apply mtab_length.
Qed.

(* what the caller of py_rect_maxvol gets from a start state satisfying the invariant (fuel N as in the model) *)
Theorem rect_loop_final (s0 : rstate K) : rinv topk N s0 -> length (rs_C s0) = N -> (mK - rs_K s0 <= N)%nat ->
  let s := rect_loop K inv leb N N topk mK mn tol2 s0 in
  r_repro (rs_C s) (rs_index s) N (rs_K s) /\
  r_repro (set_identity K (rs_C s) (rs_index s) (rs_K s)) (rs_index s) N (rs_K s) /\
  inj_on (rs_index s) (rs_K s) /\
  (forall p, (p < rs_K s)%nat -> (nth p (rs_index s) O < topk)%nat) /\
  (rs_K s0 <= rs_K s <= Nat.max (rs_K s0) mK)%nat /\
  rect_cond K leb mK mn tol2 s = false /\
  ((rs_K s < mK)%nat -> forall t, (t < topk)%nat -> nth t (rs_chosen s) false = true ->
     leb (dotrow K (rs_C s) t t (rs_K s)) tol2 = true).
Proof.
  intros H0 HC0 Hfuel s.
  pose proof (rect_loop_C_length N s0 HC0) as HCl. fold s in HCl.
  pose proof (rect_loop_inv N s0 H0) as Hs. fold s in Hs.
  pose proof (rect_fuel_enough N topk mK mn tol2 Hmn N s0 Hfuel) as Hex. fold s in Hex.
  pose proof (rect_loop_K_bounds N topk mK mn tol2 Hmn N s0) as HKb. fold s in HKb.
  destruct Hs as (Hrep & Hrns & Hmask & Hinj & Hlen & Hi & Hlt).
  split; [exact Hrep|]. split.
  { apply set_identity_repro; [exact Hinj| |exact Hrep].
    intros p Hp. rewrite HCl. specialize (Hlt p Hp). lia. }
  split; [exact Hinj|]. split; [exact Hlt|]. split; [lia|]. split; [exact Hex|].
  intros HK t Ht Hc. apply (rect_exit_norms topk mK mn tol2 s Hsq Hex HK Hi Hrns t Ht Hc).
Qed.

End LoopInv.

End RectP.
