(* The right-to-left truncation sweep of round_tt at network level, with the retained cores as oracle answers:
   for ANY answers that are right-orthonormal (what truncated_svd(left_ortho=False) returns as `right`), the squared
   error of the whole sweep is exactly the sum of the squared Frobenius errors of the individual steps. *)
From TN Require Export Proofs.SandwichP.
From TN Require Export Proofs.RoundAlg.
Section Sweep.
Variable K : Ops.
Hypothesis Kth : laws K.
Add Ring Kring : Kth.
Local Open Scope K_scope.
Notation net := (list (score K)).

(* left factor L = M R^T of a step (p: left bond of the core, a: new bond) *)
Definition projL (c r : score K) : nat -> nat -> K :=
  fun p a => sumn (dm c) (fun i => sumn (rr c) (fun q => sl c i p q * sl r i a q)).
(* L R as a core in the place of c *)
Definition lr (c r : score K) : score K :=
  mkScore (rl c) (rr c) (dm c) (fun i p q => sumn (rl r) (fun a => projL c r p a * sl r i a q)).
Definition step_ok (c r : score K) : Prop := dm r = dm c /\ rr r = rr c /\ right_orthonormal r.

(* the error core E = c - L R is row-orthogonal to R *)
Lemma err_orth (c r : score K) : step_ok c r -> forall p a', (a' < rl r)%nat ->
  sumn (dm (csub K c (lr c r))) (fun i => sumn (rr (csub K c (lr c r))) (fun q => sl (csub K c (lr c r)) i p q * sl r i a' q)) = 0.
Proof.
  intros (Hd & Hr & Ho) p a' Ha'. cbn [csub lr dm rr sl].
  set (L := projL c r p).
  transitivity (sumn (dm c) (fun i => sumn (rr c) (fun q => sl c i p q * sl r i a' q)) -
                sumn (rl r) (fun a => L a * sumn (dm c) (fun i => sumn (rr c) (fun q => sl r i a q * sl r i a' q)))).
  - rewrite (sumn_ext (rl r) _ (fun a => sumn (dm c) (fun i => sumn (rr c) (fun q => L a * (sl r i a q * sl r i a' q))))).
    2:{ intros a _. rewrite <- (sumn_mul_l Kth). apply sumn_ext. intros i _. rewrite (sumn_mul_l Kth). reflexivity. }
    rewrite (sumn_exch Kth (rl r) (dm c)). rewrite <- (sumn_sub Kth). apply sumn_ext. intros i _.
    rewrite (sumn_exch Kth (rl r) (rr c)). rewrite <- (sumn_sub Kth). apply sumn_ext. intros q _.
    transitivity (sl c i p q * sl r i a' q - sumn (rl r) (fun a => L a * sl r i a q) * sl r i a' q); [ring|].
    f_equal. rewrite <- (sumn_mul_r Kth). apply sumn_ext. intros; ring.
  - rewrite (sumn_ext (rl r) _ (fun a => L a * delta a a')).
    2:{ intros a Ha. rewrite <- Hd, <- Hr. rewrite (Ho a a' Ha Ha'). reflexivity. }
    rewrite (sumn_delta_r Kth) by exact Ha'. unfold L, projL. ring.
Qed.

(* ---------- the sweep ---------- *)
Fixpoint sweep (revpre : net) (c : score K) (suf : net) (rs : list (score K)) : net :=
  match revpre, rs with
  | prev :: revpre', r :: rs' => sweep revpre' (rmulM prev (projL c r) (rl r)) (r :: suf) rs'
  | _, _ => rev revpre ++ c :: suf
  end.
Fixpoint step_errs (revpre : net) (c : score K) (rs : list (score K)) : list K :=
  match revpre, rs with
  | prev :: revpre', r :: rs' => frob K (csub K c (lr c r)) :: step_errs revpre' (rmulM prev (projL c r) (rl r)) rs'
  | _, _ => []
  end.
Fixpoint steps_ok (revpre : net) (c : score K) (rs : list (score K)) : Prop :=
  match revpre, rs with
  | prev :: revpre', r :: rs' => step_ok c r /\ steps_ok revpre' (rmulM prev (projL c r) (rl r)) rs'
  | _, _ => True
  end.
(* the cores to the left, nearest first: left-orthonormal, bonds matching, outermost left bond 1 *)
Fixpoint lgauge (revpre : net) (rend : nat) : Prop :=
  match revpre with
  | [] => rend = 1%nat
  | prev :: rp' => rr prev = rend /\ left_orthonormal prev /\ lgauge rp' (rl prev)
  end.
Fixpoint sumK (l : list K) : K := match l with [] => 0 | x :: t => x + sumK t end.

Lemma lchain_snoc (pre : net) : forall r (a : score K), lchain K r pre -> rl a = last_rr r pre -> left_orthonormal a ->
  lchain K r (pre ++ [a]).
Proof.
  induction pre as [|b pre IH]; intros r a Hl Ha Ho; cbn in *; [auto|].
  destruct Hl as (H1 & H2 & H3). repeat split; auto.
Qed.
Lemma last_rr_snoc (pre : net) r (a : score K) : last_rr r (pre ++ [a]) = rr a.
Proof. unfold last_rr. rewrite fold_left_app. reflexivity. Qed.
Lemma wfpre_snoc (pre : net) : forall r0 rend (a : score K), wfpre K r0 pre rend -> rl a = rend -> wfpre K r0 (pre ++ [a]) (rr a).
Proof.
  induction pre as [|b pre IH]; intros r0 rend a Hw Ha; cbn in *; [subst; auto|].
  destruct Hw as [H1 H2]. split; auto. eapply IH; eauto.
Qed.
Lemma lgauge_spec (rp : net) : forall rend, lgauge rp rend ->
  lchain K 1 (rev rp) /\ last_rr 1 (rev rp) = rend /\ wfpre K 1 (rev rp) rend.
Proof.
  induction rp as [|prev rp IH]; intros rend H; cbn in H.
  - subst. cbn. auto.
  - destruct H as (H1 & H2 & H3). destruct (IH _ H3) as (A & B & C). cbn [rev]. repeat split.
    + apply lchain_snoc; auto.
    + rewrite last_rr_snoc. exact H1.
    + rewrite <- H1. eapply wfpre_snoc; eauto.
Qed.

Lemma sshape_app (a b : net) : sshape (a ++ b) = sshape a ++ sshape b.
Proof. unfold sshape. apply map_app. Qed.

(* the final network keeps the suffix it was started with; shapes and bonds of the part in front of it *)
Lemma sweep_shape (rp : net) : forall c suf rs, wfpre K 1 (rev rp) (rl c) -> steps_ok rp c rs ->
  exists Yf, sweep rp c suf rs = Yf ++ suf /\ sshape Yf = sshape (rev rp ++ [c]) /\ wfpre K 1 Yf (rr c).
Proof.
  induction rp as [|prev rp IH]; intros c suf rs Hw Hs.
  - exists [c]. cbn in *. destruct rs; repeat split; auto.
  - destruct rs as [|r rs].
    + exists (rev (prev :: rp) ++ [c]). cbn [sweep]. rewrite <- app_assoc. repeat split; auto.
      eapply wfpre_snoc; eauto.
    + cbn [sweep]. cbn in Hs. destruct Hs as ((Hd & Hr & Ho) & Hs).
      set (c' := rmulM prev (projL c r) (rl r)) in *.
      (* bonds of the shorter prefix *)
      assert (Hw': wfpre K 1 (rev rp) (rl c') /\ rr prev = rl c).
      { cbn [rev] in Hw. clear - Hw. revert Hw. generalize (rev rp) as pre. generalize 1%nat as r0.
        intros r0 pre. revert r0. induction pre as [|b pre IHp]; intros r0 Hw; cbn in *.
        - destruct Hw as [H1 H2]. split; auto.
        - destruct Hw as [H1 H2]. destruct (IHp _ H2) as [A B]. split; auto. }
      destruct Hw' as [Hw' Hb].
      destruct (IH c' (r :: suf) rs Hw' Hs) as (Yf & E & S & W).
      exists (Yf ++ [r]). rewrite E, <- app_assoc. repeat split; auto.
      * rewrite sshape_app, S. cbn [rev]. rewrite !sshape_app. cbn [sshape map c' rmulM dm]. rewrite Hd.
        rewrite <- app_assoc. reflexivity.
      * rewrite <- Hr. eapply wfpre_snoc; eauto.
Qed.

(* ---------- entry-level facts about one step ---------- *)
Definition hdrl (x : net) : nat := match x with c :: _ => rl c | [] => O end.
Lemma eval_as_sum (x : net) idx : x <> [] -> eval x idx = sumn (hdrl x) (evalv x idx ones).
Proof. destruct x; [congruence|reflexivity]. Qed.
Lemma hdrl_app (pre : net) (a b : score K) s1 s2 : rl a = rl b -> hdrl (pre ++ a :: s1) = hdrl (pre ++ b :: s2).
Proof. destruct pre; cbn; auto. Qed.

Lemma split_idx (pre : net) (x : score K) (suf : net) (idx : list nat) : length idx = length (pre ++ x :: suf) ->
  exists idxp i idxs, idx = idxp ++ i :: idxs /\ length idxp = length pre.
Proof.
  intros Hl. rewrite app_length in Hl. cbn [length] in Hl.
  exists (firstn (length pre) idx). destruct (skipn (length pre) idx) as [|i idxs] eqn:E.
  - exfalso. assert (H := skipn_length (length pre) idx). rewrite E in H. cbn in H. lia.
  - exists i, idxs. split; [rewrite <- E; symmetry; apply firstn_skipn | apply firstn_length_le; lia].
Qed.

Lemma eval_core_difference (pre : net) (a b : score K) (suf : net) (idx : list nat) :
  rl a = rl b -> rr a = rr b -> length idx = length (pre ++ a :: suf) ->
  eval (pre ++ a :: suf) idx - eval (pre ++ b :: suf) idx = eval (pre ++ csub K a b :: suf) idx.
Proof.
  intros Hrl Hrr Hl. destruct (split_idx pre a suf idx Hl) as (idxp & i & idxs & -> & Hp).
  rewrite !eval_as_sum by (destruct pre; discriminate).
  rewrite (hdrl_app pre b a suf suf (eq_sym Hrl)), (hdrl_app pre (csub K a b) a suf suf eq_refl).
  rewrite <- (sumn_sub Kth). apply sumn_ext. intros p _. apply (core_difference K Kth); assumption.
Qed.

Lemma eval_regroup (pre : net) (prev c r : score K) (suf : net) (idx : list nat) :
  rr prev = rl c -> step_ok c r -> length idx = length (pre ++ prev :: c :: suf) ->
  eval (pre ++ rmulM prev (projL c r) (rl r) :: r :: suf) idx = eval (pre ++ prev :: lr c r :: suf) idx.
Proof.
  intros Hb (Hd & Hr & _) Hl. destruct (split_idx pre prev (c :: suf) idx Hl) as (idxp & i & idxs & -> & Hp).
  rewrite !eval_as_sum by (destruct pre; discriminate).
  rewrite (hdrl_app pre (rmulM prev (projL c r) (rl r)) prev (r :: suf) (lr c r :: suf) eq_refl).
  apply sumn_ext. intros p _. rewrite !(evalv_app K) by exact Hp. apply (evalv_ext_v K). intros p0.
  destruct idxs as [|j idxs].
  - exfalso. rewrite !app_length in Hl. cbn [length] in Hl. lia.
  - rewrite (L4_head K Kth). cbn [evalv lmulM lr rr sl rl]. rewrite Hr. reflexivity.
Qed.

(* ---------- the error of the whole sweep ---------- *)
Lemma in_range_len_app (x : net) idx : in_range (sshape x) idx = true -> length idx = length x.
Proof. intros H. rewrite (in_range_length _ _ H). unfold sshape. apply map_length. Qed.

Theorem sweep_error (rp : net) : forall (c : score K) (suf : net) (rs : list (score K)),
  lgauge rp (rl c) -> rchain K (rr c) suf -> steps_ok rp c rs ->
  let T0 := rev rp ++ c :: suf in
  sumidx (sshape T0) (fun idx => (eval T0 idx - eval (sweep rp c suf rs) idx) * (eval T0 idx - eval (sweep rp c suf rs) idx))
  = sumK (step_errs rp c rs).
Proof.
  induction rp as [|prev rp IH]; intros c suf rs Hg Hc Hs T0.
  - subst T0. cbn [sweep step_errs sumK]. destruct rs; cbn [sweep];
      (rewrite (sumidx_ext _ _ (fun _ => 0)) by (intros; ring); apply (sumidx_zero Kth)).
  - destruct rs as [|r rs].
    + subst T0. cbn [sweep step_errs sumK]. rewrite (sumidx_ext _ _ (fun _ => 0)) by (intros; ring). apply (sumidx_zero Kth).
    + cbn [sweep step_errs sumK]. cbn in Hs. destruct Hs as (Hok & Hs). pose proof Hok as (Hd & Hr & Ho).
      cbn in Hg. destruct Hg as (Hb & Hlo & Hg').
      set (c' := rmulM prev (projL c r) (rl r)) in *. set (E := csub K c (lr c r)).
      set (T1 := rev rp ++ c' :: r :: suf). set (Tf := sweep rp c' (r :: suf) rs).
      set (Dn := rev rp ++ prev :: E :: suf).
      assert (HT0: T0 = rev rp ++ prev :: c :: suf) by (unfold T0; cbn [rev]; rewrite <- app_assoc; reflexivity).
      assert (Hsh1: sshape T1 = sshape T0).
      { rewrite HT0. unfold T1. rewrite !sshape_app. cbn [sshape map c' rmulM dm]. rewrite Hd. reflexivity. }
      assert (HshD: sshape Dn = sshape T0) by (rewrite HT0; unfold Dn; rewrite !sshape_app; reflexivity).
      destruct (lgauge_spec rp (rl prev) Hg') as (Lc & Lb & Lw).
      (* gauge of the shorter problem *)
      assert (Hg1: lgauge rp (rl c')) by exact Hg'.
      assert (Hc1: rchain K (rr c') (r :: suf)).
      { cbn [c' rmulM rr rchain]. repeat split; auto. rewrite Hr. exact Hc. }
      specialize (IH c' (r :: suf) rs Hg1 Hc1 Hs). cbv zeta in IH. fold T1 Tf in IH.
      (* the first step's change is the network Dn; its norm is the Frobenius norm of E *)
      assert (HD: forall idx, in_range (sshape T0) idx = true -> eval T0 idx - eval T1 idx = eval Dn idx).
      { intros idx Hin. pose proof (in_range_len_app T0 idx Hin) as Hl.
        unfold T1, c'. rewrite (eval_regroup (rev rp) prev c r suf idx (eq_trans Hb eq_refl) Hok) by (rewrite <- HT0; exact Hl).
        rewrite HT0. change (rev rp ++ prev :: c :: suf) with (rev rp ++ [prev] ++ c :: suf).
        change (rev rp ++ prev :: lr c r :: suf) with (rev rp ++ [prev] ++ lr c r :: suf).
        rewrite !app_assoc. unfold Dn. change (rev rp ++ prev :: E :: suf) with (rev rp ++ [prev] ++ E :: suf).
        rewrite app_assoc. apply eval_core_difference; [reflexivity | reflexivity |].
        rewrite <- app_assoc. cbn [app]. rewrite <- HT0. exact Hl. }
      assert (HnD: sumidx (sshape T0) (fun idx => eval Dn idx * eval Dn idx) = frob K E).
      { rewrite <- HshD. unfold Dn. change (rev rp ++ prev :: E :: suf) with (rev rp ++ [prev] ++ E :: suf).
        rewrite app_assoc. change (rev rp ++ [prev]) with (rev (prev :: rp)).
        assert (Hgf: lgauge (prev :: rp) (rl c)) by (cbn; auto).
        destruct (lgauge_spec (prev :: rp) (rl c) Hgf) as (A & B & _).
        apply (sandwich_norm K Kth); auto. }
      (* orthogonality of Dn to T1 and to the final network *)
      assert (Hgf: lgauge (prev :: rp) (rl c)) by (cbn; auto).
      destruct (lgauge_spec (prev :: rp) (rl c) Hgf) as (_ & _ & Wfull).
      assert (HE: forall p a', (p < rl E)%nat -> (a' < rl r)%nat ->
                sumn (dm E) (fun i => sumn (rr E) (fun q => sl E i p q * sl r i a' q)) = 0).
      { intros p a' _ Ha'. apply err_orth; assumption. }
      assert (Ho1: sumidx (sshape T0) (fun idx => eval Dn idx * eval T1 idx) = 0).
      { rewrite <- HshD. unfold Dn, T1.
        change (rev rp ++ prev :: E :: suf) with (rev rp ++ [prev] ++ E :: suf). rewrite app_assoc.
        change (rev rp ++ c' :: r :: suf) with (rev rp ++ [c'] ++ r :: suf). rewrite (app_assoc (rev rp) [c']).
        apply (orthogonal_steps K Kth (rev rp ++ [prev]) (rev rp ++ [c']) E r suf).
        - unfold same_dims. rewrite !sshape_app. reflexivity.
        - exact Wfull.
        - replace (rl r) with (rr c') by reflexivity. eapply wfpre_snoc; eauto.
        - cbn [E csub dm]. symmetry; exact Hd.
        - cbn [E csub rr]. symmetry; exact Hr.
        - cbn [E csub rr]. exact Hc.
        - exact HE. }
      assert (Ho2: sumidx (sshape T0) (fun idx => eval Dn idx * eval Tf idx) = 0).
      { destruct (sweep_shape rp c' (r :: suf) rs Lw Hs) as (Yf & EY & SY & WY). unfold Tf. rewrite EY.
        rewrite <- HshD. unfold Dn.
        change (rev rp ++ prev :: E :: suf) with (rev rp ++ [prev] ++ E :: suf). rewrite app_assoc.
        apply (orthogonal_steps K Kth (rev rp ++ [prev]) Yf E r suf).
        - unfold same_dims. rewrite SY, !sshape_app. reflexivity.
        - exact Wfull.
        - exact WY.
        - cbn [E csub dm]. symmetry; exact Hd.
        - cbn [E csub rr]. symmetry; exact Hr.
        - cbn [E csub rr]. exact Hc.
        - exact HE. }
      (* put together *)
      rewrite (sumidx_ext_range K (sshape T0) _ (fun idx => eval Dn idx * eval Dn idx
            + ((eval Dn idx * eval T1 idx - eval Dn idx * eval Tf idx) + (eval Dn idx * eval T1 idx - eval Dn idx * eval Tf idx))
            + (eval T1 idx - eval Tf idx) * (eval T1 idx - eval Tf idx))).
      2:{ intros idx Hin. rewrite <- (HD idx Hin). ring. }
      rewrite Hsh1 in IH. rewrite !(sumidx_add Kth). rewrite HnD, IH.
      assert (Hz: sumidx (sshape T0) (fun idx => eval Dn idx * eval T1 idx - eval Dn idx * eval Tf idx) = 0).
      { rewrite (sumidx_ext _ _ (fun idx => eval Dn idx * eval T1 idx + (- (1)) * (eval Dn idx * eval Tf idx))) by (intros; ring).
        rewrite (sumidx_add Kth), (sumidx_mul_l Kth), Ho1, Ho2. ring. }
      rewrite Hz. fold E. ring.
Qed.
End Sweep.
