(* The hypotheses of GenP's MeanDimension section discharged by the kernel theorems over the reals: the generated
   anova.mean_dimension (both variants) is thereby a theorem about (model kernels o generated composition). *)
From TN Require Import Alg.InstR Proofs.ArithP Proofs.DotP Proofs.AnovaP Proofs.SobolP Proofs.AutomataP Proofs.GenP Proofs.GenInst Gen.Generated.
From Coq Require Import Reals Lra.

Section GenSobolInst.
Variable sh : list nat.                    (* shape of the tensor *)
Hypothesis sh_ne : sh <> [].
Notation net := (list (score RO)).
Notation N := (length sh).
Notation sub := (repeat 2%nat N).
Open Scope R_scope.

Definition okT (cs : net) : Prop := good RO cs /\ sshape cs = sh.
Definition okM (m : net) : Prop := good RO m /\ sshape m = sub.
(* marginals: one normalised weight vector per mode *)
Definition margT := { ws : list (nat -> car RO) | length ws = N }.
Definition r_sobol (t m : net) (g : margT) : R :=
  match sobol_parts (K:=RO) (proj1_sig g) m t with Some (n, d) => n / d | None => 0 end.
Definition r_weight (n : nat) : net := weight_net (K:=RO) (repeat 2%nat n).
Definition r_maskmul (a b : net) : net := r_mul a b.
Definition r_dim (t : net) : nat := length t.
Definition r_comp (t : net) (g : margT) (al : list nat) : R :=
  component RO (proj1_sig g) (map S (sshape t)) (eval (anova_net (K:=RO) (proj1_sig g) t)) (length t) al.
Definition r_wsize (al : list nat) : R := INR (sumlist al).

Lemma len_okT t : okT t -> length t = N.
Proof. intros [_ S]. rewrite <- (sshape_length RO), S. reflexivity. Qed.
Lemma len_okM m : okM m -> length m = N.
Proof. intros [_ S]. rewrite <- (sshape_length RO), S. apply repeat_length. Qed.

Lemma good_hd (a : net) : good RO a -> a <> [] /\ chain (hd_rl RO a) a = true.
Proof. intros H; exact H. Qed.

Lemma add_net_defined (a b : net) : sshape a = sshape b -> exists c, add_net a b = Some c.
Proof.
  intros H. destruct (bcast_defined RO a b (sshape a)) as (a' & b' & E); [rewrite <- H; apply bshape_same|].
  unfold add_net. rewrite E. eexists; reflexivity.
Qed.
Lemma mul_net_defined (a b : net) : sshape a = sshape b -> exists c, mul_net a b = Some c.
Proof.
  intros H. destruct (bcast_defined RO a b (sshape a)) as (a' & b' & E); [rewrite <- H; apply bshape_same|].
  unfold mul_net. rewrite E. eexists; reflexivity.
Qed.
Lemma good_smul (phis : list (car RO)) (a : net) : good RO a -> good RO (smul_net phis a) /\ sshape (smul_net phis a) = sshape a.
Proof.
  intros [Hn Hc]. destruct (smul_net_shape RO phis a) as (S & L & H & C). split; [split|exact S].
  - destruct a; [congruence|]. destruct phis; cbn; discriminate.
  - rewrite H, C. exact Hc.
Qed.

(* sobol_parts is defined on well-formed operands *)
Lemma sobol_parts_defined t m (g : margT) : okT t -> okM m -> exists n d, sobol_parts (K:=RO) (proj1_sig g) m t = Some (n, d).
Proof.
  intros Ht Hm. destruct g as [ws Hw]. cbn [proj1_sig]. pose proof (len_okT t Ht) as Lt. pose proof (len_okM m Hm) as Lm.
  destruct Ht as [Gt St]. destruct Hm as [Gm Sm].
  assert (Ga0: good RO (anova_net ws t) /\ sshape (anova_net ws t) = map (fun c => S (dm c)) t).
  { rewrite (anova_is_lin_all RO) by lia. rewrite <- (lin_modes_is_all RO).
    apply (good_lin_modes RO); rewrite ?map_length; auto; lia. }
  destruct Ga0 as [Ga0 Sa0].
  assert (Hne: sshape (anova_net ws t) <> []) by (rewrite Sa0; destruct t; [destruct Gt; congruence|discriminate]).
  destruct (origin_sound RO RO_laws _ Hne) as (Go & So & _).
  unfold sobol_parts, sobol_nets, centre.
  match goal with |- context [add_net (anova_net ws t) ?Y0] => set (Y := Y0) end.
  assert (GY: good RO Y /\ sshape Y = sshape (anova_net ws t)).
  { subst Y. destruct (good_smul (first_scaled (K:=RO) (neg1 * eval (anova_net ws t) (zeros (length (anova_net ws t))))%K (length (anova_net ws t)))
                         (origin_net (sshape (anova_net ws t))) Go) as [G S]. split; [exact G|]. rewrite S. exact So. }
  destruct GY as [GY SY].
  destruct (add_net_defined (anova_net ws t) Y (eq_sym SY)) as [a Ea]. rewrite Ea. cbn [obind2].
  destruct (add_net_sound RO RO_laws _ _ _ Ga0 GY Ea) as (Ga & Ba & _).
  rewrite SY, bshape_same in Ba. injection Ba as Sa. symmetry in Sa. rewrite Sa0 in Sa.
  assert (La: length a = length t) by (rewrite <- (sshape_length RO), Sa; apply map_length).
  assert (Sam: sshape (weighted ws a) = sshape a).
  { unfold weighted. apply (good_lin_modes RO); rewrite ?map_length, ?(sshape_length RO); auto; lia. }
  assert (Sme: sshape (mask_ext m (sshape a)) = sshape a).
  { unfold mask_ext. apply (good_lin_modes RO); rewrite ?map_length, ?(sshape_length RO); auto; lia. }
  destruct (mul_net_defined (weighted ws a) (mask_ext m (sshape a))) as [amm Em]; [congruence|].
  rewrite Em. cbn [obind2]. eexists _, _. reflexivity.
Qed.

(* H_sobol: the Sobol index as the mask-weighted share of the variance components *)
Lemma okT_sobol t m (g : margT) : okT t -> okM m ->
  r_sobol t m g = sumR sub (fun al => eval m al * r_comp t g al) / sumR sub (r_comp t g).
Proof.
  intros Ht Hm. destruct (sobol_parts_defined t m g Ht Hm) as (n & d & E). unfold r_sobol. rewrite E.
  pose proof (len_okT t Ht) as Lt. pose proof (len_okM m Hm) as Lm.
  destruct g as [ws Hw]. cbn [proj1_sig] in *. destruct Ht as [Gt St]. destruct Hm as [Gm Sm].
  destruct (sobol_parts_sound RO RO_laws ws m t n d Gt Gm ltac:(lia) ltac:(lia) ltac:(rewrite Sm, Lm; reflexivity) E) as [En Ed].
  cbv zeta in En, Ed. unfold r_comp. cbn [proj1_sig].
  replace (map (fun c : score RO => S (dm c)) t) with (map S (sshape t)) in En, Ed by (unfold sshape; rewrite map_map; reflexivity).
  rewrite (sobol_num_by_subsets RO RO_laws ws (sshape t) _ (eval m) (length t)) in En.
  rewrite (sobol_den_by_subsets RO RO_laws ws (sshape t) _ (length t)) in Ed.
  rewrite (sshape_length RO) in En, Ed. rewrite En, Ed, Lt. reflexivity.
Qed.

Lemma of_nat_INR n : of_nat (K:=RO) n = INR n.
Proof. induction n as [|n IH]; [reflexivity|]. cbn [of_nat]. rewrite IH, S_INR. reflexivity. Qed.

Lemma chain_weight_tail (l : list nat) : forall ns, chain 2 (weight_tail (K:=RO) (ns :: l)) = true.
Proof. induction l as [|x l IH]; intros ns; [reflexivity|]. cbn [weight_tail chain acc_core rl rr Nat.eqb andb]. apply IH. Qed.
Lemma sshape_weight_tail (l : list nat) : sshape (weight_tail (K:=RO) l) = l.
Proof. induction l as [|x l IH]; [reflexivity|]. destruct l as [|y l]; [reflexivity|].
  cbn [weight_tail sshape map acc_core dm]. f_equal. exact IH. Qed.
Lemma good_weight n : (0 < n)%nat -> good RO (r_weight n) /\ sshape (r_weight n) = repeat 2%nat n.
Proof.
  intros Hn. unfold r_weight. destruct n as [|n]; [lia|]. cbn [repeat weight_net].
  destruct n as [|n].
  - cbn. split; [split; [discriminate|reflexivity]|reflexivity].
  - cbn [repeat]. split.
    + split; [discriminate|]. cbn [hd_rl acc_first rl chain rr Nat.eqb andb]. apply chain_weight_tail.
    + cbn [sshape map acc_first dm]. f_equal. apply sshape_weight_tail.
Qed.

Lemma N_pos : (0 < N)%nat.
Proof. destruct sh; [congruence|cbn; lia]. Qed.

(* H_weight: tn.weight(t.dim()) is a well-formed mask whose entry at a subset is its size *)
Lemma okM_weight t : okT t ->
  okM (r_weight (r_dim t)) /\ forall al, in_range sub al = true -> eval (r_weight (r_dim t)) al = r_wsize al.
Proof.
  intros Ht. unfold r_dim. rewrite (len_okT t Ht). destruct (good_weight N N_pos) as [G S]. split; [split; assumption|].
  intros al Hal. unfold r_weight, r_wsize. rewrite (weight_sound RO RO_laws).
  - apply of_nat_INR.
  - pose proof N_pos. destruct N; [lia|discriminate].
  - apply (in_range_length _ _ Hal).
Qed.
(* H_mask: tn.mask of two 2^N masks is their entrywise product *)
Lemma okM_mask a b : okM a -> okM b ->
  okM (r_maskmul a b) /\ forall al, in_range sub al = true -> eval (r_maskmul a b) al = eval a al * eval b al.
Proof. intros Ha Hb. exact (okR_mul sub a b Ha Hb). Qed.

(* the generated mean_dimension, instantiated with the kernel models *)
Theorem mean_dimension_spec t (g : margT) : okT t ->
  gen_anova_mean_dimension_N net margT r_sobol r_weight r_dim t g =
  sumR sub (fun al => r_wsize al * r_comp t g al) / sumR sub (r_comp t g).
Proof.
  intros Ht.
  apply (gen_mean_dimension_spec net (@eval RO) okT margT r_sobol r_weight r_dim sub okM r_comp r_wsize); auto.
  - intros; apply okT_sobol; assumption.
  - intros; apply okM_weight; assumption.
Qed.
Theorem mean_dimension_masked_spec t m (g : margT) : okT t -> okM m ->
  sumR sub (r_comp t g) <> 0 -> sumR sub (fun al => eval m al * r_comp t g al) <> 0 ->
  gen_anova_mean_dimension_M net margT r_sobol r_weight r_maskmul r_dim t m g =
  sumR sub (fun al => r_wsize al * (eval m al * r_comp t g al)) / sumR sub (fun al => eval m al * r_comp t g al).
Proof.
  intros Ht Hm H0 H1.
  apply (gen_mean_dimension_masked_spec net (@eval RO) okT margT r_sobol r_weight r_maskmul r_dim sub okM r_comp r_wsize); auto.
  - intros; apply okT_sobol; assumption.
  - intros; apply okM_weight; assumption.
  - intros; apply okM_mask; assumption.
Qed.
End GenSobolInst.
