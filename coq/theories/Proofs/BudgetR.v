(* Error-budget arithmetic of round_tt / round_tucker / round, over the real numbers.
   Axioms: those of Coq's Reals library (named by Print Assumptions in Properties/C04.v). *)
From Coq Require Import Reals Lra List.
Local Open Scope R_scope.

(* round_tt: delta = eps / max(1, sqrt(N-1)) * nrm, one truncation per bond (n = N-1 of them), each discarding
   at most delta^2 of squared energy: the squared budgets add up to at most (eps*nrm)^2. *)
Definition tt_delta (eps nrm : R) (n : nat) : R := eps / Rmax 1 (sqrt (INR n)) * nrm.

Theorem tt_budget (eps nrm : R) (n : nat) : INR n * (tt_delta eps nrm n)² <= (eps * nrm)².
Proof.
  unfold tt_delta. set (m := Rmax 1 (sqrt (INR n))).
  assert (Hm1 : 1 <= m) by apply Rmax_l.
  assert (Hn : INR n <= m²).
  { destruct (Rle_dec 1 (sqrt (INR n))) as [H|H].
    - unfold m. rewrite Rmax_right by exact H. rewrite Rsqr_sqrt; [lra | apply pos_INR].
    - assert (H1: sqrt (INR n) < 1) by lra. unfold m. rewrite Rmax_left by lra.
      assert (INR n < 1). { apply sqrt_lt_0_alt. rewrite sqrt_1. exact H1. } unfold Rsqr. lra. }
  assert (Hm : m <> 0) by lra.
  replace ((eps / m * nrm)²) with ((eps * nrm)² / m²) by (unfold Rsqr; field; exact Hm).
  assert (H0 : 0 <= (eps * nrm)²) by apply Rle_0_sqr.
  assert (Hm2 : 0 < m²). { unfold Rsqr. nra. }
  unfold Rdiv. rewrite <- Rmult_assoc, (Rmult_comm (INR n)), Rmult_assoc.
  rewrite <- (Rmult_1_r ((eps * nrm)²)) at 2. apply Rmult_le_compat_l; [exact H0|].
  apply (Rmult_le_reg_r (m²)); [exact Hm2|]. rewrite Rmult_assoc, Rinv_l by lra. lra.
Qed.

(* round_tucker: each of the N factors is truncated with relative budget eps / sqrt(N) *)
Theorem tucker_budget (eps nrm : R) (n : nat) : (0 < n)%nat -> INR n * (eps / sqrt (INR n) * nrm)² = (eps * nrm)².
Proof.
  intros Hn. assert (H : 0 < INR n) by (apply lt_0_INR; exact Hn).
  assert (Hs : 0 < sqrt (INR n)) by (apply sqrt_lt_R0; exact H).
  replace ((eps / sqrt (INR n) * nrm)²) with ((eps * nrm)² / (sqrt (INR n))²) by (unfold Rsqr; field; lra).
  rewrite Rsqr_sqrt by lra. field. lra.
Qed.

(* round: after round_tt reached a relative error `reached` < eps, round_tucker is given e2 = (1+eps)/(1+reached) - 1.
   a = |A|, b = |B| (after round_tt), dab = |A - B|, dbc = |B - C| (C after round_tucker). *)
Definition tucker_eps (eps reached : R) : R := (1 + eps) / (1 + reached) - 1.

Theorem round_budget_positive (eps reached : R) : 0 <= reached -> reached < eps -> 0 < tucker_eps eps reached.
Proof.
  intros H0 H1. unfold tucker_eps. assert (0 < 1 + reached) by lra.
  apply Rlt_Rminus. apply (Rmult_lt_reg_r (1 + reached)); [lra|]. unfold Rdiv.
  rewrite Rmult_assoc, Rinv_l by lra. lra.
Qed.

Theorem round_budget (eps reached a b dab dbc : R) :
  0 <= reached -> reached < eps -> 0 <= a ->
  dab <= reached * a ->                      (* what round_tt reached (measured by relative_error) *)
  b <= a + dab ->                            (* triangle inequality *)
  dbc <= tucker_eps eps reached * b ->       (* what round_tucker is allowed *)
  dab + dbc <= eps * a.                      (* |A - C| <= |A - B| + |B - C| stays within eps |A| *)
Proof.
  intros H0 H1 Ha Hab Hb Hbc. pose proof (round_budget_positive eps reached H0 H1) as He.
  assert (Hb2 : b <= (1 + reached) * a) by lra.
  assert (Hbc2 : dbc <= tucker_eps eps reached * ((1 + reached) * a)).
  { eapply Rle_trans; [exact Hbc|]. apply Rmult_le_compat_l; lra. }
  assert (Hk : tucker_eps eps reached * (1 + reached) = eps - reached).
  { unfold tucker_eps. field. lra. }
  rewrite <- Rmult_assoc, Hk in Hbc2. lra.
Qed.

(* n truncation steps, each discarding at most delta^2 of squared energy, pairwise orthogonal (so that the squares add):
   the total stays within (eps |t|)^2 *)
Theorem steps_within_budget (es : list R) (eps nrm : R) :
  Forall (fun e => e <= (tt_delta eps nrm (length es))²) es -> fold_right Rplus 0 es <= (eps * nrm)².
Proof.
  intros H. eapply Rle_trans; [|apply (tt_budget eps nrm (length es))].
  set (d := (tt_delta eps nrm (length es))²) in *. clearbody d.
  induction es as [|e es IH]; [cbn; lra|].
  inversion H as [|x l H1 H2]; subst x l. cbn [fold_right length]. rewrite S_INR. specialize (IH H2). lra.
Qed.
