"""C12: array-manipulation and creation routines match their NumPy/PyTorch counterparts.

Every case is {"op", "ts": [explicit tensors], plain-JSON arguments, "tags"}.  run() calls the tntorch routine and
decompresses the result(s); expected() performs the corresponding NumPy operation on lib.dense_np of the operands (torch for
arange/linspace/logspace, which the property defines as "match PyTorch").

Conventions fixed by DESIGN.md (C12) / the docstrings, not by the property text:
  * Tensor.repeat(*rep) with len(rep) > N adds the new modes at the END (np.tile of x[..., None, ...]); PyTorch would put
    them in front.
  * ttm(t, U, dim): U has shape J x I_dim (I_dim x J with transpose=True); a vector factor is a 1 x I_dim matrix, i.e. the
    mode is kept with size 1.
  * meshgrid uses 'ij' indexing; an integer axis n means arange(n).
  * reduce(ts, f) is the left fold of an associative f (eps=0: the intermediate tn.round calls only cost 1e-6 tolerance).
  * pad(t, shape, dim, fill_value): entries outside the original block equal fill_value.
  * rand/randn: a TT mode n has a core r_n x S_n x r_{n+1}, a CP mode a core S_n x R, S_n = Tucker rank or the mode size,
    the factor of a mode with Tucker rank is I_n x S_n; with Tucker ranks only, the TT ranks are the full ones
    min(prod S[:n], prod S[n:]).
"""
from lib import *

TOL = 1e-9
TOL_SVD = 1e-6


# --------------------------------------------------------------------------- dense specification

def aslist(d, N):
    if d is None:
        return list(range(N))
    return [d] if isinstance(d, int) else list(d)


def spec_ttm(x, Us, dim, transpose):
    N = x.ndim
    dims = list(range(len(Us))) if dim is None else aslist(dim, N)
    for U, d in zip(Us, dims):
        M = np.array(U, dtype=np.float64)
        if M.ndim == 1:
            M = M[None, :]
        elif transpose:
            M = M.T
        d = d % N
        x = np.moveaxis(np.tensordot(M, x, axes=(1, d)), 0, d)
    return x


def rand_spec(shape, rtt, rcp, rtk):
    """expected core / factor shapes of tn.rand(shape, ranks_tt=rtt, ranks_cp=rcp, ranks_tucker=rtk)"""
    N = len(shape)
    tk = list(rtk) if isinstance(rtk, list) else [rtk] * N
    S = [shape[n] if tk[n] is None else tk[n] for n in range(N)]
    if rtt is None and rcp is None:
        rtt = [min(int(np.prod(S[:n])), int(np.prod(S[n:]))) for n in range(1, N)]
    tt = list(rtt) if isinstance(rtt, list) else [rtt] * (N - 1)
    cp = list(rcp) if isinstance(rcp, list) else [rcp] * N
    b = [None] + tt + [None]
    for n in range(N):
        if cp[n] is not None:
            b[n] = cp[n]; b[n + 1] = cp[n]
    if b[0] is None:
        b[0] = 1
    if b[N] is None:
        b[N] = 1
    cores = [[S[n], cp[n]] if cp[n] is not None else [b[n], S[n], b[n + 1]] for n in range(N)]
    Us = [None if tk[n] is None else [shape[n], tk[n]] for n in range(N)]
    return cores, Us


def spec(case):
    """-> list of dense arrays (one per returned tensor) or a dict for the creation routines"""
    op = case["op"]
    xs = [dense_np(t) for t in case.get("ts", [])]
    x = xs[0] if xs else None
    N = x.ndim if xs else None
    if op == "cat":
        return [np.concatenate(xs, axis=case["dim"])]
    if op == "flip":
        return [np.flip(x, axis=tuple(d % N for d in aslist(case["dim"], N)))]
    if op == "transpose":
        return [x.transpose(list(range(N - 1, -1, -1)))]
    if op == "cumsum":
        for d in aslist(case["dim"], N):
            x = np.cumsum(x, axis=d)
        return [x]
    if op == "repeat":
        rep = case["rep"]
        return [np.tile(x.reshape(list(x.shape) + [1] * (len(rep) - N)), rep)]
    if op == "pad":
        dims = [d % N for d in aslist(case["dim"], N)]
        sh = case["shape"] if isinstance(case["shape"], list) else [case["shape"]] * len(dims)
        new = list(x.shape)
        for d, s in zip(dims, sh):
            new[d] = s
        out = np.full(new, float(case["fill"]))
        out[tuple(slice(0, s) for s in x.shape)] = x
        return [out]
    if op == "ttm":
        return [spec_ttm(x, case["U"], case["dim"], case["transpose"])]
    if op == "mask":
        return [xs[0] * xs[1]]
    if op == "mask_after":         # mask applied to the result of a resizing operation (its index annotation must follow)
        pre = case["pre"]
        if pre[0] == "repeat":
            y = np.tile(xs[0], pre[1])
        elif pre[0] == "pad":
            y = np.zeros([xs[0].shape[n] + pre[1][n] for n in range(N)]); y[tuple(slice(0, sz) for sz in xs[0].shape)] = xs[0]
        else:
            y = spec_ttm(xs[0], [pre[1]], [pre[2]], False)
        return [y * xs[1]]
    if op == "reduce":
        acc = xs[0]
        for y in xs[1:]:
            acc = {"add": lambda a, b: a + b, "mul": lambda a, b: a * b,
                   "cat": lambda a, b: np.concatenate([a, b], axis=case["dim"])}[case["fn"]](acc, y)
        return [acc]
    if op == "unbind":
        d = case["dim"] % N
        return [np.take(x, i, axis=d) for i in range(x.shape[d])]
    if op == "meshgrid":
        vs = [np.arange(a["n"], dtype=np.float64) if "n" in a else np.array(a["v"], dtype=np.float64) for a in case["axes"]]
        return [g for g in np.meshgrid(*vs, indexing="ij")]
    if op in ("ones", "zeros", "full", "ones_like", "zeros_like", "full_like"):
        shape = case["shape"] if not op.endswith("_like") else list(x.shape)
        c = {"ones": 1.0, "zeros": 0.0}.get(op.replace("_like", ""), case.get("fill"))
        return [np.full(shape, float(c))]
    if op == "eye":
        return [np.eye(case["n"], case["n"] if case.get("m") is None else case["m"])]
    if op in ("arange", "linspace", "logspace"):
        f = getattr(torch, op)
        kw = {"dtype": torch.float64} if op == "arange" else {}
        return [f(*case["args"], **kw).double().numpy()]
    raise ValueError(op)


# --------------------------------------------------------------------------- generator helpers

def imat(rng, r, c, lo=-2, hi=2):
    return [[rng.randint(lo, hi) for _ in range(c)] for _ in range(r)]


def ivec(rng, n, lo=-2, hi=3):
    return [rng.randint(lo, hi) for _ in range(n)]


class Prop:
    ID = "C12"
    LEVEL = "proof"
    COQ_HEADER = "From TN Require Import Harness.H_C12.\nOpen Scope Z_scope.\n"
    CHECK_FN = "check"
    RULE = ("per routine: the format ({TT,CP}x{U,no U}) of the affected mode enumerated at first/middle/last position with "
            "random formats elsewhere, then seeded tensors with 1..4 modes, sizes 1..3(4), ranks 1..3 (above the mode size "
            "included), zero tensors; every mode argument incl. negative, int/list/None forms; cat/reduce with 1..5 operands of "
            "mixed formats and unequal sizes along dim; pad with fill in {0, 2, -1.5} on any subset of modes; ttm with matrix/"
            "vector factors, transpose, unsorted and negative dims; repeat with trailing new modes; meshgrid from ints/vectors in "
            "list and varargs form; creation routines over shapes 1..4 modes, eye n,m in 1..5, arange/linspace/logspace argument "
            "lists, gaussian with scalar/list sigma_factor, rand/randn/*_like over every TT/CP/Tucker rank-argument pattern. "
            "Non-trivial = the routine returned and the dense result is not all-zero (creation: returned); distinct = distinct "
            "(op, formats, shapes, arguments).")
    TRUSTED = ["dense oracle harness/props/c12.py::spec (NumPy on lib.dense_np; torch.arange/linspace/logspace)",
               "NumPy float64 arithmetic; integer-valued operands make every result exact except reduce (SVD inside tn.round)"]
    ASSUMPTIONS = ["repeat puts new modes last, ttm vector factors keep a size-1 mode, meshgrid is 'ij' (docstring conventions, "
                   "DESIGN.md C12)",
                   "reduce is judged with eps=0 and tolerance 1e-6",
                   "random creation routines are judged on shape, core kinds, TT/CP/Tucker ranks only (not on the distribution)"]
    THEOREMS = ["C12_ttm", "C12_flip", "C12_cumsum", "C12_repeat", "C12_pad_embed", "C12_cat", "C12_select", "C12_transpose", "C12_full", "C12_eye"]

    # ------------------------------------------------------------------ generation
    def generate(self, rng, tier):
        quick = tier == "quick"
        Q = 3 if quick else 20
        cases = []

        def shp(N, hi=3):
            return [rng.randint(1, hi) for _ in range(N)]

        def mk(op, ts=(), **kw):
            ts = list(ts)
            tags = {"op": op, "cls": kw.pop("cls", "plain")}
            if ts:
                tags["fa"] = tsig(ts[0]); tags["N"] = len(ts[0]["modes"]); tags["nops"] = len(ts)
                if len(ts) > 1:
                    tags["fb"] = tsig(ts[1])
            for key in ("form", "fn", "transpose", "fill_kind", "pos", "mkind", "argpat", "like"):
                if key in kw and kw[key] is not None:
                    tags[key] = kw[key]
            if "dim" in kw:
                d = kw["dim"]
                tags["dimkind"] = "none" if d is None else ("int" if isinstance(d, int) else "list")
                tags["negdim"] = bool(d is not None and any(z < 0 for z in aslist(d, 0)))
            for key in ("pos", "mkind", "fill_kind", "argpat"):
                kw.pop(key, None)
            c = {"op": op, "ts": ts, "tags": tags}
            c.update(kw)
            if ts and tags["cls"] != "creation" and rng.random() < 0.15:   # *_like follow the session default by design
                c["default_dtype"] = tags["default_dtype"] = "float32"
                # give the first operand entries that float32 cannot hold (x * (1 + 2^-20), exact in float64): a silent
                # down-cast of float64 operands to the session default then shows in the values
                c["ts"] = json.loads(json.dumps(ts))
                m0 = c["ts"][0]["modes"][0]
                m0["core"] = (np.array(m0["core"], dtype=np.float64) * (1.0 + 2.0 ** -20)).tolist()
            cases.append(c)

        def mode_lattice(Nmax=3):
            """(N, pos, kinds) with the format of mode `pos` enumerated"""
            for N in range(1, Nmax + 1):
                for pos in range(N):
                    for kd in KINDS:
                        kinds = [rng.choice(KINDS) for _ in range(N)]
                        kinds[pos] = kd
                        yield N, pos, kinds

        def posname(N, pos):
            return "only" if N == 1 else ("first" if pos == 0 else ("last" if pos == N - 1 else "middle"))

        def mkind(k):
            return ("T" if k[0] == "tt" else "C") + ("u" if k[1] else "")

        def dimarg(N, pos):
            """the mode `pos` as int / negative int / one-element list"""
            r = rng.random()
            if r < 0.4:
                return pos
            if r < 0.75:
                return pos - N
            return [pos] if rng.random() < 0.5 else [pos - N]

        def rt(shape, kinds=None, maxr=3, **kw):
            return rand_tensor_json(rng, shape, kinds, maxr=maxr if len(shape) < 4 else 2, **kw)

        # ---- cat
        for N, pos, kinds in mode_lattice():
            for _ in range(2 * Q):
                shape = shp(N)
                nops = rng.choice([2, 2, 3, 4])
                ts = []
                for i in range(nops):
                    s = list(shape); s[pos] = rng.randint(1, 3)
                    k2 = [rng.choice(KINDS) for _ in range(N)]
                    k2[pos] = kinds[pos] if i == 0 else rng.choice(KINDS)
                    ts.append(rt(s, kinds if i == 0 else k2))
                mk("cat", ts, dim=rng.choice([pos, pos - N]), form=rng.choice(["list", "varargs"]),
                   pos=posname(N, pos), mkind=mkind(kinds[pos]))
        for ka in KINDS:          # both operands' formats of the concatenated mode, enumerated
            for kb in KINDS:
                N = rng.randint(1, 3); pos = rng.randrange(N)
                k1 = [rng.choice(KINDS) for _ in range(N)]; k1[pos] = ka
                k2 = [rng.choice(KINDS) for _ in range(N)]; k2[pos] = kb
                shape = shp(N); s2 = list(shape); s2[pos] = rng.randint(1, 3)
                mk("cat", [rt(shape, k1), rt(s2, k2)], dim=pos, form="list", pos=posname(N, pos), mkind=mkind(ka) + mkind(kb))
        for _ in range(30 * Q):
            N = rng.randint(1, 4); pos = rng.randrange(N); shape = shp(N)
            nops = rng.randint(1, 4)
            ts = []
            for i in range(nops):
                s = list(shape); s[pos] = rng.randint(1, 3)
                ts.append(rt(s, zero=rng.random() < 0.08))
            mk("cat", ts, dim=rng.choice([pos, pos - N]), form=rng.choice(["list", "varargs"]))

        # ---- flip, cumsum (format of each affected mode), transpose
        for op in ("flip", "cumsum"):
            for N, pos, kinds in mode_lattice():
                for _ in range(Q):
                    mk(op, [rt(shp(N), kinds)], dim=dimarg(N, pos), pos=posname(N, pos), mkind=mkind(kinds[pos]))
            for _ in range(40 * Q):
                N = rng.randint(1, 4)
                dims = rng.sample(range(N), rng.randint(1, N))
                dims = [d - N if rng.random() < 0.3 else d for d in dims]
                mk(op, [rt(shp(N))], dim=dims if (op == "flip" or rng.random() < 0.8) else None)
            mk("cumsum", [rt([2, 3, 2])], dim=None)
        for N in (1, 2, 3):
            for kinds in itertools.product(KINDS, repeat=N):
                if N == 3 and quick and rng.random() > 0.5:
                    continue
                mk("transpose", [rt(shp(N), list(kinds))])
        for _ in range(20 * Q):
            mk("transpose", [rt(shp(4))])

        # ---- repeat
        for N, pos, kinds in mode_lattice():
            for _ in range(Q):
                rep = [1] * N; rep[pos] = rng.randint(2, 3)
                extra = [] if rng.random() < 0.6 else [rng.randint(1, 3) for _ in range(rng.randint(1, 2))]
                mk("repeat", [rt(shp(N), kinds)], rep=rep + extra, pos=posname(N, pos), mkind=mkind(kinds[pos]),
                   cls="trailing-new-modes" if extra else "plain")
        for kd in KINDS:      # new trailing modes after each format of the last mode
            N = rng.randint(1, 3); kinds = [rng.choice(KINDS) for _ in range(N)]; kinds[-1] = kd
            mk("repeat", [rt(shp(N), kinds)], rep=[rng.randint(1, 2) for _ in range(N)] + [rng.randint(2, 3)],
               pos="last", mkind=mkind(kd), cls="trailing-new-modes")
        for _ in range(30 * Q):
            N = rng.randint(1, 4)
            extra = [] if rng.random() < 0.7 or N == 4 else [rng.randint(1, 3)]
            mk("repeat", [rt(shp(N))], as_list=rng.random() < 0.3, rep=[rng.randint(1, 3) for _ in range(N)] + extra,
               cls="trailing-new-modes" if extra else "plain")

        # ---- pad
        def pad_case(t, dims, fill, shape_form=None):
            N = len(t["modes"]); s = tshape(t)
            dl = aslist(dims, N)
            grow = [s[d % N] + rng.randint(0, 2) for d in dl]
            if all(g == s[d % N] for g, d in zip(grow, dl)):
                grow[0] += 1
            shape = grow
            if shape_form == "int" or (shape_form is None and rng.random() < 0.2):
                shape = max(grow)
            plainTT = all(m["kind"] == "tt" and m["U"] is None for m in t["modes"])
            if fill == 0:
                cls = "pad-zero"
            elif N == 1 and plainTT:
                cls = "pad-fill-1d-plain-tt"
            else:
                cls = "pad-nonzero-fill"           # D8
            mk("pad", [t], shape=shape, dim=dims, fill=fill, cls=cls,
               fill_kind="zero" if fill == 0 else "nonzero", mkind=mkind((t["modes"][dl[0] % N]["kind"],
                                                                            t["modes"][dl[0] % N]["U"] is not None)))
            if cls == "pad-nonzero-fill":
                # the same call judged only on the result's shape and on the original block (both hold on the current
                # tree although the padded region is wrong, D8): keeps the non-zero-fill path under watch
                c = json.loads(json.dumps(cases[-1]))
                c["judge"] = "block"; c["tags"]["cls"] = "pad-nonzero-fill-block-only"
                cases.append(c)

        for N, pos, kinds in mode_lattice():
            for fill in (0, 0, 2, -1.5):
                for _ in range(Q):
                    pad_case(rt(shp(N), kinds), dimarg(N, pos), fill)
        for _ in range(50 * Q):
            N = rng.randint(1, 4)
            r = rng.random()
            dims = None if r < 0.3 else rng.sample(range(N), rng.randint(1, N))
            if dims is not None and rng.random() < 0.3:
                dims = [d - N for d in dims]
            pad_case(rt(shp(N)), dims, rng.choice([0, 0, 0, 2, -1.5]))

        # ---- ttm
        def ttm_case(t, dims, transpose=False, vec=False, dimform="given", **kw):
            N = len(t["modes"]); s = tshape(t)
            Us = []
            for d in dims:
                I = s[d % N]
                if vec and rng.random() < 0.7:
                    Us.append(ivec(rng, I))
                else:
                    J = rng.randint(1, 3)
                    Us.append(imat(rng, I, J) if transpose else imat(rng, J, I))
            if dimform == "none":
                dim = None
            elif dimform == "int":
                dim = dims[0]
            else:
                dim = list(dims)
            mk("ttm", [t], U=Us, dim=dim, transpose=transpose, single=(len(dims) == 1 and rng.random() < 0.5), **kw)

        for N, pos, kinds in mode_lattice():
            for tr in (False, True):
                for _ in range(Q):
                    t = rt(shp(N), kinds)
                    d = rng.choice([pos, pos - N])
                    ttm_case(t, [d], transpose=tr, vec=rng.random() < 0.3, dimform=rng.choice(["int", "given"]),
                             pos=posname(N, pos), mkind=mkind(kinds[pos]))
        for _ in range(60 * Q):
            N = rng.randint(1, 4); t = rt(shp(N))
            if rng.random() < 0.25:
                ttm_case(t, list(range(rng.randint(1, N))), transpose=rng.random() < 0.3, dimform="none")
            else:
                dims = rng.sample(range(N), rng.randint(1, N))
                dims = [d - N if rng.random() < 0.3 else d for d in dims]
                ttm_case(t, dims, transpose=rng.random() < 0.3, vec=rng.random() < 0.3)

        # ---- meshgrid
        for _ in range(40 * Q):
            N = rng.randint(1, 4)
            pat = rng.choice(["ints", "vectors", "mixed"])
            axes = []
            for n in range(N):
                isint = pat == "ints" or (pat == "mixed" and rng.random() < 0.5)
                axes.append({"n": rng.randint(1, 3)} if isint else {"v": ivec(rng, rng.randint(1, 3), -3, 4)})
            form = rng.choice(["list", "list", "varargs"])
            cls = "meshgrid-varargs-vector-first" if (form == "varargs" and "v" in axes[0]) else "plain"   # D22
            mk("meshgrid", axes=axes, form=form, cls=cls, argpat=pat)
            if pat != "ints" and rng.random() < 0.4:
                # float64 axes holding values float32 cannot represent, under a float32 session default
                ax2 = [dict(a) for a in axes]
                for a in ax2:
                    if "v" in a:
                        a["v"] = [v + rng.choice([0.1, 16777217.0, 1.0 / 3]) for v in a["v"]]
                mk("meshgrid", axes=ax2, form=form, cls=cls, argpat=pat)
                cases[-1]["default_dtype"] = cases[-1]["tags"]["default_dtype"] = "float32"

        # ---- mask
        for N in (1, 2):
            for ka in itertools.product(KINDS, repeat=N):
                for kb in itertools.product(KINDS, repeat=N):
                    if N == 2 and rng.random() > (0.3 if quick else 1.0):
                        continue
                    shape = shp(N)
                    mk("mask", [rt(shape, list(ka)), rt(shape, list(kb), lo=0, hi=1)])
        for _ in range(30 * Q):
            N = rng.randint(3, 4); shape = shp(N)
            mk("mask", [rt(shape), rt(shape, lo=0, hi=1, maxr=2)])

        for _ in range(40 * Q):       # masks of resized tensors
            N = rng.randint(1, 3); shape = shp(N); t0 = rt(shape)
            kind = rng.choice(["repeat", "pad", "ttm"])
            if kind == "repeat":
                reps = [rng.randint(1, 3) for _ in range(N)]; pre = ["repeat", reps]; new = [a * b for a, b in zip(shape, reps)]
            elif kind == "pad":
                ext = [rng.randint(0, 2) for _ in range(N)]; pre = ["pad", ext]; new = [a + b for a, b in zip(shape, ext)]
            else:
                d = rng.randrange(N); rows = rng.randint(1, 4)
                pre = ["ttm", [[rng.randint(-2, 2) for _ in range(shape[d])] for _ in range(rows)], d]
                new = list(shape); new[d] = rows
            mk("mask_after", [t0, rt(new, lo=0, hi=1, maxr=2)], pre=pre, prekind=kind)

        # ---- reduce
        for _ in range(50 * Q):
            N = rng.randint(1, 3); shape = shp(N)
            nops = rng.randint(1, 5)
            fn = rng.choice(["add", "add", "mul", "cat"])
            if fn == "cat":
                pos = rng.randrange(N)
                ts = []
                for i in range(nops):
                    s = list(shape); s[pos] = rng.randint(1, 2)
                    ts.append(rt(s, maxr=2))
                mk("reduce", ts, fn=fn, dim=rng.choice([pos, pos - N]))
            else:
                if fn == "mul":
                    nops = min(nops, 3)
                mk("reduce", [rt(shape, maxr=2, lo=-1 if fn == "mul" else -2) for _ in range(nops)], fn=fn)

        # ---- unbind
        for N, pos, kinds in mode_lattice():
            for _ in range(Q):
                mk("unbind", [rt(shp(N), kinds)], dim=rng.choice([pos, pos - N]), pos=posname(N, pos), mkind=mkind(kinds[pos]))
        for _ in range(20 * Q):
            N = rng.randint(1, 4)
            mk("unbind", [rt(shp(N))], dim=rng.randint(-N, N - 1))

        # ---- creation: constants
        for _ in range(25 * Q):
            N = rng.randint(1, 4); shape = shp(N, 4)
            for op in ("ones", "zeros"):
                mk(op, shape=shape, form=rng.choice(["list", "varargs"]), cls="creation")
            mk("full", shape=shape, fill=rng.choice([0, 1, -2.5, 2, 7.25, -1]), cls="creation")
            if rng.random() < 0.5:       # the constant must not depend on the requested Tucker ranks
                mk(rng.choice(["ones", "full"]), shape=shape, fill=rng.choice([1, -2.5, 3]), form="list", cls="creation",
                   tucker=rng.choice([1, 2, 3]))
                cases[-1]["tags"]["tucker"] = True
        for _ in range(15 * Q):
            t = rt(shp(rng.randint(1, 4)))
            op = rng.choice(["ones_like", "zeros_like", "full_like"])
            mk(op, [t], fill=rng.choice([3, -0.5, 0]) if op == "full_like" else None, cls="creation")
        for n in range(1, 6):
            mk("eye", n=n, m=None, cls="creation", form="n")
            for m in range(1, 6):
                mk("eye", n=n, m=m, cls="creation", form="n,m")
        for args in [[5], [1], [0], [1, 6], [-2, 3], [0, 7, 2], [1, 10, 3], [5, 0, -1], [0, 1, 0.25], [2.5], [0.5, 3]]:
            mk("arange", args=args, cls="creation")
        for args in [[0, 1, 7], [-1, 1, 5], [2, 2, 3], [0, 10, 1], [5, -5, 11], [0, 1, 2], [0.5, 2.5, 4]]:
            mk("linspace", args=args, cls="creation")
        for args in [[0, 2, 5], [-1, 1, 3], [0, 0, 2], [0, 3, 4, 2], [1, -1, 5], [0, 1, 1]]:
            mk("logspace", args=args, cls="creation")
        # ---- creation: gaussian
        for _ in range(20 * Q):
            N = rng.randint(1, 4); shape = shp(N, 5)
            r = rng.random()
            sf = None if r < 0.4 else (rng.choice([0.1, 0.2, 0.5, 1.0]) if r < 0.7 else
                                       [rng.choice([0.1, 0.2, 0.5, 1.0]) for _ in range(N)])
            mk("gaussian", shape=shape, sigma=sf, form=rng.choice(["list", "varargs", "like"]), cls="creation")
        # ---- creation: random tensors with requested ranks
        def rand_case(op, N, pat):
            shape = [rng.randint(1, 4) for _ in range(N)]
            kinds = [rng.choice(["tt", "cp"]) for _ in range(N)]
            if pat == "tt":
                kinds = ["tt"] * N
            if pat in ("cp", "cp-int"):
                kinds = ["cp"] * N
            if pat == "tucker-only":
                kinds = ["tt"] * N
            b = make_ranks(rng, [(k, False) for k in kinds], 3)
            # argument forms
            rtk = [rng.randint(1, 3) if rng.random() < 0.5 else None for _ in range(N)]
            if pat == "tucker-only":
                rtk = rng.choice([rng.randint(1, 3), [rng.randint(1, 3) for _ in range(N)]])
                rtt = None; rcp = None
            elif pat == "tt-int":
                r = rng.randint(1, 3); rtt = r; rcp = None; kinds = ["tt"] * N
            elif pat == "cp-int":
                r = rng.randint(1, 3); rcp = r; rtt = None
            else:
                rcp = [b[n] if kinds[n] == "cp" else None for n in range(N)]
                rtt = []
                for n in range(1, N):
                    adj_cp = kinds[n - 1] == "cp" or kinds[n] == "cp"
                    rtt.append(None if adj_cp else b[n])
                if all(k == "tt" for k in kinds):
                    rcp = None
                if all(r is None for r in rtt) and any(k == "cp" for k in kinds) and rng.random() < 0.5:
                    rtt = None
                if rtt is not None and N == 1:
                    rtt = [] if rcp is None else None
                if rcp is None and rtt == [] :
                    rtt = 1            # a single TT mode: any rank argument
            if pat in ("tt", "tt-int", "mixed", "cp", "cp-int") and rng.random() < 0.4:
                rtk = None
            if isinstance(rtk, list) and all(r is None for r in rtk):
                rtk = None
            if isinstance(rtk, list) and rng.random() < 0.2:
                rtk = rng.randint(1, 3)
            like = op.endswith("_like")
            mk(op, [rt(shape)] if like else [], shape=shape, ranks_tt=rtt, ranks_cp=rcp, ranks_tucker=rtk,
               seed=rng.randrange(10 ** 6), form="like" if like else rng.choice(["list", "varargs"]), argpat=pat, cls="creation")

        for pat in ("tt", "tt-int", "cp", "cp-int", "mixed", "mixed", "tucker-only"):
            for N in range(1, 5):
                for _ in range(3 * Q):
                    rand_case(rng.choice(["rand", "randn", "rand", "rand_like", "randn_like"]), N, pat)
        return cases

    # ------------------------------------------------------------------ implementation side
    @staticmethod
    def _out(r):
        if isinstance(r, tn.Tensor):
            d = r.torch()
        elif torch.is_tensor(r):
            d = r
        else:
            d = torch.tensor(float(r))
        return {"shape": list(d.shape), "dense": d.detach().double().reshape(-1).tolist()}

    def _run(self, case):
        import operator
        op = case["op"]
        ts = [to_tn(t) for t in case.get("ts", [])]
        t = ts[0] if ts else None
        one = lambda r: {"outs": [self._out(r)]}
        if op == "cat":
            r = tn.cat(ts, dim=case["dim"]) if case["form"] == "list" else tn.cat(*ts, dim=case["dim"])
            return one(r)
        if op == "flip":
            return one(tn.flip(t, case["dim"]))
        if op == "transpose":
            return one(tn.transpose(t))
        if op == "cumsum":
            return one(tn.cumsum(t) if case["dim"] is None else tn.cumsum(t, case["dim"]))
        if op == "repeat":
            return one(t.repeat(list(case["rep"])) if case.get("as_list") else t.repeat(*case["rep"]))
        if op == "pad":
            kw = {} if case["dim"] is None else {"dim": case["dim"]}
            if case["fill"] != 0 or case.get("explicit_fill"):
                kw["fill_value"] = case["fill"]
            return one(tn.pad(t, case["shape"], **kw))
        if op == "ttm":
            Us = [torch.tensor(U, dtype=torch.float64) for U in case["U"]]
            U = Us[0] if case.get("single") else Us
            kw = {} if case["dim"] is None else {"dim": case["dim"]}
            if case["transpose"]:
                kw["transpose"] = True
            return one(tn.ttm(t, U, **kw))
        if op == "mask":
            return one(tn.mask(ts[0], ts[1]))
        if op == "mask_after":
            pre = case["pre"]
            if pre[0] == "repeat":
                y = t.repeat(*pre[1])
            elif pre[0] == "pad":
                y = tn.pad(t, [t.shape[n] + pre[1][n] for n in range(t.dim())])
            else:
                y = tn.ttm(t, torch.tensor(pre[1], dtype=torch.float64), dim=pre[2])
            return one(tn.mask(y, ts[1]))
        if op == "reduce":
            fn = {"add": operator.add, "mul": operator.mul, "cat": tn.cat}[case["fn"]]
            kw = {"dim": case["dim"]} if case["fn"] == "cat" else {}
            return one(tn.reduce(ts, fn, **kw))
        if op == "unbind":
            return {"outs": [self._out(r) for r in tn.unbind(t, case["dim"])]}
        if op == "meshgrid":
            axes = [a["n"] if "n" in a else torch.tensor(a["v"], dtype=torch.float64) for a in case["axes"]]
            r = tn.meshgrid(axes) if case["form"] == "list" else tn.meshgrid(*axes)
            return {"outs": [self._out(g) for g in r]}
        if op in ("ones", "zeros"):
            f = getattr(tn, op)
            if case.get("tucker"):
                return one(f(case["shape"], ranks_tucker=case["tucker"]))
            return one(f(case["shape"]) if case["form"] == "list" else f(*case["shape"]))
        if op == "full":
            if case.get("tucker"):
                return one(tn.full(case["shape"], case["fill"], ranks_tucker=case["tucker"]))
            return one(tn.full(case["shape"], case["fill"]))
        if op in ("ones_like", "zeros_like"):
            return one(getattr(tn, op)(t))
        if op == "full_like":
            return one(tn.full_like(t, case["fill"]))
        if op == "eye":
            return one(tn.eye(case["n"]) if case.get("m") is None else tn.eye(case["n"], case["m"]))
        if op in ("arange", "linspace", "logspace"):
            return one(getattr(tn, op)(*case["args"]))
        if op == "gaussian":
            kw = {} if case.get("sigma") is None else {"sigma_factor": case["sigma"]}
            if case["form"] == "like":
                g = tn.gaussian_like(tn.Tensor([torch.zeros(1, s, 1) for s in case["shape"]]), **kw)
            else:
                g = tn.gaussian(case["shape"], **kw) if case["form"] == "list" else tn.gaussian(*case["shape"], **kw)
            d = g.torch()
            return {"shape": list(d.shape), "sum": float(d.sum()), "min": float(d.min()), "outs": []}
        if op in ("rand", "randn", "rand_like", "randn_like"):
            torch.manual_seed(case["seed"])
            kw = {}
            for key in ("ranks_tt", "ranks_cp", "ranks_tucker"):
                if case.get(key) is not None:
                    kw[key] = case[key]
            f = getattr(tn, op)
            if op.endswith("_like"):
                r = f(t, **kw)
            else:
                r = f(case["shape"], **kw) if case["form"] == "list" else f(*case["shape"], **kw)
            d = r.torch()
            return {"shape": list(r.shape), "dense_shape": list(d.shape), "cores": [list(c.shape) for c in r.cores],
                    "Us": [None if U is None else list(U.shape) for U in r.Us], "finite": bool(torch.isfinite(d).all()),
                    "outs": []}
        raise ValueError(op)

    def run(self, case):
        old = torch.get_default_dtype()
        try:
            # the operands are float64 whatever the session default is: the result must not depend on the default
            torch.set_default_dtype(torch.float32 if case.get("default_dtype") == "float32" else torch.float64)
            out = self._run(case)
            out["ok"] = True
            return out
        except Exception as e:
            return {"ok": False, "err": type(e).__name__, "msg": str(e)[:200]}
        finally:
            torch.set_default_dtype(old)

    # ------------------------------------------------------------------ specification side
    def expected(self, case):
        op = case["op"]
        if op == "gaussian":
            return {"ok": True, "shape": list(case["shape"]), "sum": 1.0}
        if op in ("rand", "randn", "rand_like", "randn_like"):
            cores, Us = rand_spec(case["shape"], case.get("ranks_tt"), case.get("ranks_cp"), case.get("ranks_tucker"))
            return {"ok": True, "shape": list(case["shape"]), "cores": cores, "Us": Us}
        outs = spec(case)
        return {"ok": True, "outs": [{"shape": list(np.asarray(o).shape),
                                      "dense": np.asarray(o, dtype=np.float64).reshape(-1).tolist()} for o in outs]}

    def agree(self, case, res, exp):
        op = case["op"]
        if not res.get("ok"):
            return False, "implementation raised %s: %s" % (res.get("err"), res.get("msg"))
        if op == "gaussian":
            if res["shape"] != exp["shape"]:
                return False, "gaussian has shape %s, requested %s" % (res["shape"], exp["shape"])
            if not (abs(res["sum"] - 1.0) <= TOL):     # NaN-safe
                return False, "gaussian sums to %r" % res["sum"]
            if not res["min"] >= 0:
                return False, "gaussian has a negative or undefined entry (%r)" % res["min"]
            return True, ""
        if op in ("rand", "randn", "rand_like", "randn_like"):
            if res["shape"] != exp["shape"] or res["dense_shape"] != exp["shape"]:
                return False, "random tensor has shape %s (decompressed %s), requested %s" % (
                    res["shape"], res["dense_shape"], exp["shape"])
            if res["cores"] != exp["cores"]:
                return False, "core shapes %s, the requested ranks give %s" % (res["cores"], exp["cores"])
            if res["Us"] != exp["Us"]:
                return False, "factor shapes %s, the requested Tucker ranks give %s" % (res["Us"], exp["Us"])
            if not res["finite"]:
                return False, "random tensor has non-finite entries"
            return True, ""
        if len(res["outs"]) != len(exp["outs"]):
            return False, "%d tensors returned, expected %d" % (len(res["outs"]), len(exp["outs"]))
        tol = TOL_SVD if op == "reduce" else TOL
        for i, (r, e) in enumerate(zip(res["outs"], exp["outs"])):
            if list(r["shape"]) != list(e["shape"]):
                return False, "output %d has shape %s, expected %s" % (i, r["shape"], e["shape"])
            a = np.array(r["dense"], dtype=np.float64); b = np.array(e["dense"], dtype=np.float64)
            if case.get("judge") == "block":
                blk = tuple(slice(0, n) for n in tshape(case["ts"][0]))
                a = a.reshape(e["shape"])[blk].reshape(-1); b = b.reshape(e["shape"])[blk].reshape(-1)
            if a.size:
                if not np.all(np.isfinite(a)):
                    return False, "output %d has non-finite entries" % i
                err = float(np.max(np.abs(a - b)))
                if not np.all(np.isfinite(b)) or not (err <= tol * max(1.0, float(np.max(np.abs(b))))):   # NaN-safe
                    return False, "output %d differs from the NumPy result by %g (got %s..., expected %s...)" % (
                        i, err, a.tolist()[:6], b.tolist()[:6])
        return True, ""

    def nontrivial(self, case, res):
        if not res.get("ok"):
            return False
        if case["op"] in ("gaussian", "rand", "randn", "rand_like", "randn_like", "zeros", "zeros_like"):
            return True
        return any(any(abs(x) > 0 for x in o["dense"]) for o in res["outs"])

    def signature(self, case):
        t = case["tags"]
        keys = ("dim", "rep", "shape", "fill", "transpose", "fn", "form", "n", "m", "args", "sigma", "ranks_tt", "ranks_cp",
                "ranks_tucker", "axes")
        return "|".join([t["op"]] + [tsig(x) + str(tshape(x)) for x in case.get("ts", [])] +
                        [json.dumps(case.get(k)) for k in keys if k in case] +
                        [json.dumps([np.array(U).shape for U in case["U"]]) if "U" in case else ""])

    def coq_term(self, case, res):
        """model (Coq) versus implementation for the routines modelled in Model/Tools.v, Model/Create.v"""
        if not res.get("ok") or not res.get("outs") or case.get("default_dtype") == "float32":
            return None          # dtype cases carry non-integer entries: implementation-vs-specification only
        op = case["op"]
        ts = case.get("ts", [])
        def tail(out):
            d = canon_dense(out["dense"])
            if d is None:
                d = [10 ** 9]
            return "%s %s" % (coq_natlist(out["shape"]), coq_list(d))
        def allint(x):
            return all(float(v).is_integer() for v in flat(x))
        out0 = res["outs"][0]
        N = len(ts[0]["modes"]) if ts else None
        if op == "flip":
            return "mkCase (OFlip %s %s) %s" % (coq_tensor(ts[0]), coq_natlist([d % N for d in aslist(case["dim"], N)]), tail(out0))
        if op == "cumsum":
            return "mkCase (OCumsum %s %s) %s" % (coq_tensor(ts[0]), coq_natlist([d % N for d in aslist(case["dim"], N)]), tail(out0))
        if op == "repeat":
            if len(case["rep"]) != N:
                return None        # trailing new modes: implementation-vs-specification only
            return "mkCase (ORepeat %s %s) %s" % (coq_tensor(ts[0]), coq_natlist(case["rep"]), tail(out0))
        if op == "pad":
            if float(case["fill"]) != int(case["fill"]):
                return None
            dims = [d % N for d in aslist(case["dim"], N)]
            sh = case["shape"] if isinstance(case["shape"], list) else [case["shape"]] * len(dims)
            ds = "[" + "; ".join("(%d%%nat, %d%%nat)" % (d, n) for d, n in zip(dims, sh)) + "]"
            if case["fill"] != 0:
                return "mkCase (OPadC %s %s (%d)%%Z) %s" % (coq_tensor(ts[0]), ds, int(case["fill"]), tail(out0))
            return "mkCase (OPad0 %s %s) %s" % (coq_tensor(ts[0]), ds, tail(out0))
        if op == "ttm":
            Us = case["U"]
            dims = list(range(len(Us))) if case["dim"] is None else [d % N for d in aslist(case["dim"], N)]
            fs = []
            for U, d in zip(Us, dims):
                M = np.array(U, dtype=np.float64)
                if M.ndim == 1:
                    M = M[None, :]
                elif case["transpose"]:
                    M = M.T
                if not allint(M):
                    return None
                fs.append("(%d%%nat, %d%%nat, %s)" % (d, M.shape[0], coq_list(flat(M))))
            if len(set(dims)) != len(dims):
                return None
            return "mkCase (OTtm %s [%s]) %s" % (coq_tensor(ts[0]), "; ".join(fs), tail(out0))
        if op == "cat":
            return "mkCase (OCat %d [%s]) %s" % (case["dim"] % N, "; ".join(coq_tensor(t) for t in ts), tail(out0))
        if op == "mask":
            return "mkCase (OMask %s %s) %s" % (coq_tensor(ts[0]), coq_tensor(ts[1]), tail(out0))
        if op == "transpose":
            return "mkCase (OTranspose %s) %s" % (coq_tensor(ts[0]), tail(out0))
        if op == "unbind":
            k = case["dim"] % N
            i = 0
            return "mkCase (OUnbind %s %d %d) %s" % (coq_tensor(ts[0]), k, i, tail(res["outs"][0]))
        if op == "full" and float(case["fill"]).is_integer() and len(case["shape"]) >= 1:
            return "mkCase (OFull %s %s) %s" % (zlit(case["fill"]), coq_natlist(case["shape"]), tail(out0))
        if op == "eye":
            return "mkCase (OEye %d %d) %s" % (case["n"], case["m"] if case.get("m") is not None else case["n"], tail(out0))
        return None
