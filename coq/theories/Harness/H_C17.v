From TN Require Export Harness.HBase Model.Maxvol.
From Coq Require Import QArith Qabs.
(* py_maxvol / py_rect_maxvol with LAPACK getrf (pivot vector) and the two trtrs solves (initial coefficients) replayed.
   Carrier QO (rationals, Qred after every operation); every double is passed exactly as a dyadic rational. *)
Definition qinv (x : Q) : Q := Qred (/ x).
Definition q105 : Q := 4728779608739021 # 4503599627370496.       (* the IEEE double nearest to 1.05 *)
Definition q_maxvol := py_maxvol QO qinv Qabs Qle_bool.
Definition q_rect_maxvol := py_rect_maxvol QO qinv Qabs Qle_bool q105.

Definition qmat := list (list Q).
Inductive case :=
| Sq (N r : nat) (tol : Q) (max_iters : nat) (topk : Z) (ipiv : list nat) (C0 : qmat)
     (contract : bool) (A : qmat) (idx : list nat) (C : qmat)
| Rect (N r : nat) (tol : Q) (maxK min_add_K minK : option Z) (start_iters : nat) (identity : bool) (topk : Z)
     (ipiv : list nat) (C0 : qmat) (contract : bool) (A : qmat) (idx : list nat) (C : qmat).

Definition maxabs2 (M : qmat) : Q :=
  fold_right (fun row acc => fold_right (fun x a => if Qle_bool a (Qabs x) then Qabs x else a) acc row) 0 M.
Definition mat_close (scale : Q) (X Y : qmat) : bool :=
  list_cmp (fun r1 r2 => list_cmp (fun x y => Qle_bool (Qabs (x - y)) ((1 # 1000000) * scale)) r1 r2) X Y.

(* the contract of the oracle that the theorems assume: C0^T A[index0[:r]] = A (normwise backward-error test per entry: 1e-6 (|C0[:,t]|_1 |A[index0][:,c]|_1 + |A[t,c]|)) *)
Definition contract_ok (N r : nat) (ipiv : list nat) (C0 A : qmat) : bool :=
  let idx0 := pivots (seq 0 N) 0 (firstn r ipiv) in
  forallb (fun t => forallb (fun c =>
     let terms := map (fun p => Qred (mget (K:=QO) C0 p t * mget (K:=QO) A (nth p idx0 O) c)) (seq 0 r) in
     let s := fold_right (fun x a => Qred (x + a)) 0 terms in
     let sc := fold_right (fun p a => Qred (Qabs (mget (K:=QO) C0 p t) + a)) 0 (seq 0 r) in
     let sa := fold_right (fun p a => Qred (Qabs (mget (K:=QO) A (nth p idx0 O) c) + a)) 0 (seq 0 r) in
     Qle_bool (Qabs (s - mget (K:=QO) A t c)) ((1 # 1000000) * (sc * sa + Qabs (mget (K:=QO) A t c))))
     (seq 0 r)) (seq 0 N).

Definition check (c : case) : bool :=
  match c with
  | Sq N r tol mi topk ipiv C0 contract A idx C =>
      let '(idx', C') := q_maxvol N r tol mi topk ipiv C0 in
      list_eqb Nat.eqb idx' idx && mat_close (maxabs2 C) C' C &&
      (negb contract || contract_ok N r ipiv C0 A)
  | Rect N r tol maxK madd minK si ident topk ipiv C0 contract A idx C =>
      let '(idx', C') := q_rect_maxvol N r tol maxK madd minK si ident topk ipiv C0 in
      list_eqb Nat.eqb idx' idx && mat_close (maxabs2 C) C' C &&
      (negb contract || contract_ok N r ipiv C0 A)
  end.
