(* C20 -- finite-difference calculus on compressed tensors matches the dense stencil.  Statements only.
   Model: Model/Deriv.v (one linear map on the differentiated mode). *)
From TN Require Import Proofs.DerivP Proofs.ArithP Proofs.SumNetsP Proofs.DerivSumP Alg.Inst.

Section C20.
Variable K : Ops.
Hypothesis Kth : laws K.
Local Open Scope K_scope.

(* partial derivative of order 1 along mode k: the stencil applied to the dense array along that mode,
   times 1/step, for every format of that mode (hinv = 1/step is a parameter: the step formula is read
   from the case) *)
Theorem C20_partial : forall k n hinv periodic (cs : list (score K)) c idx i,
  nth_error cs k = Some c -> nth_error idx k = Some i -> dm c = n ->
  eval (partial1_net k n hinv periodic cs) idx =
  hinv * sumn n (fun j => (if periodic then stencil_p n i j else stencil_np n i j) * eval cs (upd k idx j)).
Proof. exact (partial1_sound K Kth). Qed.

(* the non-periodic stencil: centred differences inside, linearly extrapolated ends *)
Theorem C20_stencil : forall n i (f : nat -> K), (3 <= n)%nat -> (i < n)%nat ->
  sumn n (fun j => stencil_np n i j * f j) =
  if Nat.eqb i 0 then two * f 1%nat - two * f O
  else if Nat.eqb i (n - 1) then two * f (n - 1)%nat - two * f (n - 2)%nat
  else f (i + 1)%nat - f (i - 1)%nat.
Proof. exact (stencil_np_apply K Kth). Qed.

Theorem C20_constants_annihilated : forall n i (c0 : K), (3 <= n)%nat -> (i < n)%nat ->
  sumn n (fun j => stencil_np n i j * c0) = 0.
Proof. exact (stencil_np_const K Kth). Qed.

Theorem C20_affine_to_constant : forall n i (a b : K), (3 <= n)%nat -> (i < n)%nat ->
  sumn n (fun j => stencil_np n i j * (a + b * of_nat j)) = two * b.
Proof. exact (stencil_np_affine K Kth). Qed.

(* laplacian(t) = sum([partial(t, n, order=2) ...]) and divergence(ts) = sum([partial(ts[n], n) ...]): Python's sum of
   well-formed, equally shaped tensors decompresses to the entrywise sum of the summands ... *)
Theorem C20_sum_of_partials : forall (l : list (list (score K))) (r : list (score K)) sh,
  Forall (fun x => good K x /\ sshape x = sh) l -> py_sum K l = Some r ->
  good K r /\ sshape r = sh /\ forall idx, in_range sh idx = true -> eval r idx = sum_evals K l idx.
Proof. exact (py_sum_sound K Kth). Qed.
(* ... and partial derivatives of any order are such summands: well-formed, shape unchanged *)
Theorem C20_partial_shape : forall (order k n : nat) hinv periodic (cs : list (score K)) c,
  nth_error cs k = Some c -> dm c = n -> good K cs ->
  good K (partial_net order k n hinv periodic cs) /\ sshape (partial_net order k n hinv periodic cs) = sshape cs /\
  exists c', nth_error (partial_net order k n hinv periodic cs) k = Some c' /\ dm c' = n.
Proof. exact (partial_good K). Qed.
End C20.

Print Assumptions C20_partial.
Print Assumptions C20_stencil.
Print Assumptions C20_constants_annihilated.
Print Assumptions C20_affine_to_constant.
Print Assumptions C20_sum_of_partials.
Print Assumptions C20_partial_shape.
