(* _full_rank_tt: the naive (lossless) TT formatting of a dense array.  State of the loop:
   the remainder [W] viewed as a (r*s) x C matrix; each step emits either an identity core
   (when the remainder has fewer rows than columns) or the remainder itself, and re-views the
   other factor with the next mode moved into the rows.  No proofs in this file. *)
From TN Require Export Model.Format.

Section FullRank.
Variable K : Ops.
Local Open Scope K_scope.

Fixpoint prodn (l : list nat) : nat := match l with [] => 1%nat | d :: t => (d * prodn t)%nat end.

(* row-major flat index *)
Fixpoint flatidx (sh idx : list nat) : nat :=
  match sh, idx with
  | d :: sh', i :: idx' => (i * prodn sh' + flatidx sh' idx')%nat
  | _, _ => O
  end.

(* rest = sizes of the modes after the current one; r = current left rank; s = current mode size;
   W = remainder, (r*s) x prodn rest *)
Fixpoint frt (rest : list nat) (r s : nat) (W : nat -> nat -> K) : list (score K) :=
  match rest with
  | [] => [mkScore r 1 s (fun i p _ => W (p * s + i)%nat O)]
  | s' :: rest' =>
      let R := (r * s)%nat in
      let C := prodn rest in
      let C' := (C / s')%nat in                      (* resh.shape[1] // shape[n] *)
      if (R <? C)%nat then
        (* I.reshape([R // s, s, R]);  resh.reshape(R * s', C // s') *)
        mkScore r R s (fun i p q => delta (p * s + i)%nat q)
          :: frt rest' R s' (fun a c => W (a / s')%nat ((a mod s') * C' + c)%nat)
      else
        (* resh.reshape([R // s, s, C]);  eye(C).reshape(C * s', C // s') *)
        mkScore r C s (fun i p q => W (p * s + i)%nat q)
          :: frt rest' C s' (fun a c => delta (a / s')%nat ((a mod s') * C' + c)%nat)
  end.

(* data given as a flat row-major function *)
Definition full_rank_tt (sh : list nat) (xf : nat -> K) : list (score K) :=
  match sh with
  | [] => []
  | s0 :: rest => frt rest 1 s0 (fun a c => xf (a * prodn rest + c)%nat)
  end.

Definition bonds (cs : list (score K)) : list nat :=
  match cs with [] => [] | c :: _ => rl c :: map (@rr K) cs end.

End FullRank.
Arguments frt {K}. Arguments full_rank_tt {K}. Arguments bonds {K}.
