(* C17: maximum-volume row selection (tntorch/maxvol.py).  Statements about the executable model Model/Maxvol.v (generic
   carrier K with reciprocal `inv`, modulus `absv`, decidable order `leb`; LAPACK getrf/trtrs are oracles whose answers
   (ipiv, C0) enter with their contract as hypotheses).  Instances of all hypotheses: Proofs/MaxvolInst.v (Qc). *)
From TN Require Export Proofs.MaxvolTop Proofs.MaxvolInst.
From Coq Require Import ZArith.

Section C17.
Variable K : Ops.
Hypothesis Kth : laws K.
Variable inv absv : K -> K.
Variable leb : K -> K -> bool.
Variable c105 : K.
Hypothesis leb_total : forall x y, leb x y = false -> leb y x = true.
Hypothesis leb_trans : forall x y z, leb x y = true -> leb y z = true -> leb x z = true.
Hypothesis one_neq_zero : r1 K <> r0 K.
Variable A : nat -> nat -> K.
Local Open Scope K_scope.

(* NumPy's argmax: a maximum, and the first one *)
Theorem C17_argmax_max : forall (f : nat -> K) n k, (k < n)%nat -> leb (f k) (f (amax K leb f n)) = true.
Proof. exact (amax_max K leb leb_total leb_trans). Qed.
Theorem C17_argmax_first : forall (f : nat -> K) n k, (k < amax K leb f n)%nat -> gtb K leb (f (amax K leb f n)) (f k) = true.
Proof. exact (amax_first K leb leb_total leb_trans). Qed.

(* the pivot loop driven by ipiv yields a permutation of 0..N-1 *)
Theorem C17_pivots_perm : forall N ipiv l i, Forall (fun p => (p < N)%nat) ipiv -> (i + length ipiv <= N)%nat ->
  is_perm l N -> is_perm (pivots l i ipiv) N.
Proof. exact pivots_perm. Qed.

(* one row swap (index[i] = j, rank-one update through ger) keeps  C^T A[index] = A,  C^T[index] = I,  distinct rows *)
Theorem C17_swap_reproduces : forall C idx N r i j, (i < r)%nat -> (j < N)%nat -> (r <= length idx)%nat ->
  mget C i j * inv (mget C i j) = 1 ->
  sq_repro K A C idx N r -> sq_repro K A (sq_update K inv C r N i j) (upd i idx j) N r.
Proof. exact (sq_update_repro K Kth inv A). Qed.
Theorem C17_swap_identity : forall C idx N r i j, (i < r)%nat -> (j < N)%nat -> (r <= length idx)%nat ->
  mget C i j * inv (mget C i j) = 1 ->
  sq_ident K C idx N r -> sq_ident K (sq_update K inv C r N i j) (upd i idx j) N r.
Proof. exact (sq_update_ident K Kth inv). Qed.
Theorem C17_swap_distinct : forall C idx N r i j, (i < r)%nat -> (r <= length idx)%nat -> mget C i j <> 0 ->
  sq_ident K C idx N r -> distinct_on idx r -> distinct_on (upd i idx j) r.
Proof. exact (sq_update_distinct K). Qed.

(* py_maxvol on a tall matrix: r distinct rows, C A[idx] = A, C[idx] = I, and |C| <= tol on the first top_k rows
   unless the iteration cap was hit *)
Theorem C17_maxvol_post : forall N r tol max_iters topk_arg ipiv C0,
  (0 < r < N)%nat -> Forall (fun p => (p < N)%nat) (firstn r ipiv) ->
  let idx0 := pivots (seq 0 N) 0 (firstn r ipiv) in
  sq_repro K A C0 idx0 N r -> sq_ident K C0 idx0 N r ->
  (forall x, gtb K leb (absv x) (sq_tol K leb tol) = true -> x * inv x = 1) ->
  let res := maxvol_run K inv absv leb N r tol max_iters topk_arg ipiv C0 in
  let idx := firstn r (fst (fst res)) in let C := transpose K N r (snd (fst res)) in
  py_maxvol K inv absv leb N r tol max_iters topk_arg ipiv C0 = (idx, C) /\
  length idx = r /\ NoDup idx /\ (forall p, (p < r)%nat -> (nth p idx O < N)%nat) /\
  (forall t c, (t < N)%nat -> sumn r (fun p => mget C t p * A (nth p idx O) c) = A t c) /\
  (forall p q, (p < r)%nat -> (q < r)%nat -> mget C (nth q idx O) p = delta p q) /\
  ((snd res < max_iters)%nat -> forall t p, (t < clamp_topk topk_arg N r)%nat -> (p < r)%nat ->
      leb (absv (mget C t p)) (sq_tol K leb tol) = true).
Proof. exact (maxvol_post K Kth inv absv leb leb_total leb_trans one_neq_zero A). Qed.

(* the chosen rows have trivial kernel whenever A has (non-singular submatrix for full column rank) *)
Theorem C17_kernel : forall (C : mat K) idx N k m (x : nat -> K),
  (forall t c, (t < N)%nat -> sumn k (fun p => mget C t p * A (nth p idx O) c) = A t c) ->
  (forall p, (p < k)%nat -> sumn m (fun c => A (nth p idx O) c * x c) = 0) ->
  forall t, (t < N)%nat -> sumn m (fun c => A t c * x c) = 0.
Proof. exact (repro_kernel K Kth A). Qed.

(* py_rect_maxvol: parameter clamping, one greedy addition, bookkeeping of the row norms, the whole routine *)
Theorem C17_rect_params : forall N r, (r < N)%nat -> forall maxK madd minK,
  let '(mK, mn) := rect_params N r maxK madd minK in (r <= mK <= N)%nat /\ (mn <= mK)%nat /\ (r <= mn)%nat.
Proof. exact rect_params_bounds. Qed.
Theorem C17_rect_step_reproduces : forall N topk (s : rstate K),
  (rs_i K s < N)%nat -> (rs_K K s < length (rs_index K s))%nat ->
  r_repro K A (rs_C K s) (rs_index K s) N (rs_K K s) ->
  r_repro K A (rs_C K (rect_step K inv leb N topk s)) (rs_index K (rect_step K inv leb N topk s)) N (S (rs_K K s)).
Proof. exact (rect_step_repro K Kth inv leb A). Qed.
Theorem C17_rect_step_norms : forall N topk (s : rstate K),
  (topk <= N)%nat -> (rs_i K s < N)%nat -> length (rs_chosen K s) = topk ->
  let v_i := dotrow K (rs_C K s) (rs_i K s) (rs_i K s) (rs_K K s) in
  inv (1 + v_i) * (1 + v_i) = 1 ->
  rns_ok K topk s -> rns_ok K topk (rect_step K inv leb N topk s).
Proof. exact (rect_step_norms K Kth inv leb). Qed.
Theorem C17_rect_fuel_enough : forall N topk mK mn tol2, (mn <= mK)%nat -> forall fuel (s : rstate K),
  (mK - rs_K K s <= fuel)%nat ->
  rect_cond K leb mK mn tol2 (rect_loop K inv leb fuel N topk mK mn tol2 s) = false.
Proof. exact (rect_fuel_enough K inv leb). Qed.

Theorem C17_rect_maxvol_post : forall N r tol maxK madd minK si ident topk_arg ipiv C0,
  (0 < r < N)%nat ->
  let topk := clamp_topk topk_arg N r in
  Forall (fun p => (p < topk)%nat) (firstn r ipiv) ->
  let idx0 := pivots (seq 0 N) 0 (firstn r ipiv) in
  sq_repro K A C0 idx0 N r -> sq_ident K C0 idx0 N r ->
  (forall x, gtb K leb (absv x) (sq_tol K leb c105) = true -> x * inv x = 1) ->
  (forall n (f : nat -> K), let x := sumn n (fun p => f p * f p) in inv (1 + x) * (1 + x) = 1) ->
  (forall n (f : nat -> K), gtb K leb (sumn n (fun p => f p * f p)) (- (1)) = true) ->
  leb 0 (tol * tol) = true ->
  let mK := fst (rect_params N r maxK madd minK) in let mn := snd (rect_params N r maxK madd minK) in
  (mn <= topk)%nat ->
  let res := py_rect_maxvol K inv absv leb c105 N r tol maxK madd minK si ident topk_arg ipiv C0 in
  let idx := fst res in let C := snd res in let Kc := length idx in
  (r <= Kc <= mK)%nat /\ (mn <= Kc)%nat /\ NoDup idx /\ (forall p, (p < Kc)%nat -> (nth p idx O < topk)%nat) /\
  (forall t c, (t < N)%nat -> sumn Kc (fun p => mget C t p * A (nth p idx O) c) = A t c) /\
  (ident = true -> forall p q, (p < Kc)%nat -> (q < Kc)%nat -> mget C (nth p idx O) q = delta p q) /\
  ((Kc < mK)%nat -> forall t, (t < topk)%nat -> (forall p, (p < Kc)%nat -> nth p idx O <> t) ->
     leb (dotrow K C t t Kc) (tol * tol) = true).
Proof. exact (rect_maxvol_post K Kth inv absv leb c105 leb_total leb_trans one_neq_zero A). Qed.

(* inputs that are not tall: all rows and the identity, which reproduces A *)
Theorem C17_not_tall : forall N r tol max_iters topk_arg ipiv C0 maxK madd minK si ident, (N <= r)%nat ->
  py_maxvol K inv absv leb N r tol max_iters topk_arg ipiv C0 = (seq 0 N, eye N) /\
  py_rect_maxvol K inv absv leb c105 N r tol maxK madd minK si ident topk_arg ipiv C0 = (seq 0 N, eye N) /\
  NoDup (seq 0 N) /\ length (seq 0 N) = N /\
  forall t c, (t < N)%nat -> sumn N (fun p => mget (eye (K:=K) N) t p * A (nth p (seq 0 N) O) c) = A t c.
Proof.
  intros. split; [apply maxvol_not_tall; assumption|]. split; [apply rect_maxvol_not_tall; assumption|].
  exact (not_tall_post K Kth A N).
Qed.
End C17.

Print Assumptions C17_argmax_max.
Print Assumptions C17_argmax_first.
Print Assumptions C17_pivots_perm.
Print Assumptions C17_swap_reproduces.
Print Assumptions C17_swap_identity.
Print Assumptions C17_swap_distinct.
Print Assumptions C17_maxvol_post.
Print Assumptions C17_kernel.
Print Assumptions C17_rect_params.
Print Assumptions C17_rect_step_reproduces.
Print Assumptions C17_rect_step_norms.
Print Assumptions C17_rect_fuel_enough.
Print Assumptions C17_rect_maxvol_post.
Print Assumptions C17_not_tall.
