"""C04: tolerance-driven recompression never exceeds its error bound nor raises ranks.

A case names one recompression entry point (`op`), its input and its arguments:
  op in  round_tt | round_tucker | round            in-place methods of a tensor built from case["t"]
         tn.round_tt | tn.round_tucker | tn.round   copying variants
         ctor_cores   tn.Tensor(cores, Us, eps=eps, algorithm=alg)
         ctor_dense   tn.Tensor(<dense array of case["t"]>, eps=eps, algorithm=alg)
         sparse_tt_svd  tn.sparse_tt_svd(X, y, eps, shape, rmax)
  case["t"]       explicit tensor with small integer entries (lib.rand_tensor_json)
  case["uscale"]  per mode None or a list of integer column multipliers of the Tucker factor (bad scaling: the
                  factor actually used is U * uscale[None, :]); applied identically by run() and expected()
  case["eps"], case["alg"], case["rmax"] (None | int | list), case["dim"] (round_tucker only, optional)
  case["batch"]   (batch cases) list of explicit tensors of identical format stacked into one batch tensor
The oracle decompresses input and output with NumPy (lib.dense_np) and checks
  * ||out - in||_F <= eps (1+1e-6) ||in||_F whenever no rank cap binds,
  * no TT / Tucker rank larger than the input's (or than the trivial ranks of a dense / sparse input),
  * every capped rank <= rmax,
  * for eps <= 1e-9 and operations that round the TT ranks: TT ranks == exact ranks of the unfoldings of the input
    (computed by exact integer elimination), at least 1.
"""
from lib import *

RTOL = 1e-6
# "a tolerance just above floating-point noise": singular values come from an SVD (noise ~1e-16 |x|) for algorithm
# 'svd' and from the eigenvalues of a Gram matrix (noise ~1e-8 |x|) for 'eig' and for sparse_tt_svd
TINY = {"svd": 1e-10, "eig": 1e-6}


def is_tiny(eps, alg):
    return eps == TINY[alg]

INPLACE = ["round_tt", "round_tucker", "round"]
COPY = ["tn.round_tt", "tn.round_tucker", "tn.round"]
TT_OPS = ("round_tt", "round", "tn.round_tt", "tn.round", "ctor_cores", "ctor_dense", "sparse_tt_svd")
TUCKER_OPS = ("round_tucker", "round", "tn.round_tucker", "tn.round", "ctor_cores", "ctor_dense")


def scaled(tj, uscale, xscale=None):
    """the tensor actually used: Tucker factors with their columns multiplied by the integer scales, and the
    whole tensor multiplied by xscale (applied to the first core)"""
    if (not uscale or all(s is None for s in uscale)) and xscale in (None, 1):
        return tj
    out = {"modes": []}
    for n, m in enumerate(tj["modes"]):
        s = uscale[n] if uscale else None
        U = m["U"]; core = m["core"]
        if U is not None and s is not None:
            U = [[U[i][j] * s[j] for j in range(len(s))] for i in range(len(U))]
        if n == 0 and xscale not in (None, 1):
            core = (np.array(core, dtype=np.float64) * xscale).tolist()
        out["modes"].append({"kind": m["kind"], "core": core, "U": U})
    return out


def ranks_tt_of(tj):
    ms = tj["modes"]
    c0 = np.array(ms[0]["core"])
    first = c0.shape[0] if ms[0]["kind"] == "tt" else c0.shape[1]
    return [int(first)] + [int(np.array(m["core"]).shape[-1]) for m in ms]


def ranks_tucker_of(tj):
    return [int(np.array(m["core"]).shape[-2]) for m in tj["modes"]]


def dense_exact(tj):
    """dense evaluation over Python integers (object arrays): exact for integer inputs of any magnitude"""
    mats = []
    for m in tj["modes"]:
        c = np.array(m["core"], dtype=object)
        if m["kind"] == "cp":
            s, R = c.shape
            g = np.zeros((R, s, R), dtype=object)
            for k in range(R):
                g[k, :, k] = c[:, k]
            c = g
        if m["U"] is not None:
            U = np.array(m["U"], dtype=object)
            a, s, b = c.shape
            c2 = np.zeros((a, U.shape[0], b), dtype=object)
            for p in range(a):
                c2[p] = U.dot(c[p])          # (I x S) (S x b)
            c = c2
        mats.append(c)
    cur = np.ones((1, mats[0].shape[0]), dtype=object)
    shape = []
    for c in mats:
        shape.append(c.shape[1])
        a, s, b = c.shape
        cur = cur.dot(c.reshape(a, s * b)).reshape(-1, b)
    return cur.sum(axis=1).reshape(shape)


def int_rank(M):
    """rank of an integer matrix by fraction-free (Bareiss) elimination over Python ints"""
    A = [[int(v) for v in row] for row in M]
    m = len(A); n = len(A[0]) if m else 0
    r = 0; prev = 1
    for c in range(n):
        piv = None
        for i in range(r, m):
            if A[i][c] != 0:
                piv = i; break
        if piv is None:
            continue
        A[r], A[piv] = A[piv], A[r]
        for i in range(r + 1, m):
            for j in range(c + 1, n):
                A[i][j] = (A[i][j] * A[r][c] - A[i][c] * A[r][j]) // prev
            A[i][c] = 0
        prev = A[r][c]
        r += 1
        if r == m:
            break
    return r


def exact_unfolding_ranks(xi, floor=1):
    """xi: integer-valued ndarray (object or float).  TT bond ranks 1..N-1 of the exact unfoldings (at least `floor`)"""
    shape = xi.shape
    out = []
    for k in range(1, len(shape)):
        rows = int(np.prod(shape[:k]))
        M = xi.reshape(rows, -1)
        M = M if M.shape[0] <= M.shape[1] else M.T
        out.append(max(floor, int_rank(M.tolist())))
    return out


def fro(a):
    return float(np.sqrt(np.sum(np.asarray(a, dtype=np.float64) ** 2)))


def trivial_tt_ranks(shape):
    N = len(shape)
    return [1] + [int(min(np.prod(shape[:k]), np.prod(shape[k:]))) for k in range(1, N)] + [1]


def stack_batch(tjs):
    cores = []; Us = []
    for n in range(len(tjs[0]["modes"])):
        cores.append(torch.stack([torch.tensor(t["modes"][n]["core"], dtype=torch.float64) for t in tjs]))
        if tjs[0]["modes"][n]["U"] is None:
            Us.append(None)
        else:
            Us.append(torch.stack([torch.tensor(t["modes"][n]["U"], dtype=torch.float64) for t in tjs]))
    return tn.Tensor(cores, Us, batch=True)


def batch_kept_ranks(tj):
    """bond sizes that a rounding without tolerance keeps (QR sweeps only): min of what fits on either side"""
    ms = tj["modes"]; N = len(ms)
    S = [min(np.array(m["core"]).shape[1], len(m["U"]) if m["U"] is not None else 10 ** 9) for m in ms]
    r = ranks_tt_of(tj)
    L = [1] * (N + 1); R = [1] * (N + 1)
    for k in range(1, N + 1):
        L[k] = min(r[k], L[k - 1] * S[k - 1])
    for k in range(N - 1, -1, -1):
        R[k] = min(r[k], S[k] * R[k + 1])
    return [min(L[k], R[k]) for k in range(1, N)]


def unstack_batch(t):
    B = t.cores[0].shape[0]
    out = []
    for b in range(B):
        modes = []
        for c, U in zip(t.cores, t.Us):
            cb = c[b].detach()
            modes.append({"kind": "tt" if cb.dim() == 3 else "cp", "core": cb.tolist(),
                          "U": None if U is None else U[b].detach().tolist()})
        out.append({"modes": modes})
    return out


EPS_LIST = [0.5, 0.3, 0.1, 1e-2, 1e-4, 1e-8]


class Prop:
    ID = "C04"
    LEVEL = "proof"
    COQ_HEADER = "From TN Require Import Harness.H_C04.\nFrom Coq Require Import QArith.\nOpen Scope Q_scope.\n"
    CHECK_FN = "check"
    RULE = ("entry points round_tt/round_tucker/round (in place), tn.round_tt/tn.round_tucker/tn.round (copying), "
            "Tensor(cores, Us, eps=), Tensor(dense, eps=), sparse_tt_svd; inputs: enumerated format lattice "
            "({TT,CP}x{U,no U} per mode) for N=2,3 crossed with the entry points, seeded formats for N=4,5; Tucker factors "
            "with integer column scalings 1:1e3 / 1:1e6 (condition numbers up to 1e6) in first/middle/last position; "
            "zero, 0/1-valued rank-deficient tensors and bond ranks far above the true ranks (rank 5 on modes of size "
            "1..2); eps in {0.5,0.3,0.1,1e-2,1e-4,1e-8} and 1e-10 (exact-rank clause); algorithms svd and eig; rmax "
            "absent / int / per-bond list, binding and not; batch tensors (TT cores) for round_tt/round_tucker. "
            "Non-trivial: no exception and a non-zero input; distinct = distinct (op, format signature, shape, input "
            "ranks, eps, algorithm, rmax, scaling).")
    TRUSTED = ["NumPy float64 decompression (lib.dense_np) and Frobenius norms as the oracle; exact unfolding ranks by "
               "fraction-free integer elimination over Python ints",
               "harness/props/c04.py (runner + oracle)"]
    ASSUMPTIONS = ["the bound is checked as err <= eps(1+1e-6)|x| + 1e-13|x| + 1e-12 prod_n |core_n||U_n| (float64 round-off "
                   "relative to the magnitude of the representation: matters only for tensors that vanish by cancellation)",
                   "with a binding rank cap (rmax below an input rank) only the rank clauses are checked (the error then "
                   "belongs to C05)",
                   "the exact-rank clause is checked at eps = 1e-10 (algorithm svd) and eps = 1e-6 (algorithm eig and "
                   "sparse_tt_svd, whose singular values come from a Gram matrix) on integer-valued inputs whose smallest "
                   "non-zero singular value of every unfolding exceeds 100 eps |x| (so that 'rank' is unambiguous)",
                   "for a dense or sparse input 'no rank increases' is read as: no rank above the trivial rank of the "
                   "unfolding / the mode size (for sparse_tt_svd only at eps >= 1e-6)",
                   "batch rounding ignores eps in the library (rank caps only); batch cases check that no rank grows, "
                   "caps hold and the tensor is unchanged when no cap binds"]
    THEOREMS = ["C04_rank_choice_sound", "C04_rank_choice_minimal", "C04_rank_bounds", "C04_exact_step", "C04_step_error",
                "C04_norm_is_core_norm", "C04_sandwich_norm", "C04_core_difference", "C04_orthogonal_steps", "C04_pythagoras",
                "C04_sweep_error", "C04_step_error_orthogonal", "C04_steps_within_budget", "C04_round_tt_bound", "C04_tt_budget", "C04_tucker_budget", "C04_round_budget_positive", "C04_round_budget"]

    # ------------------------------------------------------------------ generation
    def generate(self, rng, tier):
        quick = tier == "quick"
        cases = []

        def mk(op, tj, eps, alg, rmax=None, uscale=None, kind="", dim=None, xscale=None, **tags):
            N = len(tj["modes"])
            if xscale == "random":      # the whole tensor times a power of ten: every clause is scale invariant
                xscale = rng.choice([None, None, None, 1e-3, 1e-6, 1e4, 1e-15, 1e-20])
            ts = scaled(tj, uscale, xscale)
            cond = "1"
            if uscale and any(s is not None for s in uscale):
                cond = "1e%d" % int(round(math.log10(max(max(s) for s in uscale if s is not None))))
            rt, rk = ranks_tt_of(tj), ranks_tucker_of(tj)
            binding = False
            if rmax is not None:
                if op in ("round_tt", "tn.round_tt"):
                    rl = rmax if isinstance(rmax, list) else [rmax] * (N - 1)
                    binding = any(a < b for a, b in zip(rl, rt[1:-1]))
                elif op in ("round_tucker", "tn.round_tucker"):
                    rl = rmax if isinstance(rmax, list) else [rmax] * N
                    binding = any(a < b for a, b in zip(rl, rk))
                else:
                    binding = any(rmax < b for b in rt[1:-1]) or any(rmax < b for b in rk)
            tg = dict(op=op, kind=kind, formats=tsig(tj), N=N, eps=str(eps), alg=alg,
                      rmax=("none" if rmax is None else "list" if isinstance(rmax, list) else "int"),
                      rmax_binding=binding, ucond=cond, tiny=is_tiny(eps, alg),
                      round_rmax_tucker_binding=(op in ("round", "tn.round") and rmax is not None and any(rmax < b for b in rk)),
                      eig_delta_below_floor=bool(alg == "eig" and is_tiny(eps, alg) and op in TT_OPS and
                                                 eps * fro(dense_np(ts)) / math.sqrt(max(1, N - 1)) < 1e-4),
                      last_U=tj["modes"][-1]["U"] is not None, first_U=tj["modes"][0]["U"] is not None,
                      has_cp=any(m["kind"] == "cp" for m in tj["modes"]),
                      cp_end=tj["modes"][0]["kind"] == "cp" or tj["modes"][-1]["kind"] == "cp",
                      dim_arg=dim is not None, xscale=str(xscale or 1))
            tg.update(tags)
            c = {"op": op, "t": tj, "uscale": uscale, "eps": eps, "alg": alg, "rmax": rmax, "tags": tg}
            if xscale is not None:
                c["xscale"] = xscale
            if dim is not None:
                c["dim"] = dim
            cases.append(c)

        def rshape(N, hi=4):
            return [rng.randint(1, hi) for _ in range(N)]

        def reps():
            return rng.choice(EPS_LIST)

        ALLOPS = INPLACE + COPY + ["ctor_cores"]
        algs = ["svd", "eig"]
        k = 0
        # 1. format lattice x entry points
        for N in (2, 3):
            for kinds in itertools.product(KINDS, repeat=N):
                for op in ALLOPS:
                    if quick and rng.random() > (0.6 if N == 2 else 0.22):
                        continue
                    tj = rand_tensor_json(rng, rshape(N), list(kinds), maxr=rng.choice([2, 3, 4]), maxs=3)
                    mk(op, tj, reps(), algs[k % 2], kind="lattice", xscale="random"); k += 1
        # 2. seeded formats N = 4, 5
        for _ in range(150 if quick else 1500):
            N = rng.choice([4, 4, 4, 5])
            tj = rand_tensor_json(rng, rshape(N, 3), maxr=rng.choice([2, 3]), maxs=3)
            mk(rng.choice(ALLOPS), tj, reps(), algs[k % 2], kind="random"); k += 1
        # 3. badly scaled Tucker factors: position first / middle / last, condition 1e3 / 1e6, every entry point
        for _ in range(260 if quick else 2600):
            N = rng.randint(2, 4)
            pos = rng.choice(["first", "middle", "last", "last", "all"])
            kinds = []
            for n in range(N):
                want = pos == "all" or (pos == "first" and n == 0) or (pos == "last" and n == N - 1) or \
                    (pos == "middle" and 0 < n < N - 1) or rng.random() < 0.25
                kinds.append((rng.choice(["tt", "cp"]), want))
            shape = [rng.randint(2, 4) for _ in range(N)]
            tj = rand_tensor_json(rng, shape, kinds, maxr=3, maxs=3)
            p = rng.choice([3, 6])
            uscale = []
            for m in tj["modes"]:
                if m["U"] is None or rng.random() < 0.2:
                    uscale.append(None)
                else:
                    S = len(m["U"][0])
                    sc = [10 ** rng.choice([0, p // 2, p]) for _ in range(S)]
                    sc[rng.randrange(S)] = 10 ** p
                    if S > 1:
                        j = rng.randrange(S)
                        while sc[j] == 10 ** p and sc.count(10 ** p) == 1:
                            j = rng.randrange(S)
                        sc[j] = 1
                    uscale.append(sc)
            mk(rng.choice(ALLOPS), tj, reps(), algs[k % 2], uscale=uscale, kind="scaled", upos=pos); k += 1
        # 4. degenerate inputs: zero, rank-deficient, ranks far above the true ranks, size-1 modes
        for _ in range(160 if quick else 1500):
            N = rng.randint(2, 4)
            r = rng.random()
            if r < 0.2:
                tj = rand_tensor_json(rng, rshape(N, 3), maxr=3, zero=True); kd = "zero"
            elif r < 0.5:
                tj = rand_tensor_json(rng, rshape(N), maxr=5, lo=0, hi=1); kd = "rankdef"
            elif r < 0.85:
                for _try in range(30):      # bonds of size >= 4 on modes of size 1..2
                    tj = rand_tensor_json(rng, [rng.randint(1, 2) for _ in range(N)], maxr=5, maxs=2)
                    if min(ranks_tt_of(tj)[1:-1]) >= 4:
                        break
                kd = "overranked"
            else:
                tj = rand_tensor_json(rng, [1] * N, maxr=3, maxs=3); kd = "size1"
            alg = algs[k % 2]
            mk(rng.choice(ALLOPS), tj, rng.choice(EPS_LIST + [TINY[alg]]), alg, kind=kd); k += 1
        # 5. rank caps
        for _ in range(200 if quick else 2000):
            N = rng.randint(2, 4)
            r = rng.random()
            if r < 0.5:
                tj = rand_tensor_json(rng, rshape(N), maxr=4, maxs=4)
            elif r < 0.8:       # stored ranks above the true ranks, caps in between
                tj = rand_tensor_json(rng, rshape(N), maxr=5, lo=0, hi=1, maxs=4)
            else:
                tj = rand_tensor_json(rng, [rng.randint(1, 3) for _ in range(N)], maxr=6, maxs=3)
            op = rng.choice(INPLACE + COPY)
            if op.endswith("round_tt"):
                rmax = rng.choice([1, 2, 3, 6]) if rng.random() < 0.5 else [rng.randint(1, 5) for _ in range(N - 1)]
            elif op.endswith("round_tucker"):
                rmax = rng.choice([1, 2, 3, 6]) if rng.random() < 0.5 else [rng.randint(1, 5) for _ in range(N)]
            else:
                rmax = rng.choice([1, 2, 3, 6])
            mk(op, tj, reps(), algs[k % 2], rmax=rmax, kind="rmax"); k += 1
        # 6. tolerance just above floating-point noise: exact ranks
        for _ in range(220 if quick else 2200):
            N = rng.randint(2, 4)
            r = rng.random()
            if r < 0.5:
                tj = rand_tensor_json(rng, rshape(N), maxr=rng.choice([3, 5]), maxs=3)
            elif r < 0.8:
                tj = rand_tensor_json(rng, rshape(N), maxr=5, lo=0, hi=1, maxs=3)
            else:
                tj = rand_tensor_json(rng, rshape(N, 3), maxr=3, zero=rng.random() < 0.5, maxs=2)
            op = rng.choice(["round_tt", "round", "tn.round_tt", "tn.round", "ctor_cores", "ctor_dense", "round_tucker"])
            mk(op, tj, TINY[algs[k % 2]], algs[k % 2], kind="tiny", xscale="random"); k += 1
        # 6b. all-zero tensors with every entry point, both algorithms (zero special case of the truncated SVD);
        #     all cores zero / a single zero core (first, middle, last) / a zero Tucker factor
        for op in ALLOPS + ["ctor_dense"]:
            for alg in algs:
                for variant in ("all", "first", "middle", "last", "factor"):
                    for rep_ in range(1 if quick else 4):
                        N = rng.randint(2, 4)
                        kinds = None
                        if variant == "factor":
                            kinds = [(rng.choice(["tt", "cp"]), True) for _ in range(N)]
                        tj = rand_tensor_json(rng, rshape(N, 3), kinds, maxr=3, maxs=3, zero=variant == "all")
                        if variant in ("first", "middle", "last"):
                            n = 0 if variant == "first" else N - 1 if variant == "last" else N // 2
                            tj["modes"][n]["core"] = (np.array(tj["modes"][n]["core"]) * 0).tolist()
                        if variant == "factor":
                            n = rng.randrange(N)
                            tj["modes"][n]["U"] = (np.array(tj["modes"][n]["U"]) * 0).tolist()
                        mk(op, tj, rng.choice([0.5, 0.1, 1e-4, 1e-8, TINY[alg]]), alg, kind="zero-" + variant)
        # 6e. one-mode tensors (a single TT core / CP factor, with or without a Tucker factor) through every entry point
        for rep_ in range(60 if quick else 600):
            kinds = [rng.choice(KINDS)]
            tj = rand_tensor_json(rng, [rng.randint(1, 5)], kinds, maxr=3, maxs=4, zero=rng.random() < 0.05)
            mk(rng.choice(ALLOPS), tj, reps(), algs[k % 2], kind="onemode"); k += 1
        # 6d. faint but genuine components (1e-4 and 1e-9 of the largest) at tolerances far below them: they must survive
        #     (algorithm 'svd' only: the Gram-matrix route cannot resolve components below ~1e-8 relative)
        for rep_ in range(12 if quick else 120):
            N = rng.choice([2, 3])
            shape = [rng.choice([4, 5, 6]) for _ in range(N)]
            kinds = [("cp", rng.random() < 0.25) for _ in range(N)]
            for _try in range(50):
                tj = rand_tensor_json(rng, shape, kinds, maxr=3, lo=-3, hi=3, maxs=4)
                if np.array(tj["modes"][0]["core"]).shape[1] == 3 and \
                        np.linalg.matrix_rank(dense_np(tj).reshape(shape[0], -1)) == 3:
                    break
            else:
                continue
            w = np.array([1.0, 1e-4, 1e-9])
            tj["modes"][0]["core"] = (np.array(tj["modes"][0]["core"], dtype=float) * w[None, :]).tolist()
            mk(rng.choice(ALLOPS), tj, rng.choice([1e-12, 1e-11]), "svd", kind="faint"); k += 1
        # 6c. budget stress: larger modes and ranks, large tolerances (every truncation close to its share of the
        #     budget), every entry point, hybrid formats (factors on some modes only, CP cores at the ends)
        for _ in range(1500 if quick else 12000):
            N = rng.choice([2, 3, 3, 4, 4])
            r = rng.random()
            if r < 0.35:
                kinds = None
            elif r < 0.6:       # CP cores at one or both ends
                kinds = [rng.choice(KINDS) for _ in range(N)]
                if rng.random() < 0.7:
                    kinds[0] = ("cp", rng.random() < 0.4)
                if rng.random() < 0.7:
                    kinds[-1] = ("cp", rng.random() < 0.4)
            elif r < 0.85:      # TT cores, factors on a strict subset of the modes
                kinds = [("tt", False)] * N
                for n in rng.sample(range(N), rng.randint(1, N - 1)):
                    kinds[n] = ("tt", True)
            else:               # factor on the last mode only / on every mode
                kinds = [("tt", rng.random() < 0.5) for _ in range(N - 1)] + [(rng.choice(["tt", "cp"]), True)]
            shape = [rng.randint(3, 5) for _ in range(N)]
            tj = rand_tensor_json(rng, shape, kinds, maxr=4, maxs=4, lo=-3, hi=3)
            eps = round(rng.uniform(0.05, 0.95), 3)
            mk(rng.choice(ALLOPS), tj, eps, algs[k % 2], kind="stress", xscale="random"); k += 1
        # 6d. superdiagonal tensors sum_i w_i e_i x ... x e_i with graded integer weights: every unfolding has the
        #     singular values w_i, so each truncation step discards as much as its share of the budget allows and the
        #     errors of successive steps add up (this is where a wrong budget split shows)
        for _ in range(500 if quick else 5000):
            N = rng.choice([2, 3, 3, 4])
            n = rng.randint(4, 8) if N < 4 else rng.randint(4, 6)
            w = [rng.randint(30, 120)] + [rng.randint(1, 14) for _ in range(n - 1)]
            fmt = rng.choice(["cp", "tt", "mixed"])
            modes = []
            for d in range(N):
                perm = list(range(n)); rng.shuffle(perm)
                kind = fmt if fmt != "mixed" else rng.choice(["cp", "tt"])
                col = lambda i: [(w[i] if d == 0 else 1) * (1 if j == perm[i] else 0) for j in range(n)]
                hasU = rng.random() < 0.3
                E = [[(1 if j == perm[i] else 0) for i in range(n)] for j in range(n)]      # n x n permutation
                if kind == "cp":
                    core = [[(w[i] if d == 0 else 1) * E[j][i] for i in range(n)] for j in range(n)] if not hasU else \
                        [[(w[i] if d == 0 else 1) * (1 if j == i else 0) for i in range(n)] for j in range(n)]
                else:
                    core = [[[((w[i] if d == 0 else 1) if (a == i and b == i) else 0) * (E[j][i] if not hasU else (1 if j == i else 0))
                              for b in range(n)] for j in range(n)] for a in range(n) for i in [a]]
                modes.append({"kind": kind, "core": core, "U": E if hasU else None})
            # boundary TT cores must have outer bond 1: sum the diagonal into the open bond
            if modes[0]["kind"] == "tt":
                c = np.array(modes[0]["core"]); modes[0]["core"] = c.sum(axis=0, keepdims=True).tolist()
            if modes[-1]["kind"] == "tt":
                c = np.array(modes[-1]["core"]); modes[-1]["core"] = c.sum(axis=2, keepdims=True).tolist()
            tj = {"modes": modes}
            eps = round(rng.uniform(0.03, 0.6), 3)
            mk(rng.choice(ALLOPS + ["ctor_dense"]), tj, eps, algs[k % 2], kind="superdiag", xscale="random"); k += 1
        # 7. construction from a dense array with eps=
        for _ in range(120 if quick else 1200):
            N = rng.randint(1, 4)
            r = rng.random()
            tj = rand_tensor_json(rng, rshape(N), maxr=rng.choice([1, 2, 3]), lo=0 if r < 0.3 else -2, hi=1 if r < 0.3 else 2,
                                  zero=r > 0.93)
            mk("ctor_dense", tj, reps(), algs[k % 2], kind="dense"); k += 1
        # 8. round_tucker restricted to a subset of modes (dim=)
        for _ in range(40 if quick else 400):
            N = rng.randint(2, 4)
            tj = rand_tensor_json(rng, [rng.randint(2, 4) for _ in range(N)], maxr=3, maxs=3)
            dim = sorted(rng.sample(range(N), rng.randint(1, N - 1)))
            mk(rng.choice(["round_tucker", "tn.round_tucker"]), tj, rng.choice([0.5, 0.3, 0.1]), algs[k % 2], dim=dim, kind="dim"); k += 1
        # 9. sparse TT-SVD
        for _ in range(150 if quick else 1500):
            N = rng.randint(2, 4)
            shape = [rng.randint(1, 4) for _ in range(N)]
            total = int(np.prod(shape))
            P = rng.randint(1, total)
            flat_idx = sorted(rng.sample(range(total), P))
            X = [list(int(v) for v in np.unravel_index(i, shape)) for i in flat_idx]
            r = rng.random()
            if rng.random() < 0.3:      # superdiagonal samples with graded values: truncations fill their budget
                n = rng.randint(3, 6)
                shape = [n] * N
                X = [[i] * N for i in range(n)]
                P = n; total = n ** N
                y = [rng.randint(30, 120)] + [rng.randint(1, 14) for _ in range(n - 1)]
                rng.shuffle(y)
            elif r < 0.08:
                y = [0] * P
            elif r < 0.5:
                y = [rng.randint(-3, 3) for _ in range(P)]
            else:
                y = [rng.choice([1, 2, 3, -1, 10, 100, 1000]) for _ in range(P)]
            eps = rng.choice(EPS_LIST + [1e-6, 1e-6, round(rng.uniform(0.03, 0.6), 3), round(rng.uniform(0.03, 0.6), 3)])
            rmax = rng.choice([None, None, 1, 2, 5])
            give_shape = rng.random() < 0.7
            tg = dict(op="sparse_tt_svd", kind="sparse", N=N, eps=str(eps), alg="eig", tiny=is_tiny(eps, "eig"),
                      rmax="none" if rmax is None else "int", full=P == total, shape_given=give_shape,
                      zero=all(v == 0 for v in y))
            cases.append({"op": "sparse_tt_svd", "shape": shape, "X": X, "y": y, "eps": eps, "rmax": rmax,
                          "shape_given": give_shape, "tags": tg})
        for N in (2, 3, 4):          # all-zero samples
            for eps in (0.1, 1e-6):
                shape = [rng.randint(1, 3) for _ in range(N)]
                X = [[rng.randrange(sz) for sz in shape]]
                cases.append({"op": "sparse_tt_svd", "shape": shape, "X": X, "y": [0], "eps": eps, "rmax": None, "shape_given": True,
                              "tags": dict(op="sparse_tt_svd", kind="sparse-zero", N=N, eps=str(eps), alg="eig",
                                           tiny=is_tiny(eps, "eig"), rmax="none", full=False, shape_given=True, zero=True)})
        # 10. batch tensors (TT cores, optional factors)
        for _ in range(60 if quick else 600):
            N = rng.randint(2, 3)
            B = rng.randint(1, 3)
            kinds = [("tt", rng.random() < 0.4) for _ in range(N)]
            shape = rshape(N, 3)
            first = rand_tensor_json(rng, shape, kinds, maxr=3, maxs=3)
            tjs = [first]
            for b in range(1, B):       # same format and sizes, fresh entries
                t2 = json.loads(json.dumps(first))
                for m in t2["modes"]:
                    a = np.array(m["core"]); m["core"] = np.array([rng.randint(-2, 2) for _ in range(a.size)]).reshape(a.shape).tolist()
                    if m["U"] is not None:
                        a = np.array(m["U"]); m["U"] = np.array([rng.randint(-2, 2) for _ in range(a.size)]).reshape(a.shape).tolist()
                tjs.append(t2)
            op = rng.choice(["round_tt", "round_tucker", "tn.round_tt", "tn.round_tucker"])
            rmax = rng.choice([None, None, 1, 2, 4])
            rt, rk = ranks_tt_of(first), ranks_tucker_of(first)
            binding = rmax is not None and (any(rmax < b for b in rt[1:-1]) if op.endswith("round_tt") else any(rmax < b for b in rk))
            kept = [min(a, rmax) if rmax is not None else a for a in batch_kept_ranks(first)]
            rankdef = any(any(a < b for a, b in zip(exact_unfolding_ranks(dense_exact(t), 0), kept)) for t in tjs)
            tg = dict(op=op, kind="batch", batch=True, formats=tsig(first), N=N, eps="0.1", alg=algs[k % 2], B=B,
                      rmax="none" if rmax is None else "int", rmax_binding=binding,
                      batch_tt_rankdef=bool(rankdef and op.endswith("round_tt")),
                      batch_tucker_eig=bool(op.endswith("round_tucker") and algs[k % 2] == "eig"))
            cases.append({"op": op, "batch": tjs, "eps": 0.1, "alg": algs[k % 2], "rmax": rmax, "tags": tg}); k += 1
        return cases

    # ------------------------------------------------------------------ implementation
    def _call(self, t, case):
        op = case["op"]
        kw = {"eps": case["eps"], "algorithm": case["alg"]}
        if case.get("rmax") is not None:
            kw["rmax"] = case["rmax"]
        if case.get("dim") is not None:
            kw["dim"] = case["dim"]
        if op in INPLACE:
            getattr(t, op)(**kw)
            return t
        f = {"tn.round_tt": tn.round_tt, "tn.round_tucker": tn.round_tucker, "tn.round": tn.round}[op]
        return f(t, **kw)

    def run(self, case):
        try:
            op = case["op"]
            if "batch" in case:
                t = stack_batch(case["batch"])
                r = self._call(t, case)
                return {"ok": True, "batch": unstack_batch(r)}
            if op == "sparse_tt_svd":
                X = torch.tensor(case["X"], dtype=torch.int64)
                y = torch.tensor(case["y"], dtype=torch.float64)
                r = tn.sparse_tt_svd(X, y, case["eps"], shape=list(case["shape"]) if case["shape_given"] else None,
                                     rmax=case["rmax"])
                return {"ok": True, "t": from_tn(r)}
            ts = scaled(case["t"], case.get("uscale"), case.get("xscale"))
            if op == "ctor_dense":
                x = torch.tensor(dense_np(ts))
                r = tn.Tensor(x, eps=case["eps"], algorithm=case["alg"])
            elif op == "ctor_cores":
                cores = [torch.tensor(m["core"], dtype=torch.float64) for m in ts["modes"]]
                Us = [None if m["U"] is None else torch.tensor(m["U"], dtype=torch.float64) for m in ts["modes"]]
                r = tn.Tensor(cores, Us, eps=case["eps"], algorithm=case["alg"])
            else:
                r = self._call(to_tn(ts), case)
            return {"ok": True, "t": from_tn(r)}
        except Exception as e:
            return {"ok": False, "err": type(e).__name__, "msg": str(e)[:200]}

    # ------------------------------------------------------------------ specification
    def _spec_one(self, case, ts):
        op = case["op"]
        x = dense_np(ts)
        N = x.ndim
        out = {"shape": list(x.shape), "dense": x.reshape(-1).tolist(), "norm": fro(x)}
        if op == "ctor_dense":
            out["tt_in"] = trivial_tt_ranks(x.shape); out["tucker_in"] = list(x.shape)
            out["scale"] = out["norm"]
        else:
            out["tt_in"] = ranks_tt_of(ts); out["tucker_in"] = ranks_tucker_of(ts)
            # magnitude of the representation (>= |x|): round-off of any algorithm working on the cores scales with it
            out["scale"] = float(np.prod([fro(m["core"]) * (fro(m["U"]) if m["U"] is not None else 1.0) for m in ts["modes"]]))
        out["exact"] = None
        if is_tiny(case["eps"], case["alg"]) and op in TT_OPS and N >= 2:
            out["exact"] = self._exact(dense_exact(scaled(case["t"], case.get("uscale"))), x, case["eps"])
        return out

    def _exact(self, xi, x, eps):
        """exact TT ranks of the input, or None when they are not well separated from the tolerance"""
        ranks = exact_unfolding_ranks(xi)
        nx = fro(x)
        if nx == 0:
            return ranks
        for k, r in enumerate(ranks, start=1):
            s = np.linalg.svd(x.reshape(int(np.prod(x.shape[:k])), -1), compute_uv=False)
            if s[r - 1] <= 100 * eps * nx:
                return None
        return ranks

    def expected(self, case):
        if "batch" in case:
            return {"ok": True, "batch": [self._spec_one(case, t) for t in case["batch"]]}
        if case["op"] == "sparse_tt_svd":
            shape = list(case["shape"])
            if not case["shape_given"]:
                shape = [max(r[n] for r in case["X"]) + 1 for n in range(len(shape))]
            x = np.zeros(shape)
            for idx, v in zip(case["X"], case["y"]):
                x[tuple(idx)] = v
            out = {"ok": True, "shape": shape, "dense": x.reshape(-1).tolist(), "norm": fro(x),
                   "tt_in": trivial_tt_ranks(shape), "tucker_in": shape, "exact": None, "scale": fro(x)}
            if is_tiny(case["eps"], "eig"):
                out["exact"] = self._exact(x.astype(np.int64).astype(object), x, case["eps"])
            if case["eps"] < 1e-6:      # below the noise of the Gram matrices nothing is promised about the ranks
                out["tt_in"] = [10 ** 9] * (len(shape) + 1)
            return out
        out = self._spec_one(case, scaled(case["t"], case.get("uscale"), case.get("xscale")))
        out["ok"] = True
        return out

    def _check_one(self, case, rt, exp, batch=False):
        op = case["op"]; eps = case["eps"]; rmax = case.get("rmax")
        x = np.array(exp["dense"]).reshape(exp["shape"])
        try:
            y = dense_np(rt)
        except Exception as e:
            return False, "result is not a well-formed network (%s)" % type(e).__name__
        if list(y.shape) != list(x.shape):
            return False, "shape %s, expected %s" % (list(y.shape), list(x.shape))
        if not np.all(np.isfinite(y)) or not all(
                np.all(np.isfinite(np.array(m["core"], dtype=np.float64))) and
                (m["U"] is None or np.all(np.isfinite(np.array(m["U"], dtype=np.float64)))) for m in rt["modes"]):
            return False, "result has non-finite entries"
        N = len(exp["shape"])
        tt_out, tk_out = ranks_tt_of(rt), ranks_tucker_of(rt)
        tt_in, tk_in = exp["tt_in"], exp["tucker_in"]
        # ---- ranks never increase
        if any(a > b for a, b in zip(tt_out, tt_in)):
            return False, "TT ranks grew: %s -> %s" % (tt_in, tt_out)
        if any(a > b for a, b in zip(tk_out, tk_in)):
            return False, "Tucker ranks grew: %s -> %s" % (tk_in, tk_out)
        # ---- caps
        binding = False
        if rmax is not None:
            if op in ("round_tt", "tn.round_tt", "sparse_tt_svd"):
                rl = rmax if isinstance(rmax, list) else [rmax] * (N - 1)
                if any(a > b for a, b in zip(tt_out[1:-1], rl)):
                    return False, "TT ranks %s exceed rmax %s" % (tt_out, rmax)
                binding = any(b < a for a, b in zip(tt_in[1:-1], rl))
            elif op in ("round_tucker", "tn.round_tucker"):
                rl = rmax if isinstance(rmax, list) else [rmax] * N
                if any(a > b for a, b in zip(tk_out, rl)):
                    return False, "Tucker ranks %s exceed rmax %s" % (tk_out, rmax)
                binding = any(b < a for a, b in zip(tk_in, rl))
            else:
                if any(a > rmax for a in tt_out[1:-1]) or any(a > rmax for a in tk_out):
                    return False, "ranks %s / %s exceed rmax %s" % (tt_out, tk_out, rmax)
                binding = any(rmax < a for a in tt_in[1:-1]) or any(rmax < a for a in tk_in)
        # ---- error bound
        nx = exp["norm"]
        err = fro(y - x)
        bound_eps = 0.0 if batch else eps     # the library's batch rounding does not truncate by eps: unchanged
        # floating-point noise of the rank decision itself: singular values from an SVD carry ~1e-16 |x|, those taken
        # from the eigenvalues of a Gram matrix ('eig', sparse_tt_svd) ~1e-8 |x| (TINY above): a component of that size
        # cannot be told from noise by that algorithm, whatever eps
        noise = 1e-6 if batch else (1e-7 if case.get("alg") == "eig" or op == "sparse_tt_svd" else 1e-13)
        if not binding:
            if not (err <= bound_eps * (1 + RTOL) * nx + noise * nx + 1e-12 * exp["scale"]):
                return False, "relative error %g exceeds eps = %g (|x| = %g)" % (err / nx if nx else err, eps, nx)
        # ---- exact ranks at a tolerance just above noise
        if exp.get("exact") is not None and not binding and not batch:
            if tt_out[1:-1] != exp["exact"]:
                return False, "TT ranks %s at eps = %g, exact unfolding ranks are %s" % (tt_out[1:-1], eps, exp["exact"])
        return True, ""

    def agree(self, case, res, exp):
        if not res.get("ok"):
            return False, "implementation raised %s: %s" % (res.get("err"), res.get("msg"))
        if "batch" in case:
            if len(res["batch"]) != len(exp["batch"]):
                return False, "batch size changed"
            for b, (rt, e) in enumerate(zip(res["batch"], exp["batch"])):
                ok, msg = self._check_one(case, rt, e, batch=True)
                if not ok:
                    return False, "batch element %d: %s" % (b, msg)
            return True, ""
        return self._check_one(case, res["t"], exp)

    # ------------------------------------------------------------------ evidence
    def nontrivial(self, case, res):
        if not res.get("ok"):
            return False
        if "batch" in case:
            return any(np.any(dense_np(t) != 0) for t in case["batch"])
        if case["op"] == "sparse_tt_svd":
            return any(v != 0 for v in case["y"])
        return bool(np.any(dense_np(case["t"]) != 0))

    def signature(self, case):
        if "batch" in case:
            tj = case["batch"][0]
            return "B%d;%s;%s;%s;%s;%s;%s" % (len(case["batch"]), case["op"], tsig(tj), tshape(tj), ranks_tt_of(tj), case["alg"], case["rmax"])
        if case["op"] == "sparse_tt_svd":
            return "sparse;%s;%d;%s;%s;%s" % (case["shape"], len(case["X"]), case["eps"], case["rmax"],
                                           hashlib.sha1(json.dumps([case["X"], case["y"]]).encode()).hexdigest()[:8])
        tj = case["t"]
        return "%s;%s;%s;%s;%s;%s;%s;%s;%s;%s" % (case["op"], tsig(tj), tshape(tj), ranks_tt_of(tj), case["eps"], case["alg"],
                                                 case["rmax"], case.get("uscale"), case.get("dim"), case.get("xscale"))

    def coq_term(self, case, res):
        """oracle replay of round_tt (non-batch, small tensors): torch.linalg.qr and tn.truncated_svd are intercepted;
        the model replays orthogonalize(N-1), the factor QR, the budget delta and the right-to-left sweep with the
        recorded answers; its arguments and its final tensor must match the implementation's"""
        from fractions import Fraction
        if case["op"] not in ("round_tt", "tn.round_tt") or not res.get("ok") or case.get("batch") or case.get("dim") is not None:
            return None
        tj = scaled(case["t"], case.get("uscale"), case.get("xscale"))
        N = len(tj["modes"])
        if N < 2 or N > 4 or max(max(np.array(m["core"]).shape) for m in tj["modes"]) > 4:
            return None
        if any(abs(float(v)) not in (0.0,) and (abs(float(v)) < 1e-4 or abs(float(v)) > 1e4) for m in tj["modes"] for v in flat(m["core"])):
            return None
        t = to_tn(tj); qrs = []; tss = []
        oqr = torch.linalg.qr; ots = tn.truncated_svd
        def wqr(A, *a, **k):
            Q, R = oqr(A, *a, **k); qrs.append((A.detach().clone(), Q.detach().clone(), R.detach().clone())); return Q, R
        def wts(M, *a, **k):
            l, r = ots(M, *a, **k); tss.append((M.detach().clone(), float(k.get("delta") or 0.0), l.detach().clone(), r.detach().clone(), int(k.get("rmax") or 0))); return l, r
        kw = {"eps": case["eps"], "algorithm": case["alg"]}
        if case.get("rmax") is not None:
            kw["rmax"] = case["rmax"]
        torch.linalg.qr = wqr; tn.truncated_svd = wts
        try:
            t.round_tt(**kw)
        except Exception:
            return None
        finally:
            torch.linalg.qr = oqr; tn.truncated_svd = ots
        D = 2 ** 30
        ql = lambda x: "(%d#%d)" % (round(float(x) * D), D)
        a2 = lambda A: "(mkA2 %d %d %s)" % (A.shape[0], A.shape[1], coq_list(A.reshape(-1).tolist(), ql, "Q"))
        # answers are passed exactly (every double is a dyadic rational); compared quantities are rounded to 2^-30
        qx = lambda x: qlit(Fraction(float(x)))
        x2 = lambda A: "(mkA2 %d %d %s)" % (A.shape[0], A.shape[1], coq_list(A.reshape(-1).tolist(), qx, "Q"))
        # the recorded arguments are exact as well: rounded to 2^-30 they vanish for tensors of tiny magnitude and put an
        # absolute 1e-9 into comparisons of results that cancel exactly
        qa = "[" + "; ".join("mkAns %d %s %s %s" % (Q.shape[1], x2(Q), x2(R), x2(A)) for A, Q, R in qrs) + "]"
        ta = "[" + "; ".join("mkTs %s %s %s %s %d%%nat" % (x2(l), x2(r), x2(M), qlit(Fraction(d * d).limit_denominator(10 ** 15)), rm) for M, d, l, r, rm in tss) + "]"
        rmx = case.get("rmax")
        rmaxs = [0] * (N - 1) if rmx is None else (list(rmx) if isinstance(rmx, list) else [int(rmx)] * (N - 1))
        d = t.torch().detach().double()
        lit = lambda x: qlit(Fraction(x).limit_denominator(10 ** 9))
        eps2 = Fraction(case["eps"]).limit_denominator(10 ** 12) ** 2
        return "mkCase %s %s %s %s %s %s %s" % (coq_tensor(tj, lit, "Q"), qlit(eps2), coq_natlist(rmaxs), qa, ta, coq_natlist(list(d.shape)),
                                            coq_list(d.reshape(-1).tolist(), ql, "Q"))
