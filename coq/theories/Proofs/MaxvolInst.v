(* Non-vacuity: the field/order contract used as hypotheses by the C17 theorems holds for the rationals (Qc, the lawful
   twin of the executable carrier QO), and the oracle contract holds for a concrete instance on which a swap happens. *)
From TN Require Export Proofs.MaxvolTop Alg.Inst.
From Coq Require Import QArith Qcanon Qcabs Lia Lqa.

Definition qc_leb (x y : Qc) : bool := Qle_bool x y.
Lemma qc_leb_iff x y : qc_leb x y = true <-> (x <= y)%Qc.
Proof. unfold qc_leb, Qcle. apply Qle_bool_iff. Qed.
Lemma qc_leb_false x y : qc_leb x y = false -> (y < x)%Qc.
Proof. intros H. apply Qcnot_le_lt. intros L. apply qc_leb_iff in L. congruence. Qed.

Example qc_leb_total : forall x y, qc_leb x y = false -> qc_leb y x = true.
Proof. intros x y H. apply qc_leb_iff. apply Qclt_le_weak. apply qc_leb_false. exact H. Qed.
Example qc_leb_trans : forall x y z, qc_leb x y = true -> qc_leb y z = true -> qc_leb x z = true.
Proof. intros x y z H1 H2. apply qc_leb_iff. apply qc_leb_iff in H1, H2. eapply Qcle_trans; eassumption. Qed.
Example qc_one_neq_zero : r1 QcO <> r0 QcO.
Proof. cbn. intros H. discriminate H. Qed.

Lemma qc_sq_tol_ge1 tol : (1 <= sq_tol QcO qc_leb tol)%Qc.
Proof.
  unfold sq_tol, gtb. destruct (qc_leb (r1 QcO) tol) eqn:E; cbn [negb].
  - apply qc_leb_iff in E. exact E.
  - cbn. apply Qcle_refl.
Qed.

(* entries that pass abs(x) > tol (tol clamped to >= 1) are invertible *)
Example qc_big_invertible tol x : gtb QcO qc_leb (Qcabs x) (sq_tol QcO qc_leb tol) = true -> (x * / x = 1)%Qc.
Proof.
  intros H. apply Qcmult_inv_r. intros E. subst x. unfold gtb in H. apply negb_true_iff in H.
  apply qc_leb_false in H. pose proof (qc_sq_tol_ge1 tol) as H1.
  assert (H2 : (1 < Qcabs (Q2Qc 0))%Qc) by (eapply Qcle_lt_trans; eassumption).
  revert H2. vm_compute. intros H2. discriminate H2.
Qed.

Lemma Qsq_nonneg (a : Q) : (0 <= a * a)%Q.
Proof.
  destruct (Qlt_le_dec a 0) as [H|H].
  - setoid_replace (a * a)%Q with ((- a) * (- a))%Q by ring. apply Qmult_le_0_compat; lra.
  - apply Qmult_le_0_compat; lra.
Qed.

Lemma qc_sumsq_nonneg n (f : nat -> Qc) : (0 <= sumn (K:=QcO) n (fun p => rmul QcO (f p) (f p)))%Qc.
Proof.
  induction n as [|n IH]; cbn [sumn]; [cbn; apply Qcle_refl|].
  cbn [QcO radd rmul car] in *. unfold Qcle in *. cbn [this Qcplus Qcmult Q2Qc] in *.
  rewrite !Qred_correct. rewrite ?Qred_correct in IH. pose proof (Qsq_nonneg (f n)). lra.
Qed.

Example qc_inv_sumsq : forall n (f : nat -> Qc), let x := sumn (K:=QcO) n (fun p => rmul QcO (f p) (f p)) in
  rmul QcO (Qcinv (radd QcO (r1 QcO) x)) (radd QcO (r1 QcO) x) = r1 QcO.
Proof.
  intros n f x. cbn [QcO radd rmul r1 car]. apply Qcmult_inv_l. intros E.
  pose proof (qc_sumsq_nonneg n f) as H. fold x in H.
  assert (H2 : (0 < 1 + x)%Qc).
  { unfold Qclt, Qcle in *. cbn [this Qcplus Q2Qc] in *. rewrite !Qred_correct. cbn in H. lra. }
  rewrite E in H2. revert H2. vm_compute. intros H2. discriminate H2.
Qed.

Example qc_sumsq_gt_m1 : forall n (f : nat -> Qc),
  gtb QcO qc_leb (sumn (K:=QcO) n (fun p => rmul QcO (f p) (f p))) (ropp QcO (r1 QcO)) = true.
Proof.
  intros n f. unfold gtb. apply negb_true_iff. destruct (qc_leb _ _) eqn:E; [|reflexivity]. exfalso.
  apply qc_leb_iff in E. pose proof (qc_sumsq_nonneg n f) as H.
  assert (H2 : (0 <= - (1))%Qc) by (eapply Qcle_trans; eassumption).
  revert H2. vm_compute. intros H2. apply H2. reflexivity.
Qed.

Example qc_tol2_nonneg : forall tol : Qc, qc_leb (r0 QcO) (rmul QcO tol tol) = true.
Proof.
  intros tol. apply qc_leb_iff. pose proof (qc_sumsq_nonneg 1 (fun _ => tol)) as H. cbn [sumn] in H.
  cbn [QcO radd rmul r0 car] in *. rewrite Qcplus_0_l in H. exact H.
Qed.

(* a concrete instance of the oracle contract (hypotheses of C17_maxvol_post / C17_rect_maxvol_post) on which the loop
   does swap a row: A = [[1],[2]] (N = 2, r = 1), ipiv = [0], C0 = [[1, 2]] *)
Definition exA (t c : nat) : Qc := if (t =? 0)%nat then Q2Qc 1 else Q2Qc 2.
Definition exC0 : mat QcO := (Q2Qc 1 :: Q2Qc 2 :: nil) :: nil.
Example ex_contract :
  sq_repro QcO exA exC0 (pivots (seq 0 2) 0 (firstn 1 (O :: nil))) 2 1 /\
  sq_ident QcO exC0 (pivots (seq 0 2) 0 (firstn 1 (O :: nil))) 2 1 /\
  Forall (fun p => (p < clamp_topk (-1) 2 1)%nat) (firstn 1 (O :: nil)) /\
  (snd (rect_params 2 1 None None None) <= clamp_topk (-1) 2 1)%nat.
Proof.
  split; [|split; [|split]].
  - intros t c Ht. destruct t as [|[|t]]; [| |lia]; cbn; apply Qc_is_canon; reflexivity.
  - split.
    + intros q Hq. destruct q; [cbn; lia|lia].
    + intros p q Hp Hq. destruct p; [|lia]. destruct q; [|lia]. cbn. apply Qc_is_canon. reflexivity.
  - repeat constructor.
  - vm_compute. lia.
Qed.
Example ex_swaps : snd (maxvol_run QcO Qcinv Qcabs qc_leb 2 1 (Q2Qc (21 # 20)) 100 (-1) (O :: nil) exC0) = 1%nat /\
  fst (py_maxvol QcO Qcinv Qcabs qc_leb 2 1 (Q2Qc (21 # 20)) 100 (-1) (O :: nil) exC0) = (1%nat :: nil).
Proof. split; vm_compute; reflexivity. Qed.
(* a swap step with an invertible pivot: hypotheses of C17_swap_reproduces / _identity / _distinct *)
Example ex_swap_hyp : (mget exC0 0 1 * / mget exC0 0 1 = 1)%Qc /\ mget exC0 0 1 <> r0 QcO.
Proof. split; [apply Qc_is_canon; reflexivity|]. cbn. intros H. discriminate H. Qed.
