(* C04 -- tolerance-driven recompression stays within its error budget and never raises ranks.  Statements only.
   Models: Model/RankChoice.v (rank selection of truncated_svd, executable over Q), Model/RoundReplay.v (round_tt with
   the factorisations replayed; tied to the implementation by harness/props/c04.py), Proofs/RoundAlg.v (sweep step,
   projection error; any commutative ring), Proofs/BudgetR.v (budget arithmetic over R). *)
From TN Require Import Proofs.RankChoiceP Proofs.RoundAlg Proofs.OrthoP Proofs.SandwichP Proofs.SweepP Proofs.BudgetR Proofs.SweepR Alg.InstR.
From Coq Require Import Reals.

(* rank selection: the discarded tail energy is within delta^2 (or nothing is discarded) ... *)
Theorem C04_rank_choice_sound : forall (S : list Q) (d2 : Q), RankChoiceP.nonneg S ->
  let k := ndrop S d2 in ((k <= length S)%nat /\ (tail_energy S (length S - k) <= d2)%Q) \/ k = O.
Proof. exact rank_choice_sound. Qed.
(* ... and it is the smallest such rank: dropping one more value exceeds the budget *)
Theorem C04_rank_choice_minimal : forall (S : list Q) (d2 : Q), RankChoiceP.nonneg S ->
  let k := ndrop S d2 in (k < length S)%nat -> (d2 < tail_energy S (length S - (k + 1)))%Q.
Proof. exact rank_choice_minimal. Qed.
(* no rank exceeds the number of singular values (the old rank bound) nor rmax, and ranks stay >= 1 *)
Theorem C04_rank_bounds : forall (S : list Q) d2 rmax null, (1 <= rmax)%nat -> (1 <= length S)%nat ->
  (1 <= choose_rank S d2 rmax null <= Nat.min rmax (length S))%nat.
Proof. exact rank_bounds. Qed.

Section C04.
Variable K : Ops.
Hypothesis Kth : laws K.
Local Open Scope K_scope.
(* a sweep step (prev, core) -> (prev x L, R) with core = L . R changes nothing (no truncation: eps at noise level) *)
Theorem C04_exact_step : forall (prev c c' : score K) (L : nat -> nat -> K) rest i j idx v p,
  rr prev = rl c -> rr c' = rr c ->
  (forall s q, (s < rl c)%nat -> (q < rr c)%nat -> sl c j s q = sumn (rl c') (fun a => L s a * sl c' j a q)) ->
  evalv (rmulM prev L (rl c') :: c' :: rest) (i :: j :: idx) v p = evalv (prev :: c :: rest) (i :: j :: idx) v p.
Proof. exact (exact_step K Kth). Qed.
(* a truncating step projects onto orthonormal columns; its squared error is exactly the discarded energy *)
Theorem C04_step_error : forall (m n r : nat) (U M : nat -> nat -> K),
  (forall k k', (k < r)%nat -> (k' < r)%nat -> sumn m (fun i => U i k * U i k') = delta k k') ->
  sumn m (fun i => sumn n (fun j => sq K (M i j - back K r U (proj K m r U M) i j))) =
  sumn m (fun i => sumn n (fun j => sq K (M i j))) - sumn r (fun k => sumn n (fun j => sq K (proj K m r U M k j))).
Proof. exact (projection_error K Kth). Qed.
(* after orthogonalize(N-1)-style gauge the norm of the tensor is the norm of the non-orthonormal core, which is
   what round_tt scales its budget with (stated for the mirrored sweep, C13_norm) *)
Theorem C04_norm_is_core_norm : forall (c : score K) (cs : list (score K)), rl c = 1%nat -> rchain K (rr c) cs ->
  sumidx (sshape (c :: cs)) (fun idx => eval (c :: cs) idx * eval (c :: cs) idx) =
  sumn (dm c) (fun i => sumn (rr c) (fun q => sl c i O q * sl c i O q)).
Proof. exact (norm_first_core K Kth). Qed.

(* --- how the steps compose (TT-SVD analysis) --- *)
(* in mixed gauge (left-orthonormal prefix, right-orthonormal suffix) the norm of the tensor is the norm of the core
   in between: the norm of the change made by a step is the Frobenius norm of the change of that core *)
Theorem C04_sandwich_norm : forall (pre : list (score K)) (c : score K) (suf : list (score K)),
  lchain K 1 pre -> last_rr 1 pre = rl c -> rchain K (rr c) suf ->
  sumidx (sshape (pre ++ c :: suf)) (fun idx => eval (pre ++ c :: suf) idx * eval (pre ++ c :: suf) idx) = frob K c.
Proof. exact (sandwich_norm K Kth). Qed.
(* a step changes the tensor by the network that holds the difference of the two cores *)
Theorem C04_core_difference : forall (pre : list (score K)) (a b : score K) suf idxp i idxs v p,
  length idxp = length pre -> rr a = rr b ->
  evalv (pre ++ a :: suf) (idxp ++ i :: idxs) v p - evalv (pre ++ b :: suf) (idxp ++ i :: idxs) v p =
  evalv (pre ++ csub K a b :: suf) (idxp ++ i :: idxs) v p.
Proof. exact (core_difference K Kth). Qed.
(* the error of a step (rows orthogonal to the retained rows: E R^T = 0) is orthogonal to every later change, all of
   which keep the retained core R and the suffix behind it *)
Theorem C04_orthogonal_steps : forall (X Y : list (score K)) (e r : score K) suf,
  same_dims K X Y -> wfpre K 1 X (rl e) -> wfpre K 1 Y (rl r) ->
  dm e = dm r -> rr e = rr r -> rchain K (rr e) suf ->
  (forall p p', (p < rl e)%nat -> (p' < rl r)%nat ->
     sumn (dm e) (fun i => sumn (rr e) (fun q => sl e i p q * sl r i p' q)) = 0) ->
  sumidx (sshape (X ++ e :: suf)) (fun idx => eval (X ++ e :: suf) idx * eval (Y ++ r :: suf) idx) = 0.
Proof. exact (orthogonal_steps K Kth). Qed.
(* pairwise orthogonal changes add up in squares *)
Theorem C04_pythagoras : forall sh (Ds : list (list nat -> K)), pairwise_orth K sh Ds ->
  sumidx sh (fun idx => sum_fns K Ds idx * sum_fns K Ds idx) = sum_sq K sh Ds.
Proof. exact (pythagoras K Kth). Qed.
(* the whole right-to-left sweep of round_tt (network level; the retained cores rs are the oracle's answers, only required
   to be right-orthonormal with the right sizes): the squared error is exactly the sum of the squared step errors *)
Theorem C04_sweep_error : forall (rp : list (score K)) (c : score K) (suf : list (score K)) (rs : list (score K)),
  lgauge K rp (rl c) -> rchain K (rr c) suf -> steps_ok K rp c rs ->
  let T0 := rev rp ++ c :: suf in
  sumidx (sshape T0) (fun idx => (eval T0 idx - eval (sweep K rp c suf rs) idx) * (eval T0 idx - eval (sweep K rp c suf rs) idx))
  = sumK K (step_errs K rp c rs).
Proof. exact (sweep_error K Kth). Qed.
(* the error core of a step is row-orthogonal to the retained core *)
Theorem C04_step_error_orthogonal : forall (c r : score K), step_ok K c r -> forall p a', (a' < rl r)%nat ->
  sumn (dm (csub K c (lr K c r))) (fun i => sumn (rr (csub K c (lr K c r))) (fun q => sl (csub K c (lr K c r)) i p q * sl r i a' q)) = 0.
Proof. exact (err_orth K Kth). Qed.
End C04.

Local Open Scope R_scope.
(* budgets: N-1 truncations of delta^2 each stay within (eps |t|)^2; N Tucker truncations of (eps/sqrt N |t|)^2 too *)
Theorem C04_tt_budget : forall (eps nrm : R) (n : nat), INR n * (tt_delta eps nrm n)² <= (eps * nrm)².
Proof. exact tt_budget. Qed.
(* ... hence n orthogonal steps of at most delta^2 each stay within the requested relative error *)
Theorem C04_steps_within_budget : forall (es : list R) (eps nrm : R),
  Forall (fun e => e <= (tt_delta eps nrm (length es))²) es -> fold_right Rplus 0 es <= (eps * nrm)².
Proof. exact steps_within_budget. Qed.
(* end to end, over the reals: gauge + right-orthonormal answers + each step within delta^2 ==> relative error <= eps *)
Theorem C04_round_tt_bound : forall (rp : list (score RO)) (c : score RO) (suf rs : list (score RO)) (eps nrm : R),
  lgauge RO rp (rl c) -> rchain RO (rr c) suf -> steps_ok RO rp c rs ->
  Forall (fun e => e <= (tt_delta eps nrm (length (step_errs RO rp c rs)))²) (step_errs RO rp c rs) ->
  let T0 := rev rp ++ c :: suf in
  sumidx (K:=RO) (sshape T0) (fun idx => ((eval T0 idx - eval (sweep RO rp c suf rs) idx) * (eval T0 idx - eval (sweep RO rp c suf rs) idx))%K)
  <= (eps * nrm)².
Proof. exact round_tt_sweep_bound. Qed.
Theorem C04_tucker_budget : forall (eps nrm : R) (n : nat), (0 < n)%nat -> INR n * (eps / sqrt (INR n) * nrm)² = (eps * nrm)².
Proof. exact tucker_budget. Qed.
(* round(): the Tucker stage receives (1+eps)/(1+reached)-1 > 0 and the two stages together stay within eps *)
Theorem C04_round_budget_positive : forall eps reached : R, 0 <= reached -> reached < eps -> 0 < tucker_eps eps reached.
Proof. exact round_budget_positive. Qed.
Theorem C04_round_budget : forall eps reached a b dab dbc : R, 0 <= reached -> reached < eps -> 0 <= a ->
  dab <= reached * a -> b <= a + dab -> dbc <= tucker_eps eps reached * b -> dab + dbc <= eps * a.
Proof. exact round_budget. Qed.

Print Assumptions C04_rank_choice_sound.
Print Assumptions C04_rank_choice_minimal.
Print Assumptions C04_rank_bounds.
Print Assumptions C04_exact_step.
Print Assumptions C04_step_error.
Print Assumptions C04_norm_is_core_norm.
Print Assumptions C04_sandwich_norm.
Print Assumptions C04_core_difference.
Print Assumptions C04_orthogonal_steps.
Print Assumptions C04_pythagoras.
Print Assumptions C04_sweep_error.
Print Assumptions C04_step_error_orthogonal.
Print Assumptions C04_steps_within_budget.
Print Assumptions C04_round_tt_bound.
Print Assumptions C04_tt_budget.
Print Assumptions C04_tucker_budget.
Print Assumptions C04_round_budget_positive.
Print Assumptions C04_round_budget.
