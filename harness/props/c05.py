"""C05: fixed-rank decompositions are quasi-optimal and exact on low-rank inputs.

Case kinds (case["op"]):
  tt       tn.Tensor(x, ranks_tt=r, algorithm=alg)        r int or per-bond list
  tucker   tn.Tensor(x, ranks_tucker=r, algorithm=alg)    r int or per-mode list
  tsvd     tn.truncated_svd(M, delta=|eps=|nothing, rmax=, left_ortho=, algorithm=)
  cp       tn.Tensor(x, ranks_cp=R [, ranks_tucker=..])   (torch seeded from the case: random completion/initialisation)
Dense inputs are stored as nested lists (case["x"] / case["M"]); integer-valued except the decaying-spectrum class.
The oracle is NumPy only: singular values of the unfoldings of x (tails at the requested ranks), the NumPy SVD
truncation of M (Eckart-Young), Gram matrices of the returned factors.
"""
from lib import *

RT = 1e-6


def fro2(a):
    return float(np.sum(np.asarray(a, dtype=np.float64) ** 2))


def tt_unfold(x, k):
    return x.reshape(int(np.prod(x.shape[:k])), -1)


def mode_unfold(x, n):
    return np.moveaxis(x, n, 0).reshape(x.shape[n], -1)


def tail(s, r):
    return float(np.sum(s[r:] ** 2))


def finite(a):
    return a is not None and bool(np.all(np.isfinite(np.asarray(a, dtype=np.float64))))


def as_list(r, n):
    return list(r) if isinstance(r, list) else [r] * n


def outer(vs):
    x = np.array(vs[0], dtype=np.float64)
    for v in vs[1:]:
        x = np.multiply.outer(x, np.array(v, dtype=np.float64))
    return x


def spec_rank_band(s, delta, rmax):
    """ranks admissible for 'the smallest rank (>= 1) whose discarded tail is <= delta^2, capped by rmax', with a
    1e-6 relative band on delta^2 and on the singular values (ties at round-off level are not decided by the property)"""
    n = len(s)
    s1 = float(s[0]) if n else 0.0
    slack = (RT * s1) ** 2
    d2 = delta * delta

    def smallest(th):
        for r in range(1, n + 1):
            if tail(s, r) <= th:
                return r
        return n
    lo = smallest(d2 * (1 + RT) + slack)
    hi = smallest(d2 * (1 - RT) - slack)
    cap = rmax if rmax is not None else 10 ** 9
    return max(1, min(lo, cap)), max(1, min(hi, cap))


class Prop:
    ID = "C05"
    LEVEL = "proof"
    COQ_HEADER = "From TN Require Import Harness.H_C05.\nFrom Coq Require Import QArith.\nOpen Scope Q_scope.\n"
    CHECK_FN = "check"
    RULE = ("dense arrays with 2..4 modes of size 1..5 in four classes (generic integer, exactly low-rank, decaying "
            "spectrum = sum_k 0.3^k of integer rank-1 terms, zero) x requested TT rank 1..6 (scalar / per-bond list) and "
            "Tucker rank 1..5 (scalar / per-mode list) x algorithm svd/eig; matrices m x n with m,n in 1..8 (generic, "
            "rank-deficient, decaying, zero, with repeated singular values, 1x1) x budget {none, delta, eps} x rmax "
            "{none,1,2,3,8} x left/right orthogonality x svd/eig; CP: rank-1 arrays with ranks_cp=1 (and tagged "
            "ranks_cp>1), generic/zero arrays with ranks_cp 1..3 with and without ranks_tucker. Non-trivial: no "
            "exception and a non-zero input; distinct = distinct (op, shape, class, ranks/budget arguments, algorithm, "
            "content hash).")
    TRUSTED = ["NumPy SVD (singular values of unfoldings, Eckart-Young truncation) as the oracle, tolerance 1e-6",
               "harness/props/c05.py (runner + oracle)"]
    ASSUMPTIONS = ["squared errors are compared with the tails up to a factor (1 +- 1e-6) and an additive 1e-12 |x|^2 "
                   "(i.e. 'exact' means relative error <= 1e-6)",
                   "the rank returned by truncated_svd must lie between the smallest ranks meeting the budget "
                   "delta^2 (1 +- 1e-6) +- (1e-6 s_1)^2: ties at round-off level are not decided by the property",
                   "where the Eckart-Young optimum is not unique (s_r = s_{r+1} within 1e-3 s_1) only the optimal error "
                   "value is required, not a particular minimiser",
                   "for a zero matrix truncated_svd's documented rank-1 zero factors are accepted (no orthonormal side exists)",
                   "CP-ALS uses torch's global RNG for completion/initialisation; the runner seeds it from the case"]
    THEOREMS = ["C05_rank_choice_sound", "C05_rank_choice_minimal", "C05_rank_bounds", "C05_error_is_discarded_energy",
                "C05_product_independent_of_side"]

    # ------------------------------------------------------------------ generation
    def _array(self, rng, cls, N=None):
        N = N or rng.randint(2, 4)
        shape = [rng.randint(1, 5) for _ in range(N)]
        if cls == "generic":
            x = np.array([rng.randint(-3, 3) for _ in range(int(np.prod(shape)))], dtype=np.float64).reshape(shape)
        elif cls == "lowrank":
            kinds = [("tt", False)] * N
            x = dense_np(rand_tensor_json(rng, shape, kinds, maxr=2))
        elif cls == "decay":
            x = np.zeros(shape)
            for k in range(5):
                x = x + (0.3 ** k) * outer([[rng.randint(-2, 2) for _ in range(s)] for s in shape])
        elif cls == "faint":      # genuine components 1e-5 / 1e-6 of the leading one: far above round-off, below any
            # tolerance meant for something else (the ALS stopping tolerance 1e-4 must not leak into the SVD route)
            shape = [max(2, s) for s in shape]
            def vec(s):
                v = [rng.randint(-2, 2) for _ in range(s)]
                if not any(v):
                    v[rng.randrange(s)] = 1
                return v
            x = outer([vec(s) for s in shape]) + 1e-5 * outer([vec(s) for s in shape])
            if rng.random() < 0.5:
                x = x + 1e-6 * outer([vec(s) for s in shape])
        else:
            x = np.zeros(shape)
        return x

    def _matrix(self, rng, cls):
        m, n = rng.randint(1, 8), rng.randint(1, 8)
        if cls == "generic":
            M = np.array([[rng.randint(-3, 3) for _ in range(n)] for _ in range(m)], dtype=np.float64)
        elif cls == "rankdef":
            r = rng.randint(1, max(1, min(m, n) - 1))
            A = np.array([[rng.randint(-2, 2) for _ in range(r)] for _ in range(m)], dtype=np.float64)
            B = np.array([[rng.randint(-2, 2) for _ in range(n)] for _ in range(r)], dtype=np.float64)
            M = A @ B
        elif cls == "decay":
            r = min(m, n, 4)        # at most 4 decaying directions: the scaling alone has condition number <= 37
            A = np.array([[rng.randint(-2, 2) for _ in range(r)] for _ in range(m)], dtype=np.float64)
            B = np.array([[rng.randint(-2, 2) for _ in range(n)] for _ in range(r)], dtype=np.float64)
            base = rng.choice([0.3, 0.5])
            M = A @ np.diag([base ** k for k in range(r)]) @ B
        elif cls == "faint":      # genuine components far below the leading one but far above round-off
            m, n = max(m, 3), max(n, 3)
            A = np.array([[rng.randint(-2, 2) for _ in range(3)] for _ in range(m)], dtype=np.float64)
            B = np.array([[rng.randint(-2, 2) for _ in range(n)] for _ in range(3)], dtype=np.float64)
            M = A @ np.diag([1.0, 1e-5, 1e-10]) @ B
        elif cls == "scaled":     # overall magnitude far from 1: the factorisation is scale invariant
            M = np.array([[rng.randint(-3, 3) for _ in range(n)] for _ in range(m)], dtype=np.float64) * rng.choice([1e-15, 1e-20, 1e12])
        elif cls == "ties":
            M = np.zeros((m, n))
            p = list(range(n)); rng.shuffle(p)
            for i in range(min(m, n)):
                M[i, p[i]] = rng.choice([1, 1, 2, -1])
        elif cls == "one":
            M = np.array([[float(rng.choice([-2, 0, 3]))]])
        else:
            M = np.zeros((m, n))
        return M

    def generate(self, rng, tier):
        quick = tier == "quick"
        cases = []
        algs = ["svd", "eig"]
        k = 0
        classes = ["generic", "generic", "lowrank", "decay", "zero", "faint"]
        # ---- TT and Tucker ranks
        for _ in range(500 if quick else 5000):
            cls = rng.choice(classes)
            x = self._array(rng, cls)
            N = x.ndim
            alg = algs[k % 2]; k += 1
            if rng.random() < 0.5:
                r = rng.randint(1, 6) if rng.random() < 0.5 else [rng.randint(1, 6) for _ in range(N - 1)]
                op = "tt"
            else:
                r = rng.randint(1, 5) if rng.random() < 0.4 else [rng.randint(1, 5) for _ in range(N)]
                op = "tucker"
            if cls == "faint":
                alg = "svd"       # as for the matrices below: the Gram-matrix route is not asked to resolve faint components
                if rng.random() < 0.7:
                    r = rng.randint(3, 6) if not isinstance(r, list) else [rng.randint(3, 6) for _ in r]   # ranks that fit: exact
            cases.append({"op": op, "x": x.tolist(), "ranks": r, "alg": alg,
                          "tags": dict(op=op, cls=cls, N=N, alg=alg, ranks="list" if isinstance(r, list) else "int",
                                       size1=1 in x.shape)})
        # enumerated small grid: every scalar rank 1..6 on fixed shapes, both algorithms, every class
        for cls in ("generic", "lowrank", "decay", "zero"):
            for N in (2, 3, 4):
                x = self._array(rng, cls, N)
                for r in range(1, 7):
                    for alg in algs:
                        for op in ("tt", "tucker"):
                            if quick and rng.random() > 0.35:
                                continue
                            cases.append({"op": op, "x": x.tolist(), "ranks": r, "alg": alg,
                                          "tags": dict(op=op, cls=cls, N=N, alg=alg, ranks="int", size1=1 in x.shape, grid=True)})
        # ---- truncated SVD
        mcls = ["generic", "generic", "rankdef", "decay", "faint", "scaled", "ties", "zero", "one"]
        for _ in range(900 if quick else 9000):
            cls = rng.choice(mcls)
            M = self._matrix(rng, cls)
            m, n = M.shape
            mode = rng.choice(["none", "delta", "eps", "eps"])
            s = np.linalg.svd(M, compute_uv=False)
            nm = float(np.sqrt(np.sum(M ** 2)))
            if mode == "delta":
                val = rng.choice([0.0, 0.5, 1.0, 2.5, 0.3 * nm + 0.01, 0.7 * nm + 0.01, 2 * nm + 1])
            elif mode == "eps":
                val = rng.choice([0.0, 1e-8, 0.01, 0.1, 0.3, 0.5, 0.9, 1.5])
            else:
                val = None
            rmax = rng.choice([None, None, 1, 2, 3, 8])
            lo = rng.random() < 0.5
            alg = algs[k % 2]; k += 1
            if cls == "faint":
                alg = "svd"       # the Gram-matrix route cannot resolve components below ~1e-8 relative
            delta = 0.0 if mode == "none" else (val if mode == "delta" else val * nm)
            rank_num = int(np.sum(s > 1e-9 * s[0])) if s[0] > 0 else 0
            cap = min(m, n, rmax if rmax is not None else 10 ** 9)
            # budget below the round-off of the singular values the algorithm works with (SVD: ~1e-16 s_1; Gram matrix:
            # eigenvalues ~1e-16 s_1^2, negative ones replaced by the absolute 1e-8): numerically null directions are kept
            noise2 = 1e-20 * s[0] ** 2 if alg == "svd" else max(2e-8, 1e-12 * s[0] ** 2)
            null_kept = bool(s[0] > 0 and rank_num < cap and delta * delta <= noise2)
            div_side = (alg == "svd" and not lo) or (alg == "eig" and m <= n and not lo) or (alg == "eig" and m > n and lo)
            cases.append({"op": "tsvd", "M": M.tolist(), "mode": mode, "val": val, "rmax": rmax, "left_ortho": lo, "alg": alg,
                          "tags": dict(op="tsvd", cls=cls, alg=alg, mode=mode, rmax=str(rmax), left_ortho=lo,
                                       aspect="tall" if m > n else "wide" if m < n else "square",
                                       null_kept=null_kept, null_div=bool(null_kept and div_side))})
        # ---- CP
        for _ in range(160 if quick else 1500):
            N = rng.randint(2, 4)
            shape = [rng.randint(1, 5) for _ in range(N)]
            vs = [[rng.randint(-3, 3) for _ in range(s)] for s in shape]
            if rng.random() < 0.85:      # make sure most rank-1 arrays are non-zero
                for v in vs:
                    if not any(v):
                        v[rng.randrange(len(v))] = rng.choice([-2, 1, 3])
            R = 1 if rng.random() < 0.75 else rng.randint(2, 3)
            x = outer(vs)
            cases.append({"op": "cp", "x": x.tolist(), "R": R, "rt": None, "sub": "rank1", "seed": rng.randrange(10 ** 6),
                          "tags": dict(op="cp", sub="rank1", N=N, R=R, cp_rank_gt1=R > 1, zero=not np.any(x), size1=1 in shape)})
        for _ in range(160 if quick else 1500):
            cls = rng.choice(["generic", "generic", "lowrank", "decay", "zero"])
            x = self._array(rng, cls)
            R = rng.randint(1, 3)
            rt = None
            if rng.random() < 0.3:
                rt = rng.randint(1, 4) if rng.random() < 0.5 else [rng.randint(1, 4) for _ in range(x.ndim)]
            cases.append({"op": "cp", "x": x.tolist(), "R": R, "rt": rt, "sub": "norm", "seed": rng.randrange(10 ** 6),
                          "tags": dict(op="cp", sub="norm", cls=cls, N=x.ndim, R=R, with_tucker=rt is not None,
                                       zero=not np.any(x), size1=1 in x.shape)})
        return cases

    # ------------------------------------------------------------------ implementation
    def run(self, case):
        try:
            op = case["op"]
            if op == "tsvd":
                M = torch.tensor(case["M"], dtype=torch.float64)
                kw = {"rmax": case["rmax"], "left_ortho": case["left_ortho"], "algorithm": case["alg"]}
                if case["mode"] == "delta":
                    kw["delta"] = case["val"]
                elif case["mode"] == "eps":
                    kw["eps"] = case["val"]
                U, V = tn.truncated_svd(M, **kw)
                return {"ok": True, "U": U.detach().tolist(), "V": V.detach().tolist(),
                        "dtype": str(U.dtype).replace("torch.", "")}
            x = torch.tensor(case["x"], dtype=torch.float64)
            if op == "tt":
                t = tn.Tensor(x, ranks_tt=case["ranks"], algorithm=case["alg"])
            elif op == "tucker":
                t = tn.Tensor(x, ranks_tucker=case["ranks"], algorithm=case["alg"])
            else:
                torch.manual_seed(case["seed"])
                kw = {} if case["rt"] is None else {"ranks_tucker": case["rt"]}
                t = tn.Tensor(x, ranks_cp=case["R"], **kw)
            return {"ok": True, "t": from_tn(t)}
        except Exception as e:
            return {"ok": False, "err": type(e).__name__, "msg": str(e)[:200]}

    # ------------------------------------------------------------------ specification
    def expected(self, case):
        op = case["op"]
        if op == "tsvd":
            M = np.array(case["M"], dtype=np.float64)
            u, s, vt = np.linalg.svd(M, full_matrices=False)
            nm = float(np.sqrt(np.sum(M ** 2)))
            delta = 0.0 if case["mode"] == "none" else (case["val"] if case["mode"] == "delta" else case["val"] * nm)
            lo, hi = spec_rank_band(s, delta, case["rmax"])
            return {"ok": True, "s": s.tolist(), "delta": delta, "rank_lo": lo, "rank_hi": hi, "zero": bool(s[0] == 0) if len(s) else True}
        x = np.array(case["x"], dtype=np.float64)
        N = x.ndim
        out = {"ok": True, "shape": list(x.shape), "normsq": fro2(x)}
        if op == "tt":
            rl = as_list(case["ranks"], N - 1)
            tl = [tail(np.linalg.svd(tt_unfold(x, k), compute_uv=False), rl[k - 1]) for k in range(1, N)]
            out.update(ranks=rl, tails=tl)
        elif op == "tucker":
            rl = as_list(case["ranks"], N)
            tl = [tail(np.linalg.svd(mode_unfold(x, n), compute_uv=False), rl[n]) for n in range(N)]
            out.update(ranks=rl, tails=tl)
        return out

    def agree(self, case, res, exp):
        if not res.get("ok"):
            return False, "implementation raised %s: %s" % (res.get("err"), res.get("msg"))
        op = case["op"]
        if op == "tsvd":
            return self._agree_tsvd(case, res, exp)
        x = np.array(case["x"], dtype=np.float64)
        rt = res["t"]
        try:
            y = dense_np(rt)
        except Exception as e:
            return False, "result is not a well-formed network (%s)" % type(e).__name__
        if list(y.shape) != list(x.shape):
            return False, "shape %s, expected %s" % (list(y.shape), list(x.shape))
        if not finite(y):
            return False, "result has non-finite entries"
        err2 = fro2(y - x)
        n2 = exp["normsq"]
        if op in ("tt", "tucker"):
            if op == "tt":
                got = [int(np.array(m["core"]).shape[-1]) for m in rt["modes"]][:-1]
            else:
                got = [int(np.array(m["core"]).shape[-2]) for m in rt["modes"]]
            if any(a > b for a, b in zip(got, exp["ranks"])) or len(got) != len(exp["ranks"]):
                return False, "%s ranks %s exceed the requested %s" % (op, got, exp["ranks"])
            up = sum(exp["tails"]); lowb = max(exp["tails"]) if exp["tails"] else 0.0
            if not (err2 <= up * (1 + RT) + 1e-12 * n2):
                return False, "squared error %g above the sum of the discarded tails %g (|x|^2 = %g)" % (err2, up, n2)
            if not (err2 >= lowb * (1 - RT) - 1e-12 * n2):
                return False, "squared error %g below the largest discarded tail %g: impossible at these ranks" % (err2, lowb)
            return True, ""
        # CP
        if case["sub"] == "rank1":
            if not (err2 <= (RT ** 2) * n2):
                return False, "rank-1 array not reproduced: relative error %g" % (math.sqrt(err2 / n2) if n2 else math.sqrt(err2))
            return True, ""
        if not (err2 <= n2 * (1 + RT) ** 2 + 1e-300):
            return False, "CP error %g larger than the norm of the input %g" % (math.sqrt(err2), math.sqrt(n2))
        return True, ""

    def _agree_tsvd(self, case, res, exp):
        M = np.array(case["M"], dtype=np.float64)
        m, n = M.shape
        U = np.array(res["U"], dtype=np.float64); V = np.array(res["V"], dtype=np.float64)
        if U.ndim != 2 or V.ndim != 2 or U.shape[0] != m or V.shape[1] != n or U.shape[1] != V.shape[0]:
            return False, "factor shapes %s, %s for a %d x %d matrix" % (U.shape, V.shape, m, n)
        if not (finite(U) and finite(V)):
            return False, "factors contain non-finite entries"
        if res.get("dtype") != "float64":
            return False, "factors have dtype %s for a float64 matrix" % res.get("dtype")
        r = U.shape[1]
        s = np.array(exp["s"])
        s1 = float(s[0]) if len(s) else 0.0
        if r < 1:
            return False, "rank 0 returned"
        P = U @ V
        if exp["zero"]:
            if r != 1 or np.any(P != 0):
                return False, "zero matrix: expected rank-1 zero factors, got rank %d" % r
            return True, ""
        if not (exp["rank_lo"] <= r <= exp["rank_hi"]):
            return False, "rank %d, smallest rank meeting delta = %g (rmax %s) is %d%s" % (
                r, exp["delta"], case["rmax"], exp["rank_lo"], "" if exp["rank_lo"] == exp["rank_hi"] else "..%d" % exp["rank_hi"])
        # Eckart-Young optimum at rank r: optimal value, and the minimiser itself where it is unique
        opt = tail(s, r)
        err2 = fro2(M - P)
        if not (err2 <= opt * (1 + RT) + (RT * s1) ** 2):
            return False, "|M - U V|^2 = %g, Eckart-Young optimum at rank %d is %g" % (err2, r, opt)
        if r >= len(s) or s[r - 1] - s[r] > 1e-3 * s1:
            u, sv, vt = np.linalg.svd(M, full_matrices=False)
            best = (u[:, :r] * sv[:r]) @ vt[:r]
            if not close(P, best, RT):
                return False, "U V differs from the rank-%d SVD truncation by %g" % (r, float(np.max(np.abs(P - best))))
        # requested side orthonormal
        G = U.T @ U if case["left_ortho"] else V @ V.T
        e = float(np.max(np.abs(G - np.eye(r))))
        if not (e <= RT):
            return False, "%s factor not orthonormal (max |G - I| = %g)" % ("left" if case["left_ortho"] else "right", e)
        return True, ""

    # ------------------------------------------------------------------ evidence
    def nontrivial(self, case, res):
        if not res.get("ok"):
            return False
        return bool(np.any(np.array(case["M"] if case["op"] == "tsvd" else case["x"]) != 0))

    def signature(self, case):
        a = case["M"] if case["op"] == "tsvd" else case["x"]
        h = hashlib.sha1(json.dumps(a).encode()).hexdigest()[:8]
        arr = np.array(a)
        if case["op"] == "tsvd":
            return "tsvd;%s;%s;%s;%s;%s;%s;%s" % (arr.shape, case["mode"], case["val"], case["rmax"], case["left_ortho"], case["alg"], h)
        if case["op"] == "cp":
            return "cp;%s;%s;%s;%s;%s" % (arr.shape, case["sub"], case["R"], case["rt"], h)
        return "%s;%s;%s;%s;%s" % (case["op"], arr.shape, case["ranks"], case["alg"], h)

    def coq_term(self, case, res):
        """oracle replay of truncated_svd(algorithm='svd'): torch.linalg.svd is intercepted; the model recomputes the
        rank decision, the zero special case and the two factors from the recorded (U, s)"""
        from fractions import Fraction
        if case["op"] != "tsvd" or not res.get("ok") or case["alg"] != "svd":
            return None
        M = torch.tensor(case["M"], dtype=torch.float64)
        if M.dim() != 2 or max(M.shape) > 6:
            return None
        recs = []
        orig = torch.linalg.svd
        def wrap(A, *a, **k):
            out = orig(A, *a, **k); recs.append((out[0].detach().clone(), out[1].detach().clone(), out[2].detach().clone())); return out
        kw = {"rmax": case["rmax"], "left_ortho": case["left_ortho"], "algorithm": "svd"}
        if case["mode"] == "delta": kw["delta"] = case["val"]
        elif case["mode"] == "eps": kw["eps"] = case["val"]
        torch.linalg.svd = wrap
        try:
            U, V = tn.truncated_svd(M, **kw)
        except Exception:
            return None
        finally:
            torch.linalg.svd = orig
        if len(recs) != 1:
            return None
        Us, ss, Vhs = recs[0]
        delta = case["val"] if case["mode"] == "delta" else (case["val"] * float(torch.norm(M)) if case["mode"] == "eps" else 0.0)
        S = (ss ** 2).tolist()
        # a rank decision that hinges on round-off (a tail sum within 1e-9 relative of the budget) is not replayed exactly
        tails = np.cumsum(S[::-1]); d2 = delta ** 2
        if any(abs(t - d2) <= 1e-9 * max(d2, t, 1e-300) for t in tails):
            return None
        D = 2 ** 40
        ql = lambda x: "(%d#%d)" % (round(float(x) * D), D)
        qx = lambda x: qlit(Fraction(float(x)))          # exact value of the double (rank decisions see s exactly)
        a2 = lambda A: "(mkA2 %d %d %s)" % (A.shape[0], A.shape[1], coq_list(A.reshape(-1).tolist(), qx, "Q"))
        rmax = case["rmax"] if case["rmax"] is not None else 1000
        d2q = Fraction(d2)            # exact value of the double
        return "mkCase %s %s %d%%nat %s (mkSvd %s %s %s) %s %s" % (
            a2(M), qlit(d2q), min(int(rmax), 1000), "true" if case["left_ortho"] else "false",
            a2(Us), coq_list(ss.tolist(), qx, "Q"), a2(Vhs), a2(U.detach()), a2(V.detach()))
