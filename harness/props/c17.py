"""C17: maximum-volume row selection (tntorch/maxvol.py) - post-conditions of py_maxvol / py_rect_maxvol.

The specification is relational (a post-condition on (idx, C) given A and the arguments), so `expected` returns the
normalised parameters and the facts about A the post-condition needs (tallness, column rank, LU start volume), and
`agree` evaluates the post-condition on the implementation's output with dense NumPy."""
from lib import *
import io, contextlib
import scipy.linalg

SQ_DEFAULTS = {"tol": 1.05, "max_iters": 100, "top_k_index": -1}
RECT_DEFAULTS = {"tol": 1.0, "maxK": None, "min_add_K": None, "minK": None, "start_maxvol_iters": 10,
                 "identity_submatrix": True, "top_k_index": -1}

KINDS_M = ["gauss", "int", "orth", "dup", "tiny", "eyestack", "scaled", "vander", "sparse"]


def _routines():
    import tntorch.maxvol as mv
    out = {"py_maxvol": mv.py_maxvol, "py_rect_maxvol": mv.py_rect_maxvol}
    # public wrappers (maxvolpy naming); the pinned tree only ships the py_* functions
    if hasattr(mv, "maxvol"):
        out["maxvol"] = mv.maxvol
    if hasattr(mv, "rect_maxvol"):
        out["rect_maxvol"] = mv.rect_maxvol
    return out


def make_matrix(rng, n, r, kind):
    """a matrix of the class `kind` as nested lists (floats or small ints); numpy randomness seeded from rng"""
    g = np.random.RandomState(rng.randrange(2 ** 31))
    A = g.standard_normal((n, r))
    if kind == "int":
        A = g.randint(-3, 4, size=(n, r)).astype(float)
    elif kind == "orth":
        if n >= r:   # as produced by QR inside cross (torch.linalg.qr, reduced)
            A = torch.linalg.qr(torch.tensor(A))[0].numpy().copy()
    elif kind == "dup":
        if n > 2:
            for _ in range(rng.randint(1, 3)):
                A[rng.randrange(n)] = A[rng.randrange(n)]
    elif kind == "tiny":
        for _ in range(rng.randint(1, 2)):
            A[rng.randrange(n)] *= 10.0 ** (-rng.choice([8, 12, 30]))
    elif kind == "eyestack":   # rows of the identity, repeated and signed: |C| entries are exactly 0/1 (ties everywhere)
        A = np.zeros((n, r))
        for i in range(n):
            A[i, i % r if i < r or rng.random() < 0.5 else rng.randrange(r)] = rng.choice([1.0, -1.0, 2.0])
        p = list(range(n)); rng.shuffle(p); A = A[p]
    elif kind == "scaled":
        A = A * 10.0 ** rng.choice([-6, 5, 9])
        A[:, rng.randrange(r)] *= 10.0 ** rng.choice([-3, 0, 3])
    elif kind == "vander":     # ill-conditioned columns
        x = np.sort(g.uniform(-1, 1, n))
        A = np.vander(x, r, increasing=True)
    elif kind == "sparse":
        A = A * (g.uniform(size=(n, r)) < 0.4)
    return A.tolist()


def rect_norm(n, r, args):
    """documented normalisation of maxK / minK / min_add_K (n > r)"""
    a = dict(RECT_DEFAULTS); a.update(args)
    maxK = a["maxK"]
    if maxK is None or maxK > n:
        maxK = n
    maxK = max(maxK, r)
    minK = a["minK"]
    if minK is None or minK < r:
        minK = r
    minK = min(minK, n)
    if a["min_add_K"] is not None:
        minK = max(minK, r + a["min_add_K"])
    minK = min(minK, maxK)
    return maxK, minK

# ------------------------------------------------------------------ Coq correspondence (oracle replay)
from fractions import Fraction as _Fr

_TIE = _Fr(1, 10 ** 9)


def _is_double(x):
    try:
        return _Fr(float(x)) == x
    except OverflowError:
        return False


def _exact_sum(terms):
    """every partial sum of the terms, in any order (and fused), is a double: all terms are multiples of one quantum 2^e
    and the sum of moduli is below 2^53 quanta"""
    ts = [t for t in terms if t != 0]
    if not ts:
        return True
    if not all(_is_double(t) for t in ts):
        return False
    den = max(t.denominator for t in ts)                 # powers of two
    ints = [abs(t.numerator) * (den // t.denominator) for t in ts]
    g = min((n & -n) for n in ints)
    return sum(ints) // g < 2 ** 53


def _exact_prod(*fs):
    """all partial products of the factors are doubles"""
    import itertools
    for k in range(1, len(fs) + 1):
        for sub in itertools.combinations(fs, k):
            p = _Fr(1)
            for s in sub:
                p *= s
            if not _is_double(p):
                return False
    return True


class _Replay:
    """exact (Fraction) replay of the two routines from the recorded LAPACK answers; mirrors Model/Maxvol.v.  It is only
    used to find out whether float round-off could decide a discrete choice of the implementation: `risky` is set when
    an argmax has a runner-up, or a stopping test has a margin, within 1e-9 relative while the floats of the
    implementation are not known to be exact (`exact`: every intermediate of every update so far is a double)."""

    def __init__(self):
        self.exact = True
        self.risky = False

    def argmax(self, vals):
        b = 0
        for k in range(1, len(vals)):
            if vals[k] > vals[b]:
                b = k
        if not self.exact:
            for k in range(len(vals)):
                if k != b and vals[b] - vals[k] <= _TIE * abs(vals[b]):
                    self.risky = True
        return b

    def gt(self, x, y, y_exact=True):
        if not (self.exact and y_exact) and abs(x - y) <= _TIE * max(abs(x), abs(y)):
            self.risky = True
        return x > y

    def maxvol(self, N, r, tol, max_iters, topk, ipiv, C0):
        if N <= r:
            return list(range(N)), [[_Fr(int(i == j)) for j in range(N)] for i in range(N)]
        if tol < 1:
            tol = _Fr(1)
        if topk == -1 or topk > N:
            topk = N
        if topk < r:
            topk = r
        index = list(range(N))
        for i in range(r):
            index[i], index[ipiv[i]] = index[ipiv[i]], index[i]
        C = [list(row) for row in C0]
        iters = 0
        while True:
            if iters >= max_iters:      # the code still evaluates argmax and the comparison; they decide nothing then
                break
            k = self.argmax([abs(C[k // topk][k % topk]) for k in range(r * topk)])
            i, j = divmod(k, topk)
            if not self.gt(abs(C[i][j]), tol):
                break
            index[i] = j
            row = list(C[i]); col = [C[p][j] for p in range(r)]
            col[i] -= 1
            alpha = -1 / C[i][j]
            if self.exact:
                ok = _is_double(alpha) and _is_double(col[i])
                for p in range(r):
                    for q in range(N):
                        if not ok:
                            break
                        ok = _exact_prod(alpha, col[p], row[q]) and _exact_sum([C[p][q], alpha * col[p] * row[q]])
                self.exact = ok
            C = [[C[p][q] + alpha * col[p] * row[q] for q in range(N)] for p in range(r)]
            iters += 1
        return index[:r], [[C[p][q] for p in range(r)] for q in range(N)]

    def rect(self, N, r, tol, maxK, min_add_K, minK, start_iters, identity, topk, ipiv, C0, tol_float):
        if N <= r:
            return list(range(N)), [[_Fr(int(i == j)) for j in range(N)] for i in range(N)]
        tol2 = tol * tol
        tol2_exact = _Fr(tol_float ** 2) == tol2
        if maxK is None or maxK > N:
            maxK = N
        if maxK < r:
            maxK = r
        if minK is None or minK < r:
            minK = r
        if minK > N:
            minK = N
        if min_add_K is not None:
            minK = max(minK, r + min_add_K)
        if minK > maxK:
            minK = maxK
        if topk == -1 or topk > N:
            topk = N
        if topk < r:
            topk = r
        index = [0] * N
        chosen = [True] * topk
        tmp, C = self.maxvol(N, r, _Fr(1.05), start_iters, topk, ipiv, C0)
        index[:r] = tmp
        for t in tmp:
            chosen[t] = False
        rns = []
        for t in range(topk):
            s = sum(x * x for x in C[t]) if chosen[t] else _Fr(0)
            if self.exact and chosen[t]:
                f = float(np.linalg.norm(np.array([float(x) for x in C[t]]), 2) ** 2)
                if _Fr(f) != s:
                    self.exact = False
            rns.append(s)
        i = self.argmax([rns[t] if chosen[t] else _Fr(-1) for t in range(topk)])
        K = r
        while True:
            if K < minK:
                go = True
            elif K < maxK:
                go = self.gt(rns[i], tol2, tol2_exact)
            else:
                go = False
            if not go:
                break
            index[K] = i
            chosen[i] = False
            c = list(C[i])
            v = [sum(C[t][p] * c[p] for p in range(K)) for t in range(N)]
            l = 1 / (1 + v[i])
            if self.exact:
                ok = _is_double(l) and _exact_sum([_Fr(1), v[i]])
                for t in range(N):
                    if not ok:
                        break
                    ok = (all(_is_double(C[t][p] * c[p]) for p in range(K)) and _exact_sum([C[t][p] * c[p] for p in range(K)])
                          and _exact_prod(l, v[t]) and all(_exact_prod(l, v[t], c[p]) and
                                                            _exact_sum([C[t][p], -l * v[t] * c[p]]) for p in range(K))
                          and (t >= topk or (_exact_prod(l, v[t], v[t]) and _exact_sum([rns[t], -l * v[t] * v[t]]))))
                self.exact = ok
            C = [[C[t][p] - l * v[t] * c[p] for p in range(K)] + [l * v[t]] for t in range(N)]
            rns = [(rns[t] - l * v[t] * v[t]) * (1 if chosen[t] else 0) for t in range(topk)]
            i = self.argmax([rns[t] if chosen[t] else _Fr(-1) for t in range(topk)])
            K += 1
        if identity:
            for p in range(K):
                C[index[p]] = [_Fr(int(p == q)) for q in range(K)]
        return index[:K], C


def _trace_lapack(f, A, args):
    """run the routine with scipy's LAPACK getters wrapped inside tntorch.maxvol: records ipiv of getrf, the info codes
    and the coefficient matrix after the second trtrs (the state the Python loop starts from)"""
    import tntorch.maxvol as mv
    rec = {"ipiv": None, "C0": None, "ntr": 0, "info": [], "ngetrf": 0}
    orig = mv.get_lapack_funcs

    def glf(names, arrays=(), **kw):
        fn = orig(names, arrays, **kw)
        name = names if isinstance(names, str) else names[0]

        def w(*a, **k):
            out = fn(*a, **k)
            if name == "getrf":
                rec["ngetrf"] += 1
                rec["ipiv"] = [int(x) for x in out[1]]; rec["info"].append(int(out[2]))
            elif name == "trtrs":
                rec["ntr"] += 1; rec["info"].append(int(out[-1]))
                if rec["ntr"] == 2:
                    rec["C0"] = np.array(a[1], dtype=np.float64, copy=True)
            return out
        return w
    mv.get_lapack_funcs = glf
    try:
        with contextlib.redirect_stdout(io.StringIO()):
            idx, C = f(A, **args)
    finally:
        mv.get_lapack_funcs = orig
    return rec, np.asarray(idx), np.asarray(C)


COQ_STATS = {"sent": 0, "skipped_tie": 0, "skipped_scope": 0, "exact_float_runs": 0}


def _coq_term(case, res, max_n=8, max_r=4):
    name = case["routine"]
    if name not in ("py_maxvol", "py_rect_maxvol", "maxvol", "rect_maxvol") or not res.get("ok"):
        return None
    A = np.array(case["A"], dtype=np.float64)
    if A.ndim != 2:
        return None
    n, r = A.shape
    if n > max_n or r > max_r or r < 1:
        COQ_STATS["skipped_scope"] += 1
        return None
    rect = "rect" in name
    args = dict(RECT_DEFAULTS if rect else SQ_DEFAULTS); args.update(case["args"])
    Ain = np.asfortranarray(A) if case.get("order") == "F" else np.ascontiguousarray(A)
    try:
        rec, idx, C = _trace_lapack(_routines()[name], Ain.copy(), case["args"])
    except Exception:
        return None
    if C.ndim != 2 or not np.all(np.isfinite(C)) or [int(i) for i in idx.reshape(-1)] != res["idx"]:
        return None
    tall = n > r
    if tall:
        if rec["ngetrf"] != 1 or rec["ntr"] != 2 or rec["C0"] is None or not np.all(np.isfinite(rec["C0"])):
            COQ_STATS["skipped_scope"] += 1
            return None
        ipiv = rec["ipiv"]; C0 = [[_Fr(float(x)) for x in row] for row in rec["C0"].tolist()]
        if len(ipiv) < r or len(C0) != r or any(len(row) != n for row in C0):
            COQ_STATS["skipped_scope"] += 1
            return None
    else:
        ipiv = []; C0 = []
    rp = _Replay()
    topk = int(args["top_k_index"])
    try:
        if rect:
            ridx, rC = rp.rect(n, r, _Fr(float(args["tol"])), args["maxK"], args["min_add_K"], args["minK"],
                               int(args["start_maxvol_iters"]), bool(args["identity_submatrix"]), topk, ipiv, C0, float(args["tol"]))
        else:
            ridx, rC = rp.maxvol(n, r, _Fr(float(args["tol"])), int(args["max_iters"]), topk, ipiv, C0)
    except ZeroDivisionError:
        COQ_STATS["skipped_scope"] += 1
        return None
    if rp.risky:
        COQ_STATS["skipped_tie"] += 1
        return None
    if rp.exact:
        COQ_STATS["exact_float_runs"] += 1
    qx = lambda x: qlit(_Fr(float(x)))
    qm = lambda M: "[" + ";".join(coq_list(row, qx, "Q") for row in M) + "]"
    qf = lambda M: "[" + ";".join(coq_list(row, lambda x: qlit(x), "Q") for row in M) + "]"
    oz = lambda v: "None" if v is None else "(Some %s%%Z)" % zlit(int(v))
    # the oracle's contract C0^T A[index0] = A is tested in Coq when getrf/trtrs reported success and the first
    # top_k rows have full numerical column rank
    tk = n if (topk == -1 or topk > n) else max(topk, r)
    contract = bool(tall and all(i == 0 for i in rec["info"]) and np.linalg.matrix_rank(A[:tk]) == r)
    Aq = qm(A.tolist()) if contract else "[]"
    tail = "%s %s %s %s %s %s" % (coq_natlist(ipiv[:r]), qf(C0), "true" if contract else "false", Aq,
                                   coq_natlist(res["idx"]), qm(C.tolist()))
    COQ_STATS["sent"] += 1
    if rect:
        return "Rect %d %d %s %s %s %s %d %s %s%%Z %s" % (
            n, r, qx(args["tol"]), oz(args["maxK"]), oz(args["min_add_K"]), oz(args["minK"]), int(args["start_maxvol_iters"]),
            "true" if args["identity_submatrix"] else "false", zlit(topk), tail)
    return "Sq %d %d %s %d %s%%Z %s" % (n, r, qx(args["tol"]), int(args["max_iters"]), zlit(topk), tail)


class Prop:
    ID = "C17"
    LEVEL = "proof"
    COQ_HEADER = "From TN Require Import Harness.H_C17.\nFrom Coq Require Import QArith ZArith List.\nImport ListNotations.\nOpen Scope nat_scope."
    CHECK_FN = "check"
    RULE = ("matrices n x r with r in 1..10 and n in {1, r-1, r, r+1, r+2, 2r, 3r+1, 30, 60} (thorough: every n in 1..60), of 9 "
            "classes (Gaussian, small-integer, orthonormal columns from torch.linalg.qr as inside cross, duplicated rows, "
            "tiny rows, signed rows of the identity (ties), badly scaled, Vandermonde, sparse), C- and F-ordered; square routine "
            "with tol in {default 1.05, 1, 2, 0.5, 1.5}, max_iters in {default 100, 0, 1, 2, 5}, top_k_index; rectangular routine "
            "with tol in {default 1, 1.05, 2, 0.5, 1.2}, maxK (None, <r, r.., n, >n), minK, min_add_K, start_maxvol_iters, "
            "identity_submatrix, plus the two call patterns used by cross (maxvol(Q), rect_maxvol(Q, maxK=r)). Arguments that "
            "are not listed in a case are left to the routine's defaults. A case is non-trivial when the matrix is tall with full "
            "column rank and the routine returned; distinct = distinct (routine, class, n, r, arguments passed). Coq correspondence (oracle replay): every case with n <= 8, r <= 4 of py_maxvol / py_rect_maxvol (all 9 classes, tall / square / wide, rank-deficient, top_k_index, all argument combinations): LAPACK getrf/trtrs are intercepted inside tntorch.maxvol, ipiv and the coefficient matrix after the second trtrs are passed exactly (doubles as dyadic rationals) to Model/Maxvol.v, which replays clamping, pivot loop, argmax, stopping rule, updates and returns over Q; index vector must be equal and C within 1e-6 of the largest entry. Excluded (counted in COQ_STATS): runs in which an argmax runner-up or a stopping comparison lies within 1e-9 relative while the floats are not provably exact (every intermediate of every update a double), non-finite LAPACK answers, n > 8 or r > 4.")
    TRUSTED = ["post-conditions are evaluated by harness/props/c17.py with NumPy float64 (row/column-scaled backward-error tolerance "
               "1e-7 for C A[idx] = A, 1e-7 + 1e-14 cond(A[idx]) for C[idx] = I, 1e-6 relative for the dominance / row-norm bounds)",
               "whether the iteration cap may have been hit is decided from volumes: k swaps multiply |det A[idx]| by more than "
               "tol^k, with the start volume taken from scipy.linalg.lu_factor (same LAPACK getrf as the implementation)",
               "numerical column rank by numpy.linalg.matrix_rank",
               "Coq side: LAPACK getrf/trtrs are oracles (their answers ipiv, C0 are recorded by wrapping scipy.linalg.get_lapack_funcs in tntorch.maxvol and replayed; the oracle contract C0^T A[index0] = A is re-checked in Coq to 1e-6 normwise when LAPACK reported success), BLAS ger is modelled by its exact formula a + alpha x y^T",
               "the executable carrier QO (Q with Qred) is the unlawful twin of Qc, for which the field/order hypotheses of the theorems are proved (Proofs/MaxvolInst.v); float round-off of the implementation is not modelled (tolerance 1e-6, near-ties skipped)"]
    ASSUMPTIONS = ["the post-conditions are read with respect to the matrix as passed by the caller: a routine that overwrites its "
                   "input is reported (cross keeps using Q after the call)",
                   "matrices that are tall but numerically rank-deficient are outside the property's premise and only checked "
                   "for not being reported as a success with wrong shapes",
                   "top_k_index is not mentioned by the property text; for those cases dominance / norm bounds are required on "
                   "the first top_k_index rows only and chosen rows must lie among them",
                   "the lower bound K >= min(max(minK, r + min_add_K), maxK, n) is the documented meaning of minK / min_add_K"]
    THEOREMS = ["C17_argmax_max", "C17_argmax_first", "C17_pivots_perm", "C17_swap_reproduces", "C17_swap_identity",
                "C17_swap_distinct", "C17_maxvol_post", "C17_kernel", "C17_rect_params", "C17_rect_step_reproduces",
                "C17_rect_step_norms", "C17_rect_fuel_enough", "C17_rect_maxvol_post", "C17_not_tall"]

    # ------------------------------------------------------------------ generation
    def generate(self, rng, tier):
        quick = tier == "quick"
        cases = []
        names = sorted(_routines())

        def mk(A, routine, args, kind, order="C", pattern="direct"):
            n = len(A); r = len(A[0])
            tags = {"routine": routine, "kind": kind, "n": n, "r": r, "tall": n > r, "order": order, "pattern": pattern,
                    "args": ",".join(sorted(args)) or "defaults"}
            for k, v in args.items():
                tags["arg_" + k] = v if isinstance(v, (int, bool, str)) else str(v)
            if "rect" in routine and n > r:
                maxK, minK = rect_norm(n, r, args)
                nz = sum(1 for row in A if any(x != 0 for x in row))
                # two input classes on which the pinned tree violates the property (see known findings)
                tags["rect_r1_adds"] = bool(r == 1 and maxK >= 3)
                tags["forced_into_zero_rows"] = bool(nz < n and minK > nz)
            c = {"A": A, "routine": routine, "args": args, "order": order, "tags": tags}
            if kind == "int" and all(float(x).is_integer() for row in A for x in row) and rng.random() < 0.5:
                c["int_dtype"] = tags["int_dtype"] = True      # the same matrix handed over as an int64 array
            cases.append(c)

        def sq_args(n, r):
            a = {}
            if rng.random() < 0.5:
                a["tol"] = rng.choice([1.0, 2.0, 0.5, 1.5, 1.05])
            if rng.random() < 0.4:
                a["max_iters"] = rng.choice([0, 1, 2, 5, 100])
            if rng.random() < 0.12 and n > r:
                a["top_k_index"] = rng.choice([r - 1, r, r + 1, (n + r) // 2, n, n + 4])
            return a

        def rect_args(n, r):
            a = {}
            if rng.random() < 0.5:
                a["tol"] = rng.choice([1.05, 2.0, 0.5, 1.2, 1.0])
            if rng.random() < 0.6:
                a["maxK"] = rng.choice([r - 1, r, r + 1, r + 2, r + 5, max(r, n - 1), n, n + 3])
            if rng.random() < 0.3:
                a["minK"] = rng.choice([1, r, r + 1, r + 3, n, n + 5])
            if rng.random() < 0.2:
                a["min_add_K"] = rng.choice([0, 1, 3, n])
            if rng.random() < 0.15:
                a["start_maxvol_iters"] = rng.choice([0, 1, 10])
            if rng.random() < 0.2:
                a["identity_submatrix"] = rng.choice([True, False])
            if rng.random() < 0.06 and n > r and "minK" not in a and "min_add_K" not in a:
                a["top_k_index"] = rng.choice([r, r + 1, (n + r) // 2, n + 4])
            return a

        def ns_for(r):
            if quick:
                return sorted(set(x for x in [1, r - 1, r, r + 1, r + 2, 2 * r, 3 * r + 1, 30, 60] if 1 <= x <= 60))
            return list(range(1, 61))

        reps = 3 if quick else 4
        for r in range(1, 11):
            for n in ns_for(r):
                for kind in KINDS_M:
                    if not quick and n > r + 3 and rng.random() < 0.5:
                        continue
                    for _ in range(reps):
                        A = make_matrix(rng, n, r, kind)
                        order = "F" if rng.random() < 0.2 else "C"
                        for routine in names:
                            sq = routine.endswith("maxvol") and "rect" not in routine
                            mk(A, routine, sq_args(n, r) if sq else rect_args(n, r), kind, order)
        # the call patterns of cross: maxvol(Q) and rect_maxvol(Q, maxK=Q.shape[1]) on QR factors of fibre samples,
        # including rank-deficient samples (QR then completes the basis) and pure default calls
        for _ in range(400 if quick else 3000):
            r = rng.randint(1, 10); I = rng.randint(2, 6); n = min(60, r * I) if rng.random() < 0.7 else rng.randint(r + 1, 60)
            if n <= r:
                n = r + 1
            g = np.random.RandomState(rng.randrange(2 ** 31))
            V = g.standard_normal((n, r))
            if rng.random() < 0.4 and r > 1:   # sampled target of lower rank than the bond
                k = rng.randint(1, r - 1)
                V = g.standard_normal((n, k)) @ g.standard_normal((k, r))
            Q = torch.linalg.qr(torch.tensor(V))[0].numpy()
            A = Q.tolist()
            mk(A, "py_maxvol", {}, "crossQ", pattern="cross")
            mk(A, "py_rect_maxvol", {"maxK": r}, "crossQ", pattern="cross")
        # default-argument calls on every class (a changed default must be seen)
        for kind in KINDS_M:
            for _ in range(15 if quick else 80):
                r = rng.randint(1, 10); n = rng.randint(r + 1, 60)
                A = make_matrix(rng, n, r, kind)
                for routine in names:
                    mk(A, routine, {}, kind)
        return cases

    # ------------------------------------------------------------------ implementation
    def run(self, case):
        try:
            f = _routines()[case["routine"]]
            A = np.array(case["A"], dtype=np.int64 if case.get("int_dtype") else np.float64)
            if A.ndim != 2:
                A = A.reshape(len(case["A"]), -1)
            A = np.asfortranarray(A) if case.get("order") == "F" else np.ascontiguousarray(A)
            A0 = A.copy()
            with contextlib.redirect_stdout(io.StringIO()):
                idx, C = f(A, **case["args"])
            idx = np.asarray(idx); C = np.asarray(C)
            return {"ok": True, "idx": [int(i) for i in idx.reshape(-1)], "idx_ndim": int(idx.ndim),
                    "C": np.asarray(C, dtype=np.float64).tolist() if C.ndim == 2 else None, "C_shape": list(C.shape),
                    "input_unchanged": bool(np.array_equal(A, A0))}
        except Exception as e:
            return {"ok": False, "err": type(e).__name__, "msg": str(e)[:200]}

    # ------------------------------------------------------------------ specification
    def expected(self, case):
        A = np.array(case["A"], dtype=np.float64)
        n, r = A.shape
        rect = "rect" in case["routine"]
        args = dict(RECT_DEFAULTS if rect else SQ_DEFAULTS); args.update(case["args"])
        exp = {"ok": True, "n": n, "r": r, "rect": rect, "tall": n > r}
        if n <= r:
            return exp
        exp["rank"] = int(np.linalg.matrix_rank(A))
        exp["premise"] = exp["rank"] == r
        topk = args["top_k_index"]
        if topk == -1 or topk > n:
            topk = n
        if topk < r:
            topk = r
        exp["topk"] = topk
        if exp["premise"] and topk < n:
            exp["premise"] = int(np.linalg.matrix_rank(A[:topk])) == r
        if rect:
            maxK, minK = rect_norm(n, r, case["args"])
            exp.update(maxK=maxK, minK=minK, tol=float(args["tol"]), identity=bool(args["identity_submatrix"]))
        else:
            tol = max(float(args["tol"]), 1.0)
            exp.update(tol=tol, max_iters=int(args["max_iters"]))
            if exp["premise"]:
                # volume of the LU (partial pivoting) start, the documented initial submatrix
                lu, piv = scipy.linalg.lu_factor(A[:topk])
                index = list(range(n))
                for i in range(r):
                    index[i], index[piv[i]] = index[piv[i]], index[i]
                s, ld = np.linalg.slogdet(A[index[:r]])
                exp["start_logdet"] = float(ld) if s != 0 else None
        return exp

    # ------------------------------------------------------------------ comparison
    def agree(self, case, res, exp):
        if not res.get("ok"):
            if exp["tall"] and not exp.get("premise", True):
                return True, "outside the premise (rank-deficient)"
            return False, "implementation raised %s: %s" % (res.get("err"), res.get("msg"))
        A = np.array(case["A"], dtype=np.float64)
        n, r = exp["n"], exp["r"]
        idx = res["idx"]
        if exp["tall"] and not exp["premise"]:
            return True, "outside the premise (rank-deficient)"
        if res["idx_ndim"] != 1:
            return False, "index array is not a vector"
        if any(i < 0 or i >= n for i in idx):
            return False, "row index out of range: %s" % idx
        if len(set(idx)) != len(idx):
            return False, "row indices are not distinct: %s" % idx
        if not res.get("input_unchanged", True):
            return False, "the routine modified the caller's matrix A (the post-conditions refer to A as passed)"
        K = len(idx)
        if res["C"] is not None and not np.all(np.isfinite(np.array(res["C"], dtype=np.float64))):
            return False, "non-finite coefficients"
        if not exp["tall"]:
            if sorted(idx) != list(range(n)):
                return False, "not-tall matrix: rows %s returned instead of all %d rows" % (idx, n)
            if res["C"] is None or res["C_shape"] != [n, n]:
                return False, "not-tall matrix: coefficient shape %s, expected %s" % (res["C_shape"], [n, n])
            C = np.array(res["C"])
            if not close(C @ A[idx], A, 1e-9):
                return False, "not-tall matrix: C A[idx] != A"
            return True, ""
        if res["C"] is None or res["C_shape"] != [n, K]:
            return False, "coefficient shape %s, expected %s" % (res["C_shape"], [n, K])
        C = np.array(res["C"])
        if not np.all(np.isfinite(C)):
            return False, "non-finite coefficients"
        topk = exp["topk"]
        if any(i >= topk for i in idx):
            return False, "row outside the first top_k_index=%d rows chosen: %s" % (topk, idx)
        sub = A[idx]
        if exp["rect"]:
            if not (r <= K <= exp["maxK"]):
                return False, "%d rows returned, must be between r=%d and maxK=%d" % (K, r, exp["maxK"])
            if K < exp["minK"]:
                return False, "%d rows returned, fewer than minK=%d" % (K, exp["minK"])
        else:
            if K != r:
                return False, "%d rows returned, expected r=%d" % (K, r)
        if np.linalg.matrix_rank(sub) != r:
            return False, "chosen submatrix is singular (rank %d < %d)" % (np.linalg.matrix_rank(sub), r)
        # C A[idx] = A, componentwise backward-error tolerance
        E = np.abs(C @ sub - A)
        bound = 1e-7 * (K * np.abs(C).max(axis=1)[:, None] * np.abs(sub).max(axis=0)[None, :] + np.abs(A)) + 1e-300
        if not np.all(E <= bound):
            w = np.unravel_index(np.argmax(E - bound), E.shape)
            return False, "C A[idx] != A: error %g at %s (|A| max %g)" % (E[w], w, np.abs(A).max())
        if not exp["rect"] or exp["identity"]:
            D = np.abs(C[idx] - np.eye(K)).max()
            if not (D <= 1e-7 + min(0.1, 1e-14 * np.linalg.cond(sub))):
                return False, "C[idx] differs from the identity by %g" % D
        if exp["rect"]:
            if K < exp["maxK"]:
                chosen = set(idx)
                un = [i for i in range(topk) if i not in chosen]
                if un:
                    nr = np.sqrt((C[un] ** 2).sum(axis=1))
                    if not (nr.max() <= exp["tol"] * (1 + 1e-6) + 1e-12):
                        return False, ("unchosen row %d of C has 2-norm %g > tol=%g although K=%d < maxK=%d" %
                                       (un[int(nr.argmax())], nr.max(), exp["tol"], K, exp["maxK"]))
        else:
            m = np.abs(C[:topk]).max()
            if not (m <= exp["tol"] * (1 + 1e-6)):
                # allowed only if the iteration cap was hit: max_iters swaps, each multiplying the volume by > tol
                s, ld = np.linalg.slogdet(sub)
                need = exp["max_iters"] * math.log(exp["tol"])
                if exp.get("start_logdet") is None:
                    return False, "max |C| = %g > tol = %g and the LU start is singular" % (m, exp["tol"])
                if not (ld - exp["start_logdet"] >= need - 1e-6 * max(1.0, abs(need))):
                    return False, ("max |C| = %g > tol = %g but the volume grew by exp(%g) < tol^max_iters = exp(%g): the "
                                   "iteration cap (%d) cannot have been hit" % (m, exp["tol"], ld - exp["start_logdet"], need,
                                                                               exp["max_iters"]))
        return True, ""

    def nontrivial(self, case, res):
        A = np.array(case["A"], dtype=np.float64)
        return bool(res.get("ok")) and A.shape[0] > A.shape[1] and np.linalg.matrix_rank(A) == A.shape[1]

    def signature(self, case):
        t = case["tags"]
        return "%s;%s;%d;%d;%s;%s" % (t["routine"], t["kind"], t["n"], t["r"], json.dumps(case["args"], sort_keys=True), t["order"])

    def coq_term(self, case, res):
        return _coq_term(case, res)
