From TN Require Export Sem.Moves Model.Automata Alg.Inst.

Section AutomataP.
Variable K : Ops.
Hypothesis Kth : laws K.
Add Ring Kring : Kth.
Local Open Scope K_scope.
Notation net := (list (score K)).

Lemma sumn_pick n k (f : nat -> K) : (k < n)%nat ->
  sumn n (fun q => (if Nat.eqb q k then 1 else 0) * f q) = f k.
Proof. intros H. rewrite <- (sumn_delta Kth n k f H). apply sumn_ext. intros q _.
  unfold delta. rewrite Nat.eqb_sym. reflexivity. Qed.

Lemma sumn_pick_out n k (f : nat -> K) : (n <= k)%nat ->
  sumn n (fun q => (if Nat.eqb q k then 1 else 0) * f q) = 0.
Proof. intros H. apply (sumn_zero_ext Kth). intros q Hq.
  destruct (Nat.eqb_spec q k); [lia|ring]. Qed.

(* ---- weight_one_hot ---- *)
Lemma shift_tail r (nss : list nat) : forall idx v p, length idx = length nss -> (p < r)%nat ->
  evalv (map (shift_core (K:=K) r) nss) idx v p =
  if (p + sumlist idx <? r)%nat then v (p + sumlist idx)%nat else 0.
Proof.
  induction nss as [|ns nss IH]; intros [|s idx] v p Hl Hp; try discriminate.
  - cbn [map evalv sumlist]. rewrite Nat.add_0_r. destruct (Nat.ltb_spec p r); [reflexivity|lia].
  - cbn [map evalv shift_core rr sl sumlist].
    destruct (Nat.ltb_spec (p + s) r) as [H|H].
    + rewrite sumn_pick by assumption. rewrite IH by (auto; simpl in Hl; lia).
      rewrite Nat.add_assoc. reflexivity.
    + rewrite sumn_pick_out by assumption.
      destruct (Nat.ltb_spec (p + (s + sumlist idx)) r); [lia|reflexivity].
Qed.

Theorem one_hot_sound r (nss : list nat) idx v : nss <> [] -> length idx = length nss -> (0 < r)%nat ->
  evalv (one_hot_net (K:=K) r nss) idx v O =
  if (sumlist idx <? r)%nat then v (sumlist idx) else 0.
Proof.
  intros Hne Hl Hr. destruct nss as [|ns nss]; [congruence|]. destruct idx as [|s idx]; [discriminate|].
  cbn [one_hot_net evalv shift_first rr sl sumlist].
  destruct (Nat.ltb_spec s r) as [H|H].
  - rewrite sumn_pick by assumption. rewrite shift_tail by (auto; simpl in Hl; lia). reflexivity.
  - rewrite sumn_pick_out by assumption. destruct (Nat.ltb_spec (s + sumlist idx) r); [lia|reflexivity].
Qed.

(* ---- weight_mask ---- *)
Lemma onlast_rmulM (cs : net) : forall M r' idx v p, cs <> [] -> length idx = length cs ->
  evalv (on_last (fun c => rmulM c M r') cs) idx v p =
  evalv cs idx (fun s => sumn r' (fun q => M s q * v q)) p.
Proof.
  induction cs as [|c cs IH]; intros M r' idx v p Hne Hl; [congruence|].
  destruct idx as [|i idx]; [discriminate|]. destruct cs as [|c2 cs].
  - destruct idx; [|discriminate]. cbn [on_last]. apply (L4_last K Kth).
  - change (on_last (fun c0 => rmulM c0 M r') (c :: c2 :: cs))
      with (c :: on_last (fun c0 => rmulM c0 M r') (c2 :: cs)).
    cbn [evalv]. apply sumn_ext. intros q _. f_equal. apply IH; [discriminate|simpl in *; lia].
Qed.

Lemma fold_max_ge (w : list nat) x : In x w -> (x <= fold_right Nat.max O w)%nat.
Proof. induction w; simpl; intros H; [tauto|]. destruct H; [subst; lia|]. specialize (IHw H). lia. Qed.

Lemma count_zero_above (w : list nat) q : (fold_right Nat.max O w < q)%nat -> count_occ_nat w q = O.
Proof.
  intros H. induction w as [|x w IH]; [reflexivity|]. cbn [count_occ_nat fold_right] in *.
  destruct (Nat.eqb_spec x q); [lia|]. rewrite IH; lia.
Qed.

Theorem weight_mask_sound (w nss : list nat) idx : nss <> [] -> length idx = length nss ->
  eval (weight_mask_net (K:=K) w nss) idx = of_nat (count_occ_nat w (sumlist idx)).
Proof.
  intros Hne Hl. unfold weight_mask_net. set (r := S (fold_right Nat.max O w)).
  assert (Hone: one_hot_net (K:=K) r nss <> []) by (destruct nss; [congruence|discriminate]).
  assert (Hlen: length idx = length (one_hot_net (K:=K) r nss)).
  { destruct nss; [congruence|]. cbn [one_hot_net length]. rewrite map_length. exact Hl. }
  unfold eval.
  destruct (on_last (fun c => rmulM c (sel_cols w) 1) (one_hot_net r nss)) as [|c0 cs0] eqn:E.
  { destruct nss as [|ns [|ns2 nss]]; [congruence| |]; cbn in E; discriminate. }
  assert (Hrl: rl c0 = 1%nat).
  { destruct nss as [|ns [|ns2 nss]]; [congruence| |]; cbn in E; injection E as <- _; reflexivity. }
  rewrite Hrl, (sumn_1 Kth), <- E. rewrite onlast_rmulM by assumption.
  rewrite one_hot_sound by (auto; unfold r; lia).
  rewrite (sumn_1 Kth). unfold sel_cols, ones.
  destruct (Nat.ltb_spec (sumlist idx) r) as [H|H]; [ring|].
  rewrite count_zero_above by (unfold r in H; lia). reflexivity.
Qed.

(* ---- weight ---- *)
Lemma of_nat_add (a b : nat) : of_nat (K:=K) (a + b) = of_nat a + of_nat b.
Proof. induction b; [rewrite Nat.add_0_r; cbn; ring|]. rewrite Nat.add_succ_r. cbn. rewrite IHb. ring. Qed.

Lemma weight_tail_sound (nss : list nat) : forall idx, nss <> [] -> length idx = length nss ->
  evalv (weight_tail (K:=K) nss) idx ones O = 1 /\
  evalv (weight_tail (K:=K) nss) idx ones 1%nat = of_nat (sumlist idx).
Proof.
  induction nss as [|ns nss IH]; intros idx Hne Hl; [congruence|].
  destruct idx as [|s idx]; [discriminate|]. destruct nss as [|ns2 nss].
  - destruct idx; [|discriminate]. cbn [weight_tail evalv acc_last rr sl sumlist].
    rewrite !(sumn_1 Kth). cbn [Nat.eqb]. unfold ones. rewrite Nat.add_0_r. split; ring.
  - change (weight_tail (ns :: ns2 :: nss)) with (acc_core (K:=K) ns :: weight_tail (ns2 :: nss)).
    destruct (IH idx ltac:(discriminate) ltac:(simpl in *; lia)) as [I0 I1].
    cbn [evalv acc_core rr sl sumlist]. cbn [sumn]. rewrite I0, I1. cbn [Nat.eqb andb].
    rewrite of_nat_add. split; ring.
Qed.

Theorem weight_sound (nss : list nat) idx : nss <> [] -> length idx = length nss ->
  eval (weight_net (K:=K) nss) idx = of_nat (sumlist idx).
Proof.
  intros Hne Hl. destruct nss as [|ns nss]; [congruence|]. destruct idx as [|s idx]; [discriminate|].
  destruct nss as [|ns2 nss].
  - destruct idx; [|discriminate]. cbn. rewrite Nat.add_0_r. unfold ones. ring.
  - change (weight_net (ns :: ns2 :: nss)) with (acc_first (K:=K) ns :: weight_tail (ns2 :: nss)).
    destruct (weight_tail_sound (ns2 :: nss) idx ltac:(discriminate) ltac:(simpl in *; lia)) as [I0 I1].
    unfold eval. cbn [acc_first rl]. rewrite (sumn_1 Kth). cbn [evalv acc_first rr sl sumlist].
    cbn [sumn]. rewrite I0, I1. cbn [Nat.eqb]. rewrite of_nat_add. ring.
Qed.

End AutomataP.
