From TN Require Export Sem.Moves Model.Arith.
From TN Require Export Model.Logic.
Section LogicP.
Variable K : Ops.
Hypothesis Kth : laws K.
Add Ring Kring : Kth.
Local Open Scope K_scope.

Lemma rank1_evalv d (vs : list (nat -> K)) : forall x, length x = length vs ->
  evalv (rank1_net d vs) x ones O = prod_at vs x.
Proof.
  induction vs as [|v vs IH]; intros [|i x] Hl; try discriminate; [reflexivity|].
  cbn [rank1_net map evalv vec_core rr sl prod_at]. rewrite (sumn_1 Kth).
  fold (rank1_net d vs). rewrite IH by (simpl in Hl; lia). reflexivity.
Qed.

Theorem rank1_eval d (vs : list (nat -> K)) x : vs <> [] -> length x = length vs ->
  eval (rank1_net d vs) x = prod_at vs x.
Proof.
  intros Hne Hl. destruct vs as [|v vs]; [congruence|]. unfold eval. cbn [rank1_net map vec_core rl].
  rewrite (sumn_1 Kth). apply (rank1_evalv d (v :: vs)). exact Hl.
Qed.

Lemma prod_at_ones (vs : list (nat -> K)) : forall x, (forall v, In v vs -> forall i, v i = 1) -> prod_at vs x = 1.
Proof. induction vs as [|v vs IH]; intros [|i x] H; cbn; auto. rewrite (H v (or_introl eq_refl)), IH; [ring|].
  intros; apply H; right; auto. Qed.

(* a symbol: presence(N, [n]) is x_n *)
Lemma prod_at_single (which : list nat) (a b : K) : forall N s x, length x = N ->
  (forall m, mem m which = true -> (s <= m < s + N)%nat -> False) ->
  prod_at (map (sel_vec which a b) (seq s N)) x = 1.
Proof.
  induction N as [|N IH]; intros s [|i x] Hl H; try discriminate; [reflexivity|].
  cbn [seq map prod_at]. unfold sel_vec at 1. destruct (mem s which) eqn:E.
  - exfalso. apply (H s E). lia.
  - rewrite IH; [ring|simpl in Hl; lia|]. intros m Hm Hr. apply (H m Hm). lia.
Qed.

Lemma mem_single n m : mem m [n] = Nat.eqb m n.
Proof. unfold mem. cbn. rewrite orb_false_r. reflexivity. Qed.

Lemma symbol_prod (a b : K) n : forall N s x, length x = N -> (s <= n < s + N)%nat ->
  prod_at (map (sel_vec [n] a b) (seq s N)) x = if Nat.eqb (nth (n - s) x O) 0 then a else b.
Proof.
  induction N as [|N IH]; intros s [|i x] Hl Hr; try discriminate; [lia|].
  cbn [seq map prod_at]. unfold sel_vec at 1. rewrite mem_single.
  destruct (Nat.eqb_spec s n) as [->|Hne].
  - rewrite Nat.sub_diag. cbn [nth]. rewrite prod_at_single; [ring|simpl in Hl; lia|].
    intros m Hm Hrange. rewrite mem_single in Hm. apply Nat.eqb_eq in Hm. lia.
  - rewrite (IH (S s) x) by (simpl in Hl; lia).
    replace (n - s)%nat with (S (n - S s)) by lia. cbn [nth]. ring.
Qed.

Theorem symbol_value N n x : (n < N)%nat -> length x = N ->
  eval (presence_net (K:=K) N [n]) x = if Nat.eqb (nth n x O) 0 then 0 else 1.
Proof.
  intros Hn Hl. unfold presence_net, sel_net.
  rewrite rank1_eval; [|destruct N; [lia|discriminate]|rewrite map_length, seq_length; exact Hl].
  rewrite (symbol_prod 0 1 n N 0 x Hl) by lia. rewrite Nat.sub_0_r. reflexivity.
Qed.

Lemma prod_at_const (c : K) : forall N s x, length x = N ->
  prod_at (map (fun (_ : nat) (_ : nat) => c) (seq s N)) x = prodl (repeat c N).
Proof. induction N as [|N IH]; intros s [|i x] Hl; try discriminate; [reflexivity|].
  cbn [seq map prod_at repeat prodl]. rewrite IH by (simpl in Hl; lia). reflexivity. Qed.

Theorem true_value N x : (0 < N)%nat -> length x = N -> eval (true_net (K:=K) N) x = 1.
Proof.
  intros HN Hl. unfold true_net. rewrite rank1_eval; [|destruct N; [lia|discriminate]|rewrite map_length, seq_length; exact Hl].
  rewrite prod_at_const by exact Hl. clear HN Hl. induction N as [|N IHN]; cbn; [reflexivity|]. rewrite IHN. ring.
Qed.

Theorem false_value N x : (0 < N)%nat -> length x = N -> eval (false_net (K:=K) N) x = 0.
Proof.
  intros HN Hl. unfold false_net. rewrite rank1_eval; [|destruct N; [lia|discriminate]|rewrite map_length, seq_length; exact Hl].
  rewrite prod_at_const by exact Hl. destruct N; [lia|]. cbn. ring.
Qed.

(* general helper value: a product of per-position indicators *)
Theorem sel_value N which (a b : K) x : (0 < N)%nat -> length x = N ->
  eval (sel_net N which a b) x = prod_at (map (sel_vec which a b) (seq 0 N)) x.
Proof.
  intros HN Hl. unfold sel_net. apply rank1_eval; [destruct N; [lia|discriminate]|].
  rewrite map_length, seq_length. exact Hl.
Qed.
End LogicP.
