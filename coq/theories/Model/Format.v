(* Concrete tensor formats of tntorch: every mode is a TT core (rl x s x rr) or a CP factor
   (s x R), optionally with a Tucker factor (I x s).  [sem_mode] maps a mode to its semantic
   core; [den] is what Tensor.torch() returns. No proofs in this file. *)
From TN Require Export Sem.Score.

Section Format.
Variable K : Ops.
Local Open Scope K_scope.

(* arrays are read through row-major flat indices from a list *)
Definition get2 (d1 : nat) (l : list K) (i j : nat) : K := nth (i * d1 + j)%nat l 0.
Definition get3 (d1 d2 : nat) (l : list K) (i j k : nat) : K := nth ((i * d1 + j) * d2 + k)%nat l 0.

Inductive cdata :=
| CTT (a s b : nat) (g : nat -> nat -> nat -> K)    (* g p j q *)
| CCP (s r : nat) (g : nat -> nat -> K).            (* g j r *)

Record mode := mkMode { core : cdata; fac : option (nat * nat * (nat -> nat -> K)) }.
(* fac = Some (I, s, U) with U i j *)

Definition tensor := list mode.

Definition c_rl (c : cdata) := match c with CTT a _ _ _ => a | CCP _ r _ => r end.
Definition c_rr (c : cdata) := match c with CTT _ _ b _ => b | CCP _ r _ => r end.
Definition c_sz (c : cdata) := match c with CTT _ s _ _ => s | CCP s _ _ => s end.
Definition is_cp (c : cdata) := match c with CCP _ _ _ => true | _ => false end.
Definition c_sl (c : cdata) : nat -> nat -> nat -> K :=
  match c with
  | CTT _ _ _ g => fun j p q => g p j q
  | CCP _ _ g => fun j p q => if Nat.eqb p q then g j p else 0
  end.

Definition m_size (m : mode) : nat :=
  match fac m with Some (di, _, _) => di | None => c_sz (core m) end.

Definition sem_mode (m : mode) : score K :=
  match fac m with
  | None => mkScore (c_rl (core m)) (c_rr (core m)) (c_sz (core m)) (c_sl (core m))
  | Some (di, s, U) =>
      mkScore (c_rl (core m)) (c_rr (core m)) di
              (fun i p q => sumn s (fun j => U i j * c_sl (core m) j p q))
  end.

Definition sem (t : tensor) : list (score K) := map sem_mode t.
Definition den (t : tensor) (idx : list nat) : K := eval (sem t) idx.
Definition shape (t : tensor) : list nat := map m_size t.

(* the constructor's checks: adjacent ranks match; factor columns = core spatial size *)
Definition wf_mode (m : mode) : bool :=
  match fac m with Some (_, s, _) => Nat.eqb s (c_sz (core m)) | None => true end.
Definition wf_tensor (t : tensor) : bool :=
  match t with
  | [] => false
  | m :: _ => forallb wf_mode t && chain (c_rl (core m)) (sem t)
  end.

Definition ranks_tt (t : tensor) : list nat :=
  match t with [] => [] | m :: _ => c_rl (core m) :: map (fun m => c_rr (core m)) t end.
Definition ranks_tucker (t : tensor) : list nat := map (fun m => c_sz (core m)) t.

(* literals coming from the harness *)
Definition lit_tt (a s b : nat) (l : list K) : cdata := CTT a s b (get3 s b l).
Definition lit_cp (s r : nat) (l : list K) : cdata := CCP s r (get2 r l).
Definition lit_U (di s : nat) (l : list K) := Some (di, s, get2 s l).

(* all index tuples of a shape in row-major order *)
Fixpoint all_idx (sh : list nat) : list (list nat) :=
  match sh with
  | [] => [[]]
  | d :: sh' => flat_map (fun i => map (cons i) (all_idx sh')) (seq 0 d)
  end.

Definition dense_of (f : list nat -> K) (sh : list nat) : list K := map f (all_idx sh).

End Format.

Arguments get2 {K}. Arguments get3 {K}.
Arguments CTT {K}. Arguments CCP {K}. Arguments mkMode {K}. Arguments core {K}. Arguments fac {K}.
Arguments c_rl {K}. Arguments c_rr {K}. Arguments c_sz {K}. Arguments is_cp {K}. Arguments c_sl {K}.
Arguments m_size {K}. Arguments sem_mode {K}. Arguments sem {K}. Arguments den {K}.
Arguments shape {K}. Arguments wf_mode {K}. Arguments wf_tensor {K}.
Arguments ranks_tt {K}. Arguments ranks_tucker {K}.
Arguments lit_tt {K}. Arguments lit_cp {K}. Arguments lit_U {K}.
Arguments dense_of {K}.
