From TN Require Export Sem.Moves Model.Dot.

Section DotP.
Variable K : Ops.
Hypothesis Kth : laws K.
Add Ring Kring : Kth.
Local Open Scope K_scope.
Notation net := (list (score K)).

Lemma sumn4_perm na nb nc nd (f : nat -> nat -> nat -> nat -> K) :
  sumn na (fun a => sumn nb (fun b => sumn nc (fun c => sumn nd (fun d => f a b c d)))) =
  sumn nc (fun c => sumn nd (fun d => sumn na (fun a => sumn nb (fun b => f a b c d)))).
Proof.
  transitivity (sumn na (fun a => sumn nc (fun c => sumn nb (fun b => sumn nd (fun d => f a b c d))))).
  { apply sumn_ext. intros a _. apply (sumn_exch Kth). }
  rewrite (sumn_exch Kth). apply sumn_ext. intros c _.
  transitivity (sumn na (fun a => sumn nd (fun d => sumn nb (fun b => f a b c d)))).
  { apply sumn_ext. intros a _. apply (sumn_exch Kth). }
  apply (sumn_exch Kth).
Qed.

(* (B x)^T L (A y) = x^T (B^T L A) y *)
Lemma bf_sand n2 n1 m2 m1 (L B A : nat -> nat -> K) x y :
  bf n2 n1 L (mv m2 B x) (mv m1 A y) = bf m2 m1 (sand n2 n1 B A L) x y.
Proof.
  unfold bf, mv, sand.
  transitivity (sumn n2 (fun p2 => sumn n1 (fun p1 => sumn m2 (fun q2 => sumn m1 (fun q1 =>
     L p2 p1 * B p2 q2 * A p1 q1 * x q2 * y q1))))).
  { apply sumn_ext. intros p2 _. apply sumn_ext. intros p1 _.
    symmetry.
    rewrite (sumn_ext m2 (fun q2 => sumn m1 (fun q1 => L p2 p1 * B p2 q2 * A p1 q1 * x q2 * y q1))
                         (fun q2 => sumn m1 (fun q1 => (L p2 p1 * B p2 q2 * x q2) * (A p1 q1 * y q1)))).
    2:{ intros q2 _. apply sumn_ext. intros q1 _. ring. }
    rewrite (sumn_sumn_mul Kth).
    rewrite (sumn_ext m2 (fun q2 => L p2 p1 * B p2 q2 * x q2) (fun q2 => L p2 p1 * (B p2 q2 * x q2))) by (intros; ring).
    rewrite (sumn_mul_l Kth). ring. }
  rewrite sumn4_perm. apply sumn_ext. intros q2 _. apply sumn_ext. intros q1 _.
  rewrite <- (sumn_mul_r Kth). rewrite <- (sumn_mul_r Kth).
  apply sumn_ext. intros p2 _. rewrite <- (sumn_mul_r Kth). rewrite <- (sumn_mul_r Kth).
  apply sumn_ext. intros p1 _. ring.
Qed.

Lemma bf_ext n2 n1 (L L' : nat -> nat -> K) x x' y y' :
  (forall p2 p1, (p2 < n2)%nat -> (p1 < n1)%nat -> L p2 p1 = L' p2 p1) ->
  (forall p, (p < n2)%nat -> x p = x' p) -> (forall p, (p < n1)%nat -> y p = y' p) ->
  bf n2 n1 L x y = bf n2 n1 L' x' y'.
Proof. intros HL Hx Hy. unfold bf. apply sumn_ext. intros p2 H2. apply sumn_ext. intros p1 H1.
  rewrite HL, Hx, Hy by assumption. reflexivity. Qed.

Lemma bf_sum n2 n1 d (M : nat -> nat -> nat -> K) x y :
  bf n2 n1 (fun q2 q1 => sumn d (fun i => M i q2 q1)) x y = sumn d (fun i => bf n2 n1 (M i) x y).
Proof.
  unfold bf. rewrite (sumn_exch Kth d n2). apply sumn_ext. intros p2 _.
  rewrite (sumn_exch Kth d n1). apply sumn_ext. intros p1 _.
  rewrite <- (sumn_mul_r Kth). rewrite <- (sumn_mul_r Kth). reflexivity.
Qed.

(* the running matrix after all modes pairs the two networks *)
Theorem lrun_sound (xs : net) : forall ys ra rb L w v,
  chain ra xs = true -> chain rb ys = true -> same_shape xs ys = true ->
  bf (last_rr rb ys) (last_rr ra xs) (lrun L xs ys) w v =
  sumidx (sshape xs) (fun idx => bf rb ra L (evalv ys idx w) (evalv xs idx v)).
Proof.
  induction xs as [|a xs IH]; intros [|b ys] ra rb L w v Ha Hb Hs; try discriminate.
  - reflexivity.
  - cbn [chain] in Ha, Hb. apply andb_true_iff in Ha, Hb. destruct Ha as [Ea Ha], Hb as [Eb Hb].
    apply Nat.eqb_eq in Ea, Eb. cbn [same_shape] in Hs. apply andb_true_iff in Hs. destruct Hs as [Ed Hs].
    apply Nat.eqb_eq in Ed.
    cbn [lrun sshape map sumidx].
    change (last_rr rb (b :: ys)) with (last_rr (rr b) ys).
    change (last_rr ra (a :: xs)) with (last_rr (rr a) xs).
    rewrite (IH ys (rr a) (rr b)) by assumption.
    unfold lstep.
    rewrite (sumidx_ext _ _ (fun idx => sumn (dm a) (fun i =>
       bf (rr b) (rr a) (sand (rl b) (rl a) (sl b i) (sl a i) L) (evalv ys idx w) (evalv xs idx v)))).
    2:{ intros idx. apply bf_sum. }
    rewrite (sumidx_sumn Kth). apply sumn_ext. intros i _. apply sumidx_ext; auto. intros idx.
    rewrite <- bf_sand. subst ra rb. apply bf_ext; auto.
Qed.

Lemma bf_ones n2 n1 (x y : nat -> K) : bf n2 n1 onesM x y = sumn n2 x * sumn n1 y.
Proof. unfold bf, onesM. rewrite <- (sumn_sumn_mul Kth). apply sumn_ext. intros p2 _.
  apply sumn_ext. intros p1 _. ring. Qed.

Theorem dot_net_sound (a b : net) :
  a <> [] -> chain (match a with c :: _ => rl c | [] => 1%nat end) a = true ->
  chain (match b with c :: _ => rl c | [] => 1%nat end) b = true -> same_shape a b = true ->
  dot_net a b = sumidx (sshape a) (fun idx => eval a idx * eval b idx).
Proof.
  intros Hne Ha Hb Hs. unfold dot_net. rewrite (lrun_sound a b _ _ onesM ones ones Ha Hb Hs).
  apply sumidx_ext; auto. intros idx. rewrite bf_ones.
  destruct a as [|x a]; [congruence|]. destruct b as [|y b]; [discriminate|].
  unfold eval. ring.
Qed.


(* partial contraction over the k leading modes *)
Lemma chain_firstn (cs : net) : forall k r, chain r cs = true -> chain r (firstn k cs) = true.
Proof. induction cs as [|c cs IH]; intros [|k] r H; simpl in *; auto.
  apply andb_true_iff in H. destruct H as [H1 H2]. rewrite H1. simpl. auto. Qed.

Lemma same_shape_firstn (a : net) : forall b k, same_shape a b = true ->
  same_shape (firstn k a) (firstn k b) = true.
Proof. induction a as [|x a IH]; intros [|y b] [|k] H; simpl in *; try discriminate; auto.
  apply andb_true_iff in H. destruct H as [H1 H2]. rewrite H1. simpl. auto. Qed.

Lemma eval_split (a : net) k idx ia : a <> [] -> (k <= length a)%nat -> length idx = k -> (0 < k)%nat ->
  eval a (idx ++ ia) =
  sumn (match a with c :: _ => rl c | [] => 1%nat end)
       (evalv (firstn k a) idx (evalv (skipn k a) ia ones)).
Proof.
  intros Hne Hk Hl Hpos. destruct a as [|c a]; [congruence|]. unfold eval.
  apply sumn_ext. intros p _.
  rewrite <- (firstn_skipn k (c :: a)) at 1.
  apply evalv_app. rewrite firstn_length. lia.
Qed.

Theorem dot_partial_sound (k : nat) (a b : net) (ia ib : list nat) :
  a <> [] -> b <> [] -> (0 < k)%nat -> (k <= length a)%nat -> (k <= length b)%nat ->
  chain (match a with c :: _ => rl c | [] => 1%nat end) a = true ->
  chain (match b with c :: _ => rl c | [] => 1%nat end) b = true ->
  same_shape (firstn k a) (firstn k b) = true ->
  dot_partial k a b ia ib =
  sumidx (sshape (firstn k a)) (fun idx => eval a (idx ++ ia) * eval b (idx ++ ib)).
Proof.
  intros Ha Hb Hk Hka Hkb Hca Hcb Hs. unfold dot_partial.
  rewrite (lrun_sound (firstn k a) (firstn k b) _ _ onesM _ _
             (chain_firstn a k _ Hca) (chain_firstn b k _ Hcb) Hs).
  assert (G: forall (sh : list nat) (f g : list nat -> K),
             (forall idx, length idx = length sh -> f idx = g idx) -> sumidx sh f = sumidx sh g).
  { induction sh as [|d sh IH]; intros f g H; cbn [sumidx]; [apply H; reflexivity|].
    apply sumn_ext. intros i _. apply IH. intros idx Hl. apply H. simpl. lia. }
  apply G. intros idx Hl. rewrite bf_ones.
  unfold sshape in Hl. rewrite map_length, firstn_length in Hl.
  rewrite (eval_split a k idx ia), (eval_split b k idx ib); auto; try lia.
  ring.
Qed.

End DotP.
