(* C05 -- truncated matrix factorisation: smallest rank meeting the budget, error = discarded energy, requested side
   orthonormal, product of the factors = the projection.  Statements only.
   Models: Model/RankChoice.v and Model/RoundReplay.v (tsvd; executable, tied to round.truncated_svd by
   harness/props/c05.py with the SVD replayed), Proofs/RoundAlg.v.  The SVD itself is an oracle; its contract
   (orthonormal columns of U) is the hypothesis of C05_error_is_discarded_energy, checked numerically per call. *)
From TN Require Import Proofs.RankChoiceP Proofs.RoundAlg.

Theorem C05_rank_choice_sound : forall (S : list Q) (d2 : Q), nonneg S ->
  let k := ndrop S d2 in ((k <= length S)%nat /\ (tail_energy S (length S - k) <= d2)%Q) \/ k = O.
Proof. exact rank_choice_sound. Qed.
Theorem C05_rank_choice_minimal : forall (S : list Q) (d2 : Q), nonneg S ->
  let k := ndrop S d2 in (k < length S)%nat -> (d2 < tail_energy S (length S - (k + 1)))%Q.
Proof. exact rank_choice_minimal. Qed.
Theorem C05_rank_bounds : forall (S : list Q) d2 rmax null, (1 <= rmax)%nat -> (1 <= length S)%nat ->
  (1 <= choose_rank S d2 rmax null <= Nat.min rmax (length S))%nat.
Proof. exact rank_bounds. Qed.

Section C05.
Variable K : Ops.
Hypothesis Kth : laws K.
Local Open Scope K_scope.
(* left_ortho=True returns (U_r, U_r^T M): the error of the product is exactly the energy outside span(U_r) *)
Theorem C05_error_is_discarded_energy : forall (m n r : nat) (U M : nat -> nat -> K),
  (forall k k', (k < r)%nat -> (k' < r)%nat -> sumn m (fun i => U i k * U i k') = delta k k') ->
  sumn m (fun i => sumn n (fun j => sq K (M i j - back K r U (proj K m r U M) i j))) =
  sumn m (fun i => sumn n (fun j => sq K (M i j))) - sumn r (fun k => sumn n (fun j => sq K (proj K m r U M k j))).
Proof. exact (projection_error K Kth). Qed.
(* left_ortho=False on the Gram-matrix ('eig') route returns (U_r diag s, diag(sinv) U_r^T M): same product, null directions
   included.  (The 'svd' route returns the right singular vectors themselves; that their product with U_r diag s is the
   truncated SVD is the contract of the LAPACK oracle.) *)
Theorem C05_product_independent_of_side : forall (r : nat) (U W : nat -> nat -> K) (s sinv : nat -> K) i j,
  (forall k, (k < r)%nat -> s k * sinv k = 1 \/ W k j = 0) ->
  sumn r (fun k => (U i k * s k) * (sinv k * W k j)) = back K r U W i j.
Proof. exact (scaled_product K Kth). Qed.
End C05.

Print Assumptions C05_rank_choice_sound.
Print Assumptions C05_rank_choice_minimal.
Print Assumptions C05_rank_bounds.
Print Assumptions C05_error_is_discarded_energy.
Print Assumptions C05_product_independent_of_side.
