(* Executable model of tntorch/cross.py: cross(), the bookkeeping of cross_forward(), minimum/argmin.

   What is modelled (mirrors the code, line numbers of cross.py in comments):
     - rank capping (263-274) and rank growth (481-495);
     - the nested index sets lsets / rsets: initialisation from the random integers (279-285), the update from maxvol's
       row numbers through np.unravel_index (407-409, 438-440), the extension after a rank kick (486-494);
     - the per-tensor interface matrices (init_interfaces 113-135, updates 410-420 and 441-451) and the arguments
       the black-box function is called with (evaluate_function 316-331, validation sample 289-293);
     - the cores: right-to-left sweep  core = (Q Q[local]^-1)^T  (430-436), first core = evaluated fibres (453-455);
     - _minimize bookkeeping of argmin (350-359).
   Oracles (replayed from the implementation, never computed here): the function (a table on the grid), maxvol /
   rect_maxvol (row numbers), torch.linalg.qr (the factor Q), the random integers, the number of iterations done
   (stopping rule), and for _minimize the position of the new best sample whenever the code replaces its best.
   A CP factor is read through its diagonal slices [c_sl] (the einsum of the CP branches adds exact zeros only).
   The cores of the left-to-right sweep are not modelled: all of them are overwritten before cross returns (they only
   feed the validation error, whose outcome is replayed).  No proofs in this file. *)
From TN Require Export Model.Format Model.Convert Alg.Inst Sem.Fast.
From Coq Require Import QArith Qabs.
Local Open Scope nat_scope.

(* ------------------------------------------------------------------ index bookkeeping (no scalars) *)
Definition rows := list (list nat).

(* local_r, local_i = np.unravel_index(local, [Rs[j], Is[j]]);  lsets[j+1] = np.c_[lsets[j][local_r, :], local_i] *)
Definition lupdate (Ij : nat) (L : rows) (loc : list nat) : rows :=
  map (fun x => nth (x / Ij) L [] ++ [x mod Ij]) loc.
(* local_i, local_r = np.unravel_index(local, [Is[j], Rs[j+1]]);  rsets[j-1] = np.c_[local_i, rsets[j][local_r, :]] *)
Definition rupdate (Rj1 : nat) (R : rows) (loc : list nat) : rows :=
  map (fun x => (x / Rj1) :: nth (x mod Rj1) R []) loc.

(* the grid point behind entry (a, i, b) of evaluate_function(j): lsets[j][a][1:] + (i,) + rsets[j][b][:-1] *)
Definition point (l : list nat) (i : nat) (r : list nat) : list nat := tl l ++ i :: removelast r.
Definition points (L : rows) (Ij : nat) (R : rows) : list (list nat) :=
  flat_map (fun l => flat_map (fun i => map (fun r => point l i r) R) (seq 0 Ij)) L.

(* Rs[n] = min(Rs[n-1] * Is[n-1], Rs[n], Is[n] * Rs[n+1]), with Python's wrap-around for n = 0 *)
Definition cap1 (Is : list nat) (N n : nat) (Rs : list nat) : list nat :=
  let pn := if Nat.eqb n 0 then N else n - 1 in
  let pi := if Nat.eqb n 0 then N - 1 else n - 1 in
  upd n Rs (Nat.min (Nat.min (nth pn Rs 0 * nth pi Is 0) (nth n Rs 0)) (nth n Is 0 * nth (S n) Rs 0)).
Definition cap_init (Is : list nat) (N : nat) (Rs : list nat) : list nat :=
  fold_left (fun R n => cap1 Is N n R) (seq 1 (N - 1) ++ rev (seq 0 N)) Rs.
Definition cap_kick (Is : list nat) (N : nat) (Rs : list nat) : list nat :=
  fold_left (fun R n => cap1 Is N n R) (seq 1 (N - 1) ++ rev (seq 1 (N - 1))) Rs.
Definition kick_ranks (Is : list nat) (N kick rmax : nat) (Rs : list nat) : list nat :=
  cap_kick Is N (map (fun n => if (0 <? n) && (n <? N) then Nat.min rmax (nth n Rs 0 + kick) else nth n Rs 0)
                     (seq 0 (S N))).
(* rsets = [randint[:Rs[n+1], n:] for n in range(N-1)] + [[[0]]] *)
Definition init_rsets (N : nat) (Rs : list nat) (randint : rows) : list rows :=
  map (fun n => map (skipn n) (firstn (nth (S n) Rs 0) randint)) (seq 0 (N - 1)) ++ [[[0]]].
Definition init_lsets (N : nat) : list rows := [[0]] :: repeat [] (N - 1).
(* rsets[n] = vstack(rsets[n], extra[:newRs[n+1]-Rs[n+1], n:]) when newRs[n+1] > Rs[n+1] *)
Definition kick_rsets (N : nat) (Rs newRs : list nat) (extra : rows) (rsets : list rows) : list rows :=
  map (fun n => let old := nth n rsets [] in
         if (n <? N - 1) && (nth (S n) Rs 0 <? nth (S n) newRs 0)
         then old ++ map (skipn n) (firstn (nth (S n) newRs 0 - nth (S n) Rs 0) extra) else old) (seq 0 N).

(* ------------------------------------------------------------------ interface matrices (any carrier) *)
Section Val.
Variable K : Ops.
Local Open Scope K_scope.
Definition vnth (v : list K) (p : nat) : K := nth p v 0.
Definition c_matvec (c : cdata K) (i : nat) (v : list K) : list K :=      (* core[:, i, :] v *)
  map (fun p => sumn (c_rr c) (fun q => c_sl c i p q * vnth v q)) (seq 0 (c_rl c)).
Definition c_vecmat (u : list K) (c : cdata K) (i : nat) : list K :=      (* u^T core[:, i, :] *)
  map (fun q => sumn (c_rl c) (fun p => vnth u p * c_sl c i p q)) (seq 0 (c_rr c)).
Definition vdot (n : nat) (u v : list K) : K := sumn n (fun p => vnth u p * vnth v p).

(* init_interfaces: column b of rinterfaces[j] for the row [i_{j+1}; ..; i_{N-1}; 0] of rsets[j];
   cs = cores j+1 .. N-1 (the loop n = N-1 .. j+1 of lines 121-131, innermost first) *)
Fixpoint rvec (cs : list (cdata K)) (idx : list nat) (rN : nat) : list K :=
  match cs, idx with
  | c :: cs', i :: idx' => c_matvec c i (rvec cs' idx' rN)
  | _, _ => repeat 1 rN
  end.
Definition last_rr_c (cs : list (cdata K)) : nat := c_rr (last cs (CTT 1 1 1 (fun _ _ _ => 0))).
Definition first_rl_c (cs : list (cdata K)) : nat := c_rl (hd (CTT 1 1 1 (fun _ _ _ => 0)) cs).
Definition init_rint (cs : list (cdata K)) (rsets : list rows) : list (list (list K)) :=
  map (fun j => map (fun row => rvec (skipn (S j) cs) row (last_rr_c cs)) (nth j rsets [])) (seq 0 (length cs)).
Definition init_lint (cs : list (cdata K)) : list (list (list K)) :=
  [repeat 1 (first_rl_c cs)] :: repeat [] (length cs - 1).

(* one tensor's argument vector of evaluate_function(j): einsum('ai,ibj,jc->abc', L, core, R).flatten() *)
Definition eval_args (c : cdata K) (Ij : nat) (L R : list (list K)) : list K :=
  flat_map (fun l => flat_map (fun i => map (fun r => vdot (c_rl c) l (c_matvec c i r)) R) (seq 0 Ij)) L.
(* t_linterfaces[k][j+1] = einsum('ai,iaj->aj', L[local_r, :], core[:, local_i, :]) *)
Definition lint_update (c : cdata K) (Ij : nat) (L : list (list K)) (loc : list nat) : list (list K) :=
  map (fun x => c_vecmat (nth (x / Ij) L []) c (x mod Ij)) loc.
(* t_rinterfaces[k][j-1] = einsum('iaj,ja->ia', core[:, local_i, :], R[:, local_r]) *)
Definition rint_update (c : cdata K) (Rj1 : nat) (R : list (list K)) (loc : list nat) : list (list K) :=
  map (fun x => c_matvec c (x / Rj1) (nth (x mod Rj1) R [])) loc.
End Val.
Arguments vnth {K}. Arguments c_matvec {K}. Arguments c_vecmat {K}. Arguments vdot {K}. Arguments rvec {K}.
Arguments init_rint {K}. Arguments init_lint {K}. Arguments eval_args {K}. Arguments lint_update {K}.
Arguments rint_update {K}. Arguments last_rr_c {K}. Arguments first_rl_c {K}.

(* ------------------------------------------------------------------ rational kernels *)
Local Open Scope Q_scope.
Definition qmat := list (list Q).
Fixpoint split_pivot (c : nat) (todo : qmat) : option (list Q * qmat) :=
  match todo with
  | [] => None
  | r :: t => if Qeq_bool (nth c r 0) 0
              then match split_pivot c t with None => None | Some (p, t') => Some (p, r :: t') end
              else Some (r, t)
  end.
Definition rscale (k : Q) (r : list Q) : list Q := map (fun x => Qred (x * k)) r.
Definition rsubmul (k : Q) (p r : list Q) : list Q := map (fun xy => Qred (fst xy - k * snd xy)) (combine r p).
Fixpoint gauss_jordan (cols : list nat) (done todo : qmat) : option qmat :=
  match cols with
  | [] => Some done
  | c :: cs => match split_pivot c todo with
               | None => None
               | Some (p, t) => let p' := rscale (/ nth c p 0) p in
                                let el := fun r => rsubmul (nth c r 0) p' r in
                                gauss_jordan cs (map el done ++ [p']) (map el t)
               end
  end.
Definition unit_row (r i : nat) : list Q := map (fun j => if Nat.eqb i j then 1 else 0) (seq 0 r).
Definition inverse (r : nat) (B : qmat) : option qmat :=
  option_map (map (skipn r))
    (gauss_jordan (seq 0 r) [] (map (fun i => firstn r (nth i B []) ++ unit_row r i) (seq 0 r))).
Definition qdot (u v : list Q) : Q := fold_right (fun xy acc => Qred (fst xy * snd xy + acc)) 0 (combine u v).
Definition col (M : qmat) (j : nat) : list Q := map (fun r => nth j r 0) M.
Definition mmul (A B : qmat) (cB : nat) : qmat := map (fun ra => map (fun j => qdot ra (col B j)) (seq 0 cB)) A.
(* V = lstsq(Q[local, :].t(), Q.t()).solution  =  (Q Q[local]^-1)^T *)
Definition skeleton_coeffs (r : nat) (Qm : qmat) (loc : list nat) : option qmat :=
  option_map (fun Binv => mmul Qm Binv r) (inverse r (map (fun x => nth x Qm []) loc)).
(* cores[j] = reshape(V, [Rs[j], Is[j], Rs[j+1]]) for V of shape Rs[j] x (Is[j] Rs[j+1]) = transpose of C *)
Definition core_of_coeffs (Rj Ij Rj1 : nat) (C : qmat) : cdata QO :=
  @lit_tt QO Rj Ij Rj1 (flat_map (fun a => flat_map (fun i => map (fun b => nth a (nth (i * Rj1 + b) C []) 0) (seq 0 Rj1))
                                                 (seq 0 Ij)) (seq 0 Rj)).

(* ------------------------------------------------------------------ the replayed run *)
Record step := mkStep {
  st_xs : list (list Q);      (* the argument vectors the implementation passed to the function (one per tensor) *)
  st_upd : option nat;        (* _minimize: flat position of the sample that replaced the best, if it was replaced *)
  st_local : list nat;        (* maxvol's rows ([] for the closing evaluation of mode 0) *)
  st_Q : qmat }.              (* right-to-left sweep: the QR factor Q, by rows ([] = do not build the core) *)
Record xiter := mkIter { it_extra : rows; it_steps : list step }.   (* extra: random integers of the preceding kick *)

Record xst := mkX {
  x_Rs : list nat; x_ls : list rows; x_rs : list rows;
  x_li : list (list (list (list Q)));       (* per tensor, per mode: rows of t_linterfaces *)
  x_ri : list (list (list (list Q)));       (* per tensor, per mode: columns of t_rinterfaces *)
  x_cores : list (cdata QO);
  x_argmin : option (list nat);
  x_evals : list (list nat);                (* every grid point requested so far (reverse order of steps) *)
  x_ok : bool }.

Definition flat_index (sh idx : list nat) : nat := fold_left (fun acc p => acc * fst p + snd p)%nat (combine sh idx) 0%nat.
Definition qlist_eqb (a b : list Q) : bool :=
  Nat.eqb (length a) (length b) && forallb (fun p => Qeq_bool (fst p) (snd p)) (combine a b).

Section Run.
Variable ts : list (list (cdata QO)).       (* the tensors, Tucker factors already absorbed *)
Variable Is : list nat.
Variable ftab : list Q.                      (* the function on the whole grid, row-major *)
Let N := length Is.

(* evaluate_function(j): the model's arguments must be the recorded ones; values come from the table *)
Definition evaluate (j : nat) (sp : step) (s : xst) : xst * list Q :=
  let L := nth j (x_ls s) [] in let R := nth j (x_rs s) [] in let Ij := nth j Is 0%nat in
  let pts := points L Ij R in
  let xs := map (fun k => eval_args (nth j (nth k ts []) (@CTT QO 1 1 1 (fun _ _ _ => 0))) Ij
                                    (nth j (nth k (x_li s) []) []) (nth j (nth k (x_ri s) []) [])) (seq 0 (length ts)) in
  let ok := Nat.eqb (length L) (nth j (x_Rs s) 0%nat) && Nat.eqb (length R) (nth (S j) (x_Rs s) 0%nat) &&
            Nat.eqb (length xs) (length (st_xs sp)) &&
            forallb (fun p => qlist_eqb (fst p) (snd p)) (combine xs (st_xs sp)) in
  let am := match st_upd sp with
            | Some k => if (k <? length pts)%nat then Some (nth k pts []) else None
            | None => x_argmin s end in
  let ok2 := match st_upd sp with Some k => (k <? length pts)%nat | None => true end in
  (mkX (x_Rs s) (x_ls s) (x_rs s) (x_li s) (x_ri s) (x_cores s) am (rev pts ++ x_evals s) (x_ok s && ok && ok2),
   map (fun p => nth (flat_index Is p) ftab 0) pts).

Definition in_rangeb (n : nat) (l : list nat) : bool := forallb (fun x => (x <? n)%nat) l.

Definition left_step (j : nat) (sp : step) (s0 : xst) : xst :=
  let '(s, _) := evaluate j sp s0 in
  let Ij := nth j Is 0%nat in let loc := st_local sp in
  let ok := Nat.eqb (length loc) (nth (S j) (x_Rs s) 0%nat) && in_rangeb (nth j (x_Rs s) 0 * Ij)%nat loc in
  mkX (x_Rs s) (upd (S j) (x_ls s) (lupdate Ij (nth j (x_ls s) []) loc)) (x_rs s)
      (map (fun k => let li := nth k (x_li s) [] in
                     upd (S j) li (lint_update (nth j (nth k ts []) (@CTT QO 1 1 1 (fun _ _ _ => 0))) Ij (nth j li []) loc))
           (seq 0 (length ts)))
      (x_ri s) (x_cores s) (x_argmin s) (x_evals s) (x_ok s && ok).

Definition right_step (j : nat) (sp : step) (s0 : xst) : xst :=
  let '(s, _) := evaluate j sp s0 in
  let Ij := nth j Is 0%nat in let Rj := nth j (x_Rs s) 0%nat in let Rj1 := nth (S j) (x_Rs s) 0%nat in
  let loc := st_local sp in
  let ok := Nat.eqb (length loc) Rj && in_rangeb (Ij * Rj1)%nat loc in
  let '(cores, okc) :=
     match st_Q sp with
     | [] => (x_cores s, true)
     | Qm => match skeleton_coeffs Rj Qm loc with
             | Some C => (upd j (x_cores s) (core_of_coeffs Rj Ij Rj1 C), Nat.eqb (length Qm) (Ij * Rj1))
             | None => (x_cores s, false)
             end
     end in
  mkX (x_Rs s) (x_ls s) (upd (j - 1) (x_rs s) (rupdate Rj1 (nth j (x_rs s) []) loc)) (x_li s)
      (map (fun k => let ri := nth k (x_ri s) [] in
                     upd (j - 1) ri (rint_update (nth j (nth k ts []) (@CTT QO 1 1 1 (fun _ _ _ => 0))) Rj1 (nth j ri []) loc))
           (seq 0 (length ts)))
      cores (x_argmin s) (x_evals s) (x_ok s && ok && okc).

(* cores[0] = evaluate_function(0) *)
Definition close_step (sp : step) (s0 : xst) : xst :=
  let '(s, vals) := evaluate 0 sp s0 in
  mkX (x_Rs s) (x_ls s) (x_rs s) (x_li s) (x_ri s)
      (upd 0 (x_cores s) (@lit_tt QO 1 (nth 0 Is 0%nat) (nth 1 (x_Rs s) 0%nat) vals)) (x_argmin s) (x_evals s) (x_ok s).

Fixpoint run_steps (js : list (nat * nat)) (sps : list step) (s : xst) : xst :=   (* (kind, j): 0 left, 1 right, 2 close *)
  match js, sps with
  | [], [] => s
  | (k, j) :: js', sp :: sps' =>
      run_steps js' sps' (match k with O => left_step j sp s | S O => right_step j sp s | _ => close_step sp s end)
  | _, _ => mkX (x_Rs s) (x_ls s) (x_rs s) (x_li s) (x_ri s) (x_cores s) (x_argmin s) (x_evals s) false
  end.
Definition schedule : list (nat * nat) :=
  map (fun j => (0, j)%nat) (seq 0 (N - 1)) ++ map (fun j => (1, j)%nat) (rev (seq 1 (N - 1))) ++ [(2, 0)%nat].

(* the rank kick between two iterations (481-498); kick = None: fixed ranks *)
Definition do_kick (kick : option nat) (rmax : nat) (extra : rows) (s : xst) : xst :=
  match kick with
  | None => s
  | Some k =>
      let newRs := kick_ranks Is N k rmax (x_Rs s) in
      let rs := kick_rsets N (x_Rs s) newRs extra (x_rs s) in
      mkX newRs (x_ls s) rs (map (fun cs => init_lint cs) ts) (map (fun cs => init_rint cs rs) ts)
          (x_cores s) (x_argmin s) (x_evals s) (x_ok s)
  end.

Fixpoint run_iters (first : bool) (kick : option nat) (rmax : nat) (its : list xiter) (s : xst) : xst :=
  match its with
  | [] => s
  | it :: its' =>
      let s1 := if first then s else do_kick kick rmax (it_extra it) s in
      run_iters false kick rmax its' (run_steps schedule (it_steps it) s1)
  end.

Definition init_state (ranks : list nat) (randint : rows) : xst :=
  let Rs := cap_init Is N ranks in
  let rs := init_rsets N Rs randint in
  mkX Rs (init_lsets N) rs (map (fun cs => init_lint cs) ts) (map (fun cs => init_rint cs rs) ts)
      (repeat (@CTT QO 1 1 1 (fun _ _ _ => 0)) N) None [] true.

Definition cross_run (ranks : list nat) (kick : option nat) (rmax : nat) (randint : rows) (its : list xiter) : xst :=
  run_iters true kick rmax its (init_state ranks randint).
End Run.

(* the smallest entry of the function table (specification side of the min/max clause) *)
Definition minq (l : list Q) : Q :=
  match l with [] => 0 | x :: t => fold_right (fun y acc => if Qle_bool y acc then y else acc) x t end.

Definition result_tensor (s : xst) : tensor QO := map (fun c => mkMode c None) (x_cores s).
