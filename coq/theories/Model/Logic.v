(* logic.py constructors: rank-1 networks of 1 x 2 x 1 cores. No proofs in this file. *)
From TN Require Export Model.Format.
Section Logic.
Variable K : Ops.
Local Open Scope K_scope.
Notation net := (list (score K)).
(* a 1 x d x 1 core holding the vector v *)
Definition vec_core (d : nat) (v : nat -> K) : score K := mkScore 1 1 d (fun i _ _ => v i).
Definition rank1_net (d : nat) (vs : list (nat -> K)) : net := map (vec_core d) vs.
Definition mem (n : nat) (which : list nat) : bool := existsb (Nat.eqb n) which.
(* cores[n] = [a, b] for n in which, [1, 1] otherwise *)
Definition sel_vec (which : list nat) (a b : K) (n : nat) : nat -> K :=
  fun i => if mem n which then (if Nat.eqb i 0 then a else b) else 1.
Definition sel_net (N : nat) (which : list nat) (a b : K) : net :=
  rank1_net 2 (map (sel_vec which a b) (seq 0 N)).
Definition presence_net (N : nat) (which : list nat) : net := sel_net N which 0 1.   (* also tn.all *)
Definition absence_net (N : nat) (which : list nat) : net := sel_net N which 1 0.    (* also tn.none *)
Definition true_net (N : nat) : net := rank1_net 2 (map (fun _ _ => 1) (seq 0 N)).
Definition false_net (N : nat) : net := rank1_net 2 (map (fun _ _ => 0) (seq 0 N)).
Fixpoint prod_at (vs : list (nat -> K)) (x : list nat) : K :=
  match vs, x with v :: vs', i :: x' => v i * prod_at vs' x' | _, _ => 1 end.
End Logic.
Arguments vec_core {K}. Arguments rank1_net {K}. Arguments sel_vec {K}. Arguments sel_net {K}.
Arguments presence_net {K}. Arguments absence_net {K}. Arguments true_net {K}. Arguments false_net {K}.
Arguments prod_at {K}.
