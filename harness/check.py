#!/venv/bin/python
"""Entry point of every registered check.   check.py --property Cxx --tier quick|thorough
                                             check.py --setup        check.py --replay <file>
Protocol: DESIGN.md section 5."""
import os, sys

if os.environ.get("TNVERIF_ENV") != "1":   # re-exec with a fixed environment
    env = dict(os.environ, TNVERIF_ENV="1", PYTHONPATH=os.environ.get("TNTORCH_ROOT", "/repo"), PYTHONHASHSEED="0",
               OMP_NUM_THREADS="2", MKL_NUM_THREADS="2", TNTORCH_VERIF="1", PYTHONDONTWRITEBYTECODE="1", PYTHONWARNINGS="ignore")
    os.execve("/venv/bin/python", ["/venv/bin/python"] + sys.argv, env)

import argparse, importlib, json, time, random, traceback
sys.path.insert(0, os.path.dirname(os.path.abspath(__file__)))
import lib
from lib import *


def setup():
    t0 = time.time()
    import gen_all
    ok, out = gen_all.regenerate()
    if not ok:
        print(out[-3000:]); print("SETUP FAILED: translator"); return 1
    ok, out = coq_build()
    if not ok:
        print(out[-3000:]); print("SETUP FAILED: coq build"); return 1
    bad = forbidden_tokens()
    if bad:
        print("\n".join(bad)); print("SETUP FAILED: forbidden tokens"); return 1
    print("setup ok in %.1fs" % (time.time() - t0))
    return 0


def load_prop(pid):
    mod = importlib.import_module("props." + pid.lower())
    return mod.Prop()


def evaluate_case(P, case):
    """returns (result, expected, agrees, msg)"""
    try:
        res = P.run(case)
    except Exception as e:  # an exception escaping the runner's own handling
        res = {"ok": False, "err": type(e).__name__, "msg": str(e)[:200]}
    exp = P.expected(case)
    ok, msg = P.agree(case, res, exp)
    return res, exp, ok, msg


def replay(path):
    rp = json.load(open(path))
    P = load_prop(rp["property"])
    if "case" not in rp:
        print("replay file names a broken proof/correspondence obligation, no concrete input:", rp.get("what"))
        return 1
    res, exp, ok, msg = evaluate_case(P, rp["case"])
    print("case:", json.dumps(rp["case"])[:600])
    print("implementation:", json.dumps(res, default=str)[:400])
    print("specification :", json.dumps(exp, default=str)[:400])
    print("property holds on this input" if ok else "PROPERTY FAILS: " + msg)
    return 0 if ok else 1


def check(pid, tier, seed):
    t0 = time.time()
    P = load_prop(pid)
    known = load_known()
    rng = random.Random(seed * 7919 + 13)
    problems = []          # broken ties (no concrete input yet)
    # ---- 1. translate + prove
    import gen_all
    gok, gout = gen_all.regenerate()
    if not gok:
        problems.append({"kind": "translator", "what": gout[-1500:]})
    has_proofs = getattr(P, "LEVEL", "proof") == "proof"
    if has_proofs:
        bok, blog = coq_build()
        pok, nthm, axioms, plog = build_property_file(pid)
    else:
        bok, blog, pok, nthm, axioms, plog = True, "", True, 0, [], ""
    discharged = nthm if (bok and pok) else 0
    if not (bok and pok):
        log = (blog if not bok else plog)
        m = re.findall(r'File "([^"]+)", line (\d+).*?\n(Error:.*?)(?:\n\n|\Z)', log, re.S)
        problems.append({"kind": "proof", "what": "Coq build failed for the cone of Properties/%s.v" % pid,
                         "where": [(a, b, c[:300]) for a, b, c in m][:5], "log_tail": log[-1200:]})
    bad = forbidden_tokens()
    if bad:
        problems.append({"kind": "forbidden", "what": bad[:5]})
    # ---- 2. cases: corpus first, then enumerated/seeded
    cases = []
    cdir = os.path.join(VERIF, "corpus", pid)
    if os.path.isdir(cdir):
        for fn in sorted(os.listdir(cdir)):
            if fn.endswith(".json"):
                c = json.load(open(os.path.join(cdir, fn)))
                c.setdefault("tags", {})["corpus"] = fn
                cases.append(c)
    cases += list(P.generate(rng, tier))
    results = []; violations = []; known_hits = {}
    hist = {}; sigs = set(); errs = {}
    for i, case in enumerate(cases):
        res, exp, ok, msg = evaluate_case(P, case)
        results.append(res)
        for k, v in case.get("tags", {}).items():
            if isinstance(v, (str, int, bool)):
                hist.setdefault(k, {}); hist[k][str(v)] = hist[k].get(str(v), 0) + 1
        if not res.get("ok", True):
            errs[res.get("err", "?")] = errs.get(res.get("err", "?"), 0) + 1
        if P.nontrivial(case, res):
            sigs.add(P.signature(case))
        if not ok:
            kf = match_known(pid, case.get("tags", {}), known, msg)
            if kf:
                known_hits.setdefault(kf["id"], kf)
            else:
                violations.append((i, msg))
    # ---- 3. correspondence: model (Coq, vm_compute) versus implementation
    terms = []
    for i, (case, res) in enumerate(zip(cases, results)):
        try:
            t = P.coq_term(case, res)
        except Exception as e:
            t = None
        if t is not None:
            terms.append((i, t))
    corr_fail = set(); ncorr = 0; clog = ""
    if terms and bok and has_proofs:
        corr_fail, ncorr, clog = run_coq_cases(pid, P.COQ_HEADER, terms, P.CHECK_FN, shard=getattr(P, "SHARD", 150))
        if -1 in corr_fail:
            problems.append({"kind": "correspondence-run", "what": clog[-1500:]})
            corr_fail.discard(-1)
    vi = set(i for i, _ in violations)
    for i in sorted(corr_fail):
        kf = match_known(pid, cases[i].get("tags", {}), known)
        if i in vi or kf:
            continue
        problems.append({"kind": "correspondence", "what": "model and implementation disagree", "case_index": i,
                         "case": cases[i], "impl": results[i]})
    extra = P.extra(tier, rng) if hasattr(P, "extra") else {}
    for pr in extra.get("problems", []):
        problems.append(pr)
    for v in extra.get("violations", []):
        violations.append((None, v))
    # ---- 4. verdict
    out_lines = []
    rc = 0
    for kid, kf in sorted(known_hits.items()):
        out_lines.append("KNOWN-FINDING: property=%s %s" % (pid, kf["what"]))
    if violations:
        i, msg = violations[0]
        case = cases[i] if i is not None else msg.get("case")
        if hasattr(P, "shrink") and i is not None:
            try:
                case = P.shrink(case, lambda c: not evaluate_case(P, c)[2])
            except Exception:
                pass
        res, exp, ok, msg2 = evaluate_case(P, case) if i is not None else (None, None, False, str(msg))
        path = write_replay(pid, {"property": pid, "case": case, "implementation": res, "specification": exp,
                                   "message": msg2, "seed": seed, "n_failing_cases": len(violations),
                                   "replay_cmd": "/venv/bin/python /verif/harness/check.py --replay <this file>"})
        out_lines.append("VIOLATION property=%s replay=%s" % (pid, path))
        rc = 1
    elif problems:
        # a tie is broken but no generated case violates the property: search harder, then report
        found = None
        if hasattr(P, "search"):
            found = P.search(random.Random(seed + 1), lambda c: evaluate_case(P, c))
        if found is None and tier == "quick":
            for case in P.generate(random.Random(seed + 2), "thorough"):
                res, exp, ok, msg = evaluate_case(P, case)
                if not ok and not match_known(pid, case.get("tags", {}), known):
                    found = (case, res, exp, msg); break
        if found:
            case, res, exp, msg = found
            path = write_replay(pid, {"property": pid, "case": case, "implementation": res, "specification": exp,
                                       "message": msg, "seed": seed, "broken": problems[:3]})
            out_lines.append("VIOLATION property=%s replay=%s" % (pid, path))
        else:
            path = write_replay(pid, {"property": pid, "what": "proof obligation / correspondence no longer checks",
                                       "broken": problems[:5], "seed": seed})
            out_lines.append("VIOLATION property=%s replay=%s no-failing-input-found" % (pid, path))
        rc = 1
    # ---- 5. evidence
    samples = []
    for c in cases[:: max(1, len(cases) // 3)][:3]:
        samples.append(json.loads(json.dumps(c, default=str))) if len(json.dumps(c, default=str)) < 3000 else samples.append({"tags": c.get("tags")})
    cov = {"obligations": nthm, "discharged": discharged,
           "checker_cmd": "cd /verif/coq && make theories/Properties/%s.vo  (coqc 8.16.1, full .vo build; Print Assumptions under every theorem)" % pid,
           "trusted_base": ["Coq 8.16.1 kernel and vm_compute"] + ["axiom: " + a for a in axioms] + P.TRUSTED,
           "theorems": getattr(P, "THEOREMS", []),
           "evaluations": len(cases), "distinct_nontrivial": len(sigs),
           "rule": P.RULE, "samples": samples,
           "correspondence_cases_evaluated_in_coq": ncorr, "correspondence_disagreements": len(corr_fail),
           "correspondence_cases_left_unevaluated_at_the_time_limit": TIMEOUTS.get("n", 0),
           "implementation_vs_specification_failures": len(violations),
           "known_findings_reproduced": sorted(known_hits),
           "input_distribution": hist, "error_outcomes": errs,
           "broken_ties": [p["kind"] for p in problems]}
    cov.update(extra.get("coverage", {}))
    write_evidence(pid, tier, seed, cov, P.ASSUMPTIONS, time.time() - t0, len(violations) + (1 if (problems and not violations) else 0),
                   level=getattr(P, "LEVEL", "proof"))
    for l in out_lines:
        print(l)
    print("%s %s: %d cases, %d distinct non-trivial, %d model/impl comparisons, theorems %d/%d, %.1fs -> %s" %
          (pid, tier, len(cases), len(sigs), ncorr, discharged, nthm, time.time() - t0, "FAIL" if rc else "ok"))
    return rc


if __name__ == "__main__":
    ap = argparse.ArgumentParser()
    ap.add_argument("--property"); ap.add_argument("--tier", default=os.environ.get("VERIF_TIER", "quick"))
    ap.add_argument("--setup", action="store_true"); ap.add_argument("--replay")
    a = ap.parse_args()
    seed = int(os.environ.get("VERIF_SEED", "0"))
    if a.setup:
        sys.exit(setup())
    if a.replay:
        sys.exit(replay(a.replay))
    sys.exit(check(a.property, a.tier, seed))
