(* Harness/H_C14.v -- trace checking for C14.  A case is the OBSERVED effect trace of one history executed on the real
   tntorch: for every step the primitive events derived from before/after snapshots of the Python object graph
   (identity of every Tensor / list / torch.Tensor / storage object, torch _version counters, content digests),
   the root cells of the results, and the roots whose decompression (dense value, format, ranks, bit patterns - or array
   content for argument arrays) was observed to differ after the step.  `check` replays the trace on the model and
   requires, at every step:  safe_step (no mutation of a cell that another live object reaches), conformance of the
   observed effect with the effect table entry of the operation, and agreement of the model's prediction with the
   observation (every object observed to change must be one whose unfolding changes in the model - by safe_step these
   can only be the in-place target). *)
From Coq Require Export List ZArith PArith Bool.
From TN Require Export Model.Heap.
From TN Require Import Proofs.HeapP.
Export ListNotations.

Definition depth : nat := 6.

Record ostep := St { o_cls : opclass; o_tgt : cell (* 1 = no in-place target *); o_evs : list event;
                     o_res : list cell; o_chg : list cell }.
Definition case := list ostep.

Definition A (c : cell) (k p : Z) (rs : list cell) : event := Alloc c (mkNode k p rs).
Definition W := Write.
Definition R := Rebind.
Definition N := NewObject.

Definition tgt_of (c : cell) : option cell := if Pos.eqb c 1 then None else Some c.
Definition to_step (o : ostep) : step := mkStep (tgt_of (o_tgt o)) (o_evs o).

Definition model_changed (s s' : state) (r : cell) : bool :=
  negb (tree_eqb (unfold depth (hget (hp s)) r) (unfold depth (hget (hp s')) r)).

Definition check_step (s : state) (o : ostep) : bool :=
  let st := to_step o in
  let s' := exec s st in
  safe_step depth s st && conforms depth (o_cls o) s st (o_res o)
  && forallb (fun r => memc r (live s) && model_changed s s' r) (o_chg o)
  && forallb (fun r => memc r (live s')) (o_res o).

Fixpoint check_steps (s : state) (os : list ostep) : bool :=
  match os with
  | [] => true
  | o :: tl => check_step s o && check_steps (exec s (to_step o)) tl
  end.

Definition check (c : case) : bool := check_steps empty_state c.

(* an accepted trace satisfies the hypothesis of the history theorems *)
Lemma check_steps_safe_run : forall os s, check_steps s os = true -> safe_run depth s (map to_step os) = true.
Proof.
  induction os as [| o os IH]; intros s H; cbn [check_steps map safe_run] in *; [reflexivity |].
  apply andb_true_iff in H. destruct H as [H1 H2]. rewrite (IH _ H2). unfold check_step in H1.
  repeat (apply andb_true_iff in H1; destruct H1 as [H1 ?]). rewrite H1. reflexivity.
Qed.

(* ... and every root the observer reported as changed at some step is that step's in-place target *)
Lemma check_step_changed_is_target : forall s o r, check_step s o = true -> In r (o_chg o) -> tgt_of (o_tgt o) = Some r.
Proof.
  intros s o r H Hr. unfold check_step in H. repeat (apply andb_true_iff in H; destruct H as [H ?]).
  match goal with Hc : forallb _ (o_chg o) = true |- _ => rewrite forallb_forall in Hc; specialize (Hc r Hr);
    apply andb_true_iff in Hc; destruct Hc as [Hl Hm] end.
  apply memc_In in Hl. unfold model_changed in Hm. apply negb_true_iff in Hm.
  destruct (is_tgt (s_tgt (to_step o)) r) eqn:Et.
  - cbn [to_step s_tgt] in Et. unfold is_tgt in Et. destruct (tgt_of (o_tgt o)) as [t |]; [| discriminate].
    apply Pos.eqb_eq in Et. subst. reflexivity.
  - exfalso. destruct (safe_step_isolation depth s (to_step o) r H Hl Et) as [Hu _]. rewrite Hu in Hm.
    assert (Ht : tree_eqb (unfold depth (hget (hp s)) r) (unfold depth (hget (hp s)) r) = true) by (apply tree_eqb_eq; reflexivity).
    rewrite Ht in Hm. discriminate.
Qed.
