"""Common machinery of the tntorch verification harness (see DESIGN.md sections 4, 5).

Everything here runs under /venv/bin/python with PYTHONPATH=/repo so that `tntorch` is the
current working tree of /repo.
"""
import os, sys, json, time, subprocess, hashlib, itertools, random, math, re, fcntl, traceback
from fractions import Fraction

VERIF = os.path.dirname(os.path.dirname(os.path.abspath(__file__)))
COQ = os.path.join(VERIF, "coq")
BUILD = os.path.join(VERIF, "build")
REPO = os.environ.get("TNTORCH_ROOT", "/repo")
NPROC = int(os.environ.get("VERIF_NPROC", "16"))

import numpy as np
import torch
import tntorch as tn

torch.set_default_dtype(torch.float64)

# --------------------------------------------------------------------------- tensors

KINDS = [("tt", False), ("tt", True), ("cp", False), ("cp", True)]


def rint(rng, shape, lo=-2, hi=2):
    return [[rng.randint(lo, hi) for _ in range(shape[1])] for _ in range(shape[0])] if len(shape) == 2 else \
        [[[rng.randint(lo, hi) for _ in range(shape[2])] for _ in range(shape[1])] for _ in range(shape[0])]


def make_ranks(rng, kinds, maxr):
    """bond sizes r[0..N] compatible with the constructor: a CP mode has equal bonds."""
    N = len(kinds)
    r = [1] + [rng.randint(1, maxr) for _ in range(N - 1)] + [1]
    if kinds[0][0] == "cp":
        if N == 1:
            r[1] = rng.randint(1, maxr)
        r[0] = r[1]
    for n in range(1, N):
        if kinds[n][0] == "cp":
            r[n + 1] = r[n]
    if kinds[0][0] == "tt":
        r[0] = 1
    if kinds[-1][0] == "tt":
        r[N] = 1
    return r


def rand_tensor_json(rng, shape, kinds=None, maxr=3, lo=-2, hi=2, maxs=3, zero=False):
    """A random tensor in explicit (JSON) form with small integer entries.
    kinds: per mode (kind, hasU).  Returns {'modes': [{'kind','core','U'}]}"""
    N = len(shape)
    if kinds is None:
        kinds = [rng.choice(KINDS) for _ in range(N)]
    r = make_ranks(rng, kinds, maxr)
    modes = []
    for n in range(N):
        S = shape[n]
        U = None
        if kinds[n][1]:
            S = rng.randint(1, maxs)
            U = rint(rng, (shape[n], S), lo, hi)
        if kinds[n][0] == "tt":
            core = rint(rng, (r[n], S, r[n + 1]), lo, hi)
        else:
            core = rint(rng, (S, r[n]), lo, hi)
        if zero:
            core = (np.array(core) * 0).tolist()
        modes.append({"kind": kinds[n][0], "core": core, "U": U})
    return {"modes": modes}


def to_tn(tj, dtype=torch.float64, requires_grad=False):
    cores = [torch.tensor(m["core"], dtype=dtype) for m in tj["modes"]]
    Us = [None if m["U"] is None else torch.tensor(m["U"], dtype=dtype) for m in tj["modes"]]
    return tn.Tensor(cores, Us, requires_grad=requires_grad)


def from_tn(t):
    """explicit form of an implementation tensor (entries as python numbers)"""
    modes = []
    for c, U in zip(t.cores, t.Us):
        modes.append({"kind": "tt" if c.dim() == 3 else "cp", "core": c.detach().tolist(),
                      "U": None if U is None else U.detach().tolist()})
    return {"modes": modes}


def dense_np(tj):
    """independent dense evaluation with numpy (the property oracle's view of a tensor)"""
    N = len(tj["modes"])
    mats = []
    for m in tj["modes"]:
        c = np.array(m["core"], dtype=np.float64)
        if m["kind"] == "cp":  # (s, R) -> (R, s, R) diagonal
            s, R = c.shape
            g = np.zeros((R, s, R))
            for k in range(R):
                g[k, :, k] = c[:, k]
            c = g
        if m["U"] is not None:
            c = np.einsum("pjq,ij->piq", c, np.array(m["U"], dtype=np.float64))
        mats.append(c)
    cur = np.ones((1, mats[0].shape[0]))
    shape = []
    for c in mats:
        shape.append(c.shape[1])
        cur = np.einsum("ap,piq->aiq", cur, c).reshape(-1, c.shape[2])
    return cur.sum(axis=1).reshape(shape)


def tsig(tj):
    return "".join(("T" if m["kind"] == "tt" else "C") + ("u" if m["U"] is not None else "") for m in tj["modes"])


def tshape(tj):
    return [len(m["U"]) if m["U"] is not None else (len(m["core"][0]) if m["kind"] == "tt" else len(m["core"]))
            for m in tj["modes"]]


# --------------------------------------------------------------------------- Coq literals

def zlit(x):
    x = int(x)
    return str(x) if x >= 0 else "(%d)" % x


def qlit(x):
    f = Fraction(x).limit_denominator(10 ** 12) if not isinstance(x, Fraction) else x
    return "(%d#%d)" % (f.numerator, f.denominator)


def flat(a):
    return np.array(a).reshape(-1).tolist()


def coq_list(xs, lit=zlit, scope="Z"):
    return "[" + ";".join(lit(x) for x in xs) + "]%" + scope


def coq_natlist(xs):
    return "[" + ";".join(str(int(x)) for x in xs) + "]%nat"


def coq_tensor(tj, lit=zlit, scope="Z"):
    pre = "z" if scope == "Z" else "q"
    ms = []
    for m in tj["modes"]:
        c = np.array(m["core"])
        if m["kind"] == "tt":
            a, s, b = c.shape
            core = "(%sTT %d %d %d %s)" % (pre, a, s, b, coq_list(flat(c), lit, scope))
        else:
            s, r = c.shape
            core = "(%sCP %d %d %s)" % (pre, s, r, coq_list(flat(c), lit, scope))
        if m["U"] is None:
            fac = "None"
        else:
            U = np.array(m["U"])
            fac = "(%sU %d %d %s)" % (pre, U.shape[0], U.shape[1], coq_list(flat(U), lit, scope))
        ms.append("%sM %s %s" % (pre, core, fac))
    return "[" + "; ".join(ms) + "]"


def close(a, b, tol=1e-9):
    """max-norm closeness that is False on NaN/inf or shape mismatch"""
    a = np.asarray(a, dtype=np.float64); b = np.asarray(b, dtype=np.float64)
    if a.shape != b.shape:
        return False
    if a.size == 0:
        return True
    if not (np.all(np.isfinite(a)) and np.all(np.isfinite(b))):
        return False
    return bool(np.max(np.abs(a - b)) <= tol * max(1.0, float(np.max(np.abs(b)))))


def canon_int(x, denom=1, tol=1e-7):
    """canonicalise an implementation value that must be k/denom: returns int k or None"""
    v = float(x) * denom
    if not math.isfinite(v):
        return None
    k = round(v)
    if abs(v - k) <= tol * max(1.0, abs(v)):
        return int(k)
    return None


def canon_dense(arr, denom=1):
    a = np.asarray(arr, dtype=np.float64).reshape(-1)
    out = []
    for x in a:
        k = canon_int(x, denom)
        if k is None:
            return None
        out.append(k)
    return out


# --------------------------------------------------------------------------- Coq runs

def sh(cmd, timeout=1800, cwd=None, env=None):
    p = subprocess.run(cmd, shell=True, capture_output=True, text=True, timeout=timeout, cwd=cwd, env=env)
    return p.returncode, p.stdout + p.stderr


class Lock:
    def __init__(self, name):
        os.makedirs(BUILD, exist_ok=True)
        self.path = os.path.join(BUILD, name + ".lock")

    def __enter__(self):
        self.f = open(self.path, "w")
        fcntl.flock(self.f, fcntl.LOCK_EX)

    def __exit__(self, *a):
        fcntl.flock(self.f, fcntl.LOCK_UN)
        self.f.close()


def coq_build(targets=None, timeout=3000):
    """full .vo build of the development (or of the given .vo targets) under a lock"""
    with Lock("coqmake"):
        if not os.path.exists(os.path.join(COQ, "Makefile")) or \
                os.path.getmtime(os.path.join(COQ, "Makefile")) < os.path.getmtime(os.path.join(COQ, "_CoqProject")):
            rc, out = sh("coq_makefile -f _CoqProject -o Makefile", cwd=COQ)
            if rc:
                return False, out
        tg = " ".join(targets) if targets else ""
        rc, out = sh("timeout %d make -j%d %s" % (timeout, NPROC, tg), cwd=COQ, timeout=timeout + 60)
        return rc == 0, out


TIMEOUTS = {"n": 0}


def run_coq_cases(pid, header, case_terms, check_fn, shard=150, timeout=900):
    """case_terms: list of (case_id:int, coq_term:str).  Evaluates `check_fn term` for each case inside Coq
    with vm_compute; returns (set of failing ids, log)."""
    d = os.path.join(BUILD, "cases_" + pid)
    subprocess.run(["rm", "-rf", d]); os.makedirs(d)
    files = []
    parts = []; cur = []; size = 0
    for it in case_terms:                      # shards bounded in count and in bytes (big literals stack-overflow coqc)
        if cur and (len(cur) >= shard or size + len(it[1]) > 120000):
            parts.append(cur); cur = []; size = 0
        cur.append(it); size += len(it[1])
    if cur:
        parts.append(cur)
    for k, part in enumerate(parts):
        fn = os.path.join(d, "cases_%s_%d.v" % (pid, k))
        with open(fn, "w") as f:
            f.write(header + "\n")
            f.write("Definition cases := [\n" + ";\n".join("(%d%%nat, %s)" % (i, t) for i, t in part) + "].\n")
            f.write("Definition failing := map fst (filter (fun c => negb (%s (snd c))) cases).\n" % check_fn)
            f.write("Eval vm_compute in (length cases, failing).\n")
        files.append(fn)
    listing = os.path.join(d, "files.txt")
    open(listing, "w").write("\n".join(files) + "\n")
    rc, out = sh("cat %s | xargs -P %d -I{} sh -c 'ulimit -s unlimited 2>/dev/null; timeout %d coqc -Q %s/theories TN {} > {}.out 2>&1 || echo FAIL {}'" %
                 (listing, NPROC, timeout, COQ), timeout=timeout * 4)
    failing = set(); log = out; total = 0
    TIMEOUTS["n"] = 0
    # a shard killed by the time limit (no output at all: one pathological exact evaluation, or a loaded machine) is not a
    # disagreement: it is bisected, and a single case that still does not finish is left unevaluated and counted
    pending = [(fn, part) for fn, part in zip(files, parts)]
    files = []
    gen = 0
    while pending:
        nxt = []
        for fn, part in pending:
            o = open(fn + ".out").read() if os.path.exists(fn + ".out") else ""
            if o.strip() == "" and len(part) > 1:
                h = len(part) // 2
                for half in (part[:h], part[h:]):
                    gen += 1
                    f2 = os.path.join(d, "cases_%s_b%d.v" % (pid, gen))
                    with open(f2, "w") as f:
                        f.write(header + "\n")
                        f.write("Definition cases := [\n" + ";\n".join("(%d%%nat, %s)" % (i, t) for i, t in half) + "].\n")
                        f.write("Definition failing := map fst (filter (fun c => negb (%s (snd c))) cases).\n" % check_fn)
                        f.write("Eval vm_compute in (length cases, failing).\n")
                    nxt.append((f2, half))
            elif o.strip() == "":
                TIMEOUTS["n"] += 1
                log += "\nTIME LIMIT: case %d left unevaluated (%s)\n" % (part[0][0], fn)
            else:
                files.append(fn)
        if nxt:
            listing2 = os.path.join(d, "files_b%d.txt" % gen)
            open(listing2, "w").write("\n".join(f for f, _ in nxt) + "\n")
            sh("cat %s | xargs -P %d -I{} sh -c 'ulimit -s unlimited 2>/dev/null; timeout %d coqc -Q %s/theories TN {} > {}.out 2>&1 || echo FAIL {}'" %
               (listing2, NPROC, timeout, COQ), timeout=timeout * 4)
        pending = nxt
    for fn in files:
        o = open(fn + ".out").read() if os.path.exists(fn + ".out") else "missing output"
        o2 = o.replace("%nat", "")
        m = re.search(r"=\s*\((\d+),\s*\[(.*?)\]\)", o2, re.S)
        if "Error" in o or not m:
            log += "\nCOQ ERROR in %s:\n%s\n" % (fn, o[-2000:])
            failing.add(-1)
            continue
        total += int(m.group(1))
        body = m.group(2).strip()
        if body:
            failing.update(int(x) for x in re.split(r"[;\s]+", body) if x.strip())
    return failing, total, log


def build_property_file(pid):
    """(re)compile Properties/<pid>.v, return (ok, n_theorems, assumptions:list[str], log)"""
    src = os.path.join(COQ, "theories", "Properties", pid + ".v")
    if not os.path.exists(src):
        return False, 0, [], "no property file"
    text = open(src).read()
    thms = re.findall(r"^\s*(?:Theorem|Corollary|Definition)\s+(C\d\d_\w+)", text, re.M)
    with Lock("coqmake"):
        for ext in (".vo", ".glob", ".vok", ".vos"):
            try:
                os.remove(src[:-2] + ext)
            except OSError:
                pass
    ok, out = coq_build(["theories/Properties/%s.vo" % pid])
    axioms = set()
    closed = 0
    for m in re.finditer(r"Closed under the global context", out):
        closed += 1
    for blk in re.findall(r"Axioms:\n((?:.+\n?)+?)(?:\n\n|\Z|(?=COQC|make))", out):
        for line in blk.splitlines():
            mm = re.match(r"^(\S+)\s*:", line)
            if mm:
                axioms.add(mm.group(1))
    return ok, len(thms), sorted(axioms), out


FORBIDDEN = r"\b(Admitted|admit|Axiom|Parameter|Conjecture|Unset Guard|bypass_check|Admit Obligations|type-in-type|impredicative-set)\b"


def forbidden_tokens():
    rc, out = sh("grep -rnE '%s' --include=*.v %s/theories | grep -v '^.*(\\*.*\\*)' || true" % (FORBIDDEN, COQ))
    return [l for l in out.splitlines() if l.strip()]


# --------------------------------------------------------------------------- findings, evidence

def load_known():
    p = os.path.join(VERIF, "known_findings.json")
    if not os.path.exists(p):
        return []
    return json.load(open(p)).get("findings", [])


def match_known(pid, tags, known, msg=""):
    """a failing case is attributed to a recorded finding when its tags match AND (if the finding names one) its failure
    message contains the finding's `message_contains` text - a different failure on the same input is still reported"""
    for k in known:
        if k.get("status") != "open" or k["property"] != pid:
            continue
        if all(tags.get(a) == b for a, b in k["match"].items()) and k.get("message_contains", "") in (msg or ""):
            return k
    return None


def write_replay(pid, payload):
    d = os.path.join(VERIF, "replays"); os.makedirs(d, exist_ok=True)
    h = hashlib.sha1(json.dumps(payload, sort_keys=True, default=str).encode()).hexdigest()[:12]
    p = os.path.join(d, "%s_%s.json" % (pid, h))
    json.dump(payload, open(p, "w"), indent=1, default=str)
    return p


def write_evidence(pid, tier, seed, coverage, assumptions, wall, violations, level="proof"):
    os.makedirs(os.path.join(VERIF, "evidence"), exist_ok=True)
    ev = {"property_id": pid, "tier": tier, "seed": seed, "level": level, "coverage": coverage,
          "assumptions": assumptions, "wall_s": round(wall, 2), "violations": violations}
    json.dump(ev, open(os.path.join(VERIF, "evidence", pid + ".json"), "w"), indent=1, default=str)
