(* Refinement lemmas for the format conversions: C01. *)
From TN Require Export Sem.Moves Model.Convert.
From Coq Require Import ArithRing.

Section ConvertP.
Variable K : Ops.
Hypothesis Kth : laws K.
Add Ring Kring : Kth.
Local Open Scope K_scope.

(* ---- index arithmetic of the reshape trick ---- *)
Lemma div_unique_nat k c a r : (r < c)%nat -> k = (a * c + r)%nat -> (k / c = a /\ k mod c = r)%nat.
Proof. intros H E. subst k. split.
  - rewrite Nat.add_comm, Nat.div_add by lia. rewrite Nat.div_small by lia. lia.
  - rewrite Nat.add_comm, Nat.mod_add by lia. apply Nat.mod_small; lia. Qed.

Lemma cp_trick_diag R s a i : (a < R)%nat -> (i < s)%nat ->
  let k := ((a * R + a) * s + i)%nat in
  ((k / s) mod (R + 1) = 0 /\ k mod s = i /\ k / ((R + 1) * s) = a)%nat.
Proof.
  intros Ha Hi k. subst k.
  destruct (div_unique_nat ((a * R + a) * s + i) s (a * R + a) i Hi eq_refl) as [E1 E2].
  rewrite E1, E2. split; [|split; auto].
  - destruct (div_unique_nat (a * R + a) (R + 1) a 0) as [_ E]; [lia|ring|exact E].
  - assert (H: (i < (R + 1) * s)%nat) by nia.
    destruct (div_unique_nat ((a * R + a) * s + i) ((R + 1) * s) a i H) as [E _]; [ring|exact E].
Qed.

Lemma cp_trick_off R s a b i : (a < R)%nat -> (b < R)%nat -> (i < s)%nat -> a <> b ->
  ((((a * R + b) * s + i) / s) mod (R + 1) <> 0)%nat.
Proof.
  intros Ha Hb Hi Hab.
  destruct (div_unique_nat ((a * R + b) * s + i) s (a * R + b) i Hi eq_refl) as [E _]. rewrite E.
  destruct (Nat.lt_trichotomy a b) as [L|[L|L]]; [|congruence|].
  - destruct (div_unique_nat (a * R + b) (R + 1) a (b - a)) as [_ E']; [lia|nia|]. lia.
  - destruct (div_unique_nat (a * R + b) (R + 1) (a - 1) (R + 1 - (a - b))) as [_ E']; [lia|nia|]. lia.
Qed.

(* the reshape trick produces the diagonal core *)
Theorem cp_to_tt_core_diag s r (g : nat -> nat -> K) a i b :
  (a < r)%nat -> (b < r)%nat -> (i < s)%nat ->
  cp_buf s r g ((a * r + b) * s + i)%nat = if Nat.eqb a b then g i a else 0.
Proof.
  intros Ha Hb Hi. unfold cp_buf. destruct (Nat.eqb_spec a b) as [->|Hne].
  - destruct (cp_trick_diag r s b i Hb Hi) as (E1 & E2 & E3). cbv zeta in *. rewrite E1, E2, E3. reflexivity.
  - destruct (Nat.eqb_spec ((((a * r + b) * s + i) / s) mod (r + 1)) 0); [|reflexivity].
    exfalso. exact (cp_trick_off r s a b i Ha Hb Hi Hne e).
Qed.

Lemma sem_on_core_dims (f : cdata K -> cdata K) (m : mode K) :
  c_rl (f (core m)) = c_rl (core m) -> c_rr (f (core m)) = c_rr (core m) ->
  rl (sem_mode (on_core f m)) = rl (sem_mode m) /\ rr (sem_mode (on_core f m)) = rr (sem_mode m).
Proof. intros H1 H2. unfold sem_mode, on_core. cbn [core fac].
  destruct (fac m) as [[[? ?] ?]|]; cbn [rl rr]; auto. Qed.

(* middle cores: same semantic core on in-range entries *)
Lemma cp_mid_eq (m : mode K) : wf_mode m = true ->
  score_eq_in (sem_mode m) (sem_mode (on_core cp_to_tt_core m)).
Proof.
  intros Hwf. unfold sem_mode, on_core, wf_mode in *. cbn [core fac].
  destruct (core m) as [a s b g|s r g] eqn:Ec.
  - cbn [cp_to_tt_core]. apply score_eq_in_refl.
  - cbn [cp_to_tt_core]. destruct (fac m) as [[[di s'] U]|].
    + apply Nat.eqb_eq in Hwf. cbn [c_sz] in Hwf. subst s'.
      repeat split; auto. cbn [rl rr dm sl c_rl c_rr c_sl]. intros i p q Hi Hp Hq.
      apply sumn_ext. intros j Hj. rewrite cp_to_tt_core_diag by assumption. reflexivity.
    + repeat split; auto. cbn [rl rr dm sl c_rl c_rr c_sz c_sl]. intros i p q Hi Hp Hq.
      rewrite cp_to_tt_core_diag by assumption. reflexivity.
Qed.

(* absorbing a Tucker factor *)
Lemma decompress_mode_eq (m : mode K) : wf_mode m = true ->
  score_eq_in (sem_mode m) (sem_mode (decompress_mode m)).
Proof.
  intros Hwf. unfold sem_mode, decompress_mode, absorb, wf_mode in *. cbn [core fac].
  destruct (fac m) as [[[di s'] U]|]; [|apply score_eq_in_refl].
  apply Nat.eqb_eq in Hwf.
  destruct (core m) as [a s b g|s r g]; cbn [c_sz] in Hwf; subst s'.
  - repeat split; auto.
  - repeat split; auto. cbn [rl rr dm sl c_rl c_rr c_sl]. intros i p q Hi Hp Hq.
    destruct (Nat.eqb p q); [reflexivity|].
    apply sumn_zero_ext; auto. intros; ring.
Qed.

Lemma Forall2_map_r {A B} (P : A -> B -> Prop) (f : A -> B) (l : list A) :
  (forall x, In x l -> P x (f x)) -> Forall2 P l (map f l).
Proof. induction l; intros H; constructor; [apply H; left; auto|apply IHl; intros; apply H; right; auto]. Qed.

Lemma wf_tensor_modes (t : tensor K) : wf_tensor t = true -> forall m, In m t -> wf_mode m = true.
Proof. unfold wf_tensor. destruct t; [discriminate|]. intros H. apply andb_true_iff in H.
  destruct H as [H _]. rewrite forallb_forall in H. exact H. Qed.

Lemma wf_tensor_chain (t : tensor K) : wf_tensor t = true ->
  chain (match sem t with c :: _ => rl c | [] => O end) (sem t) = true.
Proof.
  unfold wf_tensor. destruct t as [|m t]; [discriminate|]. intros H.
  apply andb_true_iff in H. destruct H as [_ H]. cbn [sem map] in *.
  replace (rl (sem_mode m)) with (c_rl (core m)); [exact H|].
  unfold sem_mode. destruct (fac m) as [[[? ?] ?]|]; reflexivity.
Qed.

Theorem decompress_sound (t : tensor K) idx : wf_tensor t = true ->
  in_range (shape t) idx = true -> den (decompress t) idx = den t idx.
Proof.
  intros Hwf Hr. unfold den. symmetry. apply L0_eval; auto.
  - unfold sem, decompress. rewrite map_map.
    rewrite <- (map_map sem_mode (fun s => s)) at 1. rewrite map_id.
    (* Forall2 over map sem_mode t and map (sem_mode o decompress_mode) t *)
    clear Hr. assert (H := wf_tensor_modes t Hwf). clear Hwf.
    induction t as [|m t IH]; cbn [map]; constructor.
    + apply decompress_mode_eq. apply H. left; auto.
    + apply IH. intros; apply H; right; auto.
  - apply wf_tensor_chain; auto.
  - unfold sem, sshape. rewrite map_map.
    replace (map (fun x => dm (sem_mode x)) t) with (shape t); auto.
    unfold shape. apply map_ext. intros m. unfold sem_mode, m_size.
    destruct (fac m) as [[[? ?] ?]|]; reflexivity.
Qed.



Theorem decompress_sel_sound (sel : list bool) (t : tensor K) idx : wf_tensor t = true ->
  in_range (shape t) idx = true -> den (decompress_sel sel t) idx = den t idx.
Proof.
  intros Hwf Hr. unfold den. symmetry. apply L0_eval; auto.
  - assert (H := wf_tensor_modes t Hwf). clear Hwf Hr. revert sel.
    induction t as [|m t IH]; intros sel.
    + destruct sel; constructor.
    + destruct sel as [|b sel]; [apply Forall2_score_eq_refl|].
      cbn [decompress_sel sem map]. constructor.
      * destruct b; [apply decompress_mode_eq; apply H; left; auto|apply score_eq_in_refl].
      * apply IH. intros; apply H; right; auto.
  - apply wf_tensor_chain; auto.
  - unfold sem, sshape. rewrite map_map.
    replace (map (fun x => dm (sem_mode x)) t) with (shape t); auto.
    unfold shape. apply map_ext. intros m. unfold sem_mode, m_size.
    destruct (fac m) as [[[? ?] ?]|]; reflexivity.
Qed.

(* ---- _cp_to_tt on the whole tensor ---- *)
Lemma wf_sem_dims (m : mode K) :
  rl (sem_mode m) = c_rl (core m) /\ rr (sem_mode m) = c_rr (core m) /\ dm (sem_mode m) = m_size m.
Proof. unfold sem_mode, m_size. destruct (fac m) as [[[? ?] ?]|]; auto. Qed.

Lemma cp_last_eq (m : mode K) i p : wf_mode m = true -> (i < m_size m)%nat -> (p < c_rl (core m))%nat ->
  evalv [sem_mode (on_core cp_last m)] [i] ones p = evalv [sem_mode m] [i] ones p.
Proof.
  intros Hwf Hi Hp. unfold sem_mode, on_core, wf_mode, m_size in *. cbn [core fac].
  destruct (core m) as [a s b g|s r g] eqn:Ec; [reflexivity|].
  cbn [cp_last c_rl] in *. destruct (fac m) as [[[di s'] U]|].
  - apply Nat.eqb_eq in Hwf. cbn [c_sz] in Hwf. subst s'.
    cbn [evalv rr sl c_rr c_sl]. rewrite sumn_1 by assumption.
    rewrite (sumn_ext r _ (fun q => delta p q * sumn s (fun j => U i j * g j p))).
    + rewrite sumn_delta by assumption. unfold ones. ring.
    + intros q Hq. unfold delta, ones. destruct (Nat.eqb p q).
      * ring.
      * rewrite sumn_zero_ext; auto; [ring|]. intros; ring.
  - cbn [evalv rr sl c_rr c_sl]. rewrite sumn_1 by assumption.
    rewrite (sumn_ext r _ (fun q => delta p q * g i p)).
    + rewrite sumn_delta by assumption. unfold ones. ring.
    + intros q Hq. unfold delta, ones. destruct (Nat.eqb p q); ring.
Qed.

Definition tshape_ok (t : tensor K) idx := in_range (shape t) idx = true.

Lemma cp_tail_sound (t : tensor K) : forall r idx p, t <> [] ->
  (forall m, In m t -> wf_mode m = true) -> chain r (sem t) = true ->
  in_range (shape t) idx = true -> (p < r)%nat ->
  evalv (sem (cp_to_tt_tail t)) idx ones p = evalv (sem t) idx ones p.
Proof.
  induction t as [|m t IH]; intros r idx p Hne Hwf Hc Hr Hp; [congruence|].
  destruct idx as [|i idx]; [discriminate|].
  cbn [shape map in_range] in Hr. apply andb_true_iff in Hr. destruct Hr as [Hi Hr].
  apply Nat.ltb_lt in Hi.
  cbn [sem map chain] in Hc. apply andb_true_iff in Hc. destruct Hc as [Hrl Hc].
  apply Nat.eqb_eq in Hrl. destruct (wf_sem_dims m) as (D1 & D2 & D3).
  destruct t as [|m2 t].
  - destruct idx; [|discriminate]. cbn [cp_to_tt_tail sem map].
    apply cp_last_eq; auto; [apply Hwf; left; auto|lia].
  - change (cp_to_tt_tail (m :: m2 :: t)) with (on_core cp_to_tt_core m :: cp_to_tt_tail (m2 :: t)).
    cbn [sem map evalv].
    destruct (cp_mid_eq m (Hwf m (or_introl eq_refl))) as (E1 & E2 & E3 & E4).
    rewrite <- E2. apply sumn_ext. intros q Hq.
    rewrite <- E4 by lia. f_equal.
    apply (IH (rr (sem_mode m))); auto; try discriminate.
    intros; apply Hwf; right; auto.
Qed.

Lemma cp_first_eq (m : mode K) i (X X' : nat -> K) : wf_mode m = true -> (i < m_size m)%nat ->
  (forall q, (q < c_rr (core m))%nat -> X q = X' q) ->
  sumn (rl (sem_mode (on_core cp_first m))) (fun p =>
    sumn (rr (sem_mode (on_core cp_first m))) (fun q => sl (sem_mode (on_core cp_first m)) i p q * X q)) =
  sumn (rl (sem_mode m)) (fun p => sumn (rr (sem_mode m)) (fun q => sl (sem_mode m) i p q * X' q)).
Proof.
  intros Hwf Hi HX. unfold sem_mode, on_core, wf_mode, m_size in *. cbn [core fac].
  destruct (core m) as [a s b g|s r g] eqn:Ec.
  - cbn [cp_first]. destruct (fac m) as [[[di s'] U]|]; cbn [rl rr sl c_rl c_rr] in *;
      apply sumn_ext; intros p _; apply sumn_ext; intros q Hq; rewrite HX by assumption; reflexivity.
  - cbn [cp_first c_rr] in *. destruct (fac m) as [[[di s'] U]|]; cbn [rl rr sl c_rl c_rr c_sl].
    + rewrite sumn_1 by assumption. rewrite sumn_exch by assumption.
      apply sumn_ext. intros q Hq.
      rewrite (sumn_ext r _ (fun p => delta q p * (sumn s' (fun j => U i j * g j q) * X' q))).
      * rewrite sumn_delta by assumption. rewrite HX by assumption. reflexivity.
      * intros p Hp. unfold delta. rewrite (Nat.eqb_sym p q). destruct (Nat.eqb_spec q p).
        -- subst. ring.
        -- rewrite (sumn_zero_ext Kth s'); [ring|]. intros; ring.
    + rewrite sumn_1 by assumption. rewrite sumn_exch by assumption.
      apply sumn_ext. intros q Hq.
      rewrite (sumn_ext r _ (fun p => delta q p * (g i q * X' q))).
      * rewrite sumn_delta by assumption. rewrite HX by assumption. reflexivity.
      * intros p Hp. unfold delta. rewrite (Nat.eqb_sym p q). destruct (Nat.eqb_spec q p); [subst|]; ring.
Qed.

Lemma cp_single_eq (m : mode K) i : wf_mode m = true -> (i < m_size m)%nat ->
  sumn (rl (sem_mode (on_core cp_single m))) (fun p =>
    sumn (rr (sem_mode (on_core cp_single m))) (fun q => sl (sem_mode (on_core cp_single m)) i p q * ones q)) =
  sumn (rl (sem_mode m)) (fun p => sumn (rr (sem_mode m)) (fun q => sl (sem_mode m) i p q * ones q)).
Proof.
  intros Hwf Hi. unfold sem_mode, on_core, wf_mode, m_size in *. cbn [core fac].
  destruct (core m) as [a s b g|s r g] eqn:Ec.
  - cbn [cp_single]. destruct (fac m) as [[[di s'] U]|]; reflexivity.
  - cbn [cp_single c_rr] in *. destruct (fac m) as [[[di s'] U]|]; cbn [rl rr sl c_rl c_rr c_sl].
    + rewrite !sumn_1 by assumption. unfold ones.
      transitivity (sumn r (fun p => sumn s' (fun j => U i j * g j p))).
      * rewrite sumn_exch by assumption. rewrite <- (sumn_mul_r Kth s' 1). apply sumn_ext. intros j _.
        rewrite <- sumn_mul_l by assumption. ring.
      * apply sumn_ext. intros p Hp.
        rewrite (sumn_ext r _ (fun q => delta p q * (sumn s' (fun j => U i j * g j p) * 1))).
        -- rewrite sumn_delta by assumption. ring.
        -- intros q Hq. unfold delta. destruct (Nat.eqb_spec p q).
           ++ ring.
           ++ rewrite (sumn_zero_ext Kth s'); [ring|]. intros; ring.
    + rewrite !sumn_1 by assumption. unfold ones.
      transitivity (sumn r (fun p => g i p)); [ring|].
      apply sumn_ext. intros p Hp.
      rewrite (sumn_ext r _ (fun q => delta p q * (g i p * 1))).
      * rewrite sumn_delta by assumption. ring.
      * intros q Hq. unfold delta. destruct (Nat.eqb_spec p q); ring.
Qed.

Theorem cp_to_tt_sound (t : tensor K) idx : wf_tensor t = true ->
  in_range (shape t) idx = true -> den (cp_to_tt t) idx = den t idx.
Proof.
  intros Hwf Hr. assert (Hm := wf_tensor_modes t Hwf). assert (Hc := wf_tensor_chain t Hwf).
  destruct t as [|m t]; [discriminate|]. destruct idx as [|i idx]; [discriminate|].
  cbn [shape map in_range] in Hr. apply andb_true_iff in Hr. destruct Hr as [Hi Hr].
  apply Nat.ltb_lt in Hi.
  cbn [sem map chain] in Hc. apply andb_true_iff in Hc. destruct Hc as [_ Hc].
  destruct (wf_sem_dims m) as (D1 & D2 & D3).
  unfold den, eval. destruct t as [|m2 t].
  - destruct idx; [|discriminate]. cbn [cp_to_tt sem map evalv].
    apply cp_single_eq; auto. apply Hm; left; auto.
  - change (cp_to_tt (m :: m2 :: t)) with (on_core cp_first m :: cp_to_tt_tail (m2 :: t)).
    cbn [sem map evalv].
    apply cp_first_eq; auto; [apply Hm; left; auto|].
    intros q Hq. apply (cp_tail_sound (m2 :: t) (rr (sem_mode m))); auto; try discriminate; try lia.
    intros; apply Hm; right; auto.
Qed.

(* ---- tools.transpose ---- *)
Lemma Forall2_app_ {A B} (P : A -> B -> Prop) l1 l2 m1 m2 :
  Forall2 P l1 m1 -> Forall2 P l2 m2 -> Forall2 P (l1 ++ l2) (m1 ++ m2).
Proof. induction 1; simpl; auto. Qed.
Lemma Forall2_rev_ {A B} (P : A -> B -> Prop) l m : Forall2 P l m -> Forall2 P (rev l) (rev m).
Proof. induction 1; simpl; auto. apply Forall2_app_; auto. Qed.

Lemma transp_mode_eq (m : mode K) :
  score_eq (sem_mode (on_core transp_core m)) (transp (sem_mode m)).
Proof.
  unfold sem_mode, on_core. cbn [core fac].
  destruct (core m) as [a s b g|s r g]; cbn [transp_core];
    destruct (fac m) as [[[di s'] U]|]; repeat split; cbn [transp rl rr sl c_rl c_rr c_sl]; intros i p q.
  - apply sumn_ext. intros j _. rewrite Nat.eqb_sym. destruct (Nat.eqb_spec q p); [subst|]; reflexivity.
  - rewrite Nat.eqb_sym. destruct (Nat.eqb_spec q p); [subst|]; reflexivity.
Qed.

Theorem transpose_sound (t : tensor K) idx : wf_tensor t = true -> length idx = length t ->
  den (transpose t) (rev idx) = den t idx.
Proof.
  intros Hwf Hl. unfold den.
  assert (E: Forall2 score_eq (sem (transpose t)) (rev (map transp (sem t)))).
  { unfold transpose, sem. rewrite !map_rev, !map_map.
    apply Forall2_rev_. clear. induction t; cbn [map]; constructor; auto. apply transp_mode_eq. }
  rewrite (eval_score_eq K _ _ _ E).
  eapply L6_eval; eauto.
  - destruct t; [discriminate|]. discriminate.
  - apply wf_tensor_chain; auto.
  - unfold sem. rewrite map_length. exact Hl.
Qed.

(* ---- decompress keeps well-formedness and shape; tt() ---- *)
Lemma decompress_dims (m : mode K) : wf_mode m = true ->
  c_rl (core (decompress_mode m)) = c_rl (core m) /\ c_rr (core (decompress_mode m)) = c_rr (core m) /\
  m_size (decompress_mode m) = m_size m /\ wf_mode (decompress_mode m) = true.
Proof.
  intros Hwf. unfold decompress_mode, absorb, m_size, wf_mode in *. cbn [core fac].
  destruct (fac m) as [[[di s'] U]|]; [|auto].
  destruct (core m); cbn; auto.
Qed.

Lemma decompress_wf (t : tensor K) : wf_tensor t = true ->
  wf_tensor (decompress t) = true /\ shape (decompress t) = shape t.
Proof.
  intros Hwf. assert (Hm := wf_tensor_modes t Hwf).
  unfold wf_tensor in *. destruct t as [|m t]; [discriminate|].
  apply andb_true_iff in Hwf. destruct Hwf as [_ Hc].
  assert (G: forall (l : tensor K) r, (forall x, In x l -> wf_mode x = true) ->
     chain r (sem l) = true ->
     forallb wf_mode (decompress l) = true /\ chain r (sem (decompress l)) = true /\
     shape (decompress l) = shape l).
  { induction l as [|x l IH]; intros r Hx Hcl; [auto|].
    destruct (decompress_dims x (Hx x (or_introl eq_refl))) as (A & B & C & D).
    destruct (wf_sem_dims x) as (X1 & X2 & _). destruct (wf_sem_dims (decompress_mode x)) as (Y1 & Y2 & _).
    cbn [decompress map sem chain forallb shape] in *.
    apply andb_true_iff in Hcl. destruct Hcl as [H1 H2].
    destruct (IH (rr (sem_mode x)) (fun y Hy => Hx y (or_intror Hy)) H2) as (I1 & I2 & I3).
    rewrite D, Y1, Y2, A, B, <- X1, <- X2, H1. cbn [andb].
    split; [exact I1|]. split.
    - unfold sem, decompress in I2. exact I2.
    - unfold shape, decompress in I3. rewrite C. f_equal. exact I3. }
  destruct (G (m :: t) (c_rl (core m)) Hm Hc) as (G1 & G2 & G3).
  split; auto. cbn [decompress map]. apply andb_true_iff. split; [exact G1|].
  destruct (decompress_dims m (Hm m (or_introl eq_refl))) as (A & _). rewrite A. exact G2.
Qed.

Theorem tt_sound (t : tensor K) idx : wf_tensor t = true ->
  in_range (shape t) idx = true -> den (tt t) idx = den t idx.
Proof.
  intros Hwf Hr. destruct (decompress_wf t Hwf) as [W S]. unfold tt.
  rewrite cp_to_tt_sound; auto; [|rewrite S; auto]. apply decompress_sound; auto.
Qed.

End ConvertP.
