(* Lemma kit for the maxvol proofs: list updates, tabulated matrices, NumPy's first-maximum argmax. *)
From TN Require Export Model.Maxvol.
From Coq Require Import ZArith Lia.

Lemma nth_upd {A} (l : list A) : forall k q x d,
  nth q (upd k l x) d = if (q =? k)%nat && (k <? length l)%nat then x else nth q l d.
Proof.
  induction l as [|h t IH]; intros k q x d.
  - destruct k; cbn [upd length]; destruct q; cbn; rewrite ?andb_false_r; reflexivity.
  - destruct k as [|k]; destruct q as [|q]; cbn [upd nth length]; try reflexivity.
    rewrite IH. change (S q =? S k)%nat with (q =? k)%nat. change (S k <? S (length t))%nat with (k <? length t)%nat.
    reflexivity.
Qed.

Lemma nth_upd_same {A} (l : list A) k x d : (k < length l)%nat -> nth k (upd k l x) d = x.
Proof. intros H. rewrite nth_upd, Nat.eqb_refl. apply Nat.ltb_lt in H. rewrite H. reflexivity. Qed.

Lemma nth_upd_other {A} (l : list A) k q x d : q <> k -> nth q (upd k l x) d = nth q l d.
Proof. intros H. rewrite nth_upd. apply Nat.eqb_neq in H. rewrite H. reflexivity. Qed.

Lemma nth_map_seq0 {A} (f : nat -> A) (d : A) : forall m q, (q < m)%nat -> nth q (map f (seq 0 m)) d = f q.
Proof.
  intros m q H. rewrite (nth_indep _ d (f O)) by (rewrite map_length, seq_length; exact H).
  rewrite (map_nth f (seq 0 m) O q). rewrite seq_nth by exact H. reflexivity.
Qed.

Lemma nth_firstn_lt {A} (l : list A) d : forall k q, (q < k)%nat -> nth q (firstn k l) d = nth q l d.
Proof. induction l as [|h t IH]; intros k q H; destruct k, q; cbn; try lia; auto. apply IH. lia. Qed.

Section Kit.
Variable K : Ops.
Local Open Scope K_scope.

Lemma mget_mtab n m (f : nat -> nat -> K) i j : (i < n)%nat -> (j < m)%nat -> mget (mtab n m f) i j = f i j.
Proof.
  intros Hi Hj. unfold mget, mtab.
  rewrite (nth_map_seq0 (fun i => map (fun j => f i j) (seq 0 m)) [] n i Hi).
  apply nth_map_seq0. exact Hj.
Qed.

Lemma mtab_length n m (f : nat -> nat -> K) : length (mtab n m f) = n.
Proof. unfold mtab. rewrite map_length, seq_length. reflexivity. Qed.

Lemma delta_sym a b : delta (K:=K) a b = delta b a.
Proof. unfold delta. rewrite Nat.eqb_sym. reflexivity. Qed.
Lemma delta_same a : delta (K:=K) a a = 1.
Proof. unfold delta. rewrite Nat.eqb_refl. reflexivity. Qed.
Lemma delta_diff a b : a <> b -> delta (K:=K) a b = 0.
Proof. intros H. unfold delta. apply Nat.eqb_neq in H. rewrite H. reflexivity. Qed.

(* ---- argmax: NumPy's rule (first maximum) for a decidable total preorder *)
Variable leb : K -> K -> bool.
Hypothesis leb_total : forall x y, leb x y = false -> leb y x = true.
Hypothesis leb_trans : forall x y z, leb x y = true -> leb y z = true -> leb x z = true.

Lemma leb_refl x : leb x x = true.
Proof. destruct (leb x x) eqn:E; [reflexivity|]. rewrite (leb_total _ _ E) in E. discriminate. Qed.

Lemma amax_lt (f : nat -> K) n : (0 < n)%nat -> (amax K leb f n < n)%nat.
Proof.
  induction n as [|m IH]; intros H; [lia|]. cbn [amax].
  destruct (gtb K leb (f m) (f (amax K leb f m))); [lia|].
  destruct m; [cbn; lia|]. specialize (IH ltac:(lia)). lia.
Qed.

Lemma amax_max (f : nat -> K) n k : (k < n)%nat -> leb (f k) (f (amax K leb f n)) = true.
Proof.
  induction n as [|m IH]; intros H; [lia|]. cbn [amax]. unfold gtb.
  destruct (leb (f m) (f (amax K leb f m))) eqn:E; cbn [negb].
  - destruct (Nat.eq_dec k m) as [->|Hne]; [exact E|]. apply IH. lia.
  - destruct (Nat.eq_dec k m) as [->|Hne]; [apply leb_refl|].
    apply leb_trans with (f (amax K leb f m)); [apply IH; lia|]. apply leb_total. exact E.
Qed.

(* it is the FIRST maximum: every earlier entry is strictly smaller *)
Lemma amax_first (f : nat -> K) n k : (k < amax K leb f n)%nat -> gtb K leb (f (amax K leb f n)) (f k) = true.
Proof.
  induction n as [|m IH]; cbn [amax]; [lia|]. unfold gtb in *.
  destruct (leb (f m) (f (amax K leb f m))) eqn:E; cbn [negb]; intros H.
  - apply IH. exact H.
  - destruct (leb (f m) (f k)) eqn:E2; [|reflexivity].
    assert (Hk : (k < m)%nat) by lia.
    rewrite (leb_trans _ _ _ E2 (amax_max f m k Hk)) in E. discriminate.
Qed.

End Kit.
