(* The kernel models over the reals satisfy the hypotheses of GenP: the generated formulas are
   thereby theorems about (model kernels o generated compositions). *)
From TN Require Import Alg.InstR Proofs.ArithP Proofs.DotP Proofs.GenP Gen.Generated.

Section GenInst.
Variable sh : list nat.
Hypothesis sh_ne : sh <> [].
Notation net := (list (score RO)).
Open Scope R_scope.

Definition okR (cs : net) : Prop := good RO cs /\ sshape cs = sh.
Definition r_add (a b : net) : net := match add_net (K:=RO) a b with Some c => c | None => a end.
Definition r_mul (a b : net) : net := match mul_net (K:=RO) a b with Some c => c | None => a end.
Definition r_smul (c : R) (a : net) : net := smul_net (first_scaled (K:=RO) c (length a)) a.
Definition r_sadd (c : R) (a : net) : net := match sadd_net (K:=RO) c a with Some x => x | None => a end.
Definition r_dot (a b : net) : R := dot_net (K:=RO) a b.

Lemma clip_id idx : in_range sh idx = true -> clip sh idx = idx.
Proof. apply clip_in_range. Qed.

Lemma bshape_sh : bshape sh sh = Some sh.
Proof. apply bshape_same. Qed.

Lemma okR_add a b : okR a -> okR b ->
  okR (r_add a b) /\ forall i, in_range sh i = true -> eval (r_add a b) i = eval a i + eval b i.
Proof.
  intros [Ga Sa] [Gb Sb]. unfold r_add.
  destruct (bcast_defined RO a b sh) as (a' & b' & E); [rewrite Sa, Sb; apply bshape_sh|].
  assert (H: add_net a b = Some (zipbd a' b')) by (unfold add_net; rewrite E; reflexivity).
  rewrite H.
  destruct (add_net_sound RO RO_laws a b _ Ga Gb H) as (G & S & Ev).
  rewrite Sa, Sb, bshape_sh in S. injection S as S. split; [split; auto|].
  intros i Hi. rewrite Ev.
  - rewrite Sa, Sb, clip_id by assumption. reflexivity.
  - apply in_range_length in Hi. rewrite Hi, S. apply sshape_length.
Qed.

Lemma okR_mul a b : okR a -> okR b ->
  okR (r_mul a b) /\ forall i, in_range sh i = true -> eval (r_mul a b) i = eval a i * eval b i.
Proof.
  intros [Ga Sa] [Gb Sb]. unfold r_mul.
  destruct (bcast_defined RO a b sh) as (a' & b' & E); [rewrite Sa, Sb; apply bshape_sh|].
  assert (H: mul_net a b = Some (zipkr a' b')) by (unfold mul_net; rewrite E; reflexivity).
  rewrite H.
  destruct (mul_net_sound RO RO_laws a b _ Ga Gb H) as (G & S & Ev).
  rewrite Sa, Sb, bshape_sh in S. injection S as S. split; [split; auto|].
  intros i Hi. rewrite Ev.
  - rewrite Sa, Sb, clip_id by assumption. reflexivity.
  - apply in_range_length in Hi. rewrite Hi, S. apply sshape_length.
Qed.

Lemma okR_smul c a : okR a ->
  okR (r_smul c a) /\ forall i, in_range sh i = true -> eval (r_smul c a) i = c * eval a i.
Proof.
  intros [Ga Sa]. unfold r_smul.
  destruct (first_scaled_spec RO RO_laws c (length a) (good_len RO a Ga)) as [L P].
  destruct (smul_net_sound RO RO_laws _ a Ga L) as (G & S & Ev). rewrite P in Ev.
  split; [split; [auto|congruence]|]. intros i Hi. apply Ev.
  apply in_range_length in Hi. rewrite Hi, <- Sa. apply sshape_length.
Qed.

Lemma okR_sadd c a : okR a ->
  okR (r_sadd c a) /\ forall i, in_range sh i = true -> eval (r_sadd c a) i = eval a i + c.
Proof.
  intros [Ga Sa]. unfold r_sadd.
  destruct (const_net_sound RO RO_laws c (sshape a) (sshape_ne RO a (proj1 Ga))) as (Gc & Sc & _).
  destruct (bcast_defined RO a (const_net (K:=RO) c (sshape a)) (sshape a)) as (a' & b' & E);
    [rewrite Sc; apply bshape_same|].
  assert (H: sadd_net (K:=RO) c a = Some (zipbd a' b')) by (unfold sadd_net, add_net; rewrite E; reflexivity).
  rewrite H. destruct (sadd_net_sound RO RO_laws c a _ Ga H) as (G & S & Ev).
  split; [split; [auto|congruence]|]. intros i Hi. apply Ev. rewrite Sa. exact Hi.
Qed.

Lemma same_shape_of_sshape (a : net) : forall b, sshape a = sshape b -> same_shape a b = true.
Proof. induction a as [|x a IH]; intros [|y b] H; simpl in *; try discriminate; auto.
  injection H as H1 H2. rewrite H1, Nat.eqb_refl. simpl. auto. Qed.

Lemma okR_dot a b : okR a -> okR b -> r_dot a b = sumR sh (fun i => eval a i * eval b i).
Proof.
  intros [[Na Ca] Sa] [[Nb Cb] Sb]. unfold r_dot.
  rewrite (dot_net_sound RO RO_laws a b); auto.
  - rewrite Sa. reflexivity.
  - destruct a; [congruence|]. exact Ca.
  - destruct b; [congruence|]. exact Cb.
  - apply same_shape_of_sshape. congruence.
Qed.

End GenInst.
