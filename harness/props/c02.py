"""C02: compressed arithmetic equals element-wise arithmetic on the dense arrays."""
from lib import *
from fractions import Fraction


def scal(c, kind):
    v = float(c) if Fraction(c).denominator != 1 or kind in ("float", "np64", "np32", "torch0d") else int(c)
    if kind == "int":
        return int(c) if Fraction(c).denominator == 1 else float(c)
    if kind == "float":
        return float(c)
    if kind == "np64":
        return np.float64(float(c))
    if kind == "np32":
        return np.float32(float(c))          # only used with scalars that float32 represents exactly
    if kind == "npint":
        return np.int64(int(c)) if Fraction(c).denominator == 1 else np.float64(float(c))
    if kind == "torch0d":
        return torch.tensor(float(c), dtype=torch.float64)
    return v


def ev_impl(e, env):
    op = e[0]
    if op == "leaf":
        return env[e[1]]
    if op in ("add", "sub", "mul"):
        a, b = ev_impl(e[1], env), ev_impl(e[2], env)
        return a + b if op == "add" else (a - b if op == "sub" else a * b)
    if op == "neg":
        return -ev_impl(e[1], env)
    c = Fraction(e[1][0], e[1][1]); side = e[2]; kind = e[3]; a = ev_impl(e[4], env)
    s = scal(c, kind)
    if op == "smul":
        return s * a if side == "L" else a * s
    if op == "sadd":
        return s + a if side == "L" else a + s
    if op == "rsub":      # c - a
        return s - a
    if op == "subs":      # a - c
        return a - s
    if op == "div":       # a / c
        return a / s
    raise ValueError(op)


def bshape(s1, s2):
    if len(s1) != len(s2):
        raise ValueError("dims")
    out = []
    for a, b in zip(s1, s2):
        if a == b or b == 1:
            out.append(a)
        elif a == 1:
            out.append(b)
        else:
            raise ValueError("shape")
    return out


def ev_dense(e, env):
    op = e[0]
    if op == "leaf":
        return env[e[1]]
    if op in ("add", "sub", "mul"):
        a, b = ev_dense(e[1], env), ev_dense(e[2], env)
        bshape(a.shape, b.shape)
        return a + b if op == "add" else (a - b if op == "sub" else a * b)
    if op == "neg":
        return -ev_dense(e[1], env)
    c = float(Fraction(e[1][0], e[1][1])); a = ev_dense(e[4], env)
    return {"smul": lambda: c * a, "sadd": lambda: c + a, "rsub": lambda: c - a,
            "subs": lambda: a - c, "div": lambda: a / c}[op]()


def coq_expr(e, pre, lit):
    op = e[0]
    if op == "leaf":
        return "(%sLeaf %d)" % (pre, e[1])
    if op in ("add", "sub", "mul"):
        return "(%s%s %s %s)" % (pre, op.capitalize(), coq_expr(e[1], pre, lit), coq_expr(e[2], pre, lit))
    if op == "neg":
        return "(%sNeg %s)" % (pre, coq_expr(e[1], pre, lit))
    c = Fraction(e[1][0], e[1][1]); sub = coq_expr(e[4], pre, lit)
    if op == "smul":
        return "(%sSmul %s %s)" % (pre, lit(c), sub)
    if op == "sadd":
        return "(%sSadd %s %s)" % (pre, lit(c), sub)
    if op == "rsub":
        return "(%sRsub %s %s)" % (pre, lit(c), sub)
    if op == "subs":
        return "(%sSadd %s %s)" % (pre, lit(-c), sub)
    if op == "div":
        return "(%sSmul %s %s)" % (pre, lit(1 / c), sub)


def is_integral(e):
    if e[0] == "leaf":
        return True
    if e[0] in ("add", "sub", "mul"):
        return is_integral(e[1]) and is_integral(e[2])
    if e[0] == "neg":
        return is_integral(e[1])
    c = Fraction(e[1][0], e[1][1])
    if e[0] == "div":
        return c in (1, -1) and is_integral(e[4])
    return c.denominator == 1 and is_integral(e[4])


def depth(e):
    return 0 if e[0] == "leaf" else 1 + max(depth(x) for x in e[1:] if isinstance(x, list) and x and isinstance(x[0], str))


SCALARS = [(0, 1), (1, 1), (-1, 1), (2, 1), (-3, 1), (1, 2), (-1, 4), (8, 1), (5, 1), (1, 10), (1, 3)]
SKINDS = ["int", "float", "np64", "npint", "torch0d", "np32"]


class Prop:
    ID = "C02"
    COQ_HEADER = "From TN Require Import Harness.H_C02.\nFrom Coq Require Import QArith.\nOpen Scope Z_scope.\n"
    CHECK_FN = "check_any"
    RULE = ("enumerated format lattice ({TT,CP}x{U,no U} per mode) on both operands for N=1,2, seeded for N=3,4; "
            "broadcast patterns; scalars {0,1,-1,2,-3,1/2,-1/4,8,5,1/10,1/3} of 5 Python/NumPy/torch kinds on either side; "
            "expression trees of depth<=3; both default dtypes. A case is non-trivial when the result is not an error "
            "and not all-zero; distinct = distinct (formats of leaves, tree shape, scalar kind/side, default dtype).")
    TRUSTED = ["correspondence runner harness/props/c02.py + Harness/H_C02.v (dense comparison, exact over Z, 1e-9 over Q)",
               "kernel models Model/Arith.v are hand-written (format dispatch abstracted by sem_mode)",
               "PyTorch/NumPy float64 arithmetic is exact on the small-integer inputs used"]
    ASSUMPTIONS = ["floating-point rounding is not modelled (theorems are over any commutative ring)",
                   "the model is tied to /repo by differential execution on the generated cases only"]
    THEOREMS = ["C02_add", "C02_mul", "C02_defined", "C02_scalar_mul", "C02_scalar_add", "C02_expr", "C02_root_scaling"]

    def generate(self, rng, tier):
        quick = tier == "quick"
        cases = []

        def mk(env, expr, dd="float64", **tags):
            tags.update(formats="|".join(tsig(t) for t in env), depth=depth(expr), default_dtype=dd,
                        N=len(env[0]["modes"]))
            cases.append({"env": env, "expr": expr, "default_dtype": dd, "tags": tags})

        ops = ["add", "mul", "sub"]
        k = 0
        # enumerated lattice, both operands
        for N in (1, 2):
            for ka in itertools.product(KINDS, repeat=N):
                for kb in itertools.product(KINDS, repeat=N):
                    if quick and N == 2 and rng.random() > 0.35:
                        continue
                    shape = [rng.choice([1, 2, 3]) for _ in range(N)]
                    a = rand_tensor_json(rng, shape, list(ka), maxr=3)
                    b = rand_tensor_json(rng, shape, list(kb), maxr=3)
                    mk([a, b], [ops[k % 3], ["leaf", 0], ["leaf", 1]], op=ops[k % 3], kind="pair"); k += 1
        for N in (3, 4):
            for _ in range(60 if quick else 600):
                shape = [rng.choice([1, 2, 3]) for _ in range(N)]
                a = rand_tensor_json(rng, shape, maxr=3 if N == 3 else 2)
                b = rand_tensor_json(rng, shape, maxr=3 if N == 3 else 2)
                mk([a, b], [ops[k % 3], ["leaf", 0], ["leaf", 1]], op=ops[k % 3], kind="pair"); k += 1
        # broadcasting of size-1 modes, on either side, with factors on the broadcast mode
        for _ in range(80 if quick else 600):
            N = rng.randint(1, 4)
            full = [rng.choice([2, 3]) for _ in range(N)]
            sa = [1 if rng.random() < 0.4 else d for d in full]
            sb = [1 if rng.random() < 0.4 else d for d in full]
            a = rand_tensor_json(rng, sa, maxr=2); b = rand_tensor_json(rng, sb, maxr=2)
            mk([a, b], [ops[k % 3], ["leaf", 0], ["leaf", 1]], op=ops[k % 3], kind="broadcast"); k += 1
        # shapes that NumPy refuses to broadcast (sizes differ and neither is 1; multiples included): must be rejected
        for _ in range(40 if quick else 300):
            N = rng.randint(1, 3)
            sa = [rng.choice([1, 2, 3]) for _ in range(N)]; sb = list(sa)
            d = rng.randrange(N)
            sa[d], sb[d] = rng.choice([(2, 4), (4, 2), (3, 6), (2, 3), (3, 2), (2, 6)])
            a = rand_tensor_json(rng, sa, maxr=2); b = rand_tensor_json(rng, sb, maxr=2)
            mk([a, b], [ops[k % 3], ["leaf", 0], ["leaf", 1]], op=ops[k % 3], kind="incompatible"); k += 1
        # rank-deficient / zero operands
        for _ in range(10 if quick else 60):
            N = rng.randint(1, 3); shape = [rng.choice([1, 2, 3]) for _ in range(N)]
            a = rand_tensor_json(rng, shape, maxr=3, zero=True); b = rand_tensor_json(rng, shape, maxr=3)
            mk([a, b], [ops[k % 3], ["leaf", 0], ["leaf", 1]], op=ops[k % 3], kind="zero"); k += 1
        # scalars
        sops = ["smul", "sadd", "rsub", "subs", "div"]
        for c in SCALARS:
            for kind in SKINDS:
                for side in "LR":
                    for op in sops:
                        if op == "div" and c[0] == 0:
                            continue
                        if op in ("rsub", "subs", "div") and side == "L":
                            continue      # these forms fix the side themselves
                        if kind == "np32" and c[1] not in (1, 2, 4):
                            continue      # float32(1/10) is a different number: only exactly representable scalars
                        N = 1 + k % 3; k += 1
                        shape = [rng.choice([1, 2, 3]) for _ in range(N)]
                        a = rand_tensor_json(rng, shape, maxr=2)
                        mk([a], [op, list(c), side, kind, ["leaf", 0]], op=op, kind="scalar", skind=kind, side=side,
                           scalar="%d/%d" % c)
        mk([rand_tensor_json(rng, [2, 2], maxr=2)], ["neg", ["leaf", 0]], op="neg", kind="scalar")
        # expression trees
        def tree(d, nleaf):
            if d == 0 or rng.random() < 0.2:
                return ["leaf", rng.randrange(nleaf)]
            r = rng.random()
            if r < 0.55:
                return [rng.choice(ops), tree(d - 1, nleaf), tree(d - 1, nleaf)]
            if r < 0.65:
                return ["neg", tree(d - 1, nleaf)]
            c = rng.choice(SCALARS[1:6]); op = rng.choice(sops)
            return [op, list(c), rng.choice("LR"), rng.choice(SKINDS), tree(d - 1, nleaf)]
        for _ in range(50 if quick else 500):
            N = rng.randint(1, 3); shape = [rng.choice([1, 2]) for _ in range(N)]
            env = [rand_tensor_json(rng, shape, maxr=2, lo=-1, hi=2) for _ in range(3)]
            mk(env, tree(3, 3), kind="tree")
        # default dtype float32 with float64 data: values need > 24 mantissa bits
        sub = [c for c in cases if c["tags"]["kind"] in ("pair", "broadcast", "scalar")]
        for c in rng.sample(sub, min(len(sub), 120 if quick else 800)):
            c2 = json.loads(json.dumps(c)); c2["default_dtype"] = "float32"; c2["tags"]["default_dtype"] = "float32"
            c2["big"] = True
            cases.append(c2)
        return cases

    BIG = 16777217  # 2^24+1: not representable in float32

    def _env(self, case):
        env = [json.loads(json.dumps(t)) for t in case["env"]]
        if case.get("big"):
            for t in env:   # put one large entry in the first core so that a float32 round trip is visible
                c = t["modes"][0]["core"]
                x = c
                while isinstance(x[0], list):
                    x = x[0]
                x[0] = self.BIG if x[0] != 0 else 0
        return env

    def run(self, case):
        old = torch.get_default_dtype()
        try:
            torch.set_default_dtype(torch.float32 if case["default_dtype"] == "float32" else torch.float64)
            env = [to_tn(t) for t in self._env(case)]
            r = ev_impl(case["expr"], env)
            d = r.torch()
            return {"ok": True, "shape": list(d.shape), "dense": d.detach().double().reshape(-1).tolist(),
                    "dtype": str(d.dtype).replace("torch.", "")}
        except Exception as e:
            return {"ok": False, "err": type(e).__name__, "msg": str(e)[:200]}
        finally:
            torch.set_default_dtype(old)

    def expected(self, case):
        try:
            env = [dense_np(t) for t in self._env(case)]
            d = ev_dense(case["expr"], env)
            return {"ok": True, "shape": list(d.shape), "dense": d.reshape(-1).tolist(), "dtype": "float64"}
        except ValueError as e:
            return {"ok": False, "err": "ValueError"}

    def agree(self, case, res, exp):
        if not exp["ok"]:
            return (not res["ok"], "expected an error, got a tensor")
        if not res["ok"]:
            return False, "implementation raised %s: %s" % (res.get("err"), res.get("msg"))
        if res["shape"] != exp["shape"]:
            return False, "shape %s, expected %s" % (res["shape"], exp["shape"])
        if res["dtype"] != "float64":
            return False, "result dtype %s for float64 operands" % res["dtype"]
        a = np.array(res["dense"]); b = np.array(exp["dense"])
        if not close(a, b, 1e-9):
            return False, "values differ (max abs difference %s)" % (np.max(np.abs(a - b)) if a.size else 0)
        return True, ""

    def nontrivial(self, case, res):
        return res.get("ok") and any(abs(x) > 0 for x in res["dense"])

    def signature(self, case):
        t = case["tags"]
        return "%s;%s;%s;%s;%s;%s" % (t["formats"], json.dumps(case["expr"])[:200], t.get("skind"), t.get("side"),
                                     t["default_dtype"], tshape(case["env"][0]))

    def coq_term(self, case, res):
        if case.get("big"):
            return None          # dtype cases are implementation-vs-specification only
        if not res["ok"]:
            return None
        if is_integral(case["expr"]):
            dense = canon_dense(res["dense"])
            if dense is None:
                dense = [10 ** 9]     # cannot be an integer result: force a disagreement
            return "cZ (mkZ %s %s true %s %s)" % (
                "[" + "; ".join(coq_tensor(t) for t in case["env"]) + "]", coq_expr(case["expr"], "z", zlit),
                coq_natlist(res["shape"]), coq_list(dense))
        lit = lambda x: qlit(Fraction(x))
        qd = lambda x: "(%d#%d)" % (round(x * 2 ** 40), 2 ** 40)
        return "cQ (mkQ %s %s true %s %s)" % (
            "[" + "; ".join(coq_tensor(t, lit, "Q") for t in case["env"]) + "]", coq_expr(case["expr"], "q", lit),
            coq_natlist(res["shape"]), coq_list(res["dense"], qd, "Q"))

    def shrink(self, case, fails):
        return case
