From TN Require Export Harness.HBase.
From TN Require Export Model.RoundReplay.
From Coq Require Import QArith Qabs.
(* tn.truncated_svd(M, delta|eps, rmax, left_ortho, algorithm='svd') with torch.linalg.svd replayed *)
Record case := mkCase { c_M : arr2; c_d2 : Q; c_rmax : nat; c_lo : bool; c_svd : svd_answer; c_left : arr2; c_right : arr2 }.
Definition check (c : case) : bool :=
  let '(l, r) := tsvd (c_M c) (c_d2 c) (c_rmax c) (c_lo c) (c_svd c) in
  arr2_close l (c_left c) && arr2_close r (c_right c).
