From TN Require Export Harness.HBase Sem.Fast Model.Arith Model.Dot.
(* forward-mode derivatives: the models are run over the dual numbers D(Z); every parameter that requires
   grad carries an integer tangent (the direction), the tangent of the loss is the directional derivative
   sum_p <grad_p, dir_p>, compared exactly with torch.autograd. *)
Definition DZ : Ops := DO ZO.
Definition dTT := @lit_tt DZ. Definition dCP := @lit_cp DZ. Definition dU := @lit_U DZ. Definition dM := @mkMode DZ.
Definition dLeaf := @ELeaf DZ. Definition dAdd := @EAdd DZ. Definition dSub := @ESub DZ. Definition dMul := @EMul DZ.
Definition dNeg := @ENeg DZ. Definition dSmul (c : Z) := @ESmul DZ (c, 0%Z). Definition dSadd (c : Z) := @ESadd DZ (c, 0%Z).
Definition dRsub (c : Z) := @ERsub DZ (c, 0%Z).
Inductive loss := LSum (e : expr DZ) | LDot (e1 e2 : expr DZ) | LNormsq (e : expr DZ).
Record case := mkCase { c_env : list (tensor DZ); c_loss : loss; c_val : Z; c_dir : Z }.
Definition netD := list (score DZ).
Definition ev (env : list (tensor DZ)) (e : expr DZ) : option netD := interp (fun n => sem (nth n env [])) e.
Definition total (cs : netD) : car DZ := sums (K:=DZ) (dense_of (eval_l cs) (sshape cs)).
(* inner product of the two dense dual-valued arrays (the running-matrix model of metrics.dot is C06's) *)
Fixpoint zipmul (l1 l2 : list (car DZ)) : list (car DZ) :=
  match l1, l2 with x :: t1, y :: t2 => rmul DZ x y :: zipmul t1 t2 | _, _ => [] end.
Definition ddot (a b : netD) : car DZ :=
  sums (K:=DZ) (zipmul (dense_of (eval_l a) (sshape a)) (dense_of (eval_l b) (sshape a))).
Definition run (c : case) : option (car DZ) :=
  match c_loss c with
  | LSum e => obind (ev (c_env c) e) (fun cs => Some (total cs))
  | LDot e1 e2 => obind (ev (c_env c) e1) (fun a => obind (ev (c_env c) e2) (fun b => Some (ddot a b)))
  | LNormsq e => obind (ev (c_env c) e) (fun a => Some (ddot a a))
  end.
Definition check (c : case) : bool :=
  match run c with
  | Some (v, d) => Z.eqb v (c_val c) && Z.eqb d (c_dir c)
  | None => false
  end.
