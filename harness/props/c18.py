"""C18: batch tensors (tn.Tensor(..., batch=True)) behave as independent stacks of ordinary tensors.

Every case carries explicit batch cores (TT core: B x r x s x r', CP core: B x s x R, factor: B x I x s) with small
integer entries.  The specification is computed per batch element with NumPy on the decompressed element
(lib.dense_np) -- never with tntorch.
"""
from lib import *

INF = 10 ** 9


# --------------------------------------------------------------------------- batch tensors in explicit form

def rand_batch_json(rng, B, shape, kinds=None, maxr=3, lo=-2, hi=2, maxs=3, zero_elem=None, same_elems=False):
    """{'B':B,'modes':[{'kind','core': B x ..., 'U': B x I x s | None}]}; element b is an ordinary explicit tensor"""
    N = len(shape)
    if kinds is None:
        kinds = [rng.choice(KINDS) for _ in range(N)]
    r = make_ranks(rng, kinds, maxr)
    modes = []
    for n in range(N):
        S = shape[n]
        U = None
        if kinds[n][1]:
            S = rng.randint(1, maxs)
            U = [rint(rng, (shape[n], S), lo, hi) for _ in range(B)]
        if kinds[n][0] == "tt":
            core = [rint(rng, (r[n], S, r[n + 1]), lo, hi) for _ in range(B)]
        else:
            core = [rint(rng, (S, r[n]), lo, hi) for _ in range(B)]
        if same_elems:
            core = [core[0]] * B
            U = None if U is None else [U[0]] * B
        if zero_elem is not None and n == 0:
            core[zero_elem] = (np.array(core[zero_elem]) * 0).tolist()
        modes.append({"kind": kinds[n][0], "core": core, "U": U})
    return {"B": B, "modes": modes}


def elem(bj, b):
    return {"modes": [{"kind": m["kind"], "core": m["core"][b], "U": None if m["U"] is None else m["U"][b]}
                      for m in bj["modes"]]}


def dense_b(bj):
    return np.stack([dense_np(elem(bj, b)) for b in range(bj["B"])])


def to_tnb(bj):
    cores = [torch.tensor(m["core"], dtype=torch.float64) for m in bj["modes"]]
    Us = [None if m["U"] is None else torch.tensor(m["U"], dtype=torch.float64) for m in bj["modes"]]
    return tn.Tensor(cores, Us, batch=True)


def bshape(bj):
    return tshape(elem(bj, 0))


def fmt_class(bj):
    s = tsig(bj)
    hasT, hasC, hasU = "T" in s, "C" in s, "u" in s
    return ("TT" if hasT else "") + ("CP" if hasC else "") + ("-Tucker" if hasU else "")


NAMED = {"tt": lambda N: [("tt", False)] * N, "cp": lambda N: [("cp", False)] * N,
         "tt-tucker": lambda N: [("tt", True)] * N, "cp-tucker": lambda N: [("cp", True)] * N}


# --------------------------------------------------------------------------- dense oracles

def svd_trunc(M, r):
    """best rank-r approximation of M; returns (approx, numerical rank, tie) where tie tells that the cut falls
    inside a cluster of equal non-zero singular values (the truncation is then not unique)"""
    U, s, Vt = np.linalg.svd(M, full_matrices=False)
    s0 = s[0] if len(s) and s[0] > 0 else 1.0
    nrank = int(np.sum(s > 1e-9 * s0)) if len(s) and s[0] > 1e-12 else 0
    tie = False
    if r < len(s):
        tie = bool(s[r - 1] > 1e-9 * s0 and (s[r - 1] - s[r]) < 1e-5 * s0)
    r = min(r, len(s))
    return (U[:, :r] * s[:r]) @ Vt[:r], nrank, tie


def oracle_round_tt(Y, rmax):
    """sequential truncation of the unfoldings (I_0..I_{k-1}) x (I_k..I_{N-1}), k = N-1 .. 1 (TT-SVD sweep)"""
    N = Y.ndim
    ranks = {}; tie = False
    for k in range(N - 1, 0, -1):
        M = Y.reshape(int(np.prod(Y.shape[:k])), -1)
        r = rmax[k - 1] if rmax[k - 1] is not None else INF
        M2, nr, t = svd_trunc(M, r)
        ranks[k] = nr; tie = tie or t
        Y = M2.reshape(Y.shape)
    return Y, ranks, tie


def oracle_round_tucker(Y, rmax):
    """sequentially truncated HOSVD, modes N-1 .. 0"""
    N = Y.ndim
    tie = False
    for mu in range(N - 1, -1, -1):
        r = rmax[mu] if rmax[mu] is not None else INF
        Z = np.moveaxis(Y, mu, 0)
        M2, nr, t = svd_trunc(Z.reshape(Z.shape[0], -1), r)
        tie = tie or t
        Y = np.moveaxis(M2.reshape(Z.shape), 0, mu)
    return Y, tie


def aslist(r, n):
    return list(r) if isinstance(r, (list, tuple)) else [r] * n


# rank bookkeeping of the implementation's sweeps (shapes only): used to TAG cases in which the batched
# truncated SVD keeps a singular value that is exactly zero for some element (open finding C18-round-tt-null)

def sim_repr(bj):
    N = len(bj["modes"])
    r = [1] * (N + 1); s = []; I = []
    for n, m in enumerate(bj["modes"]):
        c = np.array(m["core"][0])
        if m["kind"] == "tt":
            r[n], r[n + 1] = max(r[n], c.shape[0]) if n else c.shape[0], c.shape[2]
            s.append(c.shape[1])
        else:
            s.append(c.shape[0])
            if n > 0:
                r[n] = c.shape[1]
            if n < N - 1:
                r[n + 1] = c.shape[1]
        I.append(len(m["U"][0]) if m["U"] is not None else s[-1])
    r[0] = 1; r[N] = 1
    hasU = [m["U"] is not None for m in bj["modes"]]
    return r, s, I, hasU


def sim_fullrank(shape):
    """ranks of _full_rank_tt"""
    N = len(shape); r = [1]
    rows, cols = shape[0], int(np.prod(shape[1:]))
    for n in range(1, N):
        r.append(min(rows, cols))
        rows, cols = r[-1] * shape[n], cols // shape[n]
    return r + [1]


def sim_round_tucker(r, s, I, hasU, rmax):
    N = len(s); r = list(r); s = list(s); hasU = list(hasU)
    for i in range(N - 1):
        if hasU[i]:
            s[i] = min(s[i], I[i])
        r[i + 1] = min(r[i] * s[i], r[i + 1])
    tall = False
    for mu in range(N - 1, -1, -1):
        q = min(r[mu] * r[mu + 1], s[mu])
        tall = tall or I[mu] > q         # the factor handed to truncated_svd has more rows than columns
        s[mu] = max(1, min(rmax[mu] if rmax[mu] is not None else INF, min(I[mu], q)))
        hasU[mu] = True
        if mu > 0:
            r[mu] = min(r[mu], s[mu] * r[mu + 1])
    return r, s, hasU, tall


def sim_round_tt_kept(r, s, I, hasU, rmax):
    N = len(s); r = list(r); s = list(s)
    for i in range(N):
        if hasU[i]:
            s[i] = min(s[i], I[i])
    for i in range(N - 1):
        r[i + 1] = min(r[i] * s[i], r[i + 1])
    kept = {}
    for mu in range(N - 1, 0, -1):
        L = min(r[mu], s[mu] * r[mu + 1])
        kept[mu] = max(1, min(rmax[mu - 1] if rmax[mu - 1] is not None else INF, L))
        r[mu] = kept[mu]
    return kept


# --------------------------------------------------------------------------- indexing oracle (torch rule, per element)

def pykey(key):
    out = []
    for k in key:
        if k == "none":
            out.append(None)
        elif k == "ellipsis":
            out.append(Ellipsis)
        elif "int" in k:
            out.append(k["int"])
        elif "slice" in k:
            out.append(slice(*k["slice"]))
        else:
            out.append(list(k["idx"]))
    return tuple(out)


class KeyError_(Exception):
    pass


def expand_key(key, ndim):
    """expand Ellipsis / missing entries; returns list of python entries with exactly ndim non-None entries"""
    if sum(1 for k in key if k is Ellipsis) > 1:
        raise KeyError_("two ellipses")
    real = sum(1 for k in key if k is not None and k is not Ellipsis)
    if real > ndim:
        raise KeyError_("too many entries")
    out = []
    for k in key:
        if k is Ellipsis:
            out += [slice(None)] * (ndim - real)
        else:
            out.append(k)
    if not any(k is Ellipsis for k in key):
        out += [slice(None)] * (ndim - real)
    return out


def dense_index(Y, key):
    """Y[key] under the rule of the C03 statement: ints remove the mode, slices (step>0) clip, None inserts a 1,
    one contiguous run of equal-length index arrays yields one dimension where the run stood. key is expanded."""
    ax = 0
    runs = []; cur = None
    for pos, k in enumerate(key):
        if isinstance(k, list):
            if cur is None:
                cur = [pos, ax, []]
                runs.append(cur)
            cur[2].append(k)
        else:
            cur = None
        if k is not None:
            size = Y.shape[ax]
            if isinstance(k, int) and not (-size <= k < size):
                raise KeyError_("integer out of range")
            if isinstance(k, list) and any(not (-size <= i < size) for i in k):
                raise KeyError_("index out of range")
            if isinstance(k, slice) and k.step is not None and k.step <= 0:
                raise KeyError_("slice step")
            ax += 1
    if len(runs) > 1:
        raise KeyError_("two runs of index arrays")
    if runs:
        pos, p, arrs = runs[0]
        if len(set(len(a) for a in arrs)) != 1:
            raise KeyError_("index arrays of different length")
        Y = Y[(slice(None),) * p + tuple(np.array(a, dtype=np.int64) for a in arrs)]
        key = key[:pos] + [slice(None)] + key[pos + len(arrs):]
    return Y[tuple(key)]


def batch_index(X, key):
    """the specification of X[key] for a stack X of B element tensors: selection along the batch mode, the rest of
    the key applied to each selected element.  Returns ('ok', array) | ('err',) | ('either', array|None)"""
    try:
        full = expand_key(list(key), X.ndim)
    except KeyError_:
        return ("err",)
    i0 = next(i for i, k in enumerate(full) if k is not None)
    bk = full[i0]; rest = full[i0 + 1:]
    lead_none = i0 > 0
    B = X.shape[0]
    try:
        if isinstance(bk, int):
            if not (-B <= bk < B):
                return ("err",)
            val = dense_index(X[bk], rest)
        else:
            if isinstance(bk, slice):
                if bk.step is not None and bk.step <= 0:
                    return ("err",)
                sel = list(range(B)[bk])
            else:
                if any(not (-B <= i < B) for i in bk):
                    return ("err",)
                sel = [i % B for i in bk]
            parts = [dense_index(X[b], rest) for b in sel]
            if not parts:                        # empty selection along the batch mode: refused, or an empty stack
                one = dense_index(X[0], rest)
                return ("either", np.zeros((0,) + one.shape))
            val = np.stack(parts)
    except KeyError_:
        return ("err",)
    if lead_none:                       # a new mode in front of the batch mode: the library refuses
        return ("either", val[(None,) * i0])
    if isinstance(bk, list) and any(isinstance(k, list) for k in rest):
        return ("either", None)         # index array on the batch mode zipped with others: refused / undefined here
    return ("ok", val)


# --------------------------------------------------------------------------- operations

SCAL = {"sadd": (lambda t, c: t + c, lambda a, c: a + c), "radd": (lambda t, c: c + t, lambda a, c: c + a),
        "smul": (lambda t, c: t * c, lambda a, c: a * c), "rmul": (lambda t, c: c * t, lambda a, c: c * a),
        "ssub": (lambda t, c: t - c, lambda a, c: a - c), "rsub": (lambda t, c: c - t, lambda a, c: c - a),
        "div": (lambda t, c: t / c, lambda a, c: a / c)}
BIN = {"add": lambda a, b: a + b, "sub": lambda a, b: a - b, "mul": lambda a, b: a * b}

# operations without batch support: must raise (clause 2)
UNSUPPORTED = {
    "sum": lambda t, u: tn.sum(t), "sum_dim": lambda t, u: tn.sum(t, dim=0), "mean": lambda t, u: tn.mean(t),
    "var": lambda t, u: tn.var(t), "std": lambda t, u: tn.std(t), "dot": lambda t, u: tn.dot(t, u),
    "norm": lambda t, u: tn.norm(t), "normsq": lambda t, u: tn.normsq(t), "dist": lambda t, u: tn.dist(t, u),
    "relative_error": lambda t, u: tn.relative_error(t, u), "rmse": lambda t, u: tn.rmse(t, u),
    "r_squared": lambda t, u: tn.r_squared(t, u), "eq": lambda t, u: t == u,
    "m_sum": lambda t, u: t.sum(), "m_dot": lambda t, u: t.dot(u), "m_norm": lambda t, u: t.norm(), "m_mean": lambda t, u: t.mean(),
    "anova": lambda t, u: tn.anova_decomposition(t), "gradient": lambda t, u: tn.gradient(t),
    "partial": lambda t, u: tn.partial(t, 0), "laplacian": lambda t, u: tn.laplacian(t),
    "accepted_inputs": lambda t, u: tn.accepted_inputs(t),
    "cross": lambda t, u: tn.cross(function=lambda x: x, tensors=[t], verbose=False),
    "truediv": lambda t, u: t / u, "pow": lambda t, u: t ** 2, "rtruediv": lambda t, u: 1 / t,
    "cumprod": lambda t, u: tn.cumprod(t, 0), "minimum": lambda t, u: tn.minimum(t),
    "sample": lambda t, u: tn.sample(t, 2), "hadamard_sum": lambda t, u: tn.hadamard_sum([t, u]),
    "optimize": lambda t, u: tn.optimize(t, lambda x: tn.normsq(x), verbose=False, max_iter=2),
    "transpose": lambda t, u: tn.transpose(t), "cat": lambda t, u: tn.cat([t, u], dim=1),
    "is_tautology": lambda t, u: tn.is_tautology(t), "is_contradiction": lambda t, u: tn.is_contradiction(t),
    "implies": lambda t, u: tn.implies(t, u), "equiv": lambda t, u: tn.equiv(t, u),
}

DOT_FAMILY = ("dot", "norm", "normsq", "dist", "relative_error", "rmse", "r_squared", "eq", "m_dot", "m_norm")

def _cp2tt(t):
    t = t.clone(); t._cp_to_tt()
    return t


def _factor_orth(t, mu):
    t = t.clone(); t.factor_orthogonalize(mu)
    return t


def _setitem(t, key, value):
    t = t.clone(); t[key] = value
    return t


def _np_setitem(a, key, value):
    a = a.copy(); a[key] = value
    return a


def _set_factors(t, name):
    t = t.clone(); t.set_factors(name)
    return t


def _apply_basis(a, name):
    for m in range(1, a.ndim):
        Bm = tn.generate_basis(name, (a.shape[m], a.shape[m])).double().numpy()
        a = np.moveaxis(np.tensordot(Bm, a, axes=(1, m)), 0, m)
    return a


# operations built on the supported ones: may raise, but if they return, every element must be right
EITHER = {
    "invert": (lambda t, u: ~t, lambda a, b: 1 - a), "and": (lambda t, u: t & u, lambda a, b: a * b),
    "or": (lambda t, u: t | u, lambda a, b: a + b - a * b), "xor": (lambda t, u: t ^ u, lambda a, b: a + b - 2 * a * b),
    "neg": (lambda t, u: -t, lambda a, b: -a), "pysum": (lambda t, u: sum([t, u]), lambda a, b: a + b),
    "clone": (lambda t, u: t.clone(), lambda a, b: a),
    "decompress_tucker_factors": (lambda t, u: t.decompress_tucker_factors(), lambda a, b: a),
    "tt": (lambda t, u: t.tt(), lambda a, b: a), "numpy": (lambda t, u: torch.tensor(t.numpy()), lambda a, b: a),
    "cumsum": (lambda t, u: tn.cumsum(t, 0), lambda a, b: np.cumsum(a, axis=1)),
    "cumsum_last": (lambda t, u: tn.cumsum(t, t.dim() - 1), lambda a, b: np.cumsum(a, axis=-1)),
    "flip": (lambda t, u: tn.flip(t, 0), lambda a, b: np.flip(a, axis=1)),
    "repeat1": (lambda t, u: t.repeat(*([1] * t.dim())), lambda a, b: a),
    "repeat2": (lambda t, u: t.repeat(*([2] + [1] * (t.dim() - 1))), lambda a, b: np.tile(a, [1, 2] + [1] * (a.ndim - 2))),
    "squeeze": (lambda t, u: tn.squeeze(t), lambda a, b: np.squeeze(a)),
    # the single-factor step called directly (the sweeps convert CP cores first and never reach its CP branch)
    "cp_to_tt_inplace": (lambda t, u: _cp2tt(t), lambda a, b: a),
    "factor_orthogonalize0": (lambda t, u: _factor_orth(t, 0), lambda a, b: a),
    "factor_orthogonalize_last": (lambda t, u: _factor_orth(t, t.dim() - 1), lambda a, b: a),
    # negative positions count over all axes, the batch axis included
    "unbind_neg": (lambda t, u: tn.unbind(t, -1)[0], lambda a, b: a[..., 0]),
    "unbind_neg_last": (lambda t, u: tn.unbind(t, -1)[-1], lambda a, b: a[..., -1]),
    "unsqueeze_neg": (lambda t, u: tn.unsqueeze(t, -1), lambda a, b: a[..., None]),
    # assignment with an integer on a non-batch mode and a dense value that lacks that mode
    "setitem_int": (lambda t, u: _setitem(t, (slice(None), 0), u.torch()[:, 0]), lambda a, b: _np_setitem(a, (slice(None), 0), b[:, 0])),
    "setitem_int_last": (lambda t, u: _setitem(t, (Ellipsis, -1), u.torch()[..., -1]), lambda a, b: _np_setitem(a, (Ellipsis, -1), b[..., -1])),
    "setitem_batch_int": (lambda t, u: _setitem(t, (0,), u.torch()[0]), lambda a, b: _np_setitem(a, (0,), b[0])),
    # set_factors on a tensor without Tucker factors: every mode gets the square basis as its factor, the cores stay
    "set_factors": (lambda t, u: _set_factors(t, "dct"), lambda a, b: _apply_basis(a, "dct")),
    "set_factors_legendre": (lambda t, u: _set_factors(t, "legendre"), lambda a, b: _apply_basis(a, "legendre")),
    "ttm": (lambda t, u: tn.ttm(t, torch.arange(t.shape[0] * 2 * t.shape[1], dtype=torch.float64).reshape(t.shape[0], 2, t.shape[1]) - 3, dim=0),
            lambda a, b: np.einsum("bji,bi...->bj...", np.arange(a.shape[0] * 2 * a.shape[1], dtype=np.float64).reshape(a.shape[0], 2, a.shape[1]) - 3, a)),
}


def rep_of(r):
    """explicit representation of an implementation result (cores and factors as nested lists, batch axis first);
    an ordinary tensor is reported as a batch of one"""
    modes = []
    for c, U in zip(r.cores, r.Us):
        c = c.detach().double(); U = None if U is None else U.detach().double()
        if not r.batch:
            c = c[None]; U = None if U is None else U[None]
        if c.dim() not in (3, 4) or (U is not None and U.dim() != 3):
            return None
        modes.append({"kind": "tt" if c.dim() == 4 else "cp", "core": c.tolist(), "U": None if U is None else U.tolist()})
    return {"B": len(modes[0]["core"]) if modes else 0, "modes": modes}


def payload(r):
    if isinstance(r, tn.Tensor):
        d = r.torch()
        out = {"ok": True, "kind": "batch" if r.batch else "tensor", "shape": list(d.shape),
               "dense": d.detach().double().reshape(-1).tolist()}
        if sum(c.numel() for c in r.cores) + sum(U.numel() for U in r.Us if U is not None) <= 1800:
            try:
                out["rep"] = rep_of(r)
            except Exception:
                pass
        return out
    if isinstance(r, torch.Tensor):
        return {"ok": True, "kind": "torch", "shape": list(r.shape), "dense": r.detach().double().reshape(-1).tolist()}
    if isinstance(r, (int, float, np.floating, np.integer)):
        return {"ok": True, "kind": "scalar", "shape": [], "dense": [float(r)]}
    return {"ok": True, "kind": type(r).__name__, "shape": None, "dense": []}


def ortho_dev(t, mu):
    """largest deviation from: cores left of mu left-orthogonal, right of mu right-orthogonal, factors != mu orthonormal"""
    dev = 0.0
    N = t.dim()
    for i in range(N):
        c = t.cores[i]
        if c.dim() != 4:
            return float("inf")
        if i < mu:
            M = c.reshape(c.shape[0], -1, c.shape[-1]); G = M.transpose(1, 2) @ M
        elif i > mu:
            M = c.reshape(c.shape[0], c.shape[1], -1); G = M @ M.transpose(1, 2)
        else:
            G = None
        if G is not None:
            dev = max(dev, float((G - torch.eye(G.shape[-1])[None]).abs().max()))
        if i != mu and t.Us[i] is not None:
            G = t.Us[i].transpose(1, 2) @ t.Us[i]
            dev = max(dev, float((G - torch.eye(G.shape[-1])[None]).abs().max()))
    return dev


class Prop:
    ID = "C18"
    LEVEL = "proof"
    COQ_HEADER = "From TN Require Import Harness.H_C18.\nFrom Coq Require Import QArith.\nOpen Scope Z_scope."
    CHECK_FN = "check_any"
    RULE = ("batch sizes 1..4, 2..4 further modes of sizes 1..3 (up to 5 for the factor-level product), explicit integer batch "
            "cores; enumerated format lattice ({TT,CP}x{U,no U} per mode) for N=2 on one and on both operands, named pure/hybrid "
            "formats and seeded mixes for N=3,4; ranks 1..3 (> size included), one all-zero element, identical elements; "
            "operations: torch(); construction from a dense stack (no limit / ranks_tt / ranks_tucker / both / ranks_cp=1 on "
            "rank-1 stacks / ranks_cp=2 on stacks of identical elements / eps; svd and eig); + - * on format pairs; 7 scalar forms "
            "with scalars 0,1,-1,2,-3,1/2 as int/float/np.float64/0-d torch; round_tt / round_tucker (no limit, rmax int/list, "
            "steered so that ~half truncate and ~80% keep no null singular value) / round; orthogonalize(mu, negative included), "
            "left/right_orthogonalize; getitem (int / slice / None / Ellipsis / index-array run on the non-batch modes; int / slice "
            "/ list / implicit selection on the batch mode; malformed keys); unequal batch sizes and batch-with-non-batch operands; "
            "31 operations without batch support; 17 derived operations. Non-trivial = no error and a non-zero result; distinct = "
            "distinct (op, formats, B, shape, argument signature). "
            "Coq correspondence (Model/Batch.v, exact over Z; over Q for the scalars 1/2, 1/3): torch(), + - * on two batch operands "
            "(unequal batch sizes included: the model refuses), the 7 scalar forms, selection along the batch mode alone (int / slice / "
            "list); compared: the decompression of every batch element and, except for scalar multiplication, the result's cores and "
            "factors themselves (format, ranks, entries). Excluded from the Coq side (NumPy oracle only): construction from dense data, "
            "rounding, orthogonalisation, keys that touch the non-batch modes, batch-with-non-batch operands, the error clauses.")
    TRUSTED = ["the reading of torch.cat / einsum / reshape (row-major, leading batch axis kept) / sum / [:, None] as the index maps of Model/Batch.v",
               "NumPy float64 linear algebra (SVD) for the truncation oracles; exact integer arithmetic of float64 on the small inputs",
               "the shape bookkeeping sim_* in this file only TAGS cases for the open findings round-tt-null / eig-tall-factor, it never decides agreement",
               "ranks_cp=2 cases compare each batch element with the ordinary constructor run on the same data (differential, not an independent oracle)"]
    ASSUMPTIONS = ["rank-limited construction / rounding is compared with the sequential truncated-SVD specification (Tucker modes N-1..0, "
                   "then TT unfoldings N-1..1) only when no truncation falls into a cluster of equal singular values; otherwise only shape, "
                   "rank limits and finiteness are checked (such cases are re-drawn, they are rare)",
                   "CP construction (ALS, a heuristic) is checked for exact recovery on stacks of rank-1 elements, and against the ordinary "
                   "constructor on stacks of identical elements; general-rank CP on stacks of different elements is not checked",
                   "round(eps) and construction with eps raise on every batch tensor today (relative_error has no batch support); the cases "
                   "accept an error or a result within eps of every element",
                   "batch tensors with a single non-batch mode and broadcasting between batch operands are outside the quantifier and not generated"]
    THEOREMS = ["C18_add_slice", "C18_mul_slice", "C18_smul_slice", "C18_sadd_slice", "C18_decompress_slice", "C18_cp_to_tt_slice",
                "C18_select_slice", "C18_select_int", "C18_wf_slice", "C18_add_c", "C18_mul_with", "C18_add", "C18_mul", "C18_smul",
                "C18_sadd", "C18_decompress", "C18_select", "C18_torch", "C18_add_batch_size", "C18_mul_batch_size"]

    # ------------------------------------------------------------------ generation
    def generate(self, rng, tier):
        quick = tier == "quick"
        cases = []

        def mk(op, tags=None, **kw):
            t = {"op": op}
            a = kw.get("a")
            if a is not None:
                t.update(B=a["B"], N=len(a["modes"]), fmt=tsig(a), fclass=fmt_class(a), shape="x".join(map(str, bshape(a))))
            if kw.get("b") is not None and "modes" in kw["b"]:
                t["fmt2"] = tsig(kw["b"]); t["fpair"] = fmt_class(a) + "|" + fmt_class(kw["b"])
            t.update(tags or {})
            kw["op"] = op; kw["tags"] = t
            cases.append(kw)

        def rshape(N, lo=1, hi=3):
            return [rng.randint(lo, hi) for _ in range(N)]

        def rB():
            return rng.choice([1, 2, 2, 3, 4])

        def anyfmt(N):
            r = rng.random()
            if r < 0.4:
                return NAMED[rng.choice(list(NAMED))](N)
            return [rng.choice(KINDS) for _ in range(N)]

        # ---- 1. torch(): full lattice for N=2, named + random for N=3,4, special elements
        for kinds in itertools.product(KINDS, repeat=2):
            for B in ((1, 3) if quick else (1, 2, 3, 4)):
                mk("torch", a=rand_batch_json(rng, B, rshape(2), list(kinds)))
        for N in (3, 4):
            for name in NAMED:
                mk("torch", a=rand_batch_json(rng, rB(), rshape(N), NAMED[name](N), maxr=3 if N == 3 else 2))
            for _ in range(75 if quick else 900):
                mk("torch", a=rand_batch_json(rng, rB(), rshape(N), maxr=3 if N == 3 else 2))
        for _ in range(24 if quick else 180):
            B = rng.randint(2, 4); N = rng.randint(2, 3)
            mk("torch", {"special": "zero_elem"}, a=rand_batch_json(rng, B, rshape(N), zero_elem=rng.randrange(B)))
            mk("torch", {"special": "same_elems"}, a=rand_batch_json(rng, B, rshape(N), same_elems=True))

        # ---- 2. construction from a dense stack
        def dense_stack(B, shape, lowrank):
            if lowrank:
                kinds = [("tt", False)] * len(shape)
                return dense_b(rand_batch_json(rng, B, shape, kinds, maxr=rng.randint(1, 2))).astype(int).tolist()
            return np.array([[rng.randint(-3, 3) for _ in range(int(np.prod(shape)))] for _ in range(B)]).reshape([B] + shape).tolist()

        def construct_case(kw_kind):
            want_clean = rng.random() < 0.8      # most cases: no kept null singular value (open finding round-tt-null)
            want_trunc = rng.random() < 0.5
            for attempt in range(40):
                B = rB(); N = rng.randint(2, 4); shape = rshape(N, 1, 3 if N < 4 or rng.random() < 0.5 else 2)
                if rng.random() < 0.15:
                    shape = rshape(N, 2, 3)          # every mode > 1: both branches of the full-rank construction at inner modes
                lowrank = rng.random() < 0.3
                X = dense_stack(B, shape, lowrank)
                kw = {}
                if kw_kind in ("tt", "both"):
                    kw["ranks_tt"] = rng.randint(1, 3) if rng.random() < 0.6 else [rng.randint(1, 4) for _ in range(N - 1)]
                if kw_kind in ("tucker", "both"):
                    kw["ranks_tucker"] = rng.randint(1, 3) if rng.random() < 0.6 else [rng.randint(1, 3) for _ in range(N)]
                if kw_kind == "eps":
                    kw["eps"] = rng.choice([1e-10, 1e-3])
                alg = "eig" if (kw_kind in ("tt", "tucker", "both") and rng.random() < 0.25) else "svd"
                info = self._construct_info(X, kw)
                if attempt < 39 and (info["tie"] or (want_clean and info["null_kept"]) or
                                     (want_trunc and kw_kind in ("tt", "tucker", "both") and not info["truncating"])):
                    continue
                mk("construct", {"B": B, "N": N, "shape": "x".join(map(str, shape)), "limits": kw_kind, "algorithm": alg,
                                 "tie": info["tie"], "null_kept": info["null_kept"], "truncating": info["truncating"],
                                 "lowrank": lowrank, "kf": self._kf_round(info, alg, "ranks_tt" in kw, "ranks_tucker" in kw)},
                   X=X, kw=kw, algorithm=alg)
                return

        for kw_kind, n in (("none", 40), ("tt", 70), ("tucker", 50), ("both", 40), ("eps", 10)):
            for _ in range(n * 3 if quick else n * 24):
                construct_case(kw_kind)
        for _ in range(120 if quick else 900):     # CP-ALS on stacks of exactly rank-1 elements: exact recovery
            B = rB(); N = rng.randint(2, 4); shape = rshape(N, 1, 4 if N < 4 else 3)
            a = rand_batch_json(rng, B, shape, [("cp", False)] * N, maxr=1, lo=-2 if rng.random() < 0.5 else 1, hi=3)
            mk("construct", {"B": B, "N": N, "shape": "x".join(map(str, shape)), "limits": "cp1", "algorithm": "svd",
                             "tie": False, "null_kept": False, "truncating": False, "lowrank": True, "kf": ""},
               X=dense_b(a).astype(int).tolist(), kw={"ranks_cp": 1}, algorithm="svd")
        for _ in range(90 if quick else 600):     # CP-ALS with rank 2 on B copies of one element (same ALS trajectory
            B = rB(); N = rng.randint(2, 3); shape = rshape(N, 2, 4)   # as the ordinary constructor on that element)
            a = rand_batch_json(rng, B, shape, [("cp", False)] * N, maxr=2, same_elems=True)
            if rng.random() < 0.5:
                X = dense_b(a).astype(int).tolist()
            else:
                X = [np.array([rng.randint(-3, 3) for _ in range(int(np.prod(shape)))]).reshape(shape).tolist()] * B
            mk("construct", {"B": B, "N": N, "shape": "x".join(map(str, shape)), "limits": "cp2", "algorithm": "svd",
                             "tie": False, "null_kept": False, "truncating": False, "lowrank": True, "kf": ""},
               X=X, kw={"ranks_cp": 2}, algorithm="svd")

        # ---- 3. binary operations on format pairs
        k = 0
        bops = ["add", "mul", "sub"]
        for ka in itertools.product(KINDS, repeat=2):
            for kb in itertools.product(KINDS, repeat=2):
                if quick and rng.random() > 0.5:
                    continue
                B = rB(); shape = rshape(2)
                mk(bops[k % 3], a=rand_batch_json(rng, B, shape, list(ka)), b=rand_batch_json(rng, B, shape, list(kb))); k += 1
        for N in (3, 4):
            for n1 in NAMED:
                for n2 in NAMED:
                    for op in (("add", "mul") if N == 3 else (bops[k % 2],)):
                        B = rB(); shape = rshape(N, 1, 3 if N == 3 else 2)
                        mk(op, a=rand_batch_json(rng, B, shape, NAMED[n1](N), maxr=2),
                           b=rand_batch_json(rng, B, shape, NAMED[n2](N), maxr=3 if N == 3 else 2)); k += 1
            for _ in range(120 if quick else 1500):
                B = rB(); shape = rshape(N, 1, 3 if N == 3 else 2)
                mk(bops[k % 3], a=rand_batch_json(rng, B, shape, maxr=2), b=rand_batch_json(rng, B, shape, maxr=3 if N == 3 else 2)); k += 1
        for _ in range(120 if quick else 900):     # both operands with small Tucker ranks on larger modes: factor-level product/sum
            N = rng.randint(2, 3); B = rB(); shape = rshape(N, 3, 5)
            ka = [(rng.choice(["tt", "cp"]), rng.random() < 0.8) for _ in range(N)]
            kb = [(rng.choice(["tt", "cp"]), rng.random() < 0.8) for _ in range(N)]
            mk(bops[k % 2], {"special": "small_tucker"}, a=rand_batch_json(rng, B, shape, ka, maxr=2, maxs=2),
               b=rand_batch_json(rng, B, shape, kb, maxr=2, maxs=2)); k += 1
        for _ in range(30 if quick else 180):
            B = rng.randint(2, 4); shape = rshape(rng.randint(2, 3))
            mk(bops[k % 3], {"special": "zero_elem"}, a=rand_batch_json(rng, B, shape, zero_elem=rng.randrange(B)),
               b=rand_batch_json(rng, B, shape)); k += 1
        # operand mismatch: unequal batch sizes must raise; batch (op) non-batch raises or broadcasts correctly
        for _ in range(36 if quick else 180):
            shape = rshape(rng.randint(2, 3)); B = rng.randint(1, 3)
            kinds = anyfmt(len(shape))
            mk(bops[k % 2], {"special": "batch_size_mismatch"}, a=rand_batch_json(rng, B, shape, kinds),
               b=rand_batch_json(rng, B + rng.randint(1, 2), shape, kinds)); k += 1
            nb = rand_tensor_json(rng, shape, kinds)
            mk("mixed", {"special": "nonbatch_operand", "bop": bops[k % 2], "side": "LR"[k % 2],
                         "kf": "mul-mixed-batch" if bops[k % 2] == "mul" else ""},
               a=rand_batch_json(rng, B, shape, kinds), b=nb, bop=bops[k % 2], side="LR"[k % 2])

        # ---- 4. scalar operations
        scalars = [0, 1, -1, 2, -3, 0.5]
        skinds = ["int", "float", "np64", "torch0d"]
        sops = list(SCAL)
        for c in scalars:
            for sk in skinds:
                for _ in range(6 if quick else 24):
                    op = sops[k % len(sops)]; k += 1
                    if op == "div" and c == 0:
                        op = "smul"
                    N = rng.randint(2, 4)
                    mk(op, {"scalar": str(c), "skind": sk}, a=rand_batch_json(rng, rB(), rshape(N, 1, 3 if N < 4 else 2), anyfmt(N), maxr=2),
                       c=c, skind=sk)
        for name in NAMED:
            for op in sops:
                N = rng.randint(2, 3)
                mk(op, {"scalar": "2", "skind": "int"}, a=rand_batch_json(rng, rB(), rshape(N), NAMED[name](N)), c=2, skind="int")

        # ---- 5. rounding
        def round_case(op):
            want_clean = rng.random() < 0.8
            want_trunc = rng.random() < 0.5
            for attempt in range(40):
                N = rng.randint(2, 4); B = rB(); shape = rshape(N, 1, 3 if N < 4 else 2)
                a = rand_batch_json(rng, B, shape, anyfmt(N), maxr=3 if N < 4 else 2, lo=-3, hi=3,
                                    zero_elem=rng.randrange(B) if rng.random() < 0.08 else None)
                r = rng.random()
                n_r = N - 1 if op == "round_tt" else N
                if r < 0.25 or op == "round":
                    rmax = None
                elif r < 0.65:
                    rmax = rng.randint(1, 2)
                else:
                    rmax = [rng.randint(1, 3) for _ in range(n_r)]
                info = self._round_info(a, op, rmax)
                if attempt < 39 and (info["tie"] or (want_clean and info["null_kept"]) or
                                     (want_trunc and rmax is not None and not info["truncating"])):
                    continue
                alg = "eig" if rng.random() < 0.2 and op != "round" else "svd"
                mk(op, {"rmax": "none" if rmax is None else ("int" if isinstance(rmax, int) else "list"), "tie": info["tie"],
                        "null_kept": info["null_kept"], "truncating": info["truncating"], "algorithm": alg,
                        "kf": self._kf_round(info, alg, op == "round_tt", op == "round_tucker")}, a=a, rmax=rmax, algorithm=alg)
                return

        for op, n in (("round_tt", 110), ("round_tucker", 80), ("round", 10)):
            for _ in range(n * 3 if quick else n * 24):
                round_case(op)

        # ---- 6. orthogonalisation
        for _ in range(210 if quick else 1800):
            N = rng.randint(2, 4)
            a = rand_batch_json(rng, rB(), rshape(N, 1, 3 if N < 4 else 2), anyfmt(N), maxr=3 if N < 4 else 2)
            mu = rng.randrange(-N, N)
            mk("orthogonalize", {"mu": mu}, a=a, mu=mu)
        for _ in range(90 if quick else 600):      # single steps, TT cores only (CP cores: D18, not a batch matter)
            N = rng.randint(2, 4)
            kinds = [("tt", rng.random() < 0.5) for _ in range(N)]
            a = rand_batch_json(rng, rB(), rshape(N, 1, 3 if N < 4 else 2), kinds, maxr=3)
            if rng.random() < 0.5:
                mu = rng.randrange(0, N - 1); mk("left_orthogonalize", {"mu": mu}, a=a, mu=mu)
            else:
                mu = rng.randrange(1, N); mk("right_orthogonalize", {"mu": mu}, a=a, mu=mu)

        # ---- 7. indexing
        for _ in range(1260 if quick else 12000):
            N = rng.randint(2, 4); B = rB(); shape = rshape(N, 1, 3)
            a = rand_batch_json(rng, B, shape, anyfmt(N), maxr=3 if N < 4 else 2)
            key = self._rand_key(rng, B, shape)
            mk("getitem", self._key_tags(key, a), a=a, key=key)
        # systematic: every non-batch mode an integer (D17), per pure format and batch size
        for name in NAMED:
            for B in (1, 2, 3):
                for bk in ({"slice": [None, None, None]}, {"int": B - 1}, {"slice": [0, 1, None]}, {"idx": [0]}):
                    N = rng.randint(2, 3); shape = rshape(N, 1, 3)
                    a = rand_batch_json(rng, B, shape, NAMED[name](N))
                    key = [bk] + [{"int": rng.randrange(-s, s)} for s in shape]
                    mk("getitem", self._key_tags(key, a), a=a, key=key)
        # selection along the batch mode only
        for _ in range(120 if quick else 900):
            N = rng.randint(2, 3); B = rB(); shape = rshape(N)
            a = rand_batch_json(rng, B, shape, anyfmt(N))
            bk = rng.choice([{"int": rng.randrange(-B, B)}, {"slice": [rng.choice([None, 0, 1]), rng.choice([None, B, -1, 1]), rng.choice([None, 1, 2])]},
                             {"idx": [rng.randrange(-B, B) for _ in range(rng.randint(1, 3))]}])
            key = [bk] + (["ellipsis"] if rng.random() < 0.3 else [])
            mk("getitem", self._key_tags(key, a), a=a, key=key)

        # ---- 8. operations without batch support, and derived operations
        names = sorted(UNSUPPORTED)
        for name in names:
            for fm in (("tt", "cp") if quick else ("tt", "cp", "tt-tucker", "cp-tucker")):
                N = rng.randint(2, 3); B = rng.randint(1, 3); shape = rshape(N, 2, 3)
                fam = "dot" if name in DOT_FAMILY else "partial" if name in ("partial", "laplacian") else "guarded"
                mk("unsupported", {"name": name, "family": fam, "kf": "" if fam == "guarded" else "no-guard-" + fam}, a=rand_batch_json(rng, B, shape, NAMED[fm](N), maxr=2),
                   b=rand_batch_json(rng, B, shape, NAMED[fm](N), maxr=2), name=name)
        # transpose / cat have no batch support; the accidents that made them return something: a batch CP core of shape
        # B x I x R read as a TT core when R == B, and a concatenated mode of size 1
        for _ in range(20 if quick else 120):
            N = rng.randint(2, 3); B = rng.randint(2, 3)
            shape = rshape(N, 2, 3)
            name = rng.choice(["transpose", "cat"])
            if name == "cat":
                shape[0] = 1
            for _try in range(60):
                a = rand_batch_json(rng, B, shape, NAMED["cp"](N), maxr=3)
                if np.array(a["modes"][0]["core"]).shape[-1] == B or name == "cat":
                    break
            mk("unsupported", {"name": name, "family": "guarded", "kf": "", "accident": True}, a=a,
               b=rand_batch_json(rng, B, shape, NAMED["cp"](N), maxr=3), name=name)
        for name in sorted(EITHER):
            for _ in range(12 if quick else 90):
                N = rng.randint(2, 3); B = rB(); shape = rshape(N)
                kinds = anyfmt(N)
                if name.startswith("set_factors"):
                    kinds = NAMED[rng.choice(["tt", "cp"])](N)
                if name == "squeeze":
                    B = rng.randint(2, 4)
                kf = "flip-batch" if name == "flip" else "D17" if name == "squeeze" and all(x == 1 for x in shape) else ""
                mk("derived", {"name": name, "kf": kf}, a=rand_batch_json(rng, B, shape, kinds, maxr=2),
                   b=rand_batch_json(rng, B, shape, anyfmt(N), maxr=2), name=name)
        return cases

    # ------------------------------------------------------------------ helpers for generation
    def _rand_key(self, rng, B, shape):
        N = len(shape)

        def sl(size):
            a = rng.choice([None, None, 0, 1, -1, rng.randrange(-size - 1, size + 2)])
            b = rng.choice([None, None, size, -1, rng.randrange(-size - 1, size + 2)])
            c = rng.choice([None, 1, 2, 3]) if rng.random() < 0.3 else None
            return {"slice": [a, b, c]}

        r = rng.random()
        if r < 0.35:
            bk = {"slice": [None, None, None]}
        elif r < 0.6:
            bk = {"int": rng.randrange(-B, B)}
        elif r < 0.9:
            bk = sl(B)
        else:
            bk = {"idx": [rng.randrange(-B, B) for _ in range(rng.randint(1, 3))]}
        ents = []
        P = rng.randint(1, 3)
        run_at = rng.randrange(N) if rng.random() < 0.35 else None
        run_len = rng.randint(1, 2)
        for n, s in enumerate(shape):
            if run_at is not None and run_at <= n < run_at + run_len:
                ents.append({"idx": [rng.randrange(-s, s) for _ in range(P)]})
            elif rng.random() < 0.45:
                ents.append({"int": rng.randrange(-s, s)})
            else:
                ents.append(sl(s))
        key = [bk]
        for e in ents:
            if rng.random() < 0.12:
                key.append("none")
            key.append(e)
        if rng.random() < 0.12:
            key.append("none")
        # trailing full slices may be dropped or replaced by an Ellipsis; a leading Ellipsis may stand for the batch mode
        if rng.random() < 0.25:
            cut = rng.randint(1, len(key))
            j = rng.randint(cut, len(key))
            key = key[:cut] + ["ellipsis"] + key[j:]
        elif rng.random() < 0.1:
            key = ["ellipsis"] + key[rng.randint(1, len(key)):]
        elif rng.random() < 0.1:
            key = key[:rng.randint(1, len(key))]
        # malformed stream
        r = rng.random()
        if r < 0.03:
            key = ["none"] + key
        elif r < 0.06:
            key = key + [{"int": 0}] * (N + 2 - sum(1 for k in key if k not in ("none", "ellipsis")))
        elif r < 0.09:
            i = rng.randrange(len(key))
            if isinstance(key[i], dict) and "int" in key[i]:
                key[i] = {"int": key[i]["int"] + 7}
        elif r < 0.11:
            key = key + ["ellipsis"] if "ellipsis" in key else ["ellipsis"] + key[1:] + ["ellipsis"]
        elif r < 0.13 and N >= 3:
            key = [bk, {"idx": [0]}, {"slice": [None, None, None]}, {"idx": [0]}]
        return key

    def _key_tags(self, key, a):
        pk = pykey(key)
        kinds = "".join("n" if k is None else "e" if k is Ellipsis else "i" if isinstance(k, int) else "s" if isinstance(k, slice) else "x"
                        for k in pk)
        X_shape = [a["B"]] + bshape(a)
        spec = batch_index(np.zeros(X_shape), pk)
        t = {"keykinds": kinds, "spec": spec[0]}
        try:
            full = expand_key(list(pk), len(X_shape))
            i0 = next(i for i, k in enumerate(full) if k is not None)
            bk = full[i0]; rest = full[i0 + 1:]
            t["bkey"] = "int" if isinstance(bk, int) else "list" if isinstance(bk, list) else \
                ("full" if range(a["B"])[bk] == range(a["B"]) else "slice")
            t["rest_all_int"] = all(isinstance(k, int) for k in rest)
            t["has_run"] = any(isinstance(k, list) for k in rest)
            t["has_none"] = any(k is None for k in rest)
            if spec[0] == "ok" and spec[1] is not None:
                t["empty"] = spec[1].size == 0
            B = a["B"]
            sel = [bk % B] if isinstance(bk, int) else ([i % B for i in bk] if isinstance(bk, list) else list(range(B)[bk]))
            t["nsel"] = len(sel)
            anycp = any(m["kind"] == "cp" for m in a["modes"])
            kf = ""
            if spec[0] != "err":
                # D17: every non-batch mode an integer: the pending factor is squeezed, never summed
                if t["rest_all_int"] and (anycp or (t["bkey"] != "int" and len(sel) == 1)):
                    kf = "D17"
                # trailing integer absorbed into an emitted core: the batch selection is applied to that core twice
                elif rest and isinstance(rest[-1], int) and not t["rest_all_int"]:
                    n = len(sel)
                    try:
                        again = [list(range(n))[bk]] if isinstance(bk, int) else \
                            ([list(range(n))[i] for i in bk] if isinstance(bk, list) else list(range(n)[bk]))
                    except IndexError:
                        again = None
                    if again != list(range(n)):
                        kf = "getitem-rebatch"
            t["kf"] = kf
        except (KeyError_, StopIteration):
            t["bkey"] = "malformed"
        return t

    @staticmethod
    def _kf_round(info, alg, does_tt, does_tucker):
        """class of open finding a rounding / construction case belongs to ('' = none)"""
        if does_tucker and alg == "eig" and info["tall"]:
            return "eig-tall-factor"
        if does_tt and info["null_kept"]:
            return "round-tt-null"
        return ""

    def _round_info(self, a, op, rmax):
        """specification-side bookkeeping for tags: ties, truncation, kept null singular values"""
        X = dense_b(a); N = X.ndim - 1
        r, s, I, hasU = sim_repr(a)
        tie = False; null = False; trunc = False; tall = False
        if op == "round_tucker":
            rm = aslist(rmax, N)
            tall = sim_round_tucker(r, s, I, hasU, rm)[3]
            for b in range(len(X)):
                Y, t = oracle_round_tucker(X[b], rm)
                tie = tie or t; trunc = trunc or not np.allclose(Y, X[b], atol=1e-9)
        elif op == "round_tt":
            rm = aslist(rmax, N - 1)
            kept = sim_round_tt_kept(r, s, I, hasU, rm)
            for b in range(len(X)):
                Y, ranks, t = oracle_round_tt(X[b], rm)
                tie = tie or t; trunc = trunc or not np.allclose(Y, X[b], atol=1e-9)
                null = null or any(kept[k] > ranks[k] for k in kept)
        return {"tie": tie, "null_kept": null, "truncating": trunc, "tall": tall}

    def _construct_info(self, X, kw):
        X = np.array(X, dtype=np.float64); N = X.ndim - 1; shape = list(X.shape[1:])
        tie = False; null = False; trunc = False; tall = False
        rtk = aslist(kw["ranks_tucker"], N) if "ranks_tucker" in kw else None
        rtt = aslist(kw["ranks_tt"], N - 1) if "ranks_tt" in kw else None
        r = sim_fullrank(shape); s = list(shape); hasU = [False] * N
        if rtk is not None:
            r, s, hasU, tall = sim_round_tucker(r, s, shape, hasU, rtk)
        kept = sim_round_tt_kept(r, s, shape, hasU, rtt) if rtt is not None else {}
        for b in range(len(X)):
            Y = X[b]
            if rtk is not None:
                Y, t = oracle_round_tucker(Y, rtk); tie = tie or t
            if rtt is not None:
                Y, ranks, t = oracle_round_tt(Y, rtt); tie = tie or t
                null = null or any(kept[k] > ranks[k] for k in kept)
            trunc = trunc or not np.allclose(Y, X[b], atol=1e-9)
        return {"tie": tie, "null_kept": null, "truncating": trunc, "tall": tall}

    # ------------------------------------------------------------------ implementation
    def _scalar(self, c, kind):
        if kind == "int":
            return int(c) if float(c).is_integer() else float(c)
        if kind == "float":
            return float(c)
        if kind == "np64":
            return np.float64(c)
        return torch.tensor(float(c), dtype=torch.float64)

    def run(self, case):
        op = case["op"]
        try:
            torch.manual_seed(0)
            if op == "construct":
                X = torch.tensor(case["X"], dtype=torch.float64)
                t = tn.Tensor(X, batch=True, algorithm=case.get("algorithm", "svd"), **case["kw"])
                res = payload(t)
                res["ranks_tt"] = t.ranks_tt.tolist(); res["ranks_tucker"] = t.ranks_tucker.tolist()
                res["cp"] = all(c.dim() == 3 for c in t.cores)
                if case["tags"].get("limits") == "cp2":      # the ordinary constructor on the (common) element
                    torch.manual_seed(0)
                    res["single"] = tn.Tensor(X[0], algorithm=case.get("algorithm", "svd"), **case["kw"]).torch().reshape(-1).tolist()
                return res
            a = to_tnb(case["a"])
            if op == "torch":
                return payload(a)
            if op in BIN:
                return payload(BIN[op](a, to_tnb(case["b"])))
            if op == "mixed":
                b = to_tn(case["b"])
                return payload(BIN[case["bop"]](a, b) if case["side"] == "L" else BIN[case["bop"]](b, a))
            if op in SCAL:
                return payload(SCAL[op][0](a, self._scalar(case["c"], case["skind"])))
            if op in ("round_tt", "round_tucker", "round"):
                kw = {} if case["rmax"] is None else {"rmax": case["rmax"]}
                if op != "round":
                    kw["algorithm"] = case.get("algorithm", "svd")
                getattr(a, op)(**kw)
                res = payload(a)
                res["ranks_tt"] = a.ranks_tt.tolist(); res["ranks_tucker"] = a.ranks_tucker.tolist()
                return res
            if op == "orthogonalize":
                a.orthogonalize(case["mu"])
                res = payload(a); res["dev"] = ortho_dev(a, case["mu"] % a.dim())
                return res
            if op == "left_orthogonalize":
                a.left_orthogonalize(case["mu"])
                res = payload(a)
                c = a.cores[case["mu"]]; M = c.reshape(c.shape[0], -1, c.shape[-1]); G = M.transpose(1, 2) @ M
                res["dev"] = float((G - torch.eye(G.shape[-1])[None]).abs().max())
                return res
            if op == "right_orthogonalize":
                a.right_orthogonalize(case["mu"])
                res = payload(a)
                c = a.cores[case["mu"]]; M = c.reshape(c.shape[0], c.shape[1], -1); G = M @ M.transpose(1, 2)
                res["dev"] = float((G - torch.eye(G.shape[-1])[None]).abs().max())
                return res
            if op == "getitem":
                pk = pykey(case["key"])
                return payload(a[pk if len(pk) != 1 else pk[0]])
            if op == "unsupported":
                r = UNSUPPORTED[case["name"]](a, to_tnb(case["b"]))
                return payload(r)
            if op == "derived":
                return payload(EITHER[case["name"]][0](a, to_tnb(case["b"])))
            raise KeyError(op)
        except Exception as e:
            return {"ok": False, "err": type(e).__name__, "msg": str(e)[:200]}

    # ------------------------------------------------------------------ specification (NumPy only)
    def expected(self, case):
        op = case["op"]

        def out(d, mode="ok", **kw):
            r = {"ok": True, "mode": mode, "shape": list(np.shape(d)), "dense": np.asarray(d, dtype=np.float64).reshape(-1).tolist()}
            r.update(kw)
            return r
        if op == "construct":
            X = np.array(case["X"], dtype=np.float64); N = X.ndim - 1
            kw = case["kw"]
            if "eps" in kw:                       # batch rounding to a tolerance: refused, or within eps of each element
                return out(X, "either", tol=float(kw["eps"]) * 1.01 + 1e-9)
            if case["tags"].get("limits") == "cp2":
                return out(X, "ok", tol=1e-6, vs_single=True, cp=2)
            Y = []
            for b in range(len(X)):
                y = X[b]
                if "ranks_tucker" in kw:
                    y, _ = oracle_round_tucker(y, aslist(kw["ranks_tucker"], N))
                if "ranks_tt" in kw:
                    y, _, _ = oracle_round_tt(y, aslist(kw["ranks_tt"], N - 1))
                Y.append(y)
            return out(np.stack(Y), "ok", tol=0.0 if not kw else 1e-6, weak=bool(case["tags"].get("tie")),
                       max_tt=aslist(kw["ranks_tt"], N - 1) if "ranks_tt" in kw else None,
                       max_tucker=aslist(kw["ranks_tucker"], N) if "ranks_tucker" in kw else None,
                       cp=kw.get("ranks_cp"))
        A = dense_b(case["a"]); N = A.ndim - 1
        if op == "torch":
            return out(A, tol=0.0)
        if op in BIN:
            if case["b"]["B"] != case["a"]["B"]:
                return {"ok": False, "err": "batch sizes differ"}
            return out(BIN[op](A, dense_b(case["b"])), tol=0.0)
        if op == "mixed":
            b = dense_np(case["b"])[None]
            return out(BIN[case["bop"]](A, b) if case["side"] == "L" else BIN[case["bop"]](b, A), "either", tol=1e-9)
        if op in SCAL:
            return out(SCAL[op][1](A, float(case["c"])), tol=1e-9)
        if op in ("round_tt", "round_tucker", "round"):
            rmax = case["rmax"]
            if op == "round":
                return out(A, "either", tol=1e-6)
            Y = []
            for b in range(len(A)):
                if op == "round_tt":
                    y, _, _ = oracle_round_tt(A[b], aslist(rmax, N - 1))
                else:
                    y, _ = oracle_round_tucker(A[b], aslist(rmax, N))
                Y.append(y)
            return out(np.stack(Y), tol=1e-6, weak=bool(case["tags"].get("tie")),
                       max_tt=aslist(rmax, N - 1) if op == "round_tt" and rmax is not None else None,
                       max_tucker=aslist(rmax, N) if op == "round_tucker" and rmax is not None else None)
        if op in ("orthogonalize", "left_orthogonalize", "right_orthogonalize"):
            return out(A, tol=1e-6, dev=1e-9)
        if op == "getitem":
            spec = batch_index(A, pykey(case["key"]))
            if spec[0] == "err":
                return {"ok": False, "err": "malformed key"}
            if spec[1] is None:
                return {"ok": True, "mode": "either", "shape": None, "dense": []}
            return out(spec[1], spec[0], tol=0.0)
        if op == "unsupported":
            return {"ok": False, "err": "operation has no batch support"}
        if op == "derived":
            return out(EITHER[case["name"]][1](A, dense_b(case["b"])), "either", tol=1e-9)
        raise KeyError(op)

    # ------------------------------------------------------------------ comparison
    def agree(self, case, res, exp):
        if not exp["ok"]:
            return (not res["ok"], "an error was required (%s), got a result of shape %s" % (exp.get("err"), res.get("shape")))
        if not res["ok"]:
            if exp.get("mode") == "either":
                return True, ""
            return False, "implementation raised %s: %s" % (res.get("err"), res.get("msg"))
        if exp["shape"] is None:     # either-class without a defined value: any refusal is fine, a result is not
            return False, "a result of shape %s was returned for an undefined selection" % res.get("shape")
        if res["shape"] is None or list(res["shape"]) != list(exp["shape"]):
            return False, "shape %s, expected %s" % (res["shape"], exp["shape"])
        a = np.array(res["dense"], dtype=np.float64); b = np.array(exp["dense"], dtype=np.float64)
        if a.shape != b.shape:
            return False, "result has %d entries, expected %d" % (a.size, b.size)
        if a.size and not (np.all(np.isfinite(a)) and np.all(np.isfinite(b))):
            return False, "non-finite entries in the result"
        for nm, lim in (("ranks_tt", exp.get("max_tt")), ("ranks_tucker", exp.get("max_tucker"))):
            if lim is not None and nm in res:
                got = res[nm][1:-1] if nm == "ranks_tt" else res[nm]
                if any(g > l for g, l in zip(got, lim) if l is not None):
                    return False, "%s %s exceed the requested limits %s" % (nm, got, lim)
        if exp.get("cp") is not None and not res.get("cp"):
            return False, "ranks_cp given but the result is not in CP format"
        if exp.get("dev") is not None and not (res.get("dev", float("nan")) <= 1e-8):
            return False, "cores/factors are not orthogonal after orthogonalisation (deviation %g)" % res.get("dev")
        if exp.get("weak"):
            return True, ""
        if exp.get("vs_single"):    # ALS is a heuristic: each element must get what the ordinary constructor gives on it
            single = np.array(res.get("single", []), dtype=np.float64)
            B = exp["shape"][0]
            for i, part in enumerate(a.reshape(B, -1)):
                if not close(part, single, 1e-6):
                    return False, "element %d differs from the ordinary CP construction of the same data" % i
            return True, ""
        tol = exp.get("tol", 1e-9)
        if a.size:
            if tol == 0.0:
                ca = canon_dense(a)
                if ca is None or ca != [int(round(x)) for x in b]:
                    return False, "values differ (exact integer comparison), max |diff| %g" % np.max(np.abs(a - b))
            else:
                scale = max(1.0, float(np.max(np.abs(b))))
                if case["op"] == "construct" and "eps" in case["kw"]:
                    X = b.reshape(exp["shape"]); R = a.reshape(exp["shape"])
                    for i in range(len(X)):
                        if not (np.linalg.norm(R[i] - X[i]) <= tol * max(np.linalg.norm(X[i]), 1e-300) + 1e-9):
                            return False, "element %d is farther than eps from the data" % i
                elif not close(a, b, tol):
                    d = np.abs(a - b).reshape(exp["shape"])
                    bad = int(np.argmax(d.reshape(d.shape[0], -1).max(axis=1))) if d.ndim else 0
                    return False, "values differ by %g (batch element %d)" % (np.max(np.abs(a - b)), bad)
        return True, ""

    def nontrivial(self, case, res):
        return bool(res.get("ok")) and any(abs(x) > 0 for x in res.get("dense", []))

    def signature(self, case):
        t = case["tags"]
        arg = json.dumps([case.get("key"), case.get("kw"), case.get("rmax"), case.get("mu"), case.get("c"), case.get("skind"),
                          case.get("name"), case.get("algorithm")], default=str)
        return "%s;%s;%s;%s;%s;%s" % (t["op"], t.get("fmt"), t.get("fmt2"), t.get("B"), t.get("shape"), arg)

    # ------------------------------------------------------------------ correspondence with the Coq model
    def coq_term(self, case, res):
        op = case["op"]
        if op not in ("torch", "getitem") and op not in BIN and op not in SCAL:
            return None
        a = case["a"]; B = a["B"]
        frac = None                      # the scalar as an exact rational
        o = None
        if op in SCAL:
            c = Fraction(case["c"]).limit_denominator(1000)
            if op == "div":
                c = 1 / c
            if op == "ssub":
                c = -c
            frac = c
        useQ = frac is not None and frac.denominator != 1
        pre = "q" if useQ else "z"
        lit = (lambda x: qlit(Fraction(x).limit_denominator(10 ** 6))) if useQ else zlit
        scope = "Q" if useQ else "Z"
        bt = lambda bj: coq_btensor(bj, pre, lit, scope)
        if op == "torch":
            o = "%sTorch %s" % (pre, bt(a))
        elif op in BIN:
            o = "%s%s %s %s" % (pre, {"add": "Add", "sub": "Sub", "mul": "Mul"}[op], bt(a), bt(case["b"]))
        elif op in SCAL:
            nm = {"sadd": "Sadd", "radd": "Sadd", "ssub": "Sadd", "rsub": "Rsub", "smul": "Smul", "rmul": "Smul", "div": "Smul"}[op]
            o = "%s%s %s %s" % (pre, nm, lit(frac), bt(a))
        else:                            # getitem: selection along the batch mode only
            if not res.get("ok") or case["tags"].get("kf"):
                return None
            try:
                full = expand_key(list(pykey(case["key"])), len(a["modes"]) + 1)
            except KeyError_:
                return None
            if not full or full[0] is None or any(k != slice(None) for k in full[1:]):
                return None
            bk = full[0]
            if isinstance(bk, int):
                if not (-B <= bk < B):
                    return None
                o = "zSelInt %d %s" % (bk % B, bt(a))
            else:
                if isinstance(bk, slice):
                    if bk.step is not None and bk.step <= 0:
                        return None
                    sel = list(range(B)[bk])
                else:
                    if any(not (-B <= i < B) for i in bk):
                        return None
                    sel = [i % B for i in bk]
                if not sel:
                    return None
                o = "zSel %s %s" % (coq_natlist(sel), bt(a))
        if not res.get("ok"):
            return "c%s (%sCase (%s) false [] [] %sNoCores)" % (scope, pre, o, pre)
        if res.get("kind") not in ("batch", "tensor") or res.get("shape") is None:
            return None
        isb = res["kind"] == "batch"
        shape = res["shape"][1:] if isb else res["shape"]
        nB = res["shape"][0] if isb else 1
        d = np.array(res["dense"], dtype=np.float64).reshape(nB, -1)
        if useQ:
            qd = lambda x: "(%d#%d)" % (round(x * 2 ** 40), 2 ** 40)
            dense = "[" + ";".join(coq_list(row, qd, "Q") for row in d) + "]"
        else:
            rows = []
            for row in d:
                ci = canon_dense(row)
                rows.append(coq_list(ci if ci is not None else [10 ** 9]))    # a non-integer result forces a disagreement
            dense = "[" + ";".join(rows) + "]"
        cores = "%sNoCores" % pre
        rep = res.get("rep")
        # `*` closes the outer bonds that a CP factor at either end of ONE operand leaves open (repo fix; the model multiplies
        # mode by mode and keeps them open): the values are the same, the cores are not - those products are compared on the
        # decompression only
        def ends(bj):
            return (bj["modes"][0]["kind"], bj["modes"][-1]["kind"])
        closes = op == "mul" and case.get("b") is not None and any(x != y for x, y in zip(ends(case["a"]), ends(case["b"])))
        if rep is not None and rep["modes"] and not (op in SCAL and o.startswith(pre + "Smul")) and not closes:
            if useQ:
                cores = "(Some %s)" % coq_btensor(rep, pre, lambda x: "(%d#%d)" % (round(x * 2 ** 40), 2 ** 40), scope)
            else:
                flatall = [x for m in rep["modes"] for x in flat(m["core"]) + (flat(m["U"]) if m["U"] is not None else [])]
                if canon_dense(flatall) is not None:
                    cores = "(Some %s)" % coq_btensor(rep, pre, lambda x: zlit(round(x)), scope)
                else:
                    cores = "(Some (%sBT 0 []))" % pre                     # non-integer cores: force a disagreement
        term = "c%s (%sCase (%s) true %s %s %s)" % (scope, pre, o, coq_natlist(shape), dense, cores)
        return term if len(term) < 60000 else None


def coq_btensor(bj, pre, lit, scope):
    ms = []
    for m in bj["modes"]:
        c = np.array(m["core"], dtype=np.float64)
        if m["kind"] == "tt":
            core = "(%sBTT %d %d %d %s)" % (pre, c.shape[1], c.shape[2], c.shape[3], coq_list(flat(c), lit, scope))
        else:
            core = "(%sBCP %d %d %s)" % (pre, c.shape[1], c.shape[2], coq_list(flat(c), lit, scope))
        if m["U"] is None:
            fac = "%sNoU" % pre
        else:
            U = np.array(m["U"], dtype=np.float64)
            fac = "(%sBU %d %d %s)" % (pre, U.shape[1], U.shape[2], coq_list(flat(U), lit, scope))
        ms.append("%sBM %s %s" % (pre, core, fac))
    return "(%sBT %d [%s])" % (pre, bj["B"], "; ".join(ms))
