(* Order consequences of the variance decomposition, over the reals with non-negative marginals:
   variance components are >= 0, the empty component is 0, Sobol indices of [0,1]-valued masks lie in [0,1],
   indices are monotone in the mask (total indices dominate components), the mean dimension is >= 1. *)
From TN Require Import Alg.InstR Proofs.SobolP Proofs.GenSobolInst Proofs.ArithP Proofs.AutomataP Gen.Generated.
From Coq Require Import Reals Lra.
Local Open Scope R_scope.
Add Ring RORing : RO_laws.

Section SobolOrder.
Variable sh : list nat.
Hypothesis sh_ne : sh <> [].
Notation net := (list (score RO)).
Notation N := (length sh).
Notation sub := (repeat 2%nat N).

Lemma sumR_nonneg_in (ds : list nat) : forall (f : list nat -> R), (forall idx, in_range ds idx = true -> 0 <= f idx) -> 0 <= sumR ds f.
Proof.
  induction ds as [|d ds IH]; intros f H; cbn [sumidx]; [apply H; reflexivity|].
  apply sumnR_nonneg. intros i Hi. apply IH. intros idx Hr. apply H. cbn [in_range].
  apply Nat.ltb_lt in Hi. rewrite Hi, Hr. reflexivity.
Qed.
Lemma sumidx_sub_R (ds : list nat) (f g : list nat -> R) : sumR ds (fun i => f i - g i) = sumR ds f - sumR ds g.
Proof.
  rewrite (sumidx_ext (K:=RO) ds (fun i => f i - g i) (fun i => (f i + (-1) * g i)%R)) by (intros; cbn; ring).
  rewrite (sumidx_add (K:=RO) RO_laws), (sumidx_mul_l (K:=RO) RO_laws). cbn. ring.
Qed.

Definition nonneg_marg (g : margT sh) : Prop := Forall (fun w : nat -> R => forall i, 0 <= w i) (proj1_sig g).

Lemma patind_01 : forall e al, patind RO e al = 0 \/ patind RO e al = 1.
Proof.
  induction e as [|i e IH]; intros [|a al]; cbn [patind]; auto.
  destruct (IH al) as [H|H]; rewrite H; unfold delta; destruct (Nat.eqb (Nat.min i 1) a); cbn; lra.
Qed.
Lemma mprod_nonneg (ws : list (nat -> R)) : Forall (fun w : nat -> R => forall i, 0 <= w i) ws ->
  forall e, 0 <= mprod RO ws e.
Proof.
  induction ws as [|w ws IH]; intros H [|i e]; try (cbn; lra).
  cbn [mprod]. inversion_clear H as [|? ? H1 H2]. specialize (IH H2 e).
  assert (0 <= mvec (K:=RO) w i) by (destruct i; cbn; [lra|apply H1]).
  change (0 <= mvec (K:=RO) w i * mprod RO ws e). nra.
Qed.

Lemma comp_nonneg t (g : margT sh) al : nonneg_marg g -> 0 <= r_comp sh t g al.
Proof.
  intros Hg. unfold r_comp, component. apply sumR_nonneg. intros e.
  pose proof (mprod_nonneg (proj1_sig g) Hg e) as Hm.
  set (c := centred RO (eval (anova_net (K:=RO) (proj1_sig g) t)) (length t) e).
  change (0 <= patind RO e al * (c * (mprod RO (proj1_sig g) e * c))).
  destruct (patind_01 e al) as [H|H]; rewrite H; nra.
Qed.

(* the empty subset carries no variance *)
Lemma patind_zeros e : patind RO e (zeros (length e)) = origin1 RO e.
Proof. induction e as [|i e IH]; [reflexivity|]. cbn [length zeros repeat patind origin1]. fold (zeros (length e)). rewrite IH.
  f_equal. unfold delta. destruct i; reflexivity. Qed.
Lemma comp_empty t (g : margT sh) : okT sh t -> r_comp sh t g (zeros N) = 0.
Proof.
  intros Ht. unfold r_comp, component. pose proof (len_okT sh t Ht) as Lt.
  rewrite (sumidx_ext_in RO _ _ (fun _ => 0)); [apply (sumidx_zero RO_laws)|].
  intros e He. pose proof (in_range_length _ _ He) as Le. rewrite map_length, (sshape_length RO), Lt in Le.
  replace (zeros (length sh)) with (zeros (length e)) by (f_equal; exact Le). rewrite patind_zeros.
  set (A := eval (anova_net (K:=RO) (proj1_sig g) t)).
  assert (Z: origin1 RO e * centred RO A (length t) e = 0).
  { unfold centred. rewrite Lt. replace (zeros (length sh)) with (zeros (length e)) by (f_equal; exact Le).
    change ((origin1 RO e * (A e - origin1 RO e * A (zeros (length e))))%K = r0 RO).
    transitivity ((origin1 RO e * A e - (origin1 RO e * origin1 RO e) * A (zeros (length e)))%K); [ring|].
    rewrite (origin1_sq RO RO_laws), (origin1_at RO RO_laws). ring. }
  change ((origin1 RO e * (centred RO A (length t) e * (mprod RO (proj1_sig g) e * centred RO A (length t) e)))%K = r0 RO).
  transitivity (((origin1 RO e * centred RO A (length t) e) * (mprod RO (proj1_sig g) e * centred RO A (length t) e))%K); [ring|].
  change ((origin1 RO e * centred RO A (length t) e)%K) with (origin1 RO e * centred RO A (length t) e). rewrite Z. cbn. ring.
Qed.

(* monotonicity in the mask, hence [0,1] for [0,1]-valued masks and "total index >= component" *)
Theorem sobol_monotone t (m1 m2 : net) (g : margT sh) : okT sh t -> okM sh m1 -> okM sh m2 -> nonneg_marg g ->
  0 < sumR sub (r_comp sh t g) ->
  (forall al, in_range sub al = true -> eval m1 al <= eval m2 al) ->
  r_sobol sh t m1 g <= r_sobol sh t m2 g.
Proof.
  intros Ht H1 H2 Hg Hd Hle. rewrite !(okT_sobol sh) by assumption.
  apply Rmult_le_compat_r; [left; apply Rinv_0_lt_compat; exact Hd|].
  apply Rge_le, Rminus_ge, Rle_ge.
  change (0 <= sumidx (K:=RO) sub (fun al => eval m2 al * r_comp sh t g al) - sumidx (K:=RO) sub (fun al => eval m1 al * r_comp sh t g al)).
  rewrite <- (sumidx_sub_R sub). apply sumR_nonneg_in. intros al Hal.
  pose proof (comp_nonneg t g al Hg). specialize (Hle al Hal).
  change (0 <= eval m2 al * r_comp sh t g al - eval m1 al * r_comp sh t g al). nra.
Qed.

Theorem sobol_in_unit_interval t (m : net) (g : margT sh) : okT sh t -> okM sh m -> nonneg_marg g ->
  0 < sumR sub (r_comp sh t g) ->
  (forall al, in_range sub al = true -> 0 <= eval m al <= 1) ->
  0 <= r_sobol sh t m g <= 1.
Proof.
  intros Ht Hm Hg Hd Hb. rewrite (okT_sobol sh) by assumption.
  assert (Hn: 0 <= sumR sub (fun al => eval m al * r_comp sh t g al)).
  { apply sumR_nonneg_in. intros al Hal. pose proof (comp_nonneg t g al Hg). destruct (Hb al Hal).
    change (0 <= eval m al * r_comp sh t g al). nra. }
  assert (Hu: sumR sub (fun al => eval m al * r_comp sh t g al) <= sumR sub (r_comp sh t g)).
  { apply Rge_le, Rminus_ge, Rle_ge. rewrite <- (sumidx_sub_R sub). apply sumR_nonneg_in. intros al Hal.
    pose proof (comp_nonneg t g al Hg). destruct (Hb al Hal).
    change (0 <= r_comp sh t g al - eval m al * r_comp sh t g al). nra. }
  split.
  - apply Rmult_le_pos; [exact Hn | left; apply Rinv_0_lt_compat; exact Hd].
  - apply (Rmult_le_reg_r (sumR sub (r_comp sh t g))); [exact Hd|].
    unfold Rdiv. rewrite Rmult_assoc, Rinv_l by lra. lra.
Qed.

Lemma subset_cases : forall n al, in_range (repeat 2%nat n) al = true -> al = zeros n \/ (1 <= sumlist al)%nat.
Proof.
  induction n as [|n IH]; intros [|a al] H; cbn in H; try discriminate; [left; reflexivity|].
  apply andb_true_iff in H. destruct H as [_ H]. destruct a as [|a]; [|right; cbn; lia].
  destruct (IH al H) as [->|H1]; [left; reflexivity|right; cbn; lia].
Qed.

(* mean dimension >= 1 (generated formula o kernel models) *)
Theorem mean_dimension_ge_1 t (g : margT sh) : okT sh t -> nonneg_marg g -> 0 < sumR sub (r_comp sh t g) ->
  1 <= gen_anova_mean_dimension_N net (margT sh) (r_sobol sh) r_weight r_dim t g.
Proof.
  intros Ht Hg Hd. rewrite (mean_dimension_spec sh sh_ne t g Ht).
  apply (Rmult_le_reg_r (sumR sub (r_comp sh t g))); [exact Hd|].
  unfold Rdiv. rewrite Rmult_assoc, Rinv_l by lra. rewrite Rmult_1_l, Rmult_1_r.
  apply Rge_le, Rminus_ge, Rle_ge. rewrite <- (sumidx_sub_R sub). apply sumR_nonneg_in. intros al Hal.
  change (0 <= r_wsize al * r_comp sh t g al - r_comp sh t g al).
  destruct (subset_cases N al Hal) as [->|H1].
  - rewrite (comp_empty t g Ht). lra.
  - pose proof (comp_nonneg t g al Hg). unfold r_wsize. assert (1 <= INR (sumlist al)) by (apply (le_INR 1); exact H1). nra.
Qed.
End SobolOrder.
