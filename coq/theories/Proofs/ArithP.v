(* Refinement lemmas for the arithmetic kernels: C02. *)
From TN Require Export Sem.Moves Model.Arith.

Section ArithP.
Variable K : Ops.
Hypothesis Kth : laws K.
Add Ring Kring : Kth.
Local Open Scope K_scope.
Notation net := (list (score K)).

Definition hd_rl (cs : net) : nat := match cs with c :: _ => rl c | [] => O end.
Definition good (cs : net) : Prop := cs <> [] /\ chain (hd_rl cs) cs = true.

Lemma chain_wf2 (xs : net) : forall ys ra rb, chain ra xs = true -> chain rb ys = true ->
  length xs = length ys -> wf2 ra rb xs ys.
Proof.
  induction xs as [|a xs IH]; intros [|b ys] ra rb Ha Hb Hl; try discriminate; simpl; auto.
  cbn [chain] in Ha, Hb. apply andb_true_iff in Ha, Hb. destruct Ha as [Ea Ha], Hb as [Eb Hb].
  apply Nat.eqb_eq in Ea, Eb. repeat split; auto.
Qed.

Lemma chain_zipbd (xs : net) : forall ys ra rb, wf2 ra rb xs ys ->
  chain (ra + rb) (zipbd xs ys) = true.
Proof.
  induction xs as [|a xs IH]; intros [|b ys] ra rb H; simpl in *; try tauto; auto.
  destruct H as (Ea & Eb & H). subst. rewrite Nat.eqb_refl. simpl. apply IH; auto.
Qed.

Lemma chain_zipkr (xs : net) : forall ys ra rb, wf2 ra rb xs ys ->
  chain (ra * rb) (zipkr xs ys) = true.
Proof.
  induction xs as [|a xs IH]; intros [|b ys] ra rb H; simpl in *; try tauto; auto.
  destruct H as (Ea & Eb & H). subst. rewrite Nat.eqb_refl. simpl. apply IH; auto.
Qed.

Lemma clip_length sh : forall idx, length idx = length sh -> length (clip sh idx) = length sh.
Proof. induction sh; destruct idx; simpl; intros; try discriminate; auto. Qed.

Lemma clip_in_range sh : forall idx, in_range sh idx = true -> clip sh idx = idx.
Proof. induction sh; destruct idx; simpl; intros; try discriminate; auto.
  apply andb_true_iff in H. destruct H as [H1 H2]. apply Nat.ltb_lt in H1.
  rewrite Nat.mod_small by assumption. f_equal. auto. Qed.

(* ---- broadcasting ---- *)
Lemma bcast_spec (a : net) : forall b a' b', bcast a b = Some (a', b') ->
  length a' = length a /\ length b' = length b /\ length a = length b /\
  (forall r, chain r a = true -> chain r a' = true) /\
  (forall r, chain r b = true -> chain r b' = true) /\
  hd_rl a' = hd_rl a /\ hd_rl b' = hd_rl b /\
  bshape (sshape a) (sshape b) = Some (sshape a') /\ sshape b' = sshape a' /\
  (forall idx v p, evalv a' idx v p = evalv a (clip (sshape a) idx) v p) /\
  (forall idx v p, evalv b' idx v p = evalv b (clip (sshape b) idx) v p).
Proof.
  induction a as [|x a IH]; intros [|y b] a' b' H; simpl in H; try discriminate.
  - injection H as <- <-. repeat split; auto.
  - destruct (bc_count (dm x) (dm y)) as [kx|] eqn:Ex; [|discriminate].
    destruct (bc_count (dm y) (dm x)) as [ky|] eqn:Ey; [|discriminate].
    destruct (bcast a b) as [[ra rb]|] eqn:Eb; [|discriminate].
    injection H as <- <-.
    destruct (IH b ra rb Eb) as (L1 & L2 & L3 & C1 & C2 & _ & _ & S1 & S2 & E1 & E2).
    assert (Hsz: (dm x * kx = dm y * ky)%nat).
    { unfold bc_count in Ex, Ey.
      destruct (Nat.eqb_spec (dm x) (dm y)).
      - injection Ex as <-. rewrite e in *. rewrite Nat.eqb_refl in Ey. injection Ey as <-. lia.
      - destruct (Nat.eqb_spec (dm y) (dm x)); [congruence|].
        destruct (Nat.eqb_spec (dm x) 1).
        + injection Ex as <-. destruct (Nat.eqb_spec (dm y) 1); [congruence|].
          injection Ey as <-. lia.
        + destruct (Nat.eqb_spec (dm y) 1); [|discriminate]. injection Ex as <-.
          injection Ey as <-. lia. }
    unfold sshape in *.
    split; [cbn [length]; lia|]. split; [cbn [length]; lia|]. split; [cbn [length]; lia|].
    split.
    { intros r Hc. cbn [chain] in *. apply andb_true_iff in Hc. destruct Hc as [H1 H2].
      cbn [rep_mode reidx rl rr]. rewrite H1. cbn [andb]. auto. }
    split.
    { intros r Hc. cbn [chain] in *. apply andb_true_iff in Hc. destruct Hc as [H1 H2].
      cbn [rep_mode reidx rl rr]. rewrite H1. cbn [andb]. auto. }
    split; [reflexivity|]. split; [reflexivity|].
    split.
    { cbn [map bshape rep_mode reidx dm]. rewrite Ex, Ey, S1. reflexivity. }
    split.
    { cbn [map rep_mode reidx dm]. rewrite S2. f_equal. lia. }
    split.
    { intros [|i idx] v p; [reflexivity|]. cbn [evalv clip rep_mode reidx rr sl map].
      apply sumn_ext. intros q _. f_equal. apply E1. }
    { intros [|i idx] v p; [reflexivity|]. cbn [evalv clip rep_mode reidx rr sl map].
      apply sumn_ext. intros q _. f_equal. apply E2. }
Qed.

Lemma eval_clip (a a' : net) :
  a <> [] -> length a' = length a -> hd_rl a' = hd_rl a ->
  (forall idx v p, evalv a' idx v p = evalv a (clip (sshape a) idx) v p) ->
  forall idx, eval a' idx = eval a (clip (sshape a) idx).
Proof.
  intros Hne Hl Hh E idx. destruct a as [|x a]; [congruence|]. destruct a' as [|x' a']; [discriminate|].
  unfold eval. simpl in Hh. rewrite Hh. apply sumn_ext. intros p _. apply E.
Qed.

Lemma sshape_zipbd (xs : net) : forall ys, sshape ys = sshape xs -> sshape (zipbd xs ys) = sshape xs.
Proof. induction xs as [|a xs IH]; intros [|b ys] H; simpl in *; try discriminate; auto.
  injection H as H1 H2. f_equal. auto. Qed.
Lemma sshape_zipkr (xs : net) : forall ys, sshape ys = sshape xs -> sshape (zipkr xs ys) = sshape xs.
Proof. induction xs as [|a xs IH]; intros [|b ys] H; simpl in *; try discriminate; auto.
  injection H as H1 H2. f_equal. auto. Qed.

Lemma sshape_length (cs : net) : length (sshape cs) = length cs.
Proof. apply map_length. Qed.

(* ---- addition and multiplication of two networks ---- *)
Theorem add_net_sound (a b cs : net) : good a -> good b -> add_net a b = Some cs ->
  good cs /\ bshape (sshape a) (sshape b) = Some (sshape cs) /\
  forall idx, length idx = length cs ->
    eval cs idx = eval a (clip (sshape a) idx) + eval b (clip (sshape b) idx).
Proof.
  intros [Hna Hca] [Hnb Hcb] H. unfold add_net in H.
  destruct (bcast a b) as [[a' b']|] eqn:Eb; [|discriminate]. injection H as <-.
  destruct (bcast_spec a b a' b' Eb) as (L1 & L2 & L3 & C1 & C2 & H1 & H2 & S1 & S2 & E1 & E2).
  assert (Hna': a' <> []) by (destruct a'; [destruct a; [congruence|discriminate]|discriminate]).
  assert (Hw: wf2 (hd_rl a') (hd_rl b') a' b').
  { apply chain_wf2; [rewrite H1; auto|rewrite H2; auto|lia]. }
  assert (Hlen: length (zipbd a' b') = length a').
  { rewrite <- !sshape_length, sshape_zipbd; auto. }
  split; [split|split].
  - destruct a' as [|x a'], b' as [|y b']; try congruence; try discriminate.
  - replace (hd_rl (zipbd a' b')) with (hd_rl a' + hd_rl b')%nat.
    + apply chain_zipbd; auto.
    + destruct a' as [|x a'], b' as [|y b']; try congruence; try discriminate. reflexivity.
  - rewrite sshape_zipbd; auto.
  - intros idx Hl. rewrite L2_eval; auto; try lia.
    rewrite (eval_clip a a'), (eval_clip b b'); auto; lia.
Qed.

Theorem mul_net_sound (a b cs : net) : good a -> good b -> mul_net a b = Some cs ->
  good cs /\ bshape (sshape a) (sshape b) = Some (sshape cs) /\
  forall idx, length idx = length cs ->
    eval cs idx = eval a (clip (sshape a) idx) * eval b (clip (sshape b) idx).
Proof.
  intros [Hna Hca] [Hnb Hcb] H. unfold mul_net in H.
  destruct (bcast a b) as [[a' b']|] eqn:Eb; [|discriminate]. injection H as <-.
  destruct (bcast_spec a b a' b' Eb) as (L1 & L2 & L3 & C1 & C2 & H1 & H2 & S1 & S2 & E1 & E2).
  assert (Hna': a' <> []) by (destruct a'; [destruct a; [congruence|discriminate]|discriminate]).
  assert (Hw: wf2 (hd_rl a') (hd_rl b') a' b').
  { apply chain_wf2; [rewrite H1; auto|rewrite H2; auto|lia]. }
  assert (Hlen: length (zipkr a' b') = length a').
  { rewrite <- !sshape_length, sshape_zipkr; auto. }
  split; [split|split].
  - destruct a' as [|x a'], b' as [|y b']; try congruence; try discriminate.
  - replace (hd_rl (zipkr a' b')) with (hd_rl a' * hd_rl b')%nat.
    + apply chain_zipkr; auto.
    + destruct a' as [|x a'], b' as [|y b']; try congruence; try discriminate. reflexivity.
  - rewrite sshape_zipkr; auto.
  - intros idx Hl. rewrite L3_eval; auto; try lia.
    rewrite (eval_clip a a'), (eval_clip b b'); auto; lia.
Qed.

(* ---- scalar multiplication ---- *)
Lemma evalv_smul (phis : list K) : forall (a : net) idx v p,
  length phis = length a -> length idx = length a ->
  evalv (smul_net phis a) idx v p = prodl phis * evalv a idx v p.
Proof.
  induction phis as [|f phis IH]; intros [|s a] idx v p Hl Hi; try discriminate.
  - destruct idx; [|discriminate]. simpl. ring.
  - destruct idx as [|i idx]; [discriminate|].
    cbn [smul_net evalv scale rr sl prodl].
    rewrite (sumn_ext _ _ (fun q => (f * prodl phis) * (sl s i p q * evalv a idx v q))).
    2:{ intros q _. rewrite IH by (simpl in *; lia). ring. }
    rewrite sumn_mul_l by assumption. reflexivity.
Qed.

Lemma smul_net_shape (phis : list K) : forall (a : net),
  sshape (smul_net phis a) = sshape a /\ length (smul_net phis a) = length a /\
  hd_rl (smul_net phis a) = hd_rl a /\ forall r, chain r (smul_net phis a) = chain r a.
Proof.
  induction phis as [|f phis IH]; intros [|s a]; try (repeat split; reflexivity).
  destruct (IH a) as (S & L & H & C). cbn [smul_net sshape map length hd_rl].
  split; [cbn [scale dm]; unfold sshape in S; rewrite S; reflexivity|].
  split; [rewrite L; reflexivity|]. split; [reflexivity|].
  intros r. cbn [chain scale rl rr]. rewrite C. reflexivity.
Qed.

Theorem smul_net_sound (phis : list K) (a : net) : good a -> length phis = length a ->
  good (smul_net phis a) /\ sshape (smul_net phis a) = sshape a /\
  forall idx, length idx = length a -> eval (smul_net phis a) idx = prodl phis * eval a idx.
Proof.
  intros [Hn Hc] Hl. destruct (smul_net_shape phis a) as (S & L & H & C).
  split; [split|split]; auto.
  - destruct a; [congruence|]. destruct phis; simpl; discriminate.
  - rewrite H, C. exact Hc.
  - intros idx Hi. destruct a as [|s a]; [congruence|]. destruct phis as [|f phis]; [discriminate|].
    unfold eval. cbn [smul_net scale rl].
    rewrite <- sumn_mul_l by assumption. apply sumn_ext. intros p _.
    apply (evalv_smul (f :: phis) (s :: a)); auto.
Qed.

Lemma prodl_repeat_1 n : prodl (repeat (r1 K) n) = 1.
Proof. induction n; simpl; [reflexivity|]. rewrite IHn. ring. Qed.

Lemma first_scaled_spec (c : K) n : (0 < n)%nat ->
  length (first_scaled c n) = n /\ prodl (first_scaled c n) = c.
Proof. intros H. unfold first_scaled. simpl. rewrite repeat_length, prodl_repeat_1.
  split; [lia|ring]. Qed.

(* ---- the constant tensor of scalar addition ---- *)
Lemma evalv_const1 sh : forall idx (p : nat), length idx = length sh ->
  evalv (map (const_core (r1 K)) sh) idx ones p = 1.
Proof. induction sh as [|d sh IH]; intros [|i idx] p Hl; try discriminate; [reflexivity|].
  cbn [map evalv const_core rr sl]. rewrite sumn_1 by assumption.
  rewrite IH by (simpl in Hl; lia). ring. Qed.

Lemma const_net_sound (c : K) sh : sh <> [] ->
  good (const_net c sh) /\ sshape (const_net c sh) = sh /\
  forall idx, length idx = length sh -> eval (const_net c sh) idx = c.
Proof.
  intros Hne. destruct sh as [|d sh]; [congruence|]. split; [split|split].
  - discriminate.
  - cbn [const_net hd_rl const_core rl chain rr]. rewrite Nat.eqb_refl. cbn [andb].
    clear Hne. induction sh as [|e sh IHsh]; [reflexivity|].
    cbn [map chain const_core rl rr]. rewrite Nat.eqb_refl. exact IHsh.
  - cbn [const_net sshape map const_core dm]. f_equal. clear Hne.
    induction sh as [|e sh IHsh]; [reflexivity|]. cbn [map const_core dm]. f_equal. exact IHsh.
  - intros [|i idx] Hl; [discriminate|]. unfold eval. cbn [const_net const_core rl].
    rewrite sumn_1 by assumption. cbn [evalv rr sl]. rewrite sumn_1 by assumption.
    rewrite evalv_const1 by (simpl in Hl; lia). cbn [const_core sl]. ring.
Qed.

Lemma bshape_same sh : bshape sh sh = Some sh.
Proof. induction sh as [|d sh IH]; simpl; auto. unfold bc_count. rewrite Nat.eqb_refl, IH.
  f_equal. f_equal. lia. Qed.

Lemma sshape_ne (a : net) : a <> [] -> sshape a <> [].
Proof. destruct a; simpl; congruence. Qed.

Theorem sadd_net_sound (c : K) (a cs : net) : good a -> sadd_net c a = Some cs ->
  good cs /\ sshape cs = sshape a /\
  forall idx, in_range (sshape a) idx = true -> eval cs idx = eval a idx + c.
Proof.
  intros Ha H. unfold sadd_net in H.
  destruct (const_net_sound c (sshape a) (sshape_ne a (proj1 Ha))) as (G & S & E).
  destruct (add_net_sound a _ cs Ha G H) as (G' & S' & E').
  rewrite S, bshape_same in S'. injection S' as S'.
  split; [|split]; auto.
  intros idx Hr. rewrite E'.
  - rewrite S. rewrite clip_in_range by assumption. rewrite E; auto.
    apply in_range_length in Hr. exact Hr.
  - apply in_range_length in Hr. rewrite Hr, S', sshape_length. reflexivity.
Qed.


(* ---- expression trees ---- *)
Lemma bc_count_sym d1 d2 k1 k2 : bc_count d1 d2 = Some k1 -> bc_count d2 d1 = Some k2 ->
  (d1 * k1 = d2 * k2)%nat.
Proof.
  unfold bc_count. intros Ex Ey.
  destruct (Nat.eqb_spec d1 d2).
  - injection Ex as <-. subst. rewrite Nat.eqb_refl in Ey. injection Ey as <-. lia.
  - destruct (Nat.eqb_spec d2 d1); [congruence|].
    destruct (Nat.eqb_spec d1 1).
    + injection Ex as <-. destruct (Nat.eqb_spec d2 1); [congruence|]. injection Ey as <-. lia.
    + destruct (Nat.eqb_spec d2 1); [|discriminate]. injection Ex as <-. injection Ey as <-. lia.
Qed.

Lemma bshape_clip_range s1 : forall s2 s idx, bshape s1 s2 = Some s -> in_range s idx = true ->
  in_range s1 (clip s1 idx) = true /\ in_range s2 (clip s2 idx) = true.
Proof.
  induction s1 as [|d1 s1 IH]; intros [|d2 s2] s idx H Hr; simpl in H; try discriminate.
  - injection H as <-. destruct idx; [|discriminate]. auto.
  - destruct (bc_count d1 d2) as [k1|] eqn:E1; [|discriminate].
    destruct (bc_count d2 d1) as [k2|] eqn:E2; [|discriminate].
    destruct (bshape s1 s2) as [r|] eqn:Er; [|discriminate]. injection H as <-.
    destruct idx as [|i idx]; [discriminate|]. cbn [in_range] in Hr.
    apply andb_true_iff in Hr. destruct Hr as [Hi Hr]. apply Nat.ltb_lt in Hi.
    destruct (IH s2 r idx Er Hr) as [R1 R2].
    assert (Hs := bc_count_sym d1 d2 k1 k2 E1 E2).
    cbn [clip in_range]. rewrite R1, R2, !andb_true_r. split; apply Nat.ltb_lt.
    + apply Nat.mod_upper_bound. lia.
    + apply Nat.mod_upper_bound. nia.
Qed.


(* definedness: broadcast-compatible shapes always produce a result *)
Lemma bcast_defined (a : net) : forall b s, bshape (sshape a) (sshape b) = Some s ->
  exists a' b', bcast a b = Some (a', b').
Proof.
  induction a as [|x a IH]; intros [|y b] s H; simpl in H; try discriminate.
  - eexists _, _; reflexivity.
  - cbn [bcast]. destruct (bc_count (dm x) (dm y)); [|discriminate].
    destruct (bc_count (dm y) (dm x)); [|discriminate].
    destruct (bshape (sshape a) (sshape b)) as [r|] eqn:E; [|discriminate].
    destruct (IH b r E) as (a' & b' & E'). rewrite E'. eexists _, _; reflexivity.
Qed.

Definition env_ok (env : nat -> net) (denv : nat -> dval K) : Prop :=
  forall n, good (env n) /\ denv n = (sshape (env n), eval (env n)).

Lemma good_len (a : net) : good a -> (0 < length a)%nat.
Proof. intros [H _]. destruct a; [congruence|simpl; lia]. Qed.

Lemma in_range_len_net (cs : net) idx : in_range (sshape cs) idx = true -> length idx = length cs.
Proof. intros H. apply in_range_length in H. rewrite H. apply sshape_length. Qed.

Lemma neg_scaled_sound (a : net) : good a ->
  good (smul_net (first_scaled neg1 (length a)) a) /\
  sshape (smul_net (first_scaled neg1 (length a)) a) = sshape a /\
  forall idx, length idx = length a ->
    eval (smul_net (first_scaled neg1 (length a)) a) idx = neg1 * eval a idx.
Proof.
  intros Ha. destruct (first_scaled_spec neg1 (length a) (good_len a Ha)) as [L P].
  destruct (smul_net_sound _ a Ha L) as (G & S & E). rewrite P in E. auto.
Qed.

Local Arguments smul_net : simpl never.
Local Arguments first_scaled : simpl never.
Local Arguments sadd_net : simpl never.
Local Arguments add_net : simpl never.
Local Arguments mul_net : simpl never.

Theorem interp_sound (e : expr K) : forall env denv cs, env_ok env denv ->
  interp env e = Some cs ->
  good cs /\ exists dv, dense_interp denv e = Some dv /\ fst dv = sshape cs /\
    forall idx, in_range (sshape cs) idx = true -> eval cs idx = snd dv idx.
Proof.
  induction e as [n|e1 IH1 e2 IH2|e1 IH1 e2 IH2|e1 IH1 e2 IH2|e1 IH1|c e1 IH1|c e1 IH1|c e1 IH1];
    intros env denv cs Henv H; cbn [interp dense_interp] in *.
  - injection H as <-. destruct (Henv n) as [G D]. split; auto.
    exists (denv n). rewrite D. cbn [fst snd]. auto.
  - (* add *)
    destruct (interp env e1) as [a|] eqn:E1; [|discriminate].
    destruct (interp env e2) as [b|] eqn:E2; [|discriminate]. cbn [obind] in H.
    destruct (IH1 env denv a Henv E1) as (Ga & da & Da & Sa & Va).
    destruct (IH2 env denv b Henv E2) as (Gb & db & Db & Sb & Vb).
    destruct (add_net_sound a b cs Ga Gb H) as (G & S & E).
    split; auto. rewrite Da, Db. cbn [obind]. unfold dbin. rewrite Sa, Sb, S.
    eexists; split; [reflexivity|]. cbn [fst snd]. split; auto.
    intros idx Hr. destruct (bshape_clip_range _ _ _ idx S Hr) as [R1 R2].
    rewrite E by (apply in_range_len_net; auto). rewrite Va, Vb by assumption. reflexivity.
  - (* sub *)
    destruct (interp env e1) as [a|] eqn:E1; [|discriminate].
    destruct (interp env e2) as [b|] eqn:E2; [|discriminate]. cbn [obind] in H.
    destruct (IH1 env denv a Henv E1) as (Ga & da & Da & Sa & Va).
    destruct (IH2 env denv b Henv E2) as (Gb & db & Db & Sb & Vb).
    destruct (neg_scaled_sound b Gb) as (Gn & Sn & En).
    destruct (add_net_sound a _ cs Ga Gn H) as (G & S & E). rewrite Sn in *.
    split; auto. rewrite Da, Db. cbn [obind]. unfold dbin. rewrite Sa, Sb, S.
    eexists; split; [reflexivity|]. cbn [fst snd]. split; auto.
    intros idx Hr. destruct (bshape_clip_range _ _ _ idx S Hr) as [R1 R2].
    rewrite E by (apply in_range_len_net; auto).
    rewrite En by (apply in_range_len_net; auto).
    rewrite Va, Vb by assumption. unfold neg1. ring.
  - (* mul *)
    destruct (interp env e1) as [a|] eqn:E1; [|discriminate].
    destruct (interp env e2) as [b|] eqn:E2; [|discriminate]. cbn [obind] in H.
    destruct (IH1 env denv a Henv E1) as (Ga & da & Da & Sa & Va).
    destruct (IH2 env denv b Henv E2) as (Gb & db & Db & Sb & Vb).
    destruct (mul_net_sound a b cs Ga Gb H) as (G & S & E).
    split; auto. rewrite Da, Db. cbn [obind]. unfold dbin. rewrite Sa, Sb, S.
    eexists; split; [reflexivity|]. cbn [fst snd]. split; auto.
    intros idx Hr. destruct (bshape_clip_range _ _ _ idx S Hr) as [R1 R2].
    rewrite E by (apply in_range_len_net; auto). rewrite Va, Vb by assumption. reflexivity.
  - (* neg *)
    destruct (interp env e1) as [a|] eqn:E1; [|discriminate]. cbn [obind] in H. injection H as <-.
    destruct (IH1 env denv a Henv E1) as (Ga & da & Da & Sa & Va).
    destruct (neg_scaled_sound a Ga) as (Gn & Sn & En).
    split; auto. rewrite Da. cbn [obind]. eexists; split; [reflexivity|].
    unfold dmap. cbn [fst snd]. rewrite Sn. split; auto.
    intros idx Hr. rewrite En by (apply in_range_len_net; auto). rewrite Va by assumption.
    unfold neg1. ring.
  - (* scalar * tensor *)
    destruct (interp env e1) as [a|] eqn:E1; [|discriminate]. cbn [obind] in H. injection H as <-.
    destruct (IH1 env denv a Henv E1) as (Ga & da & Da & Sa & Va).
    destruct (first_scaled_spec c (length a) (good_len a Ga)) as [L P].
    destruct (smul_net_sound _ a Ga L) as (G & S & E). rewrite P in E.
    split; auto. rewrite Da. cbn [obind]. eexists; split; [reflexivity|].
    unfold dmap. cbn [fst snd]. rewrite S. split; auto.
    intros idx Hr. rewrite E by (apply in_range_len_net; auto). rewrite Va by assumption.
    reflexivity.
  - (* scalar + tensor *)
    destruct (interp env e1) as [a|] eqn:E1; [|discriminate]. cbn [obind] in H.
    destruct (IH1 env denv a Henv E1) as (Ga & da & Da & Sa & Va).
    destruct (sadd_net_sound c a cs Ga H) as (G & S & E).
    split; auto. rewrite Da. cbn [obind]. eexists; split; [reflexivity|].
    unfold dmap. cbn [fst snd]. rewrite S. split; auto.
    intros idx Hr. rewrite E by assumption. rewrite Va by assumption. ring.
  - (* scalar - tensor *)
    destruct (interp env e1) as [a|] eqn:E1; [|discriminate]. cbn [obind] in H.
    destruct (IH1 env denv a Henv E1) as (Ga & da & Da & Sa & Va).
    destruct (neg_scaled_sound a Ga) as (Gn & Sn & En).
    destruct (sadd_net_sound c _ cs Gn H) as (G & S & E). rewrite Sn in *.
    split; auto. rewrite Da. cbn [obind]. eexists; split; [reflexivity|].
    unfold dmap. cbn [fst snd]. rewrite S. split; auto.
    intros idx Hr. rewrite E by assumption.
    rewrite En by (apply in_range_len_net; auto). rewrite Va by assumption. unfold neg1. ring.
Qed.

(* bridge from concrete formats: the constructor's check gives a good network *)
Lemma wf_tensor_good (t : tensor K) : wf_tensor t = true -> good (sem t).
Proof.
  unfold wf_tensor. destruct t as [|m t]; [discriminate|]. intros H.
  apply andb_true_iff in H. destruct H as [_ H]. split; [discriminate|].
  cbn [sem map hd_rl]. cbn [sem map] in H.
  replace (rl (sem_mode m)) with (c_rl (core m)); [exact H|].
  unfold sem_mode. destruct (fac m) as [[[? ?] ?]|]; reflexivity.
Qed.

Lemma sshape_sem (t : tensor K) : sshape (sem t) = shape t.
Proof. unfold sshape, sem, shape. rewrite map_map. apply map_ext. intros m.
  unfold sem_mode, m_size. destruct (fac m) as [[[? ?] ?]|]; reflexivity. Qed.

End ArithP.
