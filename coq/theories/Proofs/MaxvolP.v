(* Proofs about the model of py_maxvol (Model/Maxvol.v): the pivot loop yields a permutation; the row-swap step keeps
   "C A[index] = A", "C restricted to the chosen rows is the identity" and the distinctness of the chosen rows; the loop
   keeps them; on exit below the iteration cap every entry of C[:, :top_k] has modulus <= tol. *)
From TN Require Export Proofs.MaxvolKit.
From Coq Require Import ZArith Lia.

Section SqP.
Variable K : Ops.
Hypothesis Kth : laws K.
Add Ring KringS : Kth.
Variable inv absv : K -> K.
Variable leb : K -> K -> bool.
Hypothesis leb_total : forall x y, leb x y = false -> leb y x = true.
Hypothesis leb_trans : forall x y z, leb x y = true -> leb y z = true -> leb x z = true.
Hypothesis one_neq_zero : r1 K <> r0 K.
Local Open Scope K_scope.
Variable A : nat -> nat -> K.       (* the input matrix (any number of columns) *)

(* C is stored transposed by the code: r x N.  C^T A[index[:r]] = A *)
Definition sq_repro (C : mat K) (idx : list nat) (N r : nat) : Prop :=
  forall t c, (t < N)%nat -> sumn r (fun p => mget C p t * A (nth p idx O) c) = A t c.
(* C^T restricted to the chosen rows is the identity (and the chosen rows exist) *)
Definition sq_ident (C : mat K) (idx : list nat) (N r : nat) : Prop :=
  (forall q, (q < r)%nat -> (nth q idx O < N)%nat) /\
  forall p q, (p < r)%nat -> (q < r)%nat -> mget C p (nth q idx O) = delta p q.
Definition distinct_on (idx : list nat) (n : nat) : Prop :=
  forall p q, (p < n)%nat -> (q < n)%nat -> nth p idx O = nth q idx O -> p = q.

Lemma inv_nonzero (a ai : K) : a * ai = 1 -> a <> 0.
Proof. intros H E. rewrite E in H. apply one_neq_zero. rewrite <- H. ring. Qed.

(* ---------------------------------------------------------------- the swap step *)
Lemma upd_idx_nth idx i j q : (i < length idx)%nat -> nth q (upd i idx j) O = if (q =? i)%nat then j else nth q idx O.
Proof. intros H. rewrite nth_upd. apply Nat.ltb_lt in H. rewrite H, andb_true_r. reflexivity. Qed.

Lemma sq_update_repro C idx N r i j : (i < r)%nat -> (j < N)%nat -> (r <= length idx)%nat ->
  mget C i j * inv (mget C i j) = 1 ->
  sq_repro C idx N r -> sq_repro (sq_update K inv C r N i j) (upd i idx j) N r.
Proof.
  intros Hi Hj Hlen Hinv H t c Ht. unfold sq_update.
  set (a := mget C i j) in *. set (ai := inv a) in *.
  set (Xi := mget C i t). set (Api := A (nth i idx O) c).
  set (G := (Xi - (a * ai) * Xi + ai * Xi) * A j c - Xi * Api + (a * ai) * Xi * Api).
  rewrite (sumn_ext r _ (fun p => mget C p t * A (nth p idx O) c
                                   + (- ai * Xi) * (mget C p j * A (nth p idx O) c) + G * delta p i)).
  2:{ intros p Hp. rewrite mget_mtab by assumption. rewrite upd_idx_nth by lia.
      unfold delta. destruct (Nat.eqb_spec p i) as [->|Hne]; subst G Xi Api ai a; ring. }
  rewrite !(sumn_add Kth), (sumn_mul_l Kth). rewrite (sumn_delta_r Kth r i (fun _ => G)) by exact Hi.
  rewrite (H t c Ht), (H j c Hj). subst G. rewrite Hinv. ring.
Qed.

Lemma sq_update_ident C idx N r i j : (i < r)%nat -> (j < N)%nat -> (r <= length idx)%nat ->
  mget C i j * inv (mget C i j) = 1 ->
  sq_ident C idx N r -> sq_ident (sq_update K inv C r N i j) (upd i idx j) N r.
Proof.
  intros Hi Hj Hlen Hinv [Hb H]. split.
  - intros q Hq. rewrite upd_idx_nth by lia. destruct (q =? i)%nat; auto.
  - intros p q Hp Hq. rewrite upd_idx_nth by lia. unfold sq_update.
    set (a := mget C i j) in *. set (ai := inv a) in *.
    destruct (Nat.eqb_spec q i) as [->|Hne].
    + rewrite mget_mtab by assumption. fold a.
      transitivity (mget C p j - (a * ai) * (mget C p j - delta p i)); [ring|]. rewrite Hinv. ring.
    + rewrite mget_mtab by auto. rewrite (H p q Hp Hq), (H i q Hi Hq).
      rewrite (delta_diff K i q) by congruence. ring.
Qed.

Lemma sq_update_distinct C idx N r i j : (i < r)%nat -> (r <= length idx)%nat -> mget C i j <> 0 ->
  sq_ident C idx N r -> distinct_on idx r -> distinct_on (upd i idx j) r.
Proof.
  intros Hi Hlen Hnz [_ H] Hd p q Hp Hq. rewrite !upd_idx_nth by lia.
  destruct (Nat.eqb_spec p i) as [->|Hp']; destruct (Nat.eqb_spec q i) as [->|Hq']; intros E; auto.
  - exfalso. apply Hnz. rewrite E, (H i q Hi Hq). apply delta_diff. congruence.
  - exfalso. apply Hnz. rewrite <- E, (H i p Hi Hp). apply delta_diff. congruence.
Qed.

(* ---------------------------------------------------------------- the argmax *)
Lemma sq_argmax_range C r topk : (0 < r)%nat -> (0 < topk)%nat ->
  (fst (sq_argmax K absv leb C r topk) < r)%nat /\ (snd (sq_argmax K absv leb C r topk) < topk)%nat.
Proof.
  intros Hr Ht. unfold sq_argmax. cbn [fst snd].
  set (k := amax K leb _ _).
  assert (Hk : (k < r * topk)%nat) by (apply amax_lt; nia).
  split; [apply Nat.div_lt_upper_bound; lia | apply Nat.mod_upper_bound; lia].
Qed.

Lemma sq_argmax_max C r topk p q : (p < r)%nat -> (q < topk)%nat ->
  let ij := sq_argmax K absv leb C r topk in
  leb (absv (mget C p q)) (absv (mget C (fst ij) (snd ij))) = true.
Proof.
  intros Hp Hq. unfold sq_argmax. cbn [fst snd].
  set (f := fun k : nat => absv (mget C (k / topk) (k mod topk))).
  assert (Hk : (p * topk + q < r * topk)%nat) by nia.
  pose proof (amax_max K leb leb_total leb_trans f (r * topk) (p * topk + q) Hk) as Hm.
  unfold f at 1 in Hm. rewrite Nat.div_add_l, (Nat.div_small q topk), Nat.add_0_r in Hm by lia.
  rewrite Nat.add_comm, Nat.mod_add, (Nat.mod_small q topk) in Hm by lia. exact Hm.
Qed.

(* ---------------------------------------------------------------- the loop *)
Definition sq_inv (C : mat K) (idx : list nat) (N r : nat) : Prop :=
  sq_repro C idx N r /\ sq_ident C idx N r /\ distinct_on idx r /\ length idx = N.

Section Loop.
Variables (N r topk : nat) (tol : K).
Hypothesis Hr : (0 < r)%nat.
Hypothesis Hrn : (r <= N)%nat.
Hypothesis Htopk : (0 < topk <= N)%nat.
(* the only fact about the reciprocal that is used: entries that pass the test abs(x) > tol are invertible *)
Hypothesis Hbig : forall x, gtb K leb (absv x) tol = true -> x * inv x = 1.

Lemma sq_loop_inv fuel : forall idx C it, sq_inv C idx N r ->
  let res := sq_loop K inv absv leb fuel r N topk tol idx C it in
  sq_inv (snd (fst res)) (fst (fst res)) N r.
Proof.
  induction fuel as [|f IH]; intros idx C it Hinv; cbn [sq_loop]; [exact Hinv|].
  pose proof (sq_argmax_range C r topk Hr ltac:(lia)) as [Hi Hj].
  destruct (sq_argmax K absv leb C r topk) as [i j]. cbn [fst snd] in Hi, Hj.
  destruct (gtb K leb (absv (mget C i j)) tol) eqn:G; [|exact Hinv].
  apply IH. destruct Hinv as (H1 & H2 & H3 & H4). pose proof (Hbig _ G) as Hx.
  repeat split.
  - apply sq_update_repro; auto; lia.
  - apply (sq_update_ident C idx N r i j); auto; lia.
  - apply (sq_update_ident C idx N r i j); auto; lia.
  - apply (sq_update_distinct C idx N r i j); auto; [lia|]. exact (inv_nonzero _ _ Hx).
  - rewrite upd_length. exact H4.
Qed.

(* the stopping rule: if fewer than max_iters swaps were made, no entry of C[:, :top_k] exceeds tol *)
Lemma sq_loop_exit fuel : forall idx C it,
  let res := sq_loop K inv absv leb fuel r N topk tol idx C it in
  (snd res < it + fuel)%nat ->
  forall p q, (p < r)%nat -> (q < topk)%nat -> leb (absv (mget (snd (fst res)) p q)) tol = true.
Proof.
  induction fuel as [|f IH]; intros idx C it; cbn [sq_loop]; [cbn [snd]; lia|].
  pose proof (fun p q Hp Hq => sq_argmax_max C r topk p q Hp Hq) as Hmax. cbv zeta in Hmax.
  destruct (sq_argmax K absv leb C r topk) as [i j]. cbn [fst snd] in Hmax.
  destruct (gtb K leb (absv (mget C i j)) tol) eqn:G.
  - intros Hlt. apply IH. lia.
  - cbn [fst snd]. intros _ p q Hp Hq. unfold gtb in G. apply negb_false_iff in G.
    exact (leb_trans _ _ _ (Hmax p q Hp Hq) G).
Qed.

Lemma sq_loop_iters fuel : forall idx C it,
  (it <= snd (sq_loop K inv absv leb fuel r N topk tol idx C it) <= it + fuel)%nat.
Proof.
  induction fuel as [|f IH]; intros idx C it; cbn [sq_loop]; [cbn [snd]; lia|].
  destruct (sq_argmax K absv leb C r topk) as [i j].
  destruct (gtb K leb (absv (mget C i j)) tol); [|cbn [snd]; lia].
  specialize (IH (upd i idx j) (sq_update K inv C r N i j) (S it)). lia.
Qed.
End Loop.

(* ---------------------------------------------------------------- the pivot loop *)
Definition is_perm (l : list nat) (N : nat) : Prop :=
  length l = N /\ (forall q, (q < N)%nat -> (nth q l O < N)%nat) /\ distinct_on l N.

Lemma swap_step_nth idx i p q : (i < length idx)%nat -> (p < length idx)%nat ->
  nth q (swap_step idx i p) O = if (q =? p)%nat then nth i idx O else if (q =? i)%nat then nth p idx O else nth q idx O.
Proof.
  intros Hi Hp. unfold swap_step. rewrite nth_upd, upd_length.
  apply Nat.ltb_lt in Hp. rewrite Hp, andb_true_r. destruct (q =? p)%nat; [reflexivity|].
  apply upd_idx_nth. exact Hi.
Qed.

Lemma swap_step_perm l N i p : (i < N)%nat -> (p < N)%nat -> is_perm l N -> is_perm (swap_step l i p) N.
Proof.
  intros Hi Hp (Hl & Hb & Hd). split; [|split].
  - unfold swap_step. rewrite !upd_length. exact Hl.
  - intros q Hq. rewrite swap_step_nth by lia. destruct (q =? p)%nat; [auto|]. destruct (q =? i)%nat; auto.
  - intros a b Ha Hb'. rewrite !swap_step_nth by lia.
    destruct (Nat.eqb_spec a p) as [Ea1|Ha1]; destruct (Nat.eqb_spec b p) as [Eb1|Hb1];
    destruct (Nat.eqb_spec a i) as [Ea2|Ha2]; destruct (Nat.eqb_spec b i) as [Eb2|Hb2];
    intros E; try lia; apply Hd in E; lia.
Qed.

Lemma pivots_perm N ipiv : forall l i, Forall (fun p => (p < N)%nat) ipiv -> (i + length ipiv <= N)%nat ->
  is_perm l N -> is_perm (pivots l i ipiv) N.
Proof.
  induction ipiv as [|p t IH]; intros l i Hf Hlen Hp; cbn [pivots]; [exact Hp|].
  inversion Hf as [|? ? Hp1 Hf']; subst. cbn [length] in Hlen.
  apply IH; [exact Hf'|lia|]. apply swap_step_perm; [lia|exact Hp1|exact Hp].
Qed.

Lemma seq_perm N : is_perm (seq 0 N) N.
Proof.
  split; [apply seq_length|]. split.
  - intros q Hq. rewrite seq_nth by exact Hq. lia.
  - intros p q Hp Hq. rewrite !seq_nth by assumption. lia.
Qed.

Lemma distinct_NoDup idx n : (n <= length idx)%nat -> distinct_on idx n -> NoDup (firstn n idx).
Proof.
  intros Hl Hd. apply (NoDup_nth (firstn n idx) O). rewrite firstn_length_le by exact Hl.
  intros a b Ha Hb. rewrite !nth_firstn_lt by assumption. apply Hd; assumption.
Qed.

(* ---------------------------------------------------------------- py_maxvol, tall case *)
Theorem maxvol_post N r tol max_iters topk_arg ipiv C0 :
  (0 < r < N)%nat -> Forall (fun p => (p < N)%nat) (firstn r ipiv) ->
  let idx0 := pivots (seq 0 N) 0 (firstn r ipiv) in
  (* contract of the LAPACK oracle: the initial coefficients reproduce A from the pivot rows, identity on them *)
  sq_repro C0 idx0 N r -> sq_ident C0 idx0 N r ->
  (forall x, gtb K leb (absv x) (sq_tol K leb tol) = true -> x * inv x = 1) ->
  let res := maxvol_run K inv absv leb N r tol max_iters topk_arg ipiv C0 in
  let idx := firstn r (fst (fst res)) in let C := transpose K N r (snd (fst res)) in
  py_maxvol K inv absv leb N r tol max_iters topk_arg ipiv C0 = (idx, C) /\
  length idx = r /\ NoDup idx /\ (forall p, (p < r)%nat -> (nth p idx O < N)%nat) /\
  (forall t c, (t < N)%nat -> sumn r (fun p => mget C t p * A (nth p idx O) c) = A t c) /\
  (forall p q, (p < r)%nat -> (q < r)%nat -> mget C (nth q idx O) p = delta p q) /\
  ((snd res < max_iters)%nat -> forall t p, (t < clamp_topk topk_arg N r)%nat -> (p < r)%nat ->
      leb (absv (mget C t p)) (sq_tol K leb tol) = true).
Proof.
  intros Hrn Hf idx0 Hrep Hid Hbig res idx C.
  assert (Hp0 : is_perm idx0 N).
  { apply pivots_perm; [exact Hf| |apply seq_perm]. rewrite firstn_length. lia. }
  assert (Htk : (0 < clamp_topk topk_arg N r <= N)%nat).
  { unfold clamp_topk. destruct ((topk_arg =? -1)%Z || (Z.of_nat N <? topk_arg)%Z) eqn:E.
    - destruct (Nat.ltb_spec N r); lia.
    - apply orb_false_iff in E. destruct E as [_ E]. apply Z.ltb_ge in E.
      destruct (Nat.ltb_spec (Z.to_nat topk_arg) r); lia. }
  assert (Hinv0 : sq_inv C0 idx0 N r).
  { destruct Hp0 as (Hl & Hb & Hd). repeat split; try apply Hrep; try apply Hid; auto.
    intros p q Hp Hq. apply Hd; lia. }
  pose proof (sq_loop_inv N r (clamp_topk topk_arg N r) (sq_tol K leb tol) ltac:(lia) ltac:(lia) Htk Hbig
                max_iters idx0 C0 O Hinv0) as Hfin.
  pose proof (sq_loop_exit N r (clamp_topk topk_arg N r) (sq_tol K leb tol) ltac:(lia) ltac:(lia) Htk
                max_iters idx0 C0 O) as Hex.
  cbv zeta in Hfin, Hex. fold idx0 in Hfin, Hex.
  change (sq_loop K inv absv leb max_iters r N (clamp_topk topk_arg N r) (sq_tol K leb tol) idx0 C0 0) with res in Hfin, Hex.
  destruct Hfin as (H1 & (H2b & H2) & H3 & H4).
  assert (Hn : forall p, (p < r)%nat -> nth p idx O = nth p (fst (fst res)) O).
  { intros p Hp. apply nth_firstn_lt. exact Hp. }
  assert (HC : forall t p, (t < N)%nat -> (p < r)%nat -> mget C t p = mget (snd (fst res)) p t).
  { intros t p Ht Hp. unfold C, transpose. rewrite mget_mtab by assumption. reflexivity. }
  split; [|split; [|split; [|split; [|split; [|split]]]]].
  - unfold py_maxvol. destruct (Nat.leb_spec N r); [lia|]. fold res.
    destruct res as [[ix Cx] itx]. reflexivity.
  - unfold idx. apply firstn_length_le. lia.
  - apply distinct_NoDup; [lia|exact H3].
  - intros p Hp. rewrite Hn by exact Hp. apply H2b. exact Hp.
  - intros t c Ht. rewrite <- (H1 t c Ht). apply sumn_ext. intros p Hp.
    rewrite HC, Hn by assumption. reflexivity.
  - intros p q Hp Hq. rewrite Hn by exact Hq. rewrite HC by auto. apply H2; assumption.
  - intros Hlt t p Ht Hp. rewrite HC by (try assumption; lia). apply Hex; [lia|exact Hp|exact Ht].
Qed.

(* consequence for the "non-singular submatrix" clause: every vector annihilated by the chosen rows is annihilated by
   all rows of A; for A of full column rank the chosen r x r submatrix therefore has trivial kernel *)
Theorem repro_kernel (C : mat K) (idx : list nat) (N k m : nat) (x : nat -> K) :
  (forall t c, (t < N)%nat -> sumn k (fun p => mget C t p * A (nth p idx O) c) = A t c) ->
  (forall p, (p < k)%nat -> sumn m (fun c => A (nth p idx O) c * x c) = 0) ->
  forall t, (t < N)%nat -> sumn m (fun c => A t c * x c) = 0.
Proof.
  intros Hrep Hker t Ht.
  rewrite (sumn_ext m _ (fun c => sumn k (fun p => mget C t p * (A (nth p idx O) c * x c)))).
  2:{ intros c _. rewrite <- (Hrep t c Ht). rewrite <- (sumn_mul_r Kth). apply sumn_ext. intros; ring. }
  rewrite (sumn_exch Kth). apply (sumn_zero_ext Kth). intros p Hp. rewrite (sumn_mul_l Kth), (Hker p Hp). ring.
Qed.


(* ---------------------------------------------------------------- chosen rows lie among the first top_k rows *)
Definition below (l : list nat) (n m : nat) : Prop := forall q, (q < n)%nat -> (nth q l O < m)%nat.

Lemma swap_step_below l m i p : (m <= length l)%nat -> (i < m)%nat -> (p < m)%nat -> below l m m -> below (swap_step l i p) m m.
Proof.
  intros Hl Hi Hp Hb q Hq. rewrite swap_step_nth by lia.
  destruct (q =? p)%nat; [apply Hb; lia|]. destruct (q =? i)%nat; apply Hb; lia.
Qed.

Lemma pivots_below m ipiv : forall l i, Forall (fun p => (p < m)%nat) ipiv -> (i + length ipiv <= m)%nat ->
  (m <= length l)%nat -> below l m m -> below (pivots l i ipiv) m m.
Proof.
  induction ipiv as [|p t IH]; intros l i Hf Hlen Hl Hb; cbn [pivots]; [exact Hb|].
  inversion Hf as [|? ? Hp1 Hf']; subst. cbn [length] in Hlen.
  apply IH; [exact Hf'|lia| |apply swap_step_below; auto; lia].
  unfold swap_step. rewrite !upd_length. exact Hl.
Qed.

Lemma sq_loop_below (N r topk : nat) (tol : K) fuel : (0 < r)%nat -> (0 < topk)%nat -> forall idx C it,
  below idx r topk -> below (fst (fst (sq_loop K inv absv leb fuel r N topk tol idx C it))) r topk.
Proof.
  intros Hr Ht. induction fuel as [|f IH]; intros idx C it Hb; cbn [sq_loop]; [exact Hb|].
  pose proof (sq_argmax_range C r topk Hr Ht) as [Hi Hj].
  destruct (sq_argmax K absv leb C r topk) as [i j]. cbn [fst snd] in Hi, Hj.
  destruct (gtb K leb (absv (mget C i j)) tol); [|exact Hb].
  apply IH. intros q Hq. rewrite nth_upd. destruct ((q =? i)%nat && (i <? length idx)%nat); [exact Hj|apply Hb; exact Hq].
Qed.

Theorem maxvol_below N r tol max_iters topk_arg ipiv C0 :
  (0 < r < N)%nat -> Forall (fun p => (p < clamp_topk topk_arg N r)%nat) (firstn r ipiv) ->
  let res := maxvol_run K inv absv leb N r tol max_iters topk_arg ipiv C0 in
  forall p, (p < r)%nat -> (nth p (firstn r (fst (fst res))) O < clamp_topk topk_arg N r)%nat.
Proof.
  intros Hrn Hf res p Hp. rewrite nth_firstn_lt by exact Hp.
  assert (Htk : (r <= clamp_topk topk_arg N r <= N)%nat).
  { unfold clamp_topk. destruct ((topk_arg =? -1)%Z || (Z.of_nat N <? topk_arg)%Z) eqn:E.
    - destruct (Nat.ltb_spec N r); lia.
    - apply orb_false_iff in E. destruct E as [_ E]. apply Z.ltb_ge in E.
      destruct (Nat.ltb_spec (Z.to_nat topk_arg) r); lia. }
  unfold res, maxvol_run. apply sq_loop_below; try lia.
  intros q Hq. apply (pivots_below (clamp_topk topk_arg N r)); try lia; try exact Hf.
  - rewrite firstn_length. lia.
  - rewrite seq_length. lia.
  - intros q' Hq'. rewrite seq_nth by lia. lia.
Qed.

(* ---------------------------------------------------------------- not-tall inputs *)
Theorem maxvol_not_tall N r tol max_iters topk_arg ipiv C0 : (N <= r)%nat ->
  py_maxvol K inv absv leb N r tol max_iters topk_arg ipiv C0 = (seq 0 N, eye N).
Proof. intros H. unfold py_maxvol. apply Nat.leb_le in H. rewrite H. reflexivity. Qed.

Theorem rect_maxvol_not_tall c105 N r tol maxK madd minK si ident topk_arg ipiv C0 : (N <= r)%nat ->
  py_rect_maxvol K inv absv leb c105 N r tol maxK madd minK si ident topk_arg ipiv C0 = (seq 0 N, eye N).
Proof. intros H. unfold py_rect_maxvol. apply Nat.leb_le in H. rewrite H. reflexivity. Qed.

(* all rows, and the identity reproduces A *)
Theorem not_tall_post N : NoDup (seq 0 N) /\ length (seq 0 N) = N /\
  forall t c, (t < N)%nat -> sumn N (fun p => mget (eye (K:=K) N) t p * A (nth p (seq 0 N) O) c) = A t c.
Proof.
  split; [apply seq_NoDup|]. split; [apply seq_length|]. intros t c Ht.
  rewrite (sumn_ext N _ (fun p => delta t p * A p c)).
  - exact (sumn_delta Kth N t (fun p => A p c) Ht).
  - intros p Hp. unfold eye. rewrite mget_mtab, seq_nth by assumption. reflexivity.
Qed.

End SqP.
