"""C19: TTMatrix / CPMatrix act like the dense matrices they compress.

Matrices are given either as dense integer arrays (nested lists) together with a factorisation of the row and column
sizes, or as explicit integer cores (TT-matrix core: r x i x o x r', batch: B x r x i x o x r'; CP-matrix core: i x o x R).
The specification is NumPy only: the dense matrix of explicit cores is assembled by dense_ttm / dense_cpm below, Kronecker
products by np.kron, determinants / inverses / Cholesky factors by numpy.linalg on the dense Kronecker product.
When the implementation builds the cores itself (TT-SVD / ALS with arbitrary ranks) its cores are read back and
decompressed with the same NumPy routines, so products and traces are still compared with an independent dense matrix.
"""
from lib import *

INF = 10 ** 9


# --------------------------------------------------------------------------- dense views (NumPy only)

def dense_ttm(cores):
    """cores: list of arrays r x i x o x r' -> (prod i) x (prod o) matrix, block 0 most significant"""
    cur = np.ones((1, 1, 1))
    for G in cores:
        G = np.asarray(G, dtype=np.float64)
        a, b, _ = cur.shape
        cur = np.einsum("abr,rios->aibos", cur, G).reshape(a * G.shape[1], b * G.shape[2], G.shape[3])
    return cur.sum(axis=2)


def dense_cpm(cores):
    """cores: list of arrays i x o x R -> dense matrix"""
    R = np.asarray(cores[0]).shape[-1]
    cur = np.ones((1, 1, R))
    for G in cores:
        G = np.asarray(G, dtype=np.float64)
        a, b, _ = cur.shape
        cur = np.einsum("abr,ior->aibor", cur, G).reshape(a * G.shape[0], b * G.shape[1], R)
    return cur.sum(axis=2)


def kron_all(blocks):
    M = np.ones((1, 1))
    for Bk in blocks:
        M = np.kron(M, np.asarray(Bk, dtype=np.float64))
    return M


def int_det(K):
    """exact determinant of an integer matrix (Bareiss, Python integers)"""
    A = [[int(round(x)) for x in row] for row in np.asarray(K).tolist()]
    n = len(A)
    sign = 1; prev = 1
    for k in range(n - 1):
        if A[k][k] == 0:
            sw = next((i for i in range(k + 1, n) if A[i][k] != 0), None)
            if sw is None:
                return 0
            A[k], A[sw] = A[sw], A[k]; sign = -sign
        for i in range(k + 1, n):
            for j in range(k + 1, n):
                A[i][j] = (A[i][j] * A[k][k] - A[i][k] * A[k][j]) // prev
        prev = A[k][k]
    return sign * A[n - 1][n - 1]


def facts(n, k):
    if k == 1:
        return [[n]]
    out = []
    for d in range(1, n + 1):
        if n % d == 0:
            for rest in facts(n // d, k - 1):
                out.append([d] + rest)
    return out


def full_ranks(ind, outd):
    d = len(ind)
    s = [ind[j] * outd[j] for j in range(d)]
    return [min(int(np.prod(s[:k + 1])), int(np.prod(s[k + 1:]))) for k in range(d - 1)]


def unfold_ranks(M, ind, outd):
    """numerical ranks of the unfoldings (s_0..s_k) x (s_{k+1}..) of the interleaved tensor of the matrix M"""
    d = len(ind)
    T = np.asarray(M, dtype=np.float64).reshape(list(ind) + list(outd))
    T = T.transpose([x for j in range(d) for x in (j, d + j)]).reshape([ind[j] * outd[j] for j in range(d)])
    out = []
    for k in range(d - 1):
        A = T.reshape(int(np.prod(T.shape[:k + 1])), -1)
        s = np.linalg.svd(A, compute_uv=False)
        out.append(int(np.sum(s > 1e-9 * max(s[0], 1e-300))) if s[0] > 1e-12 else 0)
    return out


def sim_kept_ranks(ind, outd, ranks):
    """ranks kept by the TT rounding of the full-rank interleaved tensor with limits `ranks` (shape bookkeeping only;
    used to tag batch constructions that keep an exactly null singular value: open finding C18 round-tt-null)"""
    d = len(ind)
    s = [ind[j] * outd[j] for j in range(d)]
    r = [1]
    rows, cols = s[0], int(np.prod(s[1:]))
    for n in range(1, d):
        r.append(min(rows, cols)); rows, cols = r[-1] * s[n], cols // s[n]
    r.append(1)
    for i in range(d - 1):
        r[i + 1] = min(r[i] * s[i], r[i + 1])
    kept = {}
    for mu in range(d - 1, 0, -1):
        L = min(r[mu], s[mu] * r[mu + 1])
        kept[mu] = max(1, min(ranks[mu - 1], L)); r[mu] = kept[mu]
    return [kept[mu] for mu in range(1, d)]


# --------------------------------------------------------------------------- case pieces

def rmat(rng, n, m, lo=-2, hi=2):
    return [[rng.randint(lo, hi) for _ in range(m)] for _ in range(n)]


def rand_ttm_cores(rng, ind, outd, maxr=3, lo=-2, hi=2, ranks=None):
    d = len(ind)
    r = [1] + ([rng.randint(1, maxr) for _ in range(d - 1)] if ranks is None else list(ranks)) + [1]
    return [[[[[rng.randint(lo, hi) for _ in range(r[k + 1])] for _ in range(outd[k])] for _ in range(ind[k])]
             for _ in range(r[k])] for k in range(d)]


def rand_block(rng, n, kind):
    """integer n x n block; 'reg': invertible and well conditioned, 'spd': symmetric positive definite, 'sing': singular"""
    while True:
        A = np.array(rmat(rng, n, n, -2, 2))
        if kind == "spd":
            return (A @ A.T + np.eye(n, dtype=int) * rng.randint(1, 2)).astype(int).tolist()
        if kind == "sing":
            if n == 1:
                return [[0]]
            A[-1] = A[0] * rng.choice([0, 1, -2])
            return A.tolist()
        if kind == "neg":            # negative determinant
            A = A + np.eye(n, dtype=int) * 3
            if np.linalg.det(A) > 0.5:
                A[0] = -A[0]
            if np.linalg.det(A) < -0.5:
                return A.tolist()
            continue
        A = A + np.eye(n, dtype=int) * rng.choice([3, -3, 4])
        if abs(np.linalg.det(A)) > 0.5 and np.linalg.cond(A) < 50:
            return A.tolist()


def T(x):
    return torch.tensor(x, dtype=torch.float64)


def tl(x):
    return x.detach().double().tolist()


class Prop:
    ID = "C19"
    LEVEL = "proof"
    COQ_HEADER = "From TN Require Import Harness.H_C19.\nFrom Coq Require Import QArith.\n"; CHECK_FN = "check"
    RULE = ("row/column sizes factorised into d=1..4 factors (all ordered factorisation pairs with sizes <= 6 and d <= 3 in the "
            "thorough tier, a seeded sample of them plus random d<=4 factors 1..3 in the quick tier, unequal row and column "
            "factors, factors 1 included); TTMatrix from a dense integer matrix with sufficient ranks (round trip), with random "
            "smaller ranks and with ranks above full; batch stacks of 1..3 matrices; TTMatrix from explicit integer cores with "
            "ranks 1..3 (batch and non-batch): torch(), trace (square per core; square only overall), tt_multiply with 1..3 "
            "vectors as 2-way and 3-way arrays; CPMatrix from a dense matrix (d=2, full rank: round trip; d=1..3 any rank: "
            "consistency) and from explicit integer cores: torch(), cp_multiply; Kronecker routines determinant / "
            "slog_determinant / inv / cholesky on tuples of 1..4 square integer blocks of sizes 1..3 (regular, negative "
            "determinant, singular, SPD), batch and non-batch, given as rank-1 cores or built from the dense Kronecker product; "
            "error clause: some rank > 1, non-square blocks with square or non-square total. Non-trivial = no error and a "
            "non-zero result; distinct = distinct (operation, dims, ranks/blocks kind, batch, argument shape).")
    TRUSTED = ["numpy.linalg (inv, cholesky, svd) on the dense matrices; exact integer (Bareiss) determinant of the dense Kronecker product", "dense_ttm / dense_cpm / np.kron in this file "
               "as the meaning of explicit cores (block 0 most significant, as stated in the class docstrings)"]
    ASSUMPTIONS = ["for cores computed by the implementation (TT-SVD with arbitrary ranks, CP-ALS) the products and traces are compared "
                   "with the NumPy decompression of the cores the implementation returned; equality with the original matrix is required "
                   "only with sufficient TT ranks, or for CP with two factors and full rank",
                   "CPMatrix objects with explicit cores are created by setting the documented attributes (cores, input_dims, output_dims, d) "
                   "because the constructor only accepts a dense matrix",
                   "trace of a matrix that is square only overall (row factors != column factors) may raise or must equal the dense trace",
                   "Cholesky and inverse are compared at 1e-6 relative to the largest entry on well-conditioned integer blocks (cond < 50)"]
    THEOREMS = ["C19_tt_multiply", "C19_tt_multiply_flat", "C19_trace", "C19_trace_flat", "C19_interleave_roundtrip",
                "C19_interleave_in_range", "C19_cp_torch", "C19_cp_multiply", "C19_kron_entry", "C19_kron_mixed_product",
                "C19_kron_inverse", "C19_kron_cholesky"]

    # ------------------------------------------------------------------ generation
    def generate(self, rng, tier):
        quick = tier == "quick"
        cases = []

        def mk(op, tags=None, **kw):
            t = {"op": op}
            if "ind" in kw:
                t.update(d=len(kw["ind"]), dims="x".join(map(str, kw["ind"])) + "|" + "x".join(map(str, kw["outd"])),
                         square_cores=kw["ind"] == kw["outd"],
                         square=int(np.prod(kw["ind"])) == int(np.prod(kw["outd"])))
            t.update(tags or {})
            kw["op"] = op; kw["tags"] = t
            cases.append(kw)

        def rdims(dmax=4, fmax=3):
            d = rng.randint(1, dmax)
            f = fmax if d <= 2 else (3 if d == 3 else 2)
            return [rng.randint(1, f) for _ in range(d)], [rng.randint(1, f) for _ in range(d)]

        def vecs(I):
            b = rng.randint(1, 3)
            if rng.random() < 0.25:
                return [rmat(rng, b, I) for _ in range(rng.randint(1, 2))]      # 3-way: b2 x b x I
            return rmat(rng, b, I)

        # factorisation pairs
        pairs = []
        for I in range(1, 7):
            for O in range(1, 7):
                for d in (1, 2, 3):
                    for fi in facts(I, d):
                        for fo in facts(O, d):
                            pairs.append((fi, fo))
        if quick:
            pairs = rng.sample(pairs, 260)

        # ---- 1. TTMatrix from a dense matrix
        def dense_case(ind, outd, B, mode):
            I, O = int(np.prod(ind)), int(np.prod(outd)); d = len(ind)
            full = full_ranks(ind, outd)
            lowrank = rng.random() < 0.25
            def one():
                if lowrank:
                    return dense_ttm(rand_ttm_cores(rng, ind, outd, maxr=rng.randint(1, 2))).astype(int).tolist()
                return rmat(rng, I, O, -3, 3)
            want_clean = rng.random() < 0.8     # batch: mostly no kept null singular value (open finding round-tt-null)
            for attempt in range(30):
                M = one() if B == 0 else [one() for _ in range(B)]
                if B and rng.random() < 0.1:
                    M[rng.randrange(B)] = np.zeros((I, O), dtype=int).tolist()
                if mode == "full":
                    ranks = list(full)
                elif mode == "above":
                    ranks = [f + rng.randint(0, 2) for f in full]
                else:
                    ranks = [rng.randint(1, max(1, f)) for f in full]
                els = [M] if B == 0 else M
                ur = [unfold_ranks(m, ind, outd) for m in els]
                if B and want_clean and attempt >= 3 and d > 1:     # lower the limits to the smallest element rank
                    ranks = [max(1, min(ranks[k], min(u[k] for u in ur))) for k in range(d - 1)]
                    mode = "fitted"
                sufficient = all(all(u[k] <= ranks[k] for k in range(d - 1)) for u in ur)
                kept = sim_kept_ranks(ind, outd, ranks) if d > 1 else []
                null_kept = bool(B) and any(any(kept[k] > u[k] for k in range(d - 1)) for u in ur)
                if not (B and want_clean and null_kept):
                    break
            for obs in (("all",) if B == 0 else ("cores", "torch")):
                kf = "batch-round-tt-null" if null_kept else ("batch-ttm-torch" if obs == "torch" else "")
                mk("ttm_dense", {"batch": B, "ranks": mode, "sufficient": sufficient, "lowrank": lowrank, "observe": obs, "kf": kf},
                   M=M, ind=ind, outd=outd, ranks=ranks, v=vecs(I), batch=B, observe=obs)

        for fi, fo in pairs:
            dense_case(fi, fo, 0, "full")
        for _ in range(150 if quick else 1500):
            ind, outd = rdims()
            dense_case(ind, outd, 0, rng.choice(["full", "above", "random", "random"]))
        for _ in range(200 if quick else 2000):
            ind, outd = rdims(4, 3)
            dense_case(ind, outd, rng.randint(1, 3), rng.choice(["full", "full", "above", "random"]))

        # ---- 2. TTMatrix from explicit cores: torch, trace, tt_multiply
        for it in range(300 if quick else 3000):
            if it % 3 == 0:
                ind, outd = rdims()
            elif it % 3 == 1:
                ind, _ = rdims(); outd = list(ind)                       # square per core: trace
            else:
                ind, _ = rdims(3); outd = list(ind); rng.shuffle(outd)    # square overall, maybe not per core
            B = 0 if rng.random() < 0.65 else rng.randint(1, 3)
            d = len(ind)
            ranks = [rng.randint(1, 3) for _ in range(d - 1)]
            cores = rand_ttm_cores(rng, ind, outd, ranks=ranks) if B == 0 else \
                [rand_ttm_cores(rng, ind, outd, ranks=ranks) for _ in range(B)]
            for obs in (("all",) if B == 0 else ("cores", "torch")):
                mk("ttm_cores", {"batch": B, "maxrank": max(ranks + [1]), "observe": obs, "kf": "batch-ttm-torch" if obs == "torch" else ""},
                   cores=cores, ind=ind, outd=outd, v=vecs(int(np.prod(ind))), batch=B, observe=obs)

        # ---- 3. CPMatrix
        for fi, fo in [p for p in pairs if len(p[0]) == 2][:: (1 if not quick else 2)]:
            I, O = int(np.prod(fi)), int(np.prod(fo))
            R = min(fi[0] * fo[0], fi[1] * fo[1])
            mk("cpm_dense", {"rank": "full", "d2full": True}, M=rmat(rng, I, O, -3, 3), ind=fi, outd=fo, rank=R, v=vecs(I))
        for _ in range(80 if quick else 600):
            ind, outd = rdims(3, 3)
            I, O = int(np.prod(ind)), int(np.prod(outd))
            R = rng.randint(1, 3)
            mk("cpm_dense", {"rank": "random", "d2full": False}, M=rmat(rng, I, O, -3, 3), ind=ind, outd=outd, rank=R, v=vecs(I))
        for _ in range(150 if quick else 1500):
            ind, outd = rdims(4, 3)
            R = rng.randint(1, 3)
            cores = [[[[rng.randint(-2, 2) for _ in range(R)] for _ in range(outd[k])] for _ in range(ind[k])] for k in range(len(ind))]
            mk("cpm_cores", {"rank": R}, cores=cores, ind=ind, outd=outd, v=vecs(int(np.prod(ind))))

        # ---- 4. Kronecker routines
        kops = ["determinant", "slog_determinant", "inv", "cholesky"]
        k = 0
        for _ in range(420 if quick else 4000):
            kop = kops[k % 4]; k += 1
            d = rng.choice([1, 2, 2, 2, 3, 3, 3, 4, 4, 2, 3])
            ns = [rng.randint(1, 3 if d <= 3 else 2) for _ in range(d)]
            B = 0 if rng.random() < 0.6 else rng.randint(1, 3)
            if kop == "cholesky":
                kind = "spd"
            elif kop == "inv":
                kind = rng.choice(["reg", "reg", "neg"])
            else:
                kind = rng.choice(["reg", "neg", "sing", "spd"])
            def blocks():
                bl = [rand_block(rng, n, "reg" if kind == "sing" else kind) for n in ns]
                if kind == "sing":
                    j = rng.randrange(d); bl[j] = rand_block(rng, ns[j], "sing")
                return bl
            blk = blocks() if B == 0 else [blocks() for _ in range(B)]
            via = "cores" if rng.random() < 0.75 or B or kop == "cholesky" or kind == "sing" else "dense"
            mk("kron", {"kop": kop, "batch": B, "blocks": kind, "via": via, "valid": True,
                        "kf": "kron-single-block" if d == 1 else ""},
               kop=kop, blocks=blk, ind=ns, outd=list(ns), batch=B, via=via)
        # error clause
        for _ in range(120 if quick else 1000):
            kop = kops[k % 4]; k += 1
            r = rng.random()
            B = 0 if rng.random() < 0.7 else rng.randint(1, 2)
            if r < 0.45:       # some rank > 1, square cores
                d = rng.randint(2, 4); ns = [rng.randint(1, 3 if d <= 3 else 2) for _ in range(d)]
                ranks = [1] * (d - 1); ranks[rng.randrange(d - 1)] = rng.randint(2, 3)
                ind, outd = ns, list(ns); why = "rank>1"
            elif r < 0.8:      # rank 1, non-square cores, total possibly square
                d = rng.randint(1, 3)
                while True:
                    ind = [rng.randint(1, 3) for _ in range(d)]; outd = [rng.randint(1, 3) for _ in range(d)]
                    if rng.random() < 0.5 and d > 1:
                        outd = list(ind); rng.shuffle(outd)
                    if ind != outd:
                        break
                ranks = [1] * (d - 1); why = "non-square cores"
            elif r < 0.9:      # both
                d = rng.randint(2, 3); ind = [rng.randint(1, 3) for _ in range(d)]; outd = [x + 1 for x in ind]
                ranks = [2] * (d - 1); why = "rank>1 and non-square"
            else:              # inner ranks 1, square cores, but an open outer bond: a sum of Kronecker products
                d = rng.randint(1, 3); ns = [rng.randint(1, 3) for _ in range(d)]
                ind, outd = ns, list(ns); ranks = [1] * (d - 1); why = "open outer bond"
            def gen_cores():
                cs = rand_ttm_cores(rng, ind, outd, ranks=ranks, lo=1, hi=3)
                if why == "open outer bond":
                    extra = rand_ttm_cores(rng, ind, outd, ranks=ranks, lo=1, hi=3)
                    if open_first:
                        cs[0] = cs[0] + extra[0]                                  # left bond of the first core: 2
                    else:
                        cs[-1] = [[[ra + rb for ra, rb in zip(ia, ib)] for ia, ib in zip(cs[-1][0], extra[-1][0])]]   # right bond: 2
                return cs
            open_first = rng.random() < 0.5
            cores = gen_cores() if B == 0 else [gen_cores() for _ in range(B)]
            mk("kron_invalid", {"kop": kop, "batch": B, "why": why, "valid": False}, kop=kop, cores=cores, ind=ind, outd=outd, batch=B)
        return cases

    # ------------------------------------------------------------------ implementation
    def _ttm_from_cores(self, cores, ind, outd, B):
        if B == 0:
            cs = [T(c) for c in cores]
        else:
            cs = [torch.stack([T(cores[b][k]) for b in range(B)]) for k in range(len(ind))]
        return tn.TTMatrix(cs, None, list(ind), list(outd))

    def _cores_out(self, A, B):
        """cores of an implementation TTMatrix as per-element lists of r x i x o x r' arrays"""
        if B == 0:
            return [[tl(c) for c in A.cores]]
        return [[tl(c[b]) for c in A.cores] for b in range(B)]

    def run(self, case):
        op = case["op"]
        try:
            torch.manual_seed(0)
            ind, outd = list(case["ind"]), list(case["outd"])
            B = case.get("batch", 0)
            if op in ("ttm_dense", "ttm_cores"):
                if op == "ttm_dense":
                    A = tn.TTMatrix(T(case["M"]), list(case["ranks"]), ind, outd)
                else:
                    A = self._ttm_from_cores(case["cores"], ind, outd, B)
                obs = case.get("observe", "all")
                res = {"ok": True, "cores": self._cores_out(A, B), "is_batch": bool(A.batch), "ranks": [int(x) for x in A.ranks]}
                if obs in ("all", "torch"):
                    res["dense"] = tl(A.torch())
                sq_cores = ind == outd
                if obs in ("all", "cores") and int(np.prod(ind)) == int(np.prod(outd)):
                    try:
                        res["trace"] = tl(A.trace())
                    except Exception as e:
                        if sq_cores:
                            raise
                        res["trace"] = None; res["trace_err"] = type(e).__name__
                if B == 0:
                    res["mult"] = tl(tn.tt_multiply(A, T(case["v"])))
                return res
            if op in ("cpm_dense", "cpm_cores"):
                if op == "cpm_dense":
                    A = tn.CPMatrix(T(case["M"]), int(case["rank"]), ind, outd)
                else:
                    A = tn.CPMatrix.__new__(tn.CPMatrix)
                    A.cores = [T(c) for c in case["cores"]]
                    A.input_dims = torch.tensor(ind); A.output_dims = torch.tensor(outd); A.d = len(ind)
                    A.rank = A.cores[0].shape[-1]; A.batch_size = 1
                return {"ok": True, "cores": [tl(c) for c in A.cores], "dense": tl(A.torch()),
                        "mult": tl(tn.cp_multiply(A, T(case["v"])))}
            if op in ("kron", "kron_invalid"):
                if op == "kron":
                    blk = case["blocks"]
                    if case.get("via") == "dense":
                        A = tn.TTMatrix(T(kron_all(blk).tolist()), [1] * (len(ind) - 1), ind, outd)
                    else:
                        bc = lambda b: [[[[x] for x in row] for row in b]]          # 1 x n x n x 1
                        cores = [bc(b) for b in blk] if B == 0 else [[bc(b) for b in blk[i]] for i in range(B)]
                        A = self._ttm_from_cores(cores, ind, outd, B)
                else:
                    A = self._ttm_from_cores(case["cores"], ind, outd, B)
                kop = case["kop"]
                if kop == "determinant":
                    r = A.determinant()
                    return {"ok": True, "value": tl(torch.as_tensor(r))}
                if kop == "slog_determinant":
                    s, l = A.slog_determinant()
                    return {"ok": True, "sign": tl(torch.as_tensor(s)), "logdet": tl(torch.as_tensor(l))}
                R = A.inv() if kop == "inv" else A.cholesky()
                res = {"ok": True, "cores": self._cores_out(R, B), "is_batch": bool(R.batch)}
                if B == 0:
                    res["dense"] = tl(R.torch())
                return res
            raise KeyError(op)
        except Exception as e:
            return {"ok": False, "err": type(e).__name__, "msg": str(e)[:200]}

    # ------------------------------------------------------------------ specification
    def expected(self, case):
        op = case["op"]
        B = case.get("batch", 0)
        if op == "ttm_dense":
            return {"ok": True, "M": case["M"], "roundtrip": bool(case["tags"]["sufficient"])}
        if op == "ttm_cores":
            Ms = [dense_ttm(case["cores"])] if B == 0 else [dense_ttm(c) for c in case["cores"]]
            return {"ok": True, "M": (Ms[0] if B == 0 else np.stack(Ms)).tolist(), "roundtrip": True, "exact": True}
        if op == "cpm_dense":
            return {"ok": True, "M": case["M"], "roundtrip": bool(case["tags"]["d2full"])}
        if op == "cpm_cores":
            return {"ok": True, "M": dense_cpm(case["cores"]).tolist(), "roundtrip": True, "exact": True}
        if op == "kron_invalid":
            return {"ok": False, "err": "not a Kronecker product of square blocks: " + case["tags"]["why"]}
        if op == "kron":
            blks = [case["blocks"]] if B == 0 else case["blocks"]
            Ks = [kron_all(b) for b in blks]
            kop = case["kop"]
            if kop in ("determinant", "slog_determinant"):     # exact determinant of the dense integer Kronecker product
                dets = [int_det(K) for K in Ks]
                if kop == "determinant":
                    v = [float(x) for x in dets]
                    return {"ok": True, "value": v[0] if B == 0 else v}
                s = [float((x > 0) - (x < 0)) for x in dets]
                l = [math.log(abs(x)) if x != 0 else float("-inf") for x in dets]
                return {"ok": True, "sign": s[0] if B == 0 else s, "logdet": l[0] if B == 0 else l}
            f = np.linalg.inv if kop == "inv" else np.linalg.cholesky
            Rs = [f(K) for K in Ks]
            return {"ok": True, "dense": (Rs[0] if B == 0 else np.stack(Rs)).tolist()}
        raise KeyError(op)

    # ------------------------------------------------------------------ comparison
    def agree(self, case, res, exp):
        op = case["op"]
        if not exp["ok"]:
            return (not res["ok"], "an error was required (%s), got a result" % exp.get("err"))
        if not res["ok"]:
            return False, "implementation raised %s: %s" % (res.get("err"), res.get("msg"))
        B = case.get("batch", 0)
        if op in ("ttm_dense", "ttm_cores", "cpm_dense", "cpm_cores"):
            tol = 1e-9 if exp.get("exact") else 1e-6
            M = np.array(exp["M"], dtype=np.float64)
            cp = op.startswith("cpm")
            # the implementation's own cores, decompressed independently
            if cp:
                D = dense_cpm(res["cores"])
            else:
                Ds = [dense_ttm(c) for c in res["cores"]]
                D = Ds[0] if B == 0 else np.stack(Ds)
                if bool(res["is_batch"]) != bool(B):
                    return False, "batch flag of the TTMatrix is %s for %s input" % (res["is_batch"], "batch" if B else "non-batch")
            if "dense" in res and not close(res["dense"], D, tol):
                return False, "torch() differs from the matrix its cores represent (shape %s vs %s)" % (np.shape(res["dense"]), D.shape)
            if exp["roundtrip"] and not close(D, M, tol):
                return False, "decompression differs from the original matrix (max |diff| %s)" % \
                    (np.max(np.abs(D - M)) if D.shape == M.shape else "shape")
            if op == "ttm_dense":
                lim = case["ranks"]
                if any(r > l for r, l in zip(res["ranks"], lim)):
                    return False, "ranks %s exceed the requested %s" % (res["ranks"], lim)
            if exp.get("exact") and "dense" in res and canon_dense(res["dense"]) is None:
                return False, "non-integer entries for integer cores"
            if "mult" in res:
                v = np.array(case["v"], dtype=np.float64)
                want = v.reshape(-1, D.shape[-2]) @ D
                if not close(res["mult"], want, tol):
                    return False, "%s differs from v @ dense (shape %s vs %s)" % ("cp_multiply" if cp else "tt_multiply", np.shape(res["mult"]), want.shape)
            if "trace" in res:
                if res["trace"] is None:
                    return True, ""      # square only overall: refusing is allowed
                want = np.trace(D) if B == 0 else np.array([np.trace(x) for x in D])
                if not close(res["trace"], want, tol):
                    return False, "trace %s, dense trace %s" % (res["trace"], np.asarray(want).tolist())
            return True, ""
        if op == "kron":
            kop = case["kop"]
            if kop == "determinant":
                a = np.asarray(res["value"], dtype=np.float64); b = np.asarray(exp["value"], dtype=np.float64)
                if a.shape != b.shape:
                    return False, "determinant has shape %s, expected %s" % (a.shape, b.shape)
                if not np.all(np.abs(a - b) <= 1e-6 * np.maximum(1.0, np.abs(b))):
                    return False, "determinant %s, dense %s" % (a.tolist(), b.tolist())
                return True, ""
            if kop == "slog_determinant":
                s = np.asarray(res["sign"], dtype=np.float64); l = np.asarray(res["logdet"], dtype=np.float64)
                es = np.asarray(exp["sign"], dtype=np.float64); el = np.asarray(exp["logdet"], dtype=np.float64)
                if s.shape != es.shape or l.shape != el.shape:
                    return False, "slog_determinant shapes %s/%s, expected %s" % (s.shape, l.shape, es.shape)
                fin = np.isfinite(el) & (es != 0)
                # singular matrix: sign 0 / logdet -inf, or (rounding in the LU of a block) a determinant sign*exp(logdet) ~ 0
                with np.errstate(over="ignore", invalid="ignore"):
                    val = np.where(s == 0, 0.0, s * np.exp(l))
                if not np.all(np.abs(val[~fin]) <= 1e-6):
                    return False, "sign %s logdet %s for a singular matrix" % (s.tolist(), l.tolist())
                if not np.all(s[fin] == es[fin]):
                    return False, "sign %s, dense %s" % (s.tolist(), es.tolist())
                if not np.all(np.abs(l[fin] - el[fin]) <= 1e-6 * np.maximum(1.0, np.abs(el[fin]))):
                    return False, "logdet %s, dense %s" % (l.tolist(), el.tolist())
                return True, ""
            if bool(res.get("is_batch")) != bool(B):
                return False, "batch flag of the result is %s" % res.get("is_batch")
            Ds = [dense_ttm(c) for c in res["cores"]]
            D = Ds[0] if B == 0 else np.stack(Ds)
            if not close(D, exp["dense"], 1e-6):
                return False, "%s differs from the dense one" % kop
            if "dense" in res and not close(res["dense"], D, 1e-6):
                return False, "torch() of the %s result differs from the matrix its cores represent" % kop
            return True, ""
        raise KeyError(op)

    def nontrivial(self, case, res):
        if not res.get("ok"):
            return False
        for k in ("dense", "value", "logdet"):
            if k in res:
                return bool(np.any(np.abs(np.nan_to_num(np.asarray(res[k], dtype=np.float64), nan=1.0, posinf=1.0, neginf=1.0)) > 0))
        return True

    def signature(self, case):
        t = case["tags"]
        return "%s;%s;%s;%s;%s;%s;%s" % (t["op"], t.get("kop"), t.get("dims"), t.get("batch"), case.get("ranks") or t.get("rank") or t.get("blocks"),
                                        np.shape(case.get("v", [])), t.get("via"))

    def coq_term(self, case, res):
        """the cores held by the implementation's TTMatrix / CPMatrix (exact doubles as rationals) are decompressed,
        traced and multiplied by the Coq model; compared with torch(), trace(), tt_multiply / cp_multiply"""
        from fractions import Fraction
        if not res.get("ok") or case.get("batch", 0) or "dense" not in res:
            return None
        op = case["op"]
        ind, outd = list(case["ind"]), list(case["outd"])
        if int(np.prod(ind)) * int(np.prod(outd)) > 150:
            return None
        qx = lambda x: qlit(Fraction(float(x)))
        ql = lambda a: coq_list(np.array(a, dtype=float).reshape(-1).tolist(), qx, "Q")
        rows = lambda a, n: "[" + "; ".join(ql(r) for r in np.array(a, dtype=float).reshape(-1, n)) + "]"
        I, O = int(np.prod(ind)), int(np.prod(outd))
        if op in ("ttm_dense", "ttm_cores", "kron"):
            cs = res["cores"][0]
            cores = "[" + "; ".join("lit_mc %d %d %d %d %s" % (np.array(c).shape + (ql(c),)) for c in cs) + "]"
            tr = "None"
            if op != "kron" and ind == outd and res.get("trace") is not None:
                tr = "(Some %s)" % qx(res["trace"])
            if "mult" in res:
                v, m = rows(case["v"], I), rows(res["mult"], O)
            else:
                v, m = "[]", "[]"
            return "KT %s %s %s %s %s" % (cores, ql(res["dense"]), tr, v, m)
        if op in ("cpm_dense", "cpm_cores"):
            cs = res["cores"]
            R = np.array(cs[0]).shape[-1]
            cores = "[" + "; ".join("lit_cpc %d %d %d %s" % (np.array(c).shape + (ql(c),)) for c in cs) + "]"
            return "KC %d%%nat %s %s %s %s" % (R, cores, ql(res["dense"]), rows(case["v"], I), rows(res["mult"], O))
        return None
