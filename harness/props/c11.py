"""C11: assignment into a compressed tensor equals assignment into the dense array (dense shadow over histories).

Case: {"t": tensor, "steps": [{"key": KEY, "vkind": .., "value": ..}, ...], "default_dtype": ..}
  KEY   = {"top": "tuple"|"bare", "entries": [{"k":"int","v":k,"as":"int"|"np"} | {"k":"slice","a","b","s"} | {"k":"ell"}]}
  value = number                      for vkind in int / float / np64 / torch0d     (scalars)
        | {"shape": [...], "data": [flat]}   for vkind in np / torch                (dense array of that shape)
        | explicit tensor (lib.rand_tensor_json form)   for vkind == tn             (compressed value)
Specification of one step on the dense shadow x (NumPy basic-index assignment):  the key must be well formed for x
(at most one Ellipsis, not more entries than modes, integers in range) and a non-scalar value must have exactly the
selected shape; then x[key] = value.  Otherwise the assignment cannot be honoured: the implementation must raise.
Whenever the implementation raises, the assignment must be one that cannot be honoured, the dense value of t must be
unchanged and the shadow is not advanced; a well-formed assignment that raises is a violation.
"""
from lib import *

DENOM = 4   # scalar values are multiples of 1/4: everything stays exact in float64


class SpecError(Exception):
    pass


def build_key(kj):
    ents = []
    for e in kj["entries"]:
        if e["k"] == "int":
            ents.append(np.int64(e["v"]) if e.get("as") == "np" else int(e["v"]))
        elif e["k"] == "slice":
            ents.append(slice(e["a"], e["b"], e["s"]))
        elif e["k"] == "ell":
            ents.append(Ellipsis)
        else:
            raise ValueError(e["k"])
    if kj.get("top") == "bare":
        assert len(ents) == 1
        return ents[0]
    return tuple(ents)


def np_key(shape, entries):
    """validated basic-index key for an array of this shape (tuple of int / slice, Ellipsis expanded)"""
    N = len(shape)
    if sum(1 for e in entries if e["k"] == "ell") > 1:
        raise SpecError("second-ellipsis")
    real = [e for e in entries if e["k"] != "ell"]
    if len(real) > N:
        raise SpecError("too-many")
    out = []; seen = False
    for e in entries:
        if e["k"] == "ell":
            out += [slice(None)] * (N - len(real)); seen = True
        elif e["k"] == "int":
            out.append(int(e["v"]))
        else:
            if e["s"] is not None and e["s"] <= 0:
                raise SpecError("non-positive-step")
            out.append(slice(e["a"], e["b"], e["s"]))
    if not seen:
        out += [slice(None)] * (N - len(real))
    for n, k in enumerate(out):
        if isinstance(k, int) and not (-shape[n] <= k < shape[n]):
            raise SpecError("int-out-of-range")
    return tuple(out)


def sel_shape(shape, entries):
    key = np_key(shape, entries)
    return [len(range(*k.indices(s))) for k, s in zip(key, shape) if isinstance(k, slice)]


def value_dense(step):
    vk = step["vkind"]
    if vk in ("int", "float", "np64", "torch0d"):
        return None, float(step["value"])
    if vk in ("np", "torch"):
        return np.array([float(q) for q in step["value"]["data"]], dtype=np.float64).reshape(step["value"]["shape"]), None
    return dense_np(step["value"]), None


def spec_assign(x, step):
    """the dense array after the assignment, or SpecError when it cannot be honoured"""
    key = np_key(x.shape, step["key"]["entries"])
    arr, sc = value_dense(step)
    if (arr is None and not math.isfinite(sc)) or (arr is not None and not np.all(np.isfinite(arr))):
        raise SpecError("non-finite")      # a compressed tensor cannot hold inf / nan in one entry: cannot be honoured
    y = x.copy()
    if arr is None:
        y[key] = sc
        return y
    if list(arr.shape) != list(y[key].shape):
        raise SpecError("value-shape")
    y[key] = arr
    return y


def build_value(step):
    vk = step["vkind"]; v = step["value"]
    if vk == "int":
        return int(v)
    if vk == "float":
        return float(v)
    if vk == "np64":
        return np.float64(v)
    if vk == "torch0d":
        return torch.tensor(float(v), dtype=torch.float64)
    if vk == "np":
        return np.array([float(q) for q in v["data"]], dtype=np.float64).reshape(v["shape"])
    if vk == "torch":
        return torch.tensor([float(q) for q in v["data"]], dtype=torch.float64).reshape(v["shape"])
    if vk == "tn":
        return to_tn(v)
    raise ValueError(vk)


def pattern(entries):
    out = ""
    for e in entries:
        if e["k"] == "int":
            out += "i" if e["v"] >= 0 else "j"          # j: negative integer
        elif e["k"] == "ell":
            out += "e"
        else:
            out += "f" if (e["a"] is None and e["b"] is None and e["s"] in (None, 1)) else "s"
    return out


# --------------------------------------------------------------------------- generators

FULL = {"k": "slice", "a": None, "b": None, "s": None}
ELL = {"k": "ell"}
SCALARS = [7, -3, 0, 1, 0.5, -1.25, 9, 2]


def g_int(rng, size, neg=None):
    v = rng.randint(0, size - 1)
    if neg is None:
        neg = rng.random() < 0.4
    return {"k": "int", "v": v - size if neg else v, "as": "np" if rng.random() < 0.1 else "int"}


def g_slice(rng, size, allow_empty=True):
    r = rng.random()
    if r < 0.3:
        return dict(FULL)
    if r < 0.4 and allow_empty:
        grid = [None] + list(range(-size - 2, size + 3))
        return {"k": "slice", "a": rng.choice(grid), "b": rng.choice(grid), "s": rng.choice([None, 1, 2, 3])}
    lo = rng.randint(0, size - 1); hi = rng.randint(lo + 1, size)
    a = rng.choice([lo, lo, lo - size, None if lo == 0 else lo])
    b = rng.choice([hi, hi, None if hi == size else hi, hi - size if hi < size else size + rng.randint(0, 2)])
    return {"k": "slice", "a": a, "b": b, "s": rng.choice([None, None, 1, 1, 2, 3])}


def g_shape(rng, N, hi=5):
    return [rng.choice([1, 2, 3, 3, 4, 5][:hi + 1]) for _ in range(N)]


def g_tensor(rng, shape, kinds=None, special=None):
    if special == "rank1":
        return rand_tensor_json(rng, shape, kinds, maxr=1)
    if special == "bigrank":
        return rand_tensor_json(rng, shape, kinds, maxr=max(shape + [1]) + 2, maxs=max(shape + [1]) + 2)
    if special == "zero":
        return rand_tensor_json(rng, shape, kinds, maxr=2, zero=True)
    return rand_tensor_json(rng, shape, kinds, maxr=rng.choice([1, 2, 3]), maxs=rng.choice([2, 3, 6]))


NOU = [("tt", False), ("cp", False)]


def g_nou(rng, N):
    """Tucker-free formats; pure TT (the only class on which dense/compressed values are honoured) over-represented"""
    r = rng.random()
    if r < 0.35:
        return [("tt", False)] * N
    if r < 0.45:
        return [("cp", False)] * N
    return [rng.choice(NOU) for _ in range(N)]


def g_value(rng, sel, vkind):
    """a value of the given kind for a selection of shape sel (list); None when that kind cannot express it"""
    if vkind in ("int", "np64", "torch0d", "float"):
        v = rng.choice(SCALARS)
        if vkind == "int":
            v = int(rng.choice([7, -3, 0, 1, 9, 2]))
        return v
    if len(sel) == 0:
        return None
    if vkind in ("np", "torch"):
        n = int(np.prod(sel))
        return {"shape": list(sel), "data": [rng.randint(-4, 4) for _ in range(n)]}
    if 0 in sel:
        return None
    kinds = {"tn-tt": [("tt", False)] * len(sel), "tn-cp": [("cp", False)] * len(sel),
             "tn-mix": [rng.choice(NOU) for _ in sel], "tn-U": [rng.choice(KINDS) for _ in sel]}[vkind]
    if vkind == "tn-U" and not any(k[1] for k in kinds):
        kinds[rng.randrange(len(kinds))] = rng.choice([("tt", True), ("cp", True)])
    return rand_tensor_json(rng, list(sel), kinds, maxr=rng.choice([1, 2, 3]), lo=-3, hi=3)


VKINDS = ["int", "float", "np64", "torch0d", "np", "torch", "tn-tt", "tn-cp", "tn-mix", "tn-U"]


def g_step(rng, shape, entries, vkind, top="tuple"):
    sel = sel_shape(shape, entries)
    v = g_value(rng, sel, vkind)
    if v is None:
        vkind = rng.choice(["int", "float", "np64", "torch0d"]); v = g_value(rng, sel, vkind)
    vk = "tn" if vkind.startswith("tn") else vkind
    return {"key": {"top": top, "entries": entries}, "vkind": vk, "vsub": vkind, "value": v}


def g_entries(rng, shape, style=None):
    N = len(shape)
    style = style or rng.choice(["full", "full", "partial", "ell", "friendly"])
    per = [g_int(rng, s) if rng.random() < 0.4 else g_slice(rng, s) for s in shape]
    if style == "friendly":      # shapes the test-suite exercises: one integer among slices / trailing integers
        per = [g_slice(rng, s, allow_empty=False) for s in shape]
        r = rng.random()
        if r < 0.4:
            p = rng.randrange(N); per[p] = g_int(rng, shape[p])
        elif r < 0.7:
            for p in range(rng.randint(0, N - 1), N):
                per[p] = g_int(rng, shape[p])
        return per
    if style == "full":
        return per
    if style == "partial":
        return per[:rng.randint(0, N)]
    a = rng.randint(0, N); b = rng.randint(0, N - a)
    return per[:a] + [ELL] + (per[N - b:] if b else [])


class Prop:
    ID = "C11"
    LEVEL = "proof"
    COQ_HEADER = "From TN Require Import Harness.H_C11.\nFrom Coq Require Import QArith.\nOpen Scope Q_scope.\n"
    CHECK_FN = "check"
    RULE = ("(a) enumerated lattice: N=1,2 (3 sampled in quick): every format ({TT,CP}x{U,none} per mode) x every per-mode "
            "key entry kind (non-negative int, negative int, full slice, partial slice) x value kinds (scalar int/float/"
            "np.float64/0-d torch, dense ndarray / torch tensor, compressed TT / CP / mixed / with Tucker factors, all of the "
            "selected shape); (b) key grammar: partial keys, every Ellipsis position, bare keys, empty and clipped slices, "
            "steps 1..3, np.int64 integers; (c) histories of 2..5 successive assignments on the same tensor (dense shadow "
            "advanced only by honoured steps), N=1..4, incl. rank-1 / rank>size / all-zero tensors and size-1 modes; "
            "(d) malformed stream inside histories: out-of-range integer, too many entries, second Ellipsis, negative-step slice, value of a wrong "
            "(non-broadcastable) shape: must raise and leave t unchanged; (e) a sample under default dtype float32 with "
            "values needing > 24 mantissa bits. A case is non-trivial when at least one step was honoured and changed the "
            "dense value; distinct = distinct (format, shape, history of keys and value kinds).")
    TRUSTED = ["oracle: NumPy basic-index assignment on lib.dense_np(t) (harness/props/c11.py: spec_assign)",
               "exact comparison (entries and values are integers or multiples of 1/4)"]
    ASSUMPTIONS = ["keys: integers, slices with positive step, Ellipsis (no None, no index arrays); non-scalar values have exactly "
                   "the selected shape (broadcastable-but-different shapes are not tested either way)",
                   "an assignment on which the implementation raises is accepted iff it cannot be honoured (NumPy rejects it "
                   "too) and the dense value of t is unchanged afterwards; a well-formed assignment that raises is a violation",
                   "non-batch tensors only (D17 is batch-only)"]
    THEOREMS = ["C11_scalar", "C11_tensor", "C11_history"]

    def generate(self, rng, tier):
        quick = tier == "quick"
        cases = []

        def mk(tj, steps, stream, dd="float64", **tags):
            ents0 = steps[0]["key"]["entries"]
            shape = tshape(tj)
            oob = False; bad = ""
            for s in steps:
                try:
                    np_key(shape, s["key"]["entries"])
                except SpecError as e:
                    bad = str(e); oob = oob or str(e) == "int-out-of-range"
            adj = "none"      # does a non-scalar value meet integers in the key (the value-shape adjustment code)?
            for s in steps:
                if s["vkind"] in ("np", "torch", "tn"):
                    try:
                        nk = np_key(shape, s["key"]["entries"])
                    except SpecError:
                        continue
                    ints = [n for n, k in enumerate(nk) if isinstance(k, int)]
                    if any(isinstance(k, slice) for n in ints for k in nk[n + 1:]):
                        adj = "mid"
                    elif ints and adj == "none":
                        adj = "trailing"
            tags.update(value_adjust=adj)
            tags.update(op="setitem", fmt=tsig(tj), N=len(tj["modes"]), nsteps=len(steps), stream=stream, default_dtype=dd,
                        hasU=any(m["U"] is not None for m in tj["modes"]),
                        hasCP=any(m["kind"] == "cp" for m in tj["modes"]),
                        value_hasU=any(s["vkind"] == "tn" and any(m["U"] is not None for m in s["value"]["modes"]) for s in steps),
                        vkind=steps[0]["vsub"] if len(steps) == 1 else "+".join(sorted(set(s["vkind"] for s in steps))),
                        pattern=pattern(ents0), top=steps[0]["key"]["top"], oob_int=oob,
                        malformed=tags.get("malformed", bad))
            cases.append({"t": tj, "steps": steps, "default_dtype": dd, "tags": tags})

        # (a) lattice
        def lat_entry(kind, size):
            if kind == "i":
                return g_int(rng, size, neg=False)
            if kind == "j":
                return g_int(rng, size, neg=True)
            if kind == "f":
                return dict(FULL)
            return g_slice(rng, size, allow_empty=False)
        for N in (1, 2, 3):
            combos = [(f, ks) for f in itertools.product(KINDS, repeat=N) for ks in itertools.product("ijfs", repeat=N)]
            if N == 3:
                combos = rng.sample(combos, 1500 if quick else 4096)
            for f, ks in combos:
                hasU = any(k[1] for k in f)
                vks = VKINDS if not hasU else rng.sample(VKINDS, 3)
                if N == 3:
                    vks = rng.sample(vks, 1 if quick else 3)
                elif N == 2 and quick:
                    vks = rng.sample(vks, 5) if not hasU else rng.sample(vks, 2)
                for vk in vks:
                    shape = g_shape(rng, N, hi=3)
                    tj = g_tensor(rng, shape, list(f))
                    ents = [lat_entry(k, s) for k, s in zip(ks, shape)]
                    mk(tj, [g_step(rng, shape, ents, vk)], "lattice")
        # (b) key grammar on Tucker-free tensors (where the current tree can honour assignments)
        for N in (1, 2, 3, 4):
            for a in range(N + 1):
                for b in range(N + 1 - a):
                    for ell in (True, False):
                        if not ell and b:
                            continue
                        for rep in range(12 if quick else 60):
                            shape = g_shape(rng, N)
                            tj = g_tensor(rng, shape, g_nou(rng, N))
                            per = [g_int(rng, s) if rng.random() < 0.4 else g_slice(rng, s) for s in shape]
                            ents = per[:a] + ([ELL] if ell else []) + (per[N - b:] if b else [])
                            mk(tj, [g_step(rng, shape, ents, rng.choice(VKINDS))], "grammar", lead=a, trail=b, ell=ell)
        for f in KINDS:
            for rep in range(20 if quick else 100):
                N = rng.randint(1, 3); shape = g_shape(rng, N)
                kinds = [f] + [rng.choice(NOU) for _ in range(N - 1)]
                e = rng.choice([g_int(rng, shape[0]), g_slice(rng, shape[0]), ELL])
                mk(g_tensor(rng, shape, kinds), [g_step(rng, shape, [e], rng.choice(VKINDS), top="bare")], "bare")
        # empty regions
        for rep in range(100 if quick else 600):
            N = rng.randint(1, 3); shape = g_shape(rng, N)
            ents = [g_slice(rng, s) for s in shape]; p = rng.randrange(N)
            lo = rng.randint(0, shape[p])
            ents[p] = {"k": "slice", "a": lo, "b": rng.randint(0, lo), "s": None}
            mk(g_tensor(rng, shape, g_nou(rng, N)),
               [g_step(rng, shape, ents, rng.choice(["int", "float", "np", "torch"]))], "empty")
        # stepped slices: every (size, step, start) on TT and CP modes
        for size in (2, 3, 4, 5):
            for step in (2, 3):
                for start in [None] + list(range(-size, size)):
                    N = rng.choice([1, 2, 3]); p = rng.randrange(N)
                    shape = g_shape(rng, N, hi=3); shape[p] = size
                    ents = [g_int(rng, s) if rng.random() < 0.3 else g_slice(rng, s, allow_empty=False) for s in shape]
                    ents[p] = {"k": "slice", "a": start, "b": rng.choice([None, size, size - 1, -1]), "s": step}
                    mk(g_tensor(rng, shape, g_nou(rng, N)), [g_step(rng, shape, ents, rng.choice(VKINDS[:9]))], "steps",
                       size=size, step=step)
        # integers in the key together with non-scalar values (value-shape adjustment code), pure TT, N=2..4
        for N in (2, 3, 4):
            pats = [pt for pt in itertools.product("i1s", repeat=N) if "i" in pt and pt.count("i") < N]
            for pt in pats:
                for vk in (["tn-tt"] if quick else ["tn-tt", "np", "tn-mix"]):
                    shape = [rng.choice([2, 3, 4]) for _ in range(N)]
                    ents = []
                    for c, sz in zip(pt, shape):
                        if c == "i":
                            ents.append(g_int(rng, sz))
                        elif c == "1":
                            lo = rng.randrange(sz); ents.append({"k": "slice", "a": lo, "b": lo + 1, "s": None})
                        else:
                            lo = rng.randint(0, sz - 2); ents.append({"k": "slice", "a": lo, "b": rng.randint(lo + 2, sz), "s": None})
                    mk(g_tensor(rng, shape, [("tt", False)] * N), [g_step(rng, shape, ents, vk)], "int+array-value")
        # (c) histories
        def history(shape, n, vks=None, styles=None):
            return [g_step(rng, shape, g_entries(rng, shape, rng.choice(styles) if styles else None),
                           rng.choice(vks or VKINDS[:9])) for _ in range(n)]
        for special in (None, "rank1", "bigrank", "zero"):
            n = (2500 if quick else 20000) if special is None else (200 if quick else 1500)
            for _ in range(n):
                N = rng.choice([1, 2, 3, 3, 4]); shape = g_shape(rng, N, hi=4 if N < 4 else 3)
                tj = g_tensor(rng, shape, g_nou(rng, N), special)
                r = rng.random()
                vks = ["int", "float", "np64", "torch0d"] if r < 0.4 else None
                mk(tj, history(shape, rng.randint(2, 5), vks, ["friendly", "full", "friendly", "ell", "partial"]),
                   "history", special=special or "")
        # histories on tensors with Tucker factors (open defect D7) and with compressed values carrying factors
        for _ in range(150 if quick else 1000):
            N = rng.choice([1, 2, 3]); shape = g_shape(rng, N)
            kinds = [rng.choice(KINDS) for _ in range(N)]
            if not any(k[1] for k in kinds):
                kinds[rng.randrange(N)] = rng.choice([("tt", True), ("cp", True)])
            mk(g_tensor(rng, shape, kinds), history(shape, rng.randint(1, 3)), "history-U")
        for _ in range(150 if quick else 1000):
            N = rng.choice([1, 2, 3]); shape = g_shape(rng, N)
            st = history(shape, rng.randint(1, 3), ["tn-U", "tn-U", "int"], ["friendly", "full"])
            mk(g_tensor(rng, shape, g_nou(rng, N)), st, "history-valueU")
        # (d) malformed steps inside histories: valid, malformed, valid
        def malformed(kind, shape):
            N = len(shape)
            per = [g_int(rng, s) if rng.random() < 0.4 else g_slice(rng, s, allow_empty=False) for s in shape]
            vk = rng.choice(["int", "float", "np", "torch", "tn-tt"])
            if kind == "int-oob":
                p = rng.randrange(N)
                good = list(per); good[p] = {"k": "int", "v": 0, "as": "int"}
                sel = sel_shape(shape, good)      # the shape the selection would have had
                per[p] = {"k": "int", "v": rng.choice([shape[p], -shape[p] - 1, shape[p] + 2]), "as": "int"}
                vk = rng.choice(["int", "float", "np", "torch"])
                v = g_value(rng, sel, vk)
                if v is None:
                    vk = "int"; v = 7
                return {"key": {"top": "tuple", "entries": per}, "vkind": vk, "vsub": vk, "value": v}
            if kind == "too-many":
                per = per + [rng.choice([g_int(rng, 1, neg=False), dict(FULL)])]
                if rng.random() < 0.3:
                    per.insert(rng.randint(0, len(per)), ELL)
                v = g_value(rng, [], "int")
                return {"key": {"top": "tuple", "entries": per}, "vkind": "int", "vsub": "int", "value": v}
            if kind == "ell2":
                k = rng.randint(0, N); per = per[:k]
                per.insert(rng.randint(0, len(per)), ELL); per.insert(rng.randint(0, len(per)), ELL)
                return {"key": {"top": "tuple", "entries": per}, "vkind": "float", "vsub": "float", "value": 0.5}
            if kind == "value-shape":
                per = [g_slice(rng, s, allow_empty=False) for s in shape]
                if N > 1 and rng.random() < 0.5:
                    p = rng.randrange(N); per[p] = g_int(rng, shape[p])
                sel = sel_shape(shape, per)
                if not sel:
                    return None
                bad = list(sel)
                big = [q for q in range(len(sel)) if sel[q] >= 2]
                if big and rng.random() < 0.6:
                    q = rng.choice(big); bad[q] = sel[q] + rng.choice([1, 2])      # both sizes >= 2 and different
                    vbad = "size"
                else:
                    bad = sel + [2]                                                  # one dimension too many
                    vbad = "extra-dim"
                vk = rng.choice(["np", "torch", "tn-tt", "tn-cp"])
                v = g_value(rng, bad, vk)
                return {"key": {"top": "tuple", "entries": per}, "vkind": "tn" if vk.startswith("tn") else vk, "vsub": vk,
                        "value": v, "vbad": vbad}
            if kind == "nonfinite":
                vk = rng.choice(["float", "float", "np64", "torch0d", "np", "torch"])
                bad = rng.choice(["inf", "-inf", "nan"])
                if vk in ("np", "torch"):
                    per = [g_slice(rng, s, allow_empty=False) for s in shape]
                    sel = sel_shape(shape, per)
                    v = g_value(rng, sel, vk)
                    if v is None or not v["data"]:
                        return None
                    v["data"][rng.randrange(len(v["data"]))] = bad
                else:
                    v = bad
                return {"key": {"top": "tuple", "entries": per}, "vkind": vk, "vsub": vk, "value": v}
            if kind == "neg-step":
                # a slice with a negative step selects entries in NumPy but is not in the key grammar of a compressed
                # tensor: the assignment cannot be honoured and must raise (not be taken for an empty selection)
                big = [q for q in range(N) if shape[q] >= 2]
                if not big:
                    return None
                p = rng.choice(big); a = rng.randint(1, shape[p] - 1)
                per[p] = {"k": "slice", "a": rng.choice([None, a, a]), "b": rng.choice([None, rng.randint(0, a - 1)]),
                          "s": rng.choice([-1, -1, -2])}
                vk = rng.choice(["int", "float", "np64", "torch0d"])
                return {"key": {"top": "tuple", "entries": per}, "vkind": vk, "vsub": vk, "value": g_value(rng, [], vk)}
            if kind in ("int-oob-empty", "value-shape-empty"):
                if N < 2:
                    return None
                per = [g_slice(rng, s, allow_empty=False) for s in shape]
                p, q = rng.sample(range(N), 2)
                lo = rng.randint(0, shape[p])
                per[p] = {"k": "slice", "a": lo, "b": rng.randint(0, lo), "s": None}          # empty
                if kind == "int-oob-empty":
                    per[q] = {"k": "int", "v": rng.choice([shape[q], -shape[q] - 1, shape[q] + 2]), "as": "int"}
                    return {"key": {"top": "tuple", "entries": per}, "vkind": "float", "vsub": "float", "value": 7.0}
                sel = sel_shape(shape, per)
                bad = [5 if d == 0 else d for d in sel]
                vk = rng.choice(["np", "torch"])
                v = g_value(rng, bad, vk)
                return {"key": {"top": "tuple", "entries": per}, "vkind": vk, "vsub": vk, "value": v, "vbad": "empty-selection"}
        for kind in ("int-oob", "too-many", "ell2", "value-shape", "nonfinite", "int-oob-empty", "value-shape-empty", "neg-step"):
            for _ in range(250 if quick else 1500):
                N = rng.choice([1, 2, 3, 4]); shape = g_shape(rng, N, hi=4 if N < 4 else 3)
                tj = g_tensor(rng, shape, g_nou(rng, N))
                m = malformed(kind, shape)
                if m is None:
                    continue
                easy = ["int", "float", "np64", "torch0d"]
                steps = history(shape, rng.randint(0, 2), easy, ["friendly", "full"]) + [m] + \
                    history(shape, rng.randint(0, 2), easy, ["friendly", "full"])
                mk(tj, steps, "malformed", malformed=kind if kind != "value-shape" else "value-" + m["vbad"])
        # (e) default dtype float32
        sub = [c for c in cases if c["tags"]["stream"] in ("lattice", "history", "grammar") and not c["tags"]["hasU"]
               and not c["tags"]["value_hasU"]]
        for c in rng.sample(sub, min(len(sub), 500 if quick else 3000)):
            c2 = json.loads(json.dumps(c)); c2["default_dtype"] = "float32"; c2["tags"]["default_dtype"] = "float32"
            c2["big"] = True
            cases.append(c2)
        return cases

    # ------------------------------------------------------------------ execution
    BIG = 16777217  # 2^24+1

    def _case(self, case):
        """under default float32 the tensor and the values get entries that float32 cannot hold"""
        if not case.get("big"):
            return case
        c = json.loads(json.dumps(case))

        def bump(x):
            while isinstance(x[0], list):
                x = x[0]
            if x[0] != 0:
                x[0] = self.BIG
        bump(c["t"]["modes"][0]["core"])      # first core only: dense entries stay exactly representable in float64
        for s in c["steps"]:
            if s["vkind"] in ("int", "float", "np64", "torch0d"):
                if s["value"] != 0:
                    s["value"] = self.BIG
            elif s["vkind"] in ("np", "torch"):
                if s["value"]["data"]:
                    s["value"]["data"][0] = self.BIG
            else:
                bump(s["value"]["modes"][0]["core"])
        return c

    def run(self, case):
        old = torch.get_default_dtype()
        try:
            torch.set_default_dtype(torch.float32 if case.get("default_dtype") == "float32" else torch.float64)
            case = self._case(case)
            t = to_tn(case["t"])
            out = []
            for s in case["steps"]:
                rec = {}
                key = build_key(s["key"]); val = build_value(s)
                try:
                    t[key] = val
                    rec["raised"] = False
                except Exception as e:
                    rec["raised"] = True; rec["err"] = type(e).__name__; rec["msg"] = str(e)[:120]
                try:
                    d = t.torch()
                    rec["shape"] = list(d.shape); rec["dense"] = d.detach().double().reshape(-1).tolist()
                    rec["tshape"] = [int(v) for v in t.shape]
                except Exception as e:
                    rec["broken"] = "%s: %s" % (type(e).__name__, str(e)[:120])
                out.append(rec)
                if "broken" in rec:
                    break
            return {"ok": True, "steps": out}
        except Exception as e:
            return {"ok": False, "err": type(e).__name__, "msg": str(e)[:200]}
        finally:
            torch.set_default_dtype(old)

    def expected(self, case):
        """the history in which every assignment that can be honoured is honoured (agree() follows the implementation's
        own raise pattern, see module docstring)"""
        case = self._case(case)
        x = dense_np(case["t"]); out = []
        for s in case["steps"]:
            try:
                x = spec_assign(x, s)
                out.append({"must_raise": False, "shape": list(x.shape), "dense": x.reshape(-1).tolist()})
            except SpecError as e:
                out.append({"must_raise": True, "why": str(e), "shape": list(x.shape), "dense": x.reshape(-1).tolist()})
        return {"ok": True, "steps": out}

    @staticmethod
    def _same(rec, x):
        if rec["shape"] != list(x.shape) or rec["tshape"] != list(x.shape):
            return False
        a = canon_dense(rec["dense"], DENOM); b = canon_dense(x, DENOM)
        return a is not None and a == b

    def agree(self, case, res, exp):
        ok, msg = self._agree(case, res, exp)
        if ok and res.get("ok"):            # outcome statistics for the evidence file (see extra())
            st = self.__dict__.setdefault("stats", {})
            for s, rec in zip(case["steps"], res["steps"]):
                k = ("raised-unchanged:" + rec.get("err", "?") if rec["raised"] else "honoured") + ":" + s.get("vsub", s["vkind"])
                st[k] = st.get(k, 0) + 1
        return ok, msg

    def _agree(self, case, res, exp):
        if not res.get("ok") or "steps" not in res:
            return False, "harness could not run the history: %s %s" % (res.get("err"), res.get("msg"))
        case = self._case(case)
        x = dense_np(case["t"])
        for i, (s, rec) in enumerate(zip(case["steps"], res["steps"])):
            if "broken" in rec:
                return False, "step %d: t cannot be decompressed any more after the assignment (%s)" % (i, rec["broken"])
            try:
                y = spec_assign(x, s); why = None
            except SpecError as e:
                y = None; why = str(e)
            if rec["raised"]:
                if not self._same(rec, x):
                    return False, "step %d raised %s but t changed" % (i, rec.get("err"))
                if y is not None:
                    return False, "step %d: a well-formed assignment was rejected with %s (t unchanged)" % (i, rec.get("err"))
                continue
            if y is None:
                what = "did nothing" if self._same(rec, x) else "changed t"
                return False, "step %d cannot be honoured (%s) but did not raise and silently %s" % (i, why, what)
            if not self._same(rec, y):
                if self._same(rec, x):
                    return False, "step %d: assignment silently dropped (t unchanged, no error)" % i
                return False, "step %d: dense value differs from the dense assignment: got %s expected %s" % (
                    i, str(rec["dense"])[:100], str(y.reshape(-1).tolist())[:100])
            x = y
        if len(res["steps"]) != len(case["steps"]):
            return False, "history interrupted"
        return True, ""

    def nontrivial(self, case, res):
        if not res.get("ok") or "steps" not in res:
            return False
        prev = None; changed = False
        x0 = dense_np(self._case(case)["t"]).reshape(-1).tolist()
        prev = x0
        for rec in res["steps"]:
            if "dense" not in rec:
                return False
            if not rec["raised"] and rec["dense"] != prev:
                changed = True
            prev = rec["dense"]
        return changed and any(abs(v) > 0 for v in prev)

    def signature(self, case):
        return "%s;%s;%s;%s" % (case["tags"]["fmt"], tshape(case["t"]), case.get("default_dtype"),
                                json.dumps([(s["key"], s.get("vsub")) for s in case["steps"]]))

    def coq_term(self, case, res):
        """histories (at most 3 honoured steps) of scalar / dense-array assignments under default float64: the model
        replays the steps the implementation honoured (a raised step leaves the state unchanged, which agree() checks
        against the dense shadow) and must end in the implementation's final dense value."""
        from fractions import Fraction
        if not res.get("ok") or case.get("default_dtype") == "float32":
            return None
        case = self._case(case)
        tj = case["t"]; shape = tshape(tj); N = len(shape)
        if any(m["U"] is not None for m in tj["modes"]) and False:
            return None
        steps = []; last = None
        for s, rec in zip(case["steps"], res["steps"]):
            if "broken" in rec:
                return None
            last = rec
            if rec["raised"]:
                continue
            if s["vkind"] not in ("int", "float", "np64", "torch0d", "np", "torch"):
                return None
            try:
                key = np_key(shape, s["key"]["entries"])
            except SpecError:
                return None
            regs = []
            for k, I in zip(key, shape):
                if isinstance(k, slice):
                    st, sp, step = k.indices(I); cnt = len(range(st, sp, step))
                    regs.append("(%d%%nat, %d%%nat, %d%%nat)" % (st if cnt else 0, step, cnt))
                else:
                    regs.append("(%d%%nat, 1%%nat, 1%%nat)" % (k % I))
            if s["vkind"] in ("np", "torch"):
                data = [Fraction(x).limit_denominator(10 ** 6) for x in s["value"]["data"]]
                val = "VDense %s" % coq_list(data, qlit, "Q")
            else:
                val = "VScalar %s" % qlit(Fraction(s["value"]).limit_denominator(10 ** 6))
            steps.append("mkStep [%s] (%s)" % ("; ".join(regs), val))
        if last is None or not steps or len(steps) > 3:
            return None
        lit = lambda x: qlit(Fraction(x))
        qd = lambda x: "(%d#%d)" % (round(x * 2 ** 40), 2 ** 40)
        return "mkCase %s [%s] %s %s" % (coq_tensor(tj, lit, "Q"), "; ".join(steps), coq_natlist(last["shape"]),
                                        coq_list(last["dense"], qd, "Q"))

    def shrink(self, case, fails):
        """drop steps of the history while the case still fails"""
        cur = case
        changed = True
        while changed and len(cur["steps"]) > 1:
            changed = False
            for i in range(len(cur["steps"]) - 1, -1, -1):
                c2 = dict(cur, steps=cur["steps"][:i] + cur["steps"][i + 1:])
                c2["tags"] = dict(cur["tags"], nsteps=len(c2["steps"]))
                try:
                    if fails(c2):
                        cur = c2; changed = True
                        break
                except Exception:
                    pass
        return cur

    def extra(self, tier, rng):
        return {"problems": [], "violations": [],
                "coverage": {"step_outcomes_in_passing_cases": dict(sorted(self.__dict__.get("stats", {}).items()))}}
