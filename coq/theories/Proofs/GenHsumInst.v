(* hadamard_sum over the reals: the kernel model satisfies the hypothesis H_hsum of GenP *)
From TN Require Import Alg.InstR Proofs.ArithP Proofs.GenInst Proofs.HsumP.
From Coq Require Import List Lia.
Import ListNotations.
Section GenHsumInst.
Variable sh : list nat.
Hypothesis sh_ne : sh <> [].
Notation net := (list (score RO)).
Open Scope R_scope.
Notation okR := (okR sh).

Definition r_hsum (l : list net) : R := match hsum_net (K:=RO) l with Some v => v | None => 0 end.

Lemma mul_net_defined (a b : net) : okR a -> okR b -> exists c, mul_net a b = Some c.
Proof.
  intros [Ga Sa] [Gb Sb].
  destruct (bcast_defined RO a b sh) as (a' & b' & E); [rewrite Sa, Sb; apply bshape_same|].
  eexists. unfold mul_net. rewrite E. reflexivity.
Qed.

Lemma mul_all_defined (l : list net) : forall acc, okR acc -> Forall okR l -> exists r, mul_all acc l = Some r.
Proof.
  induction l as [|x l IH]; intros acc Ha Hl; cbn [mul_all]; [eexists; reflexivity|].
  inversion Hl as [|y l0 Hx Hl']; subst.
  destruct (mul_net_defined acc x Ha Hx) as (c & E). rewrite E.
  apply IH; [|exact Hl'].
  destruct Ha as [Ga Sa], Hx as [Gx Sx].
  destruct (mul_net_sound RO RO_laws acc x c Ga Gx E) as (G & B & _).
  rewrite Sa, Sx, bshape_same in B. injection B as B. split; [exact G|congruence].
Qed.

Lemma okR_hsum (l : list net) : l <> [] -> Forall okR l ->
  r_hsum l = sumR sh (fun i => fold_right (fun (x : net) acc => eval x i * acc) 1 l).
Proof.
  intros Hne Hl. unfold r_hsum.
  assert (D: exists v, hsum_net (K:=RO) l = Some v).
  { destruct l as [|x l]; [congruence|]. inversion Hl as [|y l0 Hx Hl']; subst. cbn [hsum_net].
    destruct (mul_all_defined l x Hx Hl') as (p & E). rewrite E. eexists; reflexivity. }
  destruct D as (v & E). rewrite E.
  assert (Hl2: Forall (fun x => good RO x /\ sshape x = sh) l) by exact Hl.
  rewrite (hsum_sound RO RO_laws l v sh Hl2 E).
  apply sumR_ext_in. intros i _. clear. induction l as [|x l IH]; cbn [prod_evals fold_right]; [reflexivity|].
  rewrite IH. reflexivity.
Qed.
End GenHsumInst.
