From TN Require Export Harness.HBase Sem.Fast Model.Arith.
From TN Require Export Model.Logic.
(* formulas are interpreted through the kernels exactly as the operators of the code compose them
   (~a = 1 - a; a & b = a * b; a | b = a + b - a*b; a ^ b = a + b - 2*a*b: see Gen/Generated.v) *)
Inductive bform :=
| BSym (n : nat) | BTrue | BFalse
| BPresence (which : list nat) | BAbsence (which : list nat)      (* also all / none *)
| BNot (f : bform) | BAnd (f g : bform) | BOr (f g : bform) | BXor (f g : bform).

Definition netZ := list (score ZO).
Definition oneZ : Z := 1%Z.
Fixpoint binterp (N : nat) (f : bform) : option netZ :=
  match f with
  | BSym n => Some (presence_net (K:=ZO) N [n])
  | BTrue => Some (true_net (K:=ZO) N)
  | BFalse => Some (false_net (K:=ZO) N)
  | BPresence w => Some (presence_net (K:=ZO) N w)
  | BAbsence w => Some (absence_net (K:=ZO) N w)
  | BNot f => obind (binterp N f) (fun a => sadd_net (K:=ZO) 1%Z (smul_net (first_scaled (K:=ZO) (-1)%Z (length a)) a))
  | BAnd f g => obind (binterp N f) (fun a => obind (binterp N g) (fun b => mul_net a b))
  | BOr f g => obind (binterp N f) (fun a => obind (binterp N g) (fun b =>
                 obind (add_net a b) (fun s => obind (mul_net a b) (fun p =>
                   add_net s (smul_net (first_scaled (K:=ZO) (-1)%Z (length p)) p)))))
  | BXor f g => obind (binterp N f) (fun a => obind (binterp N g) (fun b =>
                 obind (add_net a b) (fun s =>
                 obind (mul_net (smul_net (first_scaled (K:=ZO) 2%Z (length a)) a) b) (fun p =>
                   add_net s (smul_net (first_scaled (K:=ZO) (-1)%Z (length p)) p)))))
  end.

Record case := mkCase { c_N : nat; c_f : bform; c_dense : list Z }.
Definition check (c : case) : bool :=
  match binterp (c_N c) (c_f c) with
  | Some cs => list_cmp cmpZ (dense_of (eval_l cs) (repeat 2%nat (c_N c))) (c_dense c)
  | None => false
  end.
