"""C07: gradients through compressed operations equal gradients through the dense arrays.

A case is a scalar-valued expression tree (the "loss") over explicit compressed leaves, plus a mask saying which
cores / Tucker factors require gradients.  run() evaluates the tree with tntorch and differentiates it with
torch.autograd.grad; expected() rebuilds the dense arrays from the *same leaf parameters* with an independent
contraction written in plain torch (no tntorch), evaluates the same tree with dense torch operations and
differentiates that.  The two gradients must agree for every parameter that requires grad (a missing gradient
counts as zero, so a silent detach is a disagreement whenever the true gradient is non-zero).
"""
from lib import *
from fractions import Fraction

# ----------------------------------------------------------------------------------------------- helpers


def scal(c, kind):
    """the Python object handed to tntorch for the rational scalar c"""
    c = Fraction(c)
    integral = c.denominator == 1
    if kind == "int":
        return int(c) if integral else float(c)
    if kind == "float":
        return float(c)
    if kind == "np64":
        return np.float64(float(c))
    if kind == "npint":
        return np.int64(int(c)) if integral else np.float64(float(c))
    if kind == "torch0d":
        return torch.tensor(float(c), dtype=torch.float64)
    raise ValueError(kind)


def key_py(kj):
    """JSON key -> Python key.  int | {"s":[a,b,c]} | "N" | "E" | {"i":[..]}"""
    out = []
    for k in kj:
        if isinstance(k, int):
            out.append(k)
        elif k == "N":
            out.append(None)
        elif k == "E":
            out.append(Ellipsis)
        elif "s" in k:
            out.append(slice(*k["s"]))
        else:
            out.append(list(k["i"]))
    return tuple(out)


def dense_torch(cores, Us):
    """independent differentiable dense evaluation of a TT/CP/Tucker network, plain torch"""
    cur = None
    shape = []
    for c, U in zip(cores, Us):
        if c.dim() == 2:                      # CP factor (S, R) -> diagonal (R, S, R)
            R = c.shape[1]
            g = torch.einsum("sk,kl->ksl", c, torch.eye(R, dtype=c.dtype))
        else:
            g = c
        if U is not None:
            g = torch.einsum("pjq,ij->piq", g, U)
        if cur is None:
            cur = torch.ones(1, g.shape[0], dtype=g.dtype)
        shape.append(g.shape[1])
        cur = torch.einsum("ap,piq->aiq", cur, g).reshape(-1, g.shape[2])
    return cur.sum(dim=1).reshape(shape)


class Singular(Exception):
    pass


TENSOR_OPS = ("leaf", "add", "sub", "mul", "neg", "smul", "div", "sadd", "rsub", "subs", "get", "sumd", "meand",
              "dotk", "dep_sub", "dep_add", "dep_mul", "dep_div")


def _metric(api, name, a, *more):
    if api == "method" and name != "dist":
        return getattr(a, name)(*more)
    return getattr(tn, name)(a, *more)


def ev_impl(e, env, api="func"):
    op = e[0]
    if op == "leaf":
        return env[e[1]]
    if op in ("add", "sub", "mul"):
        a, b = ev_impl(e[1], env, api), ev_impl(e[2], env, api)
        return a + b if op == "add" else (a - b if op == "sub" else a * b)
    if op == "neg":
        return -ev_impl(e[1], env, api)
    if op in ("smul", "sadd"):
        s = scal(Fraction(*e[1]), e[3]); a = ev_impl(e[4], env, api)
        if op == "smul":
            return s * a if e[2] == "L" else a * s
        return s + a if e[2] == "L" else a + s
    if op == "div":
        return ev_impl(e[3], env, api) / scal(Fraction(*e[1]), e[2])
    if op == "rsub":
        return scal(Fraction(*e[1]), e[2]) - ev_impl(e[3], env, api)
    if op == "subs":
        return ev_impl(e[3], env, api) - scal(Fraction(*e[1]), e[2])
    if op == "get":
        return ev_impl(e[2], env, api)[key_py(e[1])]
    if op in ("sumd", "meand"):
        a = ev_impl(e[3], env, api)
        dims = e[1] if len(e[1]) != 1 or e[2] == "list" else e[1][0]
        f = tn.sum if op == "sumd" else tn.mean
        return f(a, dim=dims, keepdim=bool(e[4])) if api == "func" else \
            (a.sum if op == "sumd" else a.mean)(dim=dims, keepdim=bool(e[4]))
    if op == "dotk":
        return tn.dot(ev_impl(e[1], env, api), ev_impl(e[2], env, api))
    # scalar operand that itself depends on the parameters (a 0-d torch tensor produced by a metric)
    if op == "dep_sub":
        return ev_impl(e[1], env, api) - ev_impl(e[2], env, api)
    if op == "dep_add":
        return ev_impl(e[1], env, api) + ev_impl(e[2], env, api)
    if op == "dep_mul":
        return ev_impl(e[1], env, api) * ev_impl(e[2], env, api)
    if op == "dep_div":
        return ev_impl(e[1], env, api) / ev_impl(e[2], env, api)
    # scalar-valued
    if op in ("dot", "dist"):
        return _metric(api, op, ev_impl(e[1], env, api), ev_impl(e[2], env, api))
    if op in ("norm", "normsq", "sum", "mean", "var"):
        return _metric(api, op, ev_impl(e[1], env, api))
    if op == "item":
        return ev_impl(e[2], env, api)[key_py(e[1])]
    if op == "splus":
        return ev_impl(e[1], env, api) + ev_impl(e[2], env, api)
    if op == "stimes":
        return ev_impl(e[1], env, api) * ev_impl(e[2], env, api)
    if op == "sscale":
        return float(Fraction(*e[1])) * ev_impl(e[2], env, api)
    raise ValueError(op)


def ev_dense(e, env):
    """the same tree on dense torch arrays; raises Singular at a point where the loss is not differentiable"""
    op = e[0]
    if op == "leaf":
        return env[e[1]]
    if op in ("add", "sub", "mul"):
        a, b = ev_dense(e[1], env), ev_dense(e[2], env)
        if a.dim() != b.dim():
            raise ValueError("dims")
        return a + b if op == "add" else (a - b if op == "sub" else a * b)
    if op == "neg":
        return -ev_dense(e[1], env)
    if op == "smul":
        return float(Fraction(*e[1])) * ev_dense(e[4], env)
    if op == "sadd":
        return float(Fraction(*e[1])) + ev_dense(e[4], env)
    if op == "div":
        return ev_dense(e[3], env) / float(Fraction(*e[1]))
    if op == "rsub":
        return float(Fraction(*e[1])) - ev_dense(e[3], env)
    if op == "subs":
        return ev_dense(e[3], env) - float(Fraction(*e[1]))
    if op == "get":
        return ev_dense(e[2], env)[key_py(e[1])]
    if op == "sumd":
        return ev_dense(e[3], env).sum(dim=list(e[1]), keepdim=bool(e[4]))
    if op == "meand":
        return ev_dense(e[3], env).mean(dim=list(e[1]), keepdim=bool(e[4]))
    if op == "dotk":
        a, b = ev_dense(e[1], env), ev_dense(e[2], env)
        k = min(a.dim(), b.dim())
        if list(a.shape[:k]) != list(b.shape[:k]):
            raise ValueError("shape")
        la = "abcdefg"[:a.dim()]; lb = "abcdefg"[:k] + "tuvwxyz"[:b.dim() - k]
        return torch.einsum("%s,%s->%s" % (la, lb, la[k:] + lb[k:]), a, b)
    if op == "dep_sub":
        return ev_dense(e[1], env) - ev_dense(e[2], env)
    if op == "dep_add":
        return ev_dense(e[1], env) + ev_dense(e[2], env)
    if op == "dep_mul":
        return ev_dense(e[1], env) * ev_dense(e[2], env)
    if op == "dep_div":
        return ev_dense(e[1], env) / ev_dense(e[2], env)
    if op == "dot":
        a, b = ev_dense(e[1], env), ev_dense(e[2], env)
        if a.shape != b.shape:
            raise ValueError("shape")
        return (a * b).sum()
    if op == "dist":
        a, b = ev_dense(e[1], env), ev_dense(e[2], env)
        if a.shape != b.shape:
            raise ValueError("shape")
        r = ((a - b) ** 2).sum()
        if float(r) <= 1e-18 * max(1.0, float((a ** 2).sum() + (b ** 2).sum())):
            raise Singular()
        return torch.sqrt(r)
    if op == "norm":
        a = ev_dense(e[1], env)
        r = (a ** 2).sum()
        if float(r) <= 1e-18:
            raise Singular()
        return torch.sqrt(r)
    if op == "normsq":
        return (ev_dense(e[1], env) ** 2).sum()
    if op == "sum":
        return ev_dense(e[1], env).sum()
    if op == "mean":
        return ev_dense(e[1], env).mean()
    if op == "var":
        a = ev_dense(e[1], env)
        return ((a - a.mean()) ** 2).mean()
    if op == "item":
        return ev_dense(e[2], env)[key_py(e[1])]
    if op == "splus":
        return ev_dense(e[1], env) + ev_dense(e[2], env)
    if op == "stimes":
        return ev_dense(e[1], env) * ev_dense(e[2], env)
    if op == "sscale":
        return float(Fraction(*e[1])) * ev_dense(e[2], env)
    raise ValueError(op)


def subtrees(e):
    return [x for x in e[1:] if isinstance(x, list) and x and isinstance(x[0], str) and x[0] != "L" and x[0] != "R"
            and (x[0] in TENSOR_OPS or x[0] in ("dot", "dist", "norm", "normsq", "sum", "mean", "var", "item",
                                               "splus", "stimes", "sscale"))]


def ops_of(e, acc=None):
    acc = set() if acc is None else acc
    acc.add(e[0])
    for s in subtrees(e):
        ops_of(s, acc)
    return acc


def depth(e):
    st = subtrees(e)
    return 0 if not st else 1 + max(depth(s) for s in st)


def _has_int_reduction(e):
    """does the subtree remove/merge modes by an integer index, index arrays, a non-keepdim partial sum or a tensor-valued dot?
    (such results may carry an outer bond of size > 1 in the implementation)"""
    if e[0] == "get" and any(isinstance(k, int) or (isinstance(k, dict) and "i" in k) for k in e[1]):
        return True
    if e[0] in ("sumd", "meand") and not e[4]:
        return True
    if e[0] == "dotk":
        return True
    return any(_has_int_reduction(s) for s in subtrees(e))


def add1d_after_reduction(expr, shapes):
    """structural tag: the tree adds/subtracts (tensor or scalar; var subtracts the mean) 1-D operands of which one
    was obtained by removing modes.  Static, computed from the tree and the leaf shapes only."""
    env = [torch.ones(s) for s in shapes]
    hit = [False]

    def walk(e):
        for s in subtrees(e):
            walk(s)
        if e[0] in ("add", "sub", "sadd", "rsub", "subs", "var", "dep_sub", "dep_add"):
            for s in subtrees(e):
                if s[0] in TENSOR_OPS and _has_int_reduction(s):
                    try:
                        if ev_dense(s, env).dim() == 1:
                            hit[0] = True
                    except Exception:
                        pass
    walk(expr)
    return hit[0]


def build_params(env_json, mask, ctor_flags=None):
    """leaf parameters as torch tensors; requires_grad set according to mask.  Returns (cores, Us, params, where)"""
    allc, allU, params, where = [], [], [], []
    for i, tj in enumerate(env_json):
        cores = [torch.tensor(m["core"], dtype=torch.float64) for m in tj["modes"]]
        Us = [None if m["U"] is None else torch.tensor(m["U"], dtype=torch.float64) for m in tj["modes"]]
        for n, c in enumerate(cores):
            if mask[i]["cores"][n]:
                c.requires_grad_(); params.append(c); where.append("t%d.core%d" % (i, n))
        for n, U in enumerate(Us):
            if U is not None and mask[i]["Us"][n]:
                U.requires_grad_(); params.append(U); where.append("t%d.U%d" % (i, n))
        allc.append(cores); allU.append(Us)
    return allc, allU, params, where


def full_mask(tj, val=True):
    return {"cores": [val] * len(tj["modes"]), "Us": [None if m["U"] is None else val for m in tj["modes"]]}


def is_full(tj, m):
    return all(m["cores"]) and all(u for u in m["Us"] if u is not None)


# ----------------------------------------------------------------------------------------------- generation

SCALARS = [(2, 1), (-3, 1), (1, 2), (-1, 1), (1, 1), (-1, 4), (0, 1), (5, 1)]
SKINDS = ["int", "float", "np64", "npint", "torch0d"]


def rand_key(rng, shape, fancy=True, keep_dim=True):
    """a random in-range key (JSON form) and the shape it produces; result is non-empty (and has >= 1 mode)"""
    N = len(shape)
    for _ in range(50):
        ents = []; run_started = run_done = False; P = rng.randint(1, 3)
        for n in range(N):
            c = rng.choices(["int", "slice", "idx", "none"], [0.25, 0.5, 0.15 if fancy else 0, 0.1])[0]
            if c == "idx" and run_done:
                c = "slice"
            if c != "idx" and run_started:
                run_done = True
            if c == "int":
                ents.append(rng.randint(-shape[n], shape[n] - 1))
            elif c == "slice":
                a = rng.choice([None] + list(range(-shape[n], shape[n])))
                b = rng.choice([None] + list(range(-shape[n], shape[n] + 1)))
                st = rng.choice([None, None, 1, 2])
                ents.append({"s": [a, b, st]})
            elif c == "idx":
                run_started = True
                ents.append({"i": [rng.randint(-shape[n], shape[n] - 1) for _ in range(P)]})
            else:
                ents.append("N"); ents.append({"s": [None, None, None]})
        if rng.random() < 0.3:
            k = rng.randint(0, len(ents))
            # only drop trailing entries that are full slices of real modes
            tail = ents[k:]
            if all(isinstance(x, dict) and x.get("s") == [None, None, None] for x in tail):
                ents = ents[:k]
                if rng.random() < 0.5:
                    ents.append("E")
        try:
            out = torch.zeros(shape)[key_py(ents)]
        except Exception:
            continue
        if out.numel() == 0 or (keep_dim and out.dim() == 0):
            continue
        return ents, list(out.shape)
    return [{"s": [None, None, None]}], list(shape)


def rand_scalar_node(rng, sub, only_mul=False):
    c = list(rng.choice(SCALARS)); kind = rng.choice(SKINDS); side = rng.choice("LR")
    op = rng.choice(["smul", "smul", "smul", "div", "neg"] if only_mul else
                    ["smul", "smul", "div", "neg", "sadd", "rsub", "subs"])
    if op == "div" and c[0] == 0:
        c = [2, 1]
    if op == "neg":
        return ["neg", sub]
    if op in ("smul", "sadd"):
        return [op, c, side, kind, sub]
    return [op, c, kind, sub]


def gen_B(rng, d, nleaf):
    """tensor-valued tree in which every node has the leaves' common shape"""
    if d == 0 or rng.random() < 0.25:
        return ["leaf", rng.randrange(nleaf)]
    r = rng.random()
    if r < 0.5:
        return [rng.choice(["add", "sub", "mul"]), gen_B(rng, d - 1, nleaf), gen_B(rng, d - 1, nleaf)]
    return rand_scalar_node(rng, gen_B(rng, d - 1, nleaf))


def gen_pair(rng, d, nleaf, shape):
    """two tensor-valued trees of one common shape (and that shape)"""
    N = len(shape)
    r = rng.random()
    a, b = gen_B(rng, d, nleaf), gen_B(rng, d, nleaf)
    if r < 0.3:
        return a, b, list(shape)
    if r < 0.55:                                       # same key on both
        k, s = rand_key(rng, shape)
        return ["get", k, a], ["get", k, b], s
    if r < 0.8 and shape[0] >= 2:                      # README pattern t[:k, ...] , t[-k:, ...]
        k = rng.randint(1, shape[0])
        tail = ["E"] if rng.random() < 0.7 else [{"s": [None, None, None]}] * (N - 1)
        return ["get", [{"s": [None, k, None]}] + tail, a], ["get", [{"s": [-k, None, None]}] + tail, b], [k] + list(shape[1:])
    if N >= 2:                                         # two integers on one mode
        m = rng.randrange(N)
        pre = [{"s": [None, None, None]}] * m
        i, j = rng.randint(-shape[m], shape[m] - 1), rng.randint(-shape[m], shape[m] - 1)
        s = [x for q, x in enumerate(shape) if q != m]
        return ["get", pre + [i], a], ["get", pre + [j], b], s
    dims = [0]
    return ["sumd", dims, "list", a, 1], ["meand", dims, "list", b, 1], [1] + list(shape[1:])


def gen_T(rng, d, nleaf, shape):
    N = len(shape)
    r = rng.random()
    if r < 0.25:
        t, s = gen_B(rng, d, nleaf), list(shape)
    elif r < 0.5:
        k, s = rand_key(rng, shape)
        t = ["get", k, gen_B(rng, max(d - 1, 0), nleaf)]
    elif r < 0.8:
        a, b, s = gen_pair(rng, max(d - 1, 0), nleaf, shape)
        t = [rng.choice(["add", "sub", "mul"]), a, b]
    else:
        dims = sorted(rng.sample(range(N), rng.randint(1, N)))
        kd = rng.random() < 0.5
        if len(dims) == N and not kd:
            kd = True
        s = [1 if q in dims else x for q, x in enumerate(shape)] if kd else [x for q, x in enumerate(shape) if q not in dims]
        t = [rng.choice(["sumd", "meand"]), dims, rng.choice(["list", "int"]), gen_B(rng, max(d - 1, 0), nleaf), int(kd)]
    if rng.random() < 0.3:
        t = rand_scalar_node(rng, t)
    if rng.random() < 0.2 and len(s) >= 1:
        k, s2 = rand_key(rng, s)
        t, s = ["get", k, t], s2
    return t, s


def gen_S(rng, d, nleaf, shape):
    r = rng.random()
    if d >= 2 and r < 0.15:
        return [rng.choice(["splus", "stimes"]), gen_S(rng, d - 1, nleaf, shape), gen_S(rng, d - 1, nleaf, shape)]
    if d >= 2 and r < 0.2:
        return ["sscale", list(rng.choice(SCALARS[:6])), gen_S(rng, d - 1, nleaf, shape)]
    m = rng.choice(["dot", "dist", "norm", "normsq", "sum", "mean", "var", "item", "norm", "dist"])
    if m in ("dot", "dist"):
        a, b, s = gen_pair(rng, d - 1, nleaf, shape)
        if rng.random() < 0.3:
            a = rand_scalar_node(rng, a)
        return [m, a, b]
    if m == "item":
        t, s = gen_T(rng, d - 1, nleaf, shape)
        return ["item", [rng.randint(-x, x - 1) for x in s], t]
    t, s = gen_T(rng, d - 1, nleaf, shape)
    return [m, t]


def ortho_int_U(rng, I, S):
    """I x S integer matrix with orthonormal columns (signed partial permutation); needs S <= I"""
    rows = rng.sample(range(I), S)
    U = [[0] * S for _ in range(I)]
    for j, r in enumerate(rows):
        U[r][j] = rng.choice([1, -1])
    return U


def ortho_float_U(rng, I, S):
    A = np.array([[rng.gauss(0, 1) for _ in range(S)] for _ in range(I)])
    Q, _ = np.linalg.qr(A)
    return Q.tolist()


class Prop:
    ID = "C07"
    LEVEL = "proof"
    COQ_HEADER = "From TN Require Import Harness.H_C07.\nOpen Scope Z_scope.\n"
    CHECK_FN = "check"
    RULE = ("loss trees over {+,-,unary -,tensor *,scalar * (5 scalar kinds, either side),/scalar,scalar +/-,getitem "
            "(slices, ints, None, Ellipsis, index arrays), partial sum/mean, dot (scalar- and tensor-valued), norm, normsq, "
            "sum, mean, var, dist, full integer indexing, sums/products of such scalars}: 30 fixed templates x the "
            "enumerated format lattice ({TT,CP}x{U,no U} per mode, N=1,2; seeded N=3) with requires_grad on all nodes, "
            "on each single core/factor, on random subsets and via the constructor flag; the README loss "
            "norm(t[:k,...]-t[-k:,...]) for k<=,>size/2 on every first-mode format; orthonormal (integer and QR) shared "
            "factors; broadcast operands; rank-1/size-1/zero-scalar cases; random trees of depth<=3; one SGD step of "
            "tn.optimize versus the dense gradient step. Non-trivial = some expected gradient entry is non-zero; "
            "distinct = distinct (formats, tree, mask).")
    TRUSTED = ["torch.autograd on dense einsum/index/sum/sqrt graphs (the dense side is differentiated by the same autograd engine)",
               "the independent dense contraction dense_torch in harness/props/c07.py"]
    ASSUMPTIONS = ["points where the loss is not differentiable (norm or dist of an exactly zero array) are excluded",
                   "tolerance 1e-9 relative to the largest expected gradient entry of the parameter (scalar scaling uses |c|^(1/N))"]
    THEOREMS = ["C07_expr", "C07_add", "C07_mul", "C07_scalar_mul", "C07_scalar_add", "C07_getitem", "C07_dot", "C07_dot_partial", "C07_sum", "C07_wsum"]

    # ------------------------------------------------------------------------------------------ cases
    def generate(self, rng, tier):
        quick = tier == "quick"
        cases = []
        prop = self

        def mk(env, expr, mask, kind, api="func", ctor=False, opt=None, **tags):
            ops = ops_of(expr)
            mclass = tags.pop("mask_class", "all" if all(is_full(t, m) for t, m in zip(env, mask)) else "subset")
            tags.update(kind=kind, formats="|".join(tsig(t) for t in env), N=len(env[0]["modes"]), root=expr[0],
                        depth=depth(expr), mask=mclass, api=api, ctor=bool(ctor),
                        has_smul=bool(ops & {"smul", "neg", "div", "sub", "rsub", "subs"}),
                        has_get=bool(ops & {"get", "item"}), has_partial_sum=bool(ops & {"sumd", "meand"}),
                        has_sadd=bool(ops & {"sadd", "rsub", "subs"}))
            if add1d_after_reduction(expr, [tshape(t) for t in env]):
                tags["add1d_after_reduction"] = True
            dep = ops & {"dep_sub", "dep_add", "dep_mul", "dep_div"}
            if dep:
                tags["dep_scalar"] = True; tags["dep_op"] = sorted(dep)[0][4:]
            c = {"env": env, "expr": expr, "grad": mask, "api": api, "ctor": bool(ctor), "tags": tags}
            if opt is not None:
                c["optimize"] = opt
            return c

        def add(c, need_nonsingular=True):
            if need_nonsingular:
                e = prop.expected(c)
                if e.get("singular") or not e.get("ok"):
                    return False
            cases.append(c)
            return True

        L0, L1 = ["leaf", 0], ["leaf", 1]
        FS = {"s": [None, None, None]}

        def templates(shape):
            N = len(shape)
            k1 = [{"s": [None, 1, None]}]; km1 = [{"s": [-1, None, None]}]
            T = [
                ("sum(a+b)", ["sum", ["add", L0, L1]]),
                ("sum(a*b)", ["sum", ["mul", L0, L1]]),
                ("dot(a,b)", ["dot", L0, L1]),
                ("dot(a,a)", ["dot", L0, L0]),
                ("normsq(a)", ["normsq", L0]),
                ("norm(a)", ["norm", L0]),
                ("norm(a+b)", ["norm", ["add", L0, L1]]),
                ("mean(a*a)", ["mean", ["mul", L0, L0]]),
                ("var(a)", ["var", L0]),
                ("var(a*b)", ["var", ["mul", L0, L1]]),
                ("sum((a+c)*b)", ["sum", ["mul", ["sadd", [5, 2], "R", "float", L0], L1]]),
                ("sum((c-a)*b)", ["sum", ["mul", ["rsub", [2, 1], "int", L0], L1]]),
                ("sum((c*a)*b)", ["sum", ["mul", ["smul", [-3, 1], "L", "int", L0], L1]]),
                ("sum((a*c)*b)", ["sum", ["mul", ["smul", [1, 2], "R", "float", L0], L1]]),
                ("sum(c*a)", ["sum", ["smul", [2, 1], "L", "np64", L0]]),
                ("sum((a-b)*a)", ["sum", ["mul", ["sub", L0, L1], L0]]),
                ("sum((-a)*b)", ["sum", ["mul", ["neg", L0], L1]]),
                ("sum((a/c)*b)", ["sum", ["mul", ["div", [2, 1], "float", L0], L1]]),
                ("item", ["item", [0] * N, ["mul", L0, L1]]),
                ("item-neg", ["item", [-1] * N, L0]),
                ("normsq(a[:1]-b[-1:])", ["normsq", ["sub", ["get", k1, L0], ["get", km1, L1]]]),
                ("dist(a,b)", ["dist", L0, L1]),
                ("dist(a,-a)", ["dist", L0, ["neg", L0]]),
                ("dist(a,2b)", ["dist", L0, ["smul", [2, 1], "L", "int", L1]]),
                ("normsq(sum_0 a)", ["normsq", ["sumd", [0], "int", L0, 1]]),
                ("norm(a)+2dot(a,b)", ["splus", ["norm", L0], ["sscale", [2, 1], ["dot", L0, L1]]]),
                ("mean(a)*sum(b)", ["stimes", ["mean", L0], ["sum", L1]]),
            ]
            if N >= 2:
                T += [("normsq(sum_last a)", ["normsq", ["sumd", [N - 1], "int", L0, 0]]),
                      ("sum(mean_0(a)*b[0])", ["sum", ["mul", ["meand", [0], "list", L0, 0], ["get", [0], L1]]]),
                      ("dot(a[0],b[-1])", ["dot", ["get", [0], L0], ["get", [-1, "E"], L1]]),
                      ("norm(a[...,0])", ["norm", ["get", ["E", 0], L0]]),
                      ("normsq(a[[0,1,0]])", ["normsq", ["get", [{"i": [0, shape[0] - 1, 0]}], L0]]),
                      ("sum(a[None]*b[None])", ["sum", ["mul", ["get", ["N"], L0], ["get", ["N", "E"], L1]]])]
            return T

        def masks_for(env, how):
            if how == "all":
                return [full_mask(t) for t in env], "all"
            if how == "first":                     # only tensor 0 requires grad
                return [full_mask(env[0])] + [full_mask(t, False) for t in env[1:]], "tensor0"
            if how == "subset":
                ms = []
                for t in env:
                    m = {"cores": [rng.random() < 0.5 for _ in t["modes"]],
                         "Us": [None if q["U"] is None else rng.random() < 0.5 for q in t["modes"]]}
                    ms.append(m)
                if not any(any(m["cores"]) or any(u for u in m["Us"] if u) for m in ms):
                    ms[0]["cores"][0] = True
                return ms, "subset"
            raise ValueError(how)

        def single_masks(env):
            """one mask per single node of tensor 0"""
            out = []
            t = env[0]
            for n in range(len(t["modes"])):
                m = [full_mask(x, False) for x in env]; m[0]["cores"][n] = True
                out.append((m, "single-core"))
                if t["modes"][n]["U"] is not None:
                    m = [full_mask(x, False) for x in env]; m[0]["Us"][n] = True
                    out.append((m, "single-U"))
            return out

        def pair(shape, ka=None, kb=None, maxr=3):
            return [rand_tensor_json(rng, shape, ka, maxr=maxr), rand_tensor_json(rng, shape, kb, maxr=maxr)]

        # ---- A. templates x enumerated formats of operand a (b random), all nodes require grad
        for N in (1, 2):
            for ka in itertools.product(KINDS, repeat=N):
                shape = [rng.choice([2, 3]) for _ in range(N)]
                for name, tr in templates(shape):
                    for _ in range(6):
                        env = pair(shape, list(ka))
                        how = rng.choice(["all", "all", "first", "subset"])
                        m, mc = masks_for(env, how)
                        if add(mk(env, tr, m, "template", template=name, mask_class=mc,
                                  api=rng.choice(["func", "method"]), ctor=(how == "all" and rng.random() < 0.5))):
                            break
        for _ in range(400 if quick else 2500):
            N = 3 if rng.random() < 0.8 else 4
            shape = [rng.choice([1, 2, 3]) for _ in range(N)]
            shape[0] = max(shape[0], 2)
            name, tr = rng.choice(templates(shape))
            env = pair(shape, maxr=3 if N == 3 else 2)
            m, mc = masks_for(env, rng.choice(["all", "subset"]))
            add(mk(env, tr, m, "template", template=name, mask_class=mc, api=rng.choice(["func", "method"])))
        # ---- B. each single node of a requires grad (format lattice N=2, seeded N=3)
        for N in (1, 2, 3):
            kinds_list = list(itertools.product(KINDS, repeat=N)) if N < 3 else \
                [tuple(rng.choice(KINDS) for _ in range(3)) for _ in range(8 if quick else 64)]
            for ka in kinds_list:
                shape = [rng.choice([2, 3]) for _ in range(N)]
                tl = templates(shape)
                for (name, tr) in (rng.sample(tl, 6 if quick else 14)):
                    env = pair(shape, list(ka))
                    for m, mc in single_masks(env):
                        add(mk(env, tr, m, "single", template=name, mask_class=mc))
        # ---- C. the README loss norm(t[:k,...] - t[-k:,...]) on every format of the first mode
        for N in (1, 2, 3):
            for k0 in KINDS:
                for s0, k in ((3, 3), (4, 3), (6, 3), (5, 2), (2, 1), (4, 1), (3, 2)):
                    shape = [s0] + [rng.choice([1, 2, 3]) for _ in range(N - 1)]
                    kinds = [k0] + [rng.choice(KINDS) for _ in range(N - 1)]
                    for _ in range(6):
                        env = [rand_tensor_json(rng, shape, kinds, maxr=3)]
                        tail = ["E"] if N > 1 or rng.random() < 0.5 else []
                        tr = ["norm", ["sub", ["get", [{"s": [None, k, None]}] + tail, L0],
                                       ["get", [{"s": [-k, None, None]}] + tail, L0]]]
                        m, mc = masks_for(env, rng.choice(["all", "all", "subset"]))
                        if add(mk(env, tr, m, "readme", template="norm(t[:k,...]-t[-k:,...])", mask_class=mc,
                                  ctor=(mc == "all"), k=k, size0=s0)):
                            break
                    for m, mc in single_masks(env)[:0 if quick and rng.random() < 0.5 else None]:
                        add(mk(env, tr, m, "readme", template="norm(t[:k,...]-t[-k:,...])", mask_class=mc, k=k, size0=s0))
        # ---- D. orthonormal Tucker factors (shared factor object in dot(t,t), norm, dist)
        otempl = [("normsq(a)", ["normsq", L0]), ("norm(a)", ["norm", L0]), ("dot(a,a)", ["dot", L0, L0]),
                  ("dist(a,b)", ["dist", L0, L1]), ("dot(a,b)", ["dot", L0, L1]), ("var(a)", ["var", L0]),
                  ("norm(a[:2]-a[-2:])", ["norm", ["sub", ["get", [{"s": [None, 2, None]}], L0], ["get", [{"s": [-2, None, None]}], L0]]]),
                  ("sum(a*a)", ["sum", ["mul", L0, L0]])]
        for _ in range(150 if quick else 800):
            N = rng.randint(1, 3); shape = [rng.choice([2, 3, 4]) for _ in range(N)]
            shape[0] = max(shape[0], 3)
            flt = rng.random() < 0.5
            env = []
            for _q in range(2):
                kinds = [(rng.choice(["tt", "cp"]), rng.random() < 0.8) for _ in range(N)]
                t = rand_tensor_json(rng, shape, kinds, maxr=3)
                for n, md in enumerate(t["modes"]):
                    if md["U"] is not None:
                        S = len(md["U"][0])
                        if S <= shape[n]:
                            md["U"] = ortho_float_U(rng, shape[n], S) if flt else ortho_int_U(rng, shape[n], S)
                env.append(t)
            name, tr = rng.choice(otempl)
            m, mc = masks_for(env, rng.choice(["all", "all", "subset"]))
            add(mk(env, tr, m, "orthoU", template=name, mask_class=mc, ortho="qr" if flt else "int"))
        # ---- E. broadcasting operands (size-1 modes on either side)
        for _ in range(120 if quick else 600):
            N = rng.randint(1, 3); full = [rng.choice([2, 3]) for _ in range(N)]
            sa = [1 if rng.random() < 0.4 else d for d in full]; sb = [1 if rng.random() < 0.4 else d for d in full]
            env = [rand_tensor_json(rng, sa, maxr=2), rand_tensor_json(rng, sb, maxr=2)]
            tr = rng.choice([["sum", ["mul", ["add", L0, L1], ["add", L0, L1]]], ["normsq", ["sub", L0, L1]],
                             ["norm", ["add", L0, L1]], ["sum", ["mul", L0, L1]], ["var", ["add", L0, L1]],
                             ["mean", ["mul", ["sub", L0, L1], L1]]])
            m, mc = masks_for(env, rng.choice(["all", "subset"]))
            add(mk(env, tr, m, "broadcast", mask_class=mc))
        # ---- F. tensor-valued dot (operands with different numbers of modes)
        for _ in range(60 if quick else 400):
            Nb = rng.randint(2, 3); sb = [rng.choice([2, 3]) for _ in range(Nb)]
            Na = rng.randint(1, Nb - 1); sa = sb[:Na]
            env = [rand_tensor_json(rng, sa, maxr=2), rand_tensor_json(rng, sb, maxr=2)]
            order = rng.random() < 0.5
            tr = ["normsq", ["dotk", L0, L1] if order else ["dotk", L1, L0]]
            m, mc = masks_for(env, rng.choice(["all", "subset"]))
            add(mk(env, tr, m, "dotk", mask_class=mc, longer_first=not order))
        # ---- G. scalar multipliers: every scalar x kind x side, N-th root scaling with even/odd N
        for c in SCALARS:
            for kind in SKINDS:
                for side in "LR":
                    if quick and rng.random() > 0.5:
                        continue
                    N = rng.randint(1, 4); shape = [rng.choice([1, 2, 3]) for _ in range(N)]
                    env = pair(shape, maxr=2)
                    inner = ["smul", list(c), side, kind, L0]
                    tr = rng.choice([["sum", ["mul", inner, L1]], ["dot", inner, L1], ["normsq", ["add", inner, L1]],
                                     ["sum", ["mul", ["div", list(c), kind, L0], L1]] if c[0] != 0 else ["sum", inner]])
                    m, mc = masks_for(env, rng.choice(["all", "subset"]))
                    add(mk(env, tr, m, "scalar", mask_class=mc, skind=kind, side=side, scalar="%d/%d" % c))
        # ---- H. random trees
        for _ in range(1200 if quick else 8000):
            N = rng.randint(1, 3); shape = [rng.choice([1, 2, 3]) for _ in range(N)]
            nleaf = rng.randint(1, 3)
            for _try in range(6):
                env = [rand_tensor_json(rng, shape, maxr=2, lo=-1, hi=2) for _ in range(nleaf)]
                tr = gen_S(rng, 3, nleaf, shape)
                m, mc = masks_for(env, rng.choice(["all", "subset", "subset"]))
                if add(mk(env, tr, m, "tree", mask_class=mc, api=rng.choice(["func", "method"]))):
                    break
        # ---- I. one SGD step of tn.optimize
        for _ in range(100 if quick else 500):
            N = rng.randint(1, 3); shape = [rng.choice([2, 3]) for _ in range(N)]
            env = pair(shape, maxr=2)
            name, tr = rng.choice(templates(shape))
            m, mc = masks_for(env, rng.choice(["all", "subset", "first"]))
            m[0]["cores"][0] = True          # the loss must depend on some optimised node (else optimize rightly raises)
            add(mk(env, tr, m, "optimize", template=name, mask_class=mc, opt={"lr": 0.125}))
        # ---- J. a scalar operand that itself depends on the parameters (0-d torch tensor returned by a metric)
        for _ in range(12 if quick else 60):
            N = rng.randint(1, 3); shape = [rng.choice([2, 3]) for _ in range(N)]
            env = pair(shape, maxr=2)
            op = rng.choice(["dep_sub", "dep_sub", "dep_add", "dep_mul", "dep_div", "dep_div"])
            sc = rng.choice([["mean", L0], ["sum", L0], ["dot", L0, L1]])
            if op == "dep_div":          # a divisor computed from the parameters: |x|^2 of an operand that is not zero
                k = rng.randrange(2)
                for _try in range(50):
                    if float(np.abs(dense_np(env[k])).max()) > 0:
                        break
                    env = pair(shape, maxr=2)
                sc = ["normsq", [L0, L1][k]]
            tr = ["sum", ["mul", [op, L0, sc], L1]]
            m, mc = masks_for(env, "all")
            add(mk(env, tr, m, "dep_scalar", mask_class=mc))
        return cases

    # ------------------------------------------------------------------------------------------ runners
    def _impl_tensors(self, case):
        env_json = case["env"]; mask = case["grad"]
        tensors, params, where = [], [], []
        for i, tj in enumerate(env_json):
            if case.get("ctor") and is_full(tj, mask[i]):
                t = to_tn(tj, requires_grad=True)       # the constructor's own flag
            else:
                t = to_tn(tj)
                for n in range(len(tj["modes"])):
                    if mask[i]["cores"][n]:
                        t.cores[n].requires_grad_()
                    if t.Us[n] is not None and mask[i]["Us"][n]:
                        t.Us[n].requires_grad_()
            tensors.append(t)
        for i, t in enumerate(tensors):
            for n in range(t.dim()):
                if mask[i]["cores"][n]:
                    params.append(t.cores[n]); where.append("t%d.core%d" % (i, n))
            for n in range(t.dim()):
                if t.Us[n] is not None and mask[i]["Us"][n]:
                    params.append(t.Us[n]); where.append("t%d.U%d" % (i, n))
        return tensors, params, where

    def run(self, case):
        try:
            tensors, params, where = self._impl_tensors(case)
            before = [[c for c in t.cores] + [U for U in t.Us if U is not None] for t in tensors]
            if "optimize" in case:
                lr = case["optimize"]["lr"]
                allp = [[c.detach().clone() for c in t.cores] + [None if U is None else U.detach().clone() for U in t.Us]
                        for t in tensors]
                tn.optimize(tensors, lambda *ts: ev_impl(case["expr"], list(ts), case.get("api", "func")),
                            optimizer=lambda p: torch.optim.SGD(p, lr=lr), max_iter=0, verbose=False, tol=None)
                after = [[c.detach().reshape(-1).tolist() for c in t.cores] +
                         [None if U is None else U.detach().reshape(-1).tolist() for U in t.Us] for t in tensors]
                return {"ok": True, "after": after}
            loss = ev_impl(case["expr"], tensors, case.get("api", "func"))
            # the leaves themselves must not have been replaced or edited by evaluating the loss
            for t, b in zip(tensors, before):
                now = [c for c in t.cores] + [U for U in t.Us if U is not None]
                if len(now) != len(b) or any(x is not y for x, y in zip(now, b)):
                    return {"ok": False, "err": "LeafReplaced", "msg": "evaluating the loss rebound a core/factor of an operand"}
            if not isinstance(loss, torch.Tensor):
                return {"ok": True, "loss": float(loss), "detached": True, "grads": [None] * len(params), "where": where}
            if loss.numel() != 1:
                return {"ok": False, "err": "NotScalar", "msg": "loss has shape %s" % (list(loss.shape),)}
            if not loss.requires_grad:
                return {"ok": True, "loss": float(loss), "detached": True, "grads": [None] * len(params), "where": where}
            gs = torch.autograd.grad(loss.reshape(()), params, allow_unused=True)
            return {"ok": True, "loss": float(loss), "detached": False, "where": where,
                    "grads": [None if g is None else g.reshape(-1).tolist() for g in gs]}
        except Exception as e:
            return {"ok": False, "err": type(e).__name__, "msg": str(e)[:200]}

    def expected(self, case):
        try:
            allc, allU, params, where = build_params(case["env"], case["grad"])
            dense = [dense_torch(c, U) for c, U in zip(allc, allU)]
            loss = ev_dense(case["expr"], dense)
            if loss.numel() != 1:
                return {"ok": False, "err": "NotScalar"}
            loss = loss.reshape(())
            if loss.requires_grad:
                gs = torch.autograd.grad(loss, params, allow_unused=True)
            else:
                gs = [None] * len(params)
            gs = [torch.zeros_like(p) if g is None else g for g, p in zip(gs, params)]
            if any(not bool(torch.isfinite(g).all()) for g in gs) or not math.isfinite(float(loss)):
                return {"ok": True, "singular": True}
            out = {"ok": True, "loss": float(loss), "where": where, "grads": [g.reshape(-1).tolist() for g in gs]}
            if "optimize" in case:
                lr = case["optimize"]["lr"]
                gmap = {id(p): g for p, g in zip(params, gs)}
                after = []
                for cores, Us in zip(allc, allU):
                    row = []
                    for x in list(cores) + list(Us):
                        if x is None:
                            row.append(None)
                        elif id(x) in gmap:
                            row.append((x.detach() - lr * gmap[id(x)]).reshape(-1).tolist())
                        else:
                            row.append(x.detach().reshape(-1).tolist())
                    after.append(row)
                out["after"] = after
            return out
        except Singular:
            return {"ok": True, "singular": True}
        except (ValueError, IndexError, RuntimeError) as e:
            return {"ok": False, "err": type(e).__name__, "msg": str(e)[:200]}

    def agree(self, case, res, exp):
        if not exp.get("ok"):
            return (not res.get("ok"), "the dense expression is ill-formed but the implementation returned a value")
        if exp.get("singular"):
            return True, ""
        if not res.get("ok"):
            return False, "implementation raised %s: %s" % (res.get("err"), res.get("msg"))
        if "optimize" in case:
            for i, (ra, ea) in enumerate(zip(res["after"], exp["after"])):
                for j, (x, y) in enumerate(zip(ra, ea)):
                    if (x is None) != (y is None):
                        return False, "optimize changed the format of tensor %d" % i
                    if x is None:
                        continue
                    if not close(x, y, 1e-9):          # NaN/inf-safe, shape-safe
                        return False, "after one SGD step node %d of tensor %d differs from theta - lr*dense gradient" % (j, i)
            return True, ""
        # the forward value is the business of C02/C03/C06; a different scalar has a different gradient anyway
        for w, g, h in zip(exp["where"], res["grads"], exp["grads"]):
            h = np.array(h)
            g = np.zeros_like(h) if g is None else np.array(g)
            if g.shape != h.shape:
                return False, "gradient of %s has %d entries, expected %d" % (w, g.size, h.size)
            if not np.all(np.isfinite(g)):
                return False, "gradient of %s is not finite" % w
            if not close(g, h, 1e-9):                  # NaN/inf-safe
                why = " (result detached from its operands)" if res.get("detached") else ""
                return False, "d loss / d %s differs from the dense gradient by %g (max |expected| %g)%s" % (
                    w, np.max(np.abs(g - h)) if h.size else 0.0, np.max(np.abs(h)) if h.size else 0.0, why)
        return True, ""

    def nontrivial(self, case, res):
        if not res.get("ok"):
            return False
        if "optimize" in case:
            return True
        return any(g is not None and any(abs(x) > 0 for x in g) for g in res["grads"])

    def signature(self, case):
        return "%s;%s;%s;%s" % (case["tags"]["formats"], json.dumps(case["expr"])[:300],
                                json.dumps(case["grad"]), "opt" if "optimize" in case else case.get("api"))

    def coq_term(self, case, res):
        """dual-number model (Coq, exact) versus autograd: polynomial losses sum(E) / dot(E1,E2) / normsq(E) with E over
        + - * unary-, integer scalar * and +; every parameter that requires grad gets a fixed integer direction."""
        if "optimize" in case or not res.get("ok") or res.get("detached") or res.get("grads") is None:
            return None
        from fractions import Fraction
        def tr(e):
            op = e[0]
            if op == "leaf": return "(dLeaf %d)" % e[1]
            if op in ("add", "sub", "mul"): return "(d%s %s %s)" % (op.capitalize(), tr(e[1]), tr(e[2]))
            if op == "neg": return "(dNeg %s)" % tr(e[1])
            if op in ("smul", "sadd"):
                c = Fraction(*e[1])
                if c.denominator != 1: raise KeyError("frac")
                return "(d%s %s %s)" % (op.capitalize(), zlit(int(c)), tr(e[4]))
            if op in ("rsub", "subs"):
                c = Fraction(*e[1])
                if c.denominator != 1: raise KeyError("frac")
                return "(dRsub %s %s)" % (zlit(int(c)), tr(e[3])) if op == "rsub" else "(dSadd %s %s)" % (zlit(-int(c)), tr(e[3]))
            raise KeyError(op)
        e = case["expr"]
        try:
            if e[0] == "sum": loss = "LSum %s" % tr(e[1])
            elif e[0] == "normsq": loss = "LNormsq %s" % tr(e[1])
            elif e[0] == "dot": loss = "LDot %s %s" % (tr(e[1]), tr(e[2]))
            else: return None
        except (KeyError, IndexError, TypeError):
            return None
        for tj in case["env"]:
            for m in tj["modes"]:
                if not all(float(v).is_integer() for v in flat(m["core"])) or \
                        (m["U"] is not None and not all(float(v).is_integer() for v in flat(m["U"]))):
                    return None          # orthonormal (QR) factors are floats: implementation-vs-dense only
        direction = lambda j, k: ((k * 3 + j * 5 + 1) % 5) - 2
        j = 0; total = 0.0; tens = []
        for i, tj in enumerate(case["env"]):
            mask = case["grad"][i]
            pj = {}
            for n in range(len(tj["modes"])):
                if mask["cores"][n]: pj[("c", n)] = j; j += 1
            for n, m in enumerate(tj["modes"]):
                if m["U"] is not None and mask["Us"][n]: pj[("u", n)] = j; j += 1
            ms = []
            for n, m in enumerate(tj["modes"]):
                c = np.array(m["core"]); fl = flat(c)
                jj = pj.get(("c", n))
                pairs = "[" + ";".join("(%s,%s)" % (zlit(v), zlit(direction(jj, k) if jj is not None else 0)) for k, v in enumerate(fl)) + "]%Z"
                core = "(dTT %d %d %d %s)" % (c.shape + (pairs,)) if m["kind"] == "tt" else "(dCP %d %d %s)" % (c.shape + (pairs,))
                if m["U"] is None:
                    fac = "None"
                else:
                    U = np.array(m["U"]); jj = pj.get(("u", n))
                    pairs = "[" + ";".join("(%s,%s)" % (zlit(v), zlit(direction(jj, k) if jj is not None else 0)) for k, v in enumerate(flat(U))) + "]%Z"
                    fac = "(dU %d %d %s)" % (U.shape + (pairs,))
                ms.append("dM %s %s" % (core, fac))
            tens.append("[" + "; ".join(ms) + "]")
        if j != len(res["grads"]):
            return None
        for jj, g in enumerate(res["grads"]):
            if g is not None:
                total += sum(x * direction(jj, k) for k, x in enumerate(g))
        val = canon_int(res["loss"]); dv = canon_int(total)
        if val is None or dv is None:
            val, dv = 10 ** 9, 10 ** 9
        return "mkCase [%s] (%s) %s %s" % ("; ".join(tens), loss, zlit(val), zlit(dv))
