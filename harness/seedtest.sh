#!/bin/bash
# usage: seedtest.sh <patch.diff> <PROP> [tier]   -- applies the patch to /repo, runs the check, reverts.
set -u
patch=$1; prop=$2; tier=${3:-quick}
cd /repo || exit 2
if ! git diff --quiet; then echo "/repo has uncommitted changes"; exit 2; fi
if ! git apply --3way "$patch" 2>/dev/null && ! git apply "$patch"; then echo "PATCH DOES NOT APPLY"; git reset -q; git checkout -- . ; exit 3; fi
cd /verif && /venv/bin/python harness/check.py --property $prop --tier $tier 2>&1 | grep -E "VIOLATION|KNOWN|$prop $tier" 
rc=${PIPESTATUS[0]}
cd /repo && git reset -q && git checkout -- .
exit $rc
