(* derivatives.partial: one linear map on the differentiated mode (on the core, or on the Tucker factor).
   Non-periodic: the mode is padded with its end values, the two pad entries are replaced by linear
   extrapolation, and the centred difference y[a+2] - y[a] is divided by step; periodic: roll(+1) - roll(-1).
   The resulting matrices (times step) are written out here.  No proofs in this file. *)
From TN Require Export Model.Tools.
Section Deriv.
Variable K : Ops.
Local Open Scope K_scope.
Definition two : K := 1 + 1.
(* rows of the non-periodic stencil (size n >= 2): row 0 = 2(x1 - x0), row n-1 = 2(x_{n-1} - x_{n-2}) *)
Definition stencil_np (n : nat) : nat -> nat -> K := fun i j =>
  if Nat.eqb i 0 then (if Nat.eqb j 1 then two else if Nat.eqb j 0 then - two else 0)
  else if Nat.eqb i (n - 1) then (if Nat.eqb j (n - 1) then two else if Nat.eqb j (n - 2) then - two else 0)
  else (if Nat.eqb j (i + 1) then 1 else if Nat.eqb (j + 1) i then - (1) else 0).
Definition stencil_p (n : nat) : nat -> nat -> K := fun i j =>
  delta j ((i + 1) mod n) - delta j ((i + n - 1) mod n).
Definition partial1_net (k : nat) (n : nat) (hinv : K) (periodic : bool) (cs : list (score K)) : list (score K) :=
  ttm_net k n (fun i j => hinv * (if periodic then stencil_p n i j else stencil_np n i j)) cs.
Fixpoint partial_net (order : nat) (k n : nat) (hinv : K) (periodic : bool) (cs : list (score K)) : list (score K) :=
  match order with O => cs | S o => partial1_net k n hinv periodic (partial_net o k n hinv periodic cs) end.
End Deriv.
Arguments stencil_np {K}. Arguments stencil_p {K}. Arguments partial1_net {K}. Arguments partial_net {K}. Arguments two {K}.
