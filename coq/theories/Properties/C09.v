(* C09 -- Sobol indices equal their variance-decomposition definition.  Statements only.
   Model: Model/Sobol.v (mirrors anova.sobol: centred extended ANOVA tensor, marginal weighting, tn.mask re-indexing,
   two inner products) on top of Model/Anova.v, Model/Arith.v, Model/Dot.v; proofs: Proofs/SobolP.v; any commutative ring. *)
From TN Require Import Proofs.SobolP Proofs.ArithP Proofs.AnovaP.

Section C09.
Variable K : Ops.
Hypothesis Kth : laws K.
Local Open Scope K_scope.
Notation net := (list (score K)).

(* what sobol() computes: with A the extended ANOVA tensor, A' = A with the entry (0..0) removed, mu(e) the product of
   the marginal weights of the non-zero components of e, and pat(e) the subset of variables e involves:
   numerator = sum_e A'(e)^2 mu(e) mask(pat e),  denominator = sum_e A'(e)^2 mu(e) *)
Theorem C09_sobol_parts : forall (ws : list (nat -> K)) (mask cs : net) num den,
  good K cs -> good K mask -> length ws = length cs -> length mask = length cs ->
  sshape mask = repeat 2%nat (length mask) ->
  sobol_parts ws mask cs = Some (num, den) ->
  let A := eval (anova_net ws cs) in
  let sh := map (fun c => S (dm c)) cs in
  num = sumidx sh (fun e => centred K A (length cs) e * (mprod K ws e * centred K A (length cs) e * eval mask (pat e))) /\
  den = sumidx sh (fun e => centred K A (length cs) e * (mprod K ws e * centred K A (length cs) e)).
Proof. exact (sobol_parts_sound K Kth). Qed.

(* the extended tensor holds the ANOVA terms of the dense function (mode-wise [mean; deviation from the mean]) *)
Theorem C09_extended_is_anova : forall ws (cs : net) idx, cs <> [] -> length ws = length cs -> length idx = length cs ->
  eval (anova_net ws cs) idx = dlin (map amat ws) (sshape cs) (eval cs) idx.
Proof. exact (anova_extended K Kth). Qed.

(* ANOVA Parseval identity under a product measure with normalised marginals *)
Theorem C09_parseval : forall (ws : list (nat -> K)) ds (F G : list nat -> K), normalised K ws ds ->
  sumidx (map S ds) (fun e => mprod K ws e * (dlin (map amat ws) ds F e * dlin (map amat ws) ds G e)) =
  sumidx ds (fun x => wprod K ws x * (F x * G x)).
Proof. exact (anova_parseval K Kth). Qed.

(* the denominator is the variance E[f^2] - (E f)^2 of the dense function *)
Theorem C09_total_variance : forall (ws : list (nat -> K)) ds (F : list nat -> K), normalised K ws ds -> length ds = length ws ->
  let A := dlin (map amat ws) ds F in
  sumidx (map S ds) (fun e => centred K A (length ws) e * (mprod K ws e * centred K A (length ws) e)) =
  sumidx ds (fun x => wprod K ws x * (F x * F x)) - sumidx ds (fun x => wprod K ws x * F x) * sumidx ds (fun x => wprod K ws x * F x).
Proof. exact (sobol_den_is_variance K Kth). Qed.

(* numerator = mask-weighted sum of the variance components, denominator = sum of all components *)
Theorem C09_num_by_subsets : forall (ws : list (nat -> K)) (ds : list nat) (A m : list nat -> K) n,
  sumidx (map S ds) (fun e => centred K A n e * (mprod K ws e * centred K A n e * m (pat e))) =
  sumidx (repeat 2%nat (length ds)) (fun al => m al * component K ws (map S ds) A n al).
Proof. exact (sobol_num_by_subsets K Kth). Qed.
Theorem C09_den_by_subsets : forall (ws : list (nat -> K)) (ds : list nat) (A : list nat -> K) n,
  sumidx (map S ds) (fun e => centred K A n e * (mprod K ws e * centred K A n e)) =
  sumidx (repeat 2%nat (length ds)) (fun al => component K ws (map S ds) A n al).
Proof. exact (sobol_den_by_subsets K Kth). Qed.

(* corollaries: additivity over masks; the index of "any variable" is 1 *)
Theorem C09_additive : forall (sh : list nat) (g m1 m2 : list nat -> K),
  sumidx sh (fun e => g e * (m1 (pat e) + m2 (pat e))) = sumidx sh (fun e => g e * m1 (pat e)) + sumidx sh (fun e => g e * m2 (pat e)).
Proof. exact (sobol_num_additive K Kth). Qed.
Theorem C09_any_is_total : forall (ws : list (nat -> K)) (sh : list nat) (A m : list nat -> K),
  (forall al, m al = 1 - origin1 K al) ->
  sumidx sh (fun e => centred K A (length sh) e * (mprod K ws e * centred K A (length sh) e * m (pat e))) =
  sumidx sh (fun e => centred K A (length sh) e * (mprod K ws e * centred K A (length sh) e)).
Proof. exact (sobol_any_is_total K Kth). Qed.
End C09.

(* mean_dimension as the translator regenerates it from anova.py on every run (Gen/Generated.v), composed with the kernel
   models over the reals: sum_alpha |alpha| D_alpha / sum_alpha D_alpha, and its restriction to a mask *)
From TN Require Import Alg.InstR Proofs.GenSobolInst Gen.Generated.
From Coq Require Import Reals.
Local Open Scope R_scope.
Theorem C09_mean_dimension : forall (sh : list nat), sh <> [] -> forall (t : list (score RO)) (g : margT sh), okT sh t ->
  gen_anova_mean_dimension_N (list (score RO)) (margT sh) (r_sobol sh) r_weight r_dim t g =
  sumR (repeat 2%nat (length sh)) (fun al => r_wsize al * r_comp sh t g al) / sumR (repeat 2%nat (length sh)) (r_comp sh t g).
Proof. exact mean_dimension_spec. Qed.
Theorem C09_mean_dimension_masked : forall (sh : list nat), sh <> [] -> forall (t m : list (score RO)) (g : margT sh),
  okT sh t -> okM sh m ->
  sumR (repeat 2%nat (length sh)) (r_comp sh t g) <> 0 ->
  sumR (repeat 2%nat (length sh)) (fun al => eval m al * r_comp sh t g al) <> 0 ->
  gen_anova_mean_dimension_M (list (score RO)) (margT sh) (r_sobol sh) r_weight r_maskmul r_dim t m g =
  sumR (repeat 2%nat (length sh)) (fun al => r_wsize al * (eval m al * r_comp sh t g al)) /
  sumR (repeat 2%nat (length sh)) (fun al => eval m al * r_comp sh t g al).
Proof. exact mean_dimension_masked_spec. Qed.

(* order consequences over the reals, for non-negative marginals and positive total variance *)
From TN Require Import Proofs.SobolOrderR.
Theorem C09_components_nonneg : forall (sh : list nat) (t : list (score RO)) (g : margT sh) al,
  nonneg_marg sh g -> 0 <= r_comp sh t g al.
Proof. exact comp_nonneg. Qed.
Theorem C09_empty_component : forall (sh : list nat) (t : list (score RO)) (g : margT sh), okT sh t ->
  r_comp sh t g (zeros (length sh)) = 0.
Proof. exact comp_empty. Qed.
(* indices are monotone in the mask: a total index dominates the corresponding variance component, closed indices, ... *)
Theorem C09_monotone : forall (sh : list nat) (t m1 m2 : list (score RO)) (g : margT sh),
  okT sh t -> okM sh m1 -> okM sh m2 -> nonneg_marg sh g -> 0 < sumR (repeat 2%nat (length sh)) (r_comp sh t g) ->
  (forall al, in_range (repeat 2%nat (length sh)) al = true -> eval m1 al <= eval m2 al) ->
  r_sobol sh t m1 g <= r_sobol sh t m2 g.
Proof. exact sobol_monotone. Qed.
Theorem C09_unit_interval : forall (sh : list nat) (t m : list (score RO)) (g : margT sh),
  okT sh t -> okM sh m -> nonneg_marg sh g -> 0 < sumR (repeat 2%nat (length sh)) (r_comp sh t g) ->
  (forall al, in_range (repeat 2%nat (length sh)) al = true -> 0 <= eval m al <= 1) ->
  0 <= r_sobol sh t m g <= 1.
Proof. exact sobol_in_unit_interval. Qed.
Theorem C09_mean_dimension_ge_1 : forall (sh : list nat), sh <> [] -> forall (t : list (score RO)) (g : margT sh),
  okT sh t -> nonneg_marg sh g -> 0 < sumR (repeat 2%nat (length sh)) (r_comp sh t g) ->
  1 <= gen_anova_mean_dimension_N (list (score RO)) (margT sh) (r_sobol sh) r_weight r_dim t g.
Proof. exact mean_dimension_ge_1. Qed.

Print Assumptions C09_components_nonneg.
Print Assumptions C09_empty_component.
Print Assumptions C09_monotone.
Print Assumptions C09_unit_interval.
Print Assumptions C09_mean_dimension_ge_1.
Print Assumptions C09_mean_dimension.
Print Assumptions C09_mean_dimension_masked.
Print Assumptions C09_sobol_parts.
Print Assumptions C09_extended_is_anova.
Print Assumptions C09_parseval.
Print Assumptions C09_total_variance.
Print Assumptions C09_num_by_subsets.
Print Assumptions C09_den_by_subsets.
Print Assumptions C09_additive.
Print Assumptions C09_any_is_total.
