(* An evaluator that runs in O(N r^2) per entry under vm_compute (vectors are materialised as lists),
   proved equal to [eval].  The correspondence harness uses it wherever ranks are not tiny. *)
From TN Require Export Sem.Moves.

Section Fast.
Variable K : Ops.
Hypothesis Kth : laws K.
Add Ring Kring : Kth.
Local Open Scope K_scope.
Notation net := (list (score K)).

Definition nthK (l : list K) (p : nat) : K := nth p l 0.
Definition vml (u : list K) (n m : nat) (M : nat -> nat -> K) : list K :=
  map (fun q => sumn n (fun p => nthK u p * M p q)) (seq 0 m).

Fixpoint propl (u : list K) (cs : net) (idx : list nat) : list K :=
  match cs, idx with
  | c :: cs', i :: idx' => propl (vml u (rl c) (rr c) (sl c i)) cs' idx'
  | _, _ => u
  end.

Definition eval_l (cs : net) (idx : list nat) : K :=
  match cs with [] => 1 | c :: _ => sums (propl (repeat 1 (rl c)) cs idx) end.

Lemma nth_map_seq {A} (f : nat -> A) (d : A) : forall m s q, (q < m)%nat ->
  nth q (map f (seq s m)) d = f (s + q)%nat.
Proof.
  induction m as [|m IH]; intros s q H; [lia|]. cbn [seq map]. destruct q; cbn [nth].
  - rewrite Nat.add_0_r. reflexivity.
  - rewrite IH by lia. f_equal. lia.
Qed.

Lemma nth_vml u n m M q : (q < m)%nat -> nthK (vml u n m M) q = vecmat n (nthK u) M q.
Proof. intros H. unfold nthK at 1, vml. rewrite nth_map_seq by exact H. reflexivity. Qed.

Lemma vml_length u n m M : length (vml u n m M) = m.
Proof. unfold vml. rewrite map_length, seq_length. reflexivity. Qed.

Lemma prop_ext_bounded (cs : net) : forall r idx (u u' : nat -> K) q, chain r cs = true ->
  length idx = length cs ->
  (forall p, (p < r)%nat -> u p = u' p) -> (q < last_rr r cs)%nat ->
  prop u cs idx q = prop u' cs idx q.
Proof.
  induction cs as [|c cs IH]; intros r idx u u' q Hc Hl H Hq.
  - destruct idx; [|discriminate]. apply H. exact Hq.
  - destruct idx as [|i idx]; [discriminate|].
    cbn [chain] in Hc. apply andb_true_iff in Hc. destruct Hc as [Er Hc]. apply Nat.eqb_eq in Er.
    cbn [prop]. apply (IH (rr c)); auto.
    intros p Hp. unfold vecmat. apply sumn_ext. intros s Hs. rewrite H by lia. reflexivity.
Qed.

Lemma propl_length (cs : net) : forall r (u : list K) idx, chain r cs = true ->
  length idx = length cs -> length u = r -> length (propl u cs idx) = last_rr r cs.
Proof.
  induction cs as [|a cs IH]; intros r u idx Hc Hl Hu.
  - destruct idx; [|discriminate]. exact Hu.
  - destruct idx as [|j idx]; [discriminate|]. cbn [chain] in Hc. apply andb_true_iff in Hc.
    destruct Hc as [_ Hc]. cbn [propl]. change (last_rr r (a :: cs)) with (last_rr (rr a) cs).
    apply IH; auto. apply vml_length.
Qed.

Lemma propl_prop (cs : net) : forall r idx (u : list K) q, chain r cs = true ->
  length idx = length cs -> length u = r -> (q < last_rr r cs)%nat ->
  nthK (propl u cs idx) q = prop (nthK u) cs idx q.
Proof.
  induction cs as [|c cs IH]; intros r idx u q Hc Hl Hu Hq.
  - destruct idx; [|discriminate]. reflexivity.
  - destruct idx as [|i idx]; [discriminate|].
    cbn [chain] in Hc. apply andb_true_iff in Hc. destruct Hc as [Er Hc]. apply Nat.eqb_eq in Er.
    cbn [propl prop]. change (last_rr r (c :: cs)) with (last_rr (rr c) cs) in *.
    rewrite (IH (rr c) idx (vml u (rl c) (rr c) (sl c i)) q Hc ltac:(simpl in Hl; lia) (vml_length _ _ _ _) Hq).
    apply (prop_ext_bounded cs (rr c)); auto.
    intros p Hp. apply nth_vml. exact Hp.
Qed.

Lemma sums_sumn (l : list K) : sums l = sumn (length l) (nthK l).
Proof.
  induction l as [|x l IH] using rev_ind; [reflexivity|].
  rewrite app_length. cbn [length]. rewrite Nat.add_1_r. cbn [sumn].
  assert (E: sums (l ++ [x]) = sums l + x).
  { clear IH. induction l as [|y l IHl]; cbn; [ring|]. rewrite IHl. ring. }
  rewrite E, IH. f_equal.
  - apply sumn_ext. intros i Hi. unfold nthK. rewrite app_nth1 by exact Hi. reflexivity.
  - unfold nthK. rewrite app_nth2 by lia. rewrite Nat.sub_diag. reflexivity.
Qed.

Lemma nthK_repeat1 n p : (p < n)%nat -> nthK (repeat 1 n) p = 1.
Proof. unfold nthK. revert p. induction n; intros p H; [lia|]. destruct p; simpl; auto. apply IHn. lia. Qed.

Theorem eval_l_sound (cs : net) idx :
  chain (match cs with c :: _ => rl c | [] => O end) cs = true -> length idx = length cs ->
  eval_l cs idx = eval cs idx.
Proof.
  intros Hc Hl. destruct cs as [|c cs]; [reflexivity|].
  unfold eval_l. rewrite sums_sumn.
  assert (Hu: length (repeat (r1 K) (rl c)) = rl c) by apply repeat_length.
  rewrite (propl_length (c :: cs) (rl c) _ idx Hc Hl Hu).
  rewrite <- (bil_ones_eval K Kth (c :: cs) idx ltac:(discriminate)).
  rewrite <- (prop_bil K Kth (c :: cs) (rl c) idx ones ones ltac:(discriminate) Hc Hl).
  apply sumn_ext. intros q Hq.
  rewrite (propl_prop (c :: cs) (rl c) idx _ q Hc Hl Hu Hq).
  rewrite (prop_ext_bounded (c :: cs) (rl c) idx (nthK (repeat 1 (rl c))) ones q Hc Hl); auto.
  - unfold ones at 3. ring.
  - intros p Hp. unfold ones. apply nthK_repeat1. exact Hp.
Qed.

End Fast.
Arguments nthK {K}. Arguments vml {K}. Arguments propl {K}. Arguments eval_l {K}.
