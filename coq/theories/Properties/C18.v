(* C18 -- batch tensors behave as independent stacks of ordinary tensors.  Statements only.
   Model/Batch.v mirrors the batch=True branches (tables with a leading batch index) and, side by side, the
   batch=False branches of the same kernels; proofs in Proofs/BatchSliceP.v (exact commutation with taking the
   b-th element) and Proofs/BatchP.v (value of every element). [slice_b t b] is the b-th ordinary tensor,
   [den] its decompression (Model/Format.v). *)
From TN Require Import Proofs.BatchP Proofs.BatchTorchP.

Section C18.
Variable K : Ops.
Hypothesis Kth : laws K.
Local Open Scope K_scope.

(* ---- representation level: the b-th element of the batch result IS the ordinary result on the b-th elements
        (same format, ranks, cores and factors) ---- *)
Theorem C18_add_slice : forall (t u : btensor K) bb, bsz t = bsz u ->
  option_map (fun r => slice_b r bb) (add_b t u) = add_c (slice_b t bb) (slice_b u bb).
Proof. exact (slice_add_b K). Qed.

(* the batch product makes its factor-level/decompressed choice per mode from the batch shape (B, I_0, ..): [bdecs] *)
Theorem C18_mul_slice : forall (t u : btensor K) bb, bsz t = bsz u ->
  option_map (fun r => slice_b r bb) (mul_b t u) = mul_with (bdecs t u) (slice_b t bb) (slice_b u bb).
Proof. exact (slice_mul_b K). Qed.

Theorem C18_smul_slice : forall (phis : list K) (t : btensor K) bb,
  slice_b (smul_b phis t) bb = smul_c phis (slice_b t bb).
Proof. exact (slice_smul_b K). Qed.

Theorem C18_sadd_slice : forall (c : K) (t : btensor K) bb,
  option_map (fun r => slice_b r bb) (sadd_b c t) = sadd_c c (slice_b t bb).
Proof. exact (slice_sadd_b K). Qed.

Theorem C18_decompress_slice : forall (t : btensor K) bb, slice_b (decompress_b t) bb = decompress (slice_b t bb).
Proof. exact (slice_decompress K). Qed.

Theorem C18_cp_to_tt_slice : forall (c : bcdata K) bb, slice_core (bcp_to_tt_core c) bb = cp_to_tt_core (slice_core c bb).
Proof. exact (slice_cp_to_tt_core K). Qed.

Theorem C18_select_slice : forall B' sel (t : btensor K) bb, slice_b (select_b B' sel t) bb = slice_b t (sel bb).
Proof. exact (slice_select_b K). Qed.

Theorem C18_select_int : forall k (t : btensor K), select_int_b k t = slice_b t k.
Proof. exact (select_int_b_spec K). Qed.

Theorem C18_wf_slice : forall (t : btensor K) bb, wf_btensor t = true -> wf_tensor (slice_b t bb) = true.
Proof. exact (wf_slice K). Qed.

(* ---- the ordinary concrete kernels refine the network models of C02 (new at this level) ---- *)
Theorem C18_add_c : forall (t u r : tensor K) idx, wf_tensor t = true -> wf_tensor u = true ->
  add_c t u = Some r -> in_range (shape t) idx = true -> den r idx = den t idx + den u idx.
Proof. exact (add_c_sound K Kth). Qed.

Theorem C18_mul_with : forall (decs : list bool) (t u r : tensor K) idx, wf_tensor t = true -> wf_tensor u = true ->
  mul_with decs t u = Some r -> in_range (shape t) idx = true -> den r idx = den t idx * den u idx.
Proof. exact (mul_with_sound K Kth). Qed.

(* ---- value level: every element of a batch result decompresses to the operation on that element ---- *)
Theorem C18_add : forall (t u r : btensor K) bb idx, wf_btensor t = true -> wf_btensor u = true ->
  add_b t u = Some r -> in_range (bshape_of (bmodes t)) idx = true ->
  den (slice_b r bb) idx = den (slice_b t bb) idx + den (slice_b u bb) idx.
Proof. exact (add_b_sound K Kth). Qed.

Theorem C18_mul : forall (t u r : btensor K) bb idx, wf_btensor t = true -> wf_btensor u = true ->
  mul_b t u = Some r -> in_range (bshape_of (bmodes t)) idx = true ->
  den (slice_b r bb) idx = den (slice_b t bb) idx * den (slice_b u bb) idx.
Proof. exact (mul_b_sound K Kth). Qed.

(* scaling the cores by any factors phis (the code: |c|^(1/N) each, the sign on core 0; or c on core 0) *)
Theorem C18_smul : forall (phis : list K) (t : btensor K) bb idx, wf_btensor t = true ->
  length phis = length (bmodes t) -> in_range (bshape_of (bmodes t)) idx = true ->
  den (slice_b (smul_b phis t) bb) idx = prodl phis * den (slice_b t bb) idx.
Proof. exact (smul_b_sound K Kth). Qed.

Theorem C18_sadd : forall (c : K) (t r : btensor K) bb idx, wf_btensor t = true -> sadd_b c t = Some r ->
  in_range (bshape_of (bmodes t)) idx = true -> den (slice_b r bb) idx = den (slice_b t bb) idx + c.
Proof. exact (sadd_b_sound K Kth). Qed.

Theorem C18_decompress : forall (t : btensor K) bb idx, wf_btensor t = true ->
  in_range (bshape_of (bmodes t)) idx = true -> den (slice_b (decompress_b t) bb) idx = den (slice_b t bb) idx.
Proof. exact (decompress_b_sound K Kth). Qed.

Theorem C18_select : forall B' sel (t : btensor K) bb idx,
  den (slice_b (select_b B' sel t) bb) idx = den (slice_b t (sel bb)) idx.
Proof. exact (select_b_sound K). Qed.

(* Tensor.torch() on a batch tensor (the factor walk of the code, Model/Batch.torch_b): the entry (b, idx) of the result is the
   entry idx of element b.  [brank_last t] is the right rank of the last core (the final  sum(-1) / [..., 0]  needs it non-zero). *)
Theorem C18_torch : forall (t : btensor K) bb idx, wf_btensor t = true -> (0 < brank_last t)%nat ->
  in_range (bshape_of (bmodes t)) idx = true -> torch_val t bb idx = den (slice_b t bb) idx.
Proof. exact (torch_b_sound K Kth). Qed.

(* batch sizes must agree *)
Theorem C18_add_batch_size : forall (t u r : btensor K), add_b t u = Some r -> bsz t = bsz u /\ bsz r = bsz t.
Proof. exact (add_b_bsz K). Qed.
Theorem C18_mul_batch_size : forall (t u r : btensor K), mul_b t u = Some r -> bsz t = bsz u /\ bsz r = bsz t.
Proof. exact (mul_b_bsz K). Qed.

End C18.

Print Assumptions C18_add_slice. Print Assumptions C18_mul_slice. Print Assumptions C18_smul_slice.
Print Assumptions C18_sadd_slice. Print Assumptions C18_decompress_slice. Print Assumptions C18_cp_to_tt_slice.
Print Assumptions C18_select_slice. Print Assumptions C18_select_int. Print Assumptions C18_wf_slice.
Print Assumptions C18_add_c. Print Assumptions C18_mul_with.
Print Assumptions C18_add. Print Assumptions C18_mul. Print Assumptions C18_smul. Print Assumptions C18_sadd.
Print Assumptions C18_decompress. Print Assumptions C18_select. Print Assumptions C18_torch.
Print Assumptions C18_add_batch_size. Print Assumptions C18_mul_batch_size.
