(* C01 -- lossless round trip and format independence.  Statements only.
   Models: Model/FullRank.v (_full_rank_tt), Model/Convert.v (decompress_tucker_factors,
   _cp_to_tt with its reshape trick, tt, transpose, clone).  Orthogonalisation and rounding at the
   default tolerance are C13 / C04. *)
From TN Require Import Proofs.ConvertP Proofs.FullRankP Alg.Inst Harness.HBase.

Section C01.
Variable K : Ops.
Hypothesis Kth : laws K.

(* compress without limits, decompress: same values, same shape; any N, any sizes >= 1 *)
Theorem C01_roundtrip : forall (sh : list nat) (xf : nat -> K) idx,
  in_range sh idx = true -> sh <> [] ->
  eval (full_rank_tt sh xf) idx = xf (flatidx sh idx) /\ sshape (full_rank_tt sh xf) = sh.
Proof. exact (full_rank_tt_sound K Kth). Qed.

Theorem C01_decompress : forall (sel : list bool) (t : tensor K) idx,
  wf_tensor t = true -> in_range (shape t) idx = true -> den (decompress_sel sel t) idx = den t idx.
Proof. exact (decompress_sel_sound K Kth). Qed.

(* the zero-buffer / reshape / permute trick of _cp_to_tt yields the diagonal core *)
Theorem C01_cp_trick : forall s r (g : nat -> nat -> K) a i b,
  (a < r)%nat -> (b < r)%nat -> (i < s)%nat ->
  cp_buf s r g ((a * r + b) * s + i)%nat = if Nat.eqb a b then g i a else r0 K.
Proof. exact (cp_to_tt_core_diag K). Qed.

Theorem C01_cp_to_tt : forall (t : tensor K) idx,
  wf_tensor t = true -> in_range (shape t) idx = true -> den (cp_to_tt t) idx = den t idx.
Proof. exact (cp_to_tt_sound K Kth). Qed.

Theorem C01_tt : forall (t : tensor K) idx,
  wf_tensor t = true -> in_range (shape t) idx = true -> den (tt t) idx = den t idx.
Proof. exact (tt_sound K Kth). Qed.

Theorem C01_transpose : forall (t : tensor K) idx,
  wf_tensor t = true -> length idx = length t -> den (transpose t) (rev idx) = den t idx.
Proof. exact (transpose_sound K Kth). Qed.

Theorem C01_clone : forall (t : tensor K) idx, den (clone t) idx = den t idx.
Proof. reflexivity. Qed.

(* reported shape = shape of the decompressed array; reported TT ranks = the bond sizes *)
Theorem C01_shape_ranks : forall (t : tensor K),
  shape t = sshape (sem t) /\ ranks_tt t = bonds (sem t).
Proof.
  intros t. split; [symmetry; unfold sshape, sem, shape; rewrite map_map; apply map_ext; intros m;
    unfold sem_mode, m_size; destruct (fac m) as [[[? ?] ?]|]; reflexivity|].
  unfold ranks_tt, bonds, sem. destruct t as [|m t]; [reflexivity|]. cbn [map].
  f_equal; [unfold sem_mode; destruct (fac m) as [[[? ?] ?]|]; reflexivity|].
  f_equal; [unfold sem_mode; destruct (fac m) as [[[? ?] ?]|]; reflexivity|].
  rewrite map_map. apply map_ext. intros x. unfold sem_mode. destruct (fac x) as [[[? ?] ?]|]; reflexivity.
Qed.
End C01.

(* non-vacuity: a 2x3x2 array and a CP/TT-Tucker tensor with rank > size *)
Example C01_nonvacuous_roundtrip :
  dense_of (eval (full_rank_tt (K:=ZO) [2;3;2]%nat (fun k => Z.of_nat k))) [2;3;2]%nat = map Z.of_nat (seq 0 12).
Proof. vm_compute. reflexivity. Qed.
Definition exT : tensor ZO :=
  [zM (zCP 2 3 [1;2;3;4;5;6]%Z) (zU 2 2 [1;1;0;1]%Z); zM (zCP 1 3 [1;-1;2]%Z) None; zM (zTT 3 2 1 [1;0;2;1;1;1]%Z) None].
Example C01_nonvacuous_tt : wf_tensor exT = true /\
  dense_of (den (tt exT)) (shape exT) = dense_of (den exT) (shape exT) /\
  dense_of (den exT) (shape exT) <> [0;0;0;0]%Z.
Proof. repeat split; vm_compute; congruence. Qed.

Print Assumptions C01_roundtrip.
Print Assumptions C01_decompress.
Print Assumptions C01_cp_trick.
Print Assumptions C01_cp_to_tt.
Print Assumptions C01_tt.
Print Assumptions C01_transpose.
Print Assumptions C01_clone.
Print Assumptions C01_shape_ranks.
