(* C18, part 1: every batch kernel commutes EXACTLY with taking the b-th element: the b-th element of the result
   has the very cores and factors (same format, ranks, entries) that the ordinary kernel builds from the b-th
   elements of the operands.  (Functions are compared by conversion: no extensionality axiom is used.) *)
From TN Require Export Model.Batch.

Section BatchSliceP.
Variable K : Ops.
Local Open Scope K_scope.

(* all reshapes of the batch branches keep the leading axis: position bb * M + k (k < M) of the row-major buffer is
   position k of element bb's own buffer *)
Lemma flat_batch_split M bb k : (k < M)%nat -> ((bb * M + k) / M = bb /\ (bb * M + k) mod M = k)%nat.
Proof. intros H. split.
  - rewrite Nat.add_comm, Nat.div_add by lia. rewrite Nat.div_small by lia. lia.
  - rewrite Nat.add_comm, Nat.mod_add by lia. apply Nat.mod_small; lia. Qed.

Lemma is_nil_map {A B} (f : A -> B) l : is_nil (map f l) = is_nil l.
Proof. destruct l; reflexivity. Qed.

Lemma shape_slice (ms : list (bmode K)) bb : shape (slice_modes ms bb) = bshape_of ms.
Proof. unfold shape, slice_modes, bshape_of. rewrite map_map. apply map_ext. intros m.
  unfold m_size, bm_size, slice_mode. cbn [fac core].
  destruct (bfac m) as [[[di s] U]|]; cbn [slice_fac]; [reflexivity|].
  destruct (bcore m); reflexivity. Qed.

Lemma length_slice (ms : list (bmode K)) bb : length (slice_modes ms bb) = length ms.
Proof. apply map_length. Qed.

Lemma wf_slice (t : btensor K) bb : wf_btensor t = true -> wf_tensor (slice_b t bb) = true.
Proof.
  unfold wf_btensor, wf_tensor, slice_b. destruct (bmodes t) as [|m0 ms] eqn:E; [discriminate|].
  intros H. apply andb_true_iff in H. destruct H as [H1 H2].
  cbn [slice_modes map]. apply andb_true_iff. split.
  - change (slice_mode bb m0 :: map (slice_mode bb) ms) with (map (slice_mode bb) (m0 :: ms)).
    rewrite forallb_forall in *. intros m Hm. apply in_map_iff in Hm. destruct Hm as (m' & <- & Hm').
    specialize (H1 m' Hm'). unfold wf_bmode in H1. unfold wf_mode, slice_mode. cbn [fac core].
    destruct (bfac m') as [[[di s] U]|]; cbn [slice_fac]; [|reflexivity].
    destruct (bcore m'); exact H1.
  - assert (G: forall (l : list (bmode K)) r, bchain r l = true -> chain r (sem (map (slice_mode bb) l)) = true).
    { induction l as [|m l IH]; intros r Hc; [reflexivity|].
      cbn [bchain] in Hc. apply andb_true_iff in Hc. destruct Hc as [Ha Hb].
      cbn [map sem chain]. apply andb_true_iff. split.
      - unfold sem_mode, slice_mode. cbn [fac core].
        destruct (bfac m) as [[[di s] U]|]; cbn [slice_fac rl]; destruct (bcore m); exact Ha.
      - replace (rr (sem_mode (slice_mode bb m))) with (bc_rr (bcore m)); [apply IH; exact Hb|].
        unfold sem_mode, slice_mode. cbn [fac core].
        destruct (bfac m) as [[[di s] U]|]; cbn [slice_fac rr]; destruct (bcore m); reflexivity. }
    replace (c_rl (core (slice_mode bb m0))) with (bc_rl (bcore m0)).
    + apply (G (m0 :: ms)). exact H2.
    + unfold slice_mode. cbn [core]. destruct (bcore m0); reflexivity.
Qed.

(* ---- conversions ---- *)
Theorem slice_decompress (t : btensor K) bb : slice_b (decompress_b t) bb = decompress (slice_b t bb).
Proof.
  unfold slice_b, decompress_b, decompress, slice_modes. cbn [bmodes]. rewrite !map_map. apply map_ext.
  intros [[a s b g|s r g] [[[di s'] U]|]]; reflexivity.
Qed.

Theorem slice_cp_to_tt_core (c : bcdata K) bb : slice_core (bcp_to_tt_core c) bb = cp_to_tt_core (slice_core c bb).
Proof. destruct c; reflexivity. Qed.

(* ---- addition ---- *)
Lemma slice_add_mode first last (m1 m2 : bmode K) bb :
  slice_mode bb (badd_mode first last m1 m2) = add_mode first last (slice_mode bb m1) (slice_mode bb m2).
Proof.
  destruct m1 as [[a1 s1 b1 g1|s1 r1 g1] [[[d1 t1] U1]|]], m2 as [[a2 s2 b2 g2|s2 r2 g2] [[[d2 t2] U2]|]];
    destruct first, last; reflexivity.
Qed.

Lemma slice_add_modes (t : list (bmode K)) : forall first u bb,
  slice_modes (badd_modes first t u) bb = add_modes first (slice_modes t bb) (slice_modes u bb).
Proof.
  induction t as [|m1 t IH]; intros first u bb; [reflexivity|].
  destruct u as [|m2 u]; [reflexivity|].
  cbn [badd_modes slice_modes map add_modes]. unfold slice_modes in IH. rewrite IH.
  rewrite is_nil_map. rewrite slice_add_mode. reflexivity.
Qed.

Theorem slice_add_b (t u : btensor K) bb : bsz t = bsz u ->
  option_map (fun r => slice_b r bb) (add_b t u) = add_c (slice_b t bb) (slice_b u bb).
Proof.
  intros EB. unfold add_b, add_c, slice_b. rewrite !shape_slice, length_slice. rewrite EB, Nat.eqb_refl. cbn [andb].
  destruct (nat_list_eqb _ _ && _); [|reflexivity].
  cbn [option_map bmodes]. rewrite slice_add_modes. reflexivity.
Qed.

(* ---- multiplication: same kernel, with the batch branch's representation choices [bdecs] ---- *)
Lemma slice_mul_mode dec (m1 m2 : bmode K) bb :
  slice_mode bb (bmul_mode dec m1 m2) = mul_mode dec (slice_mode bb m1) (slice_mode bb m2).
Proof.
  destruct m1 as [[a1 s1 b1 g1|s1 r1 g1] [[[d1 t1] U1]|]], m2 as [[a2 s2 b2 g2|s2 r2 g2] [[[d2 t2] U2]|]];
    destruct dec; reflexivity.
Qed.

Lemma slice_mul_modes (decs : list bool) : forall (t u : list (bmode K)) bb,
  slice_modes (bmul_modes decs t u) bb = mul_modes decs (slice_modes t bb) (slice_modes u bb).
Proof.
  induction decs as [|d decs IH]; intros t u bb; [reflexivity|].
  destruct t as [|m1 t]; [reflexivity|]. destruct u as [|m2 u]; [reflexivity|].
  cbn [bmul_modes slice_modes map mul_modes]. unfold slice_modes in IH. rewrite IH, slice_mul_mode. reflexivity.
Qed.

Lemma length_ltbs xs : forall ys, length (ltbs xs ys) = Nat.min (length xs) (length ys).
Proof. induction xs as [|x xs IH]; intros [|y ys]; cbn [ltbs length]; auto. rewrite IH. reflexivity. Qed.

Lemma length_bd1s (t : list (bmode K)) : forall u, length (bd1s t u) = Nat.min (length t) (length u).
Proof. induction t as [|m t IH]; intros [|m' u]; cbn [bd1s length]; auto. rewrite IH. reflexivity. Qed.

Lemma nat_list_eqb_len l1 l2 : nat_list_eqb l1 l2 = true -> length l1 = length l2.
Proof. unfold nat_list_eqb. intros H. apply andb_true_iff in H. destruct H as [H _]. apply Nat.eqb_eq. exact H. Qed.

Theorem slice_mul_b (t u : btensor K) bb : bsz t = bsz u ->
  option_map (fun r => slice_b r bb) (mul_b t u) = mul_with (bdecs t u) (slice_b t bb) (slice_b u bb).
Proof.
  intros EB. unfold mul_b, mul_with, slice_b. rewrite !shape_slice, length_slice. rewrite EB, Nat.eqb_refl. cbn [andb].
  destruct (nat_list_eqb (bshape_of (bmodes t)) (bshape_of (bmodes u))) eqn:E; [|reflexivity].
  assert (L: length (bdecs t u) = length (bmodes t)).
  { unfold bdecs. rewrite length_ltbs, length_bd1s. cbn [length]. unfold bshape_of. rewrite map_length.
    apply nat_list_eqb_len in E. unfold bshape_of in E. rewrite !map_length in E. lia. }
  rewrite L, Nat.eqb_refl. cbn [andb option_map bmodes]. rewrite slice_mul_modes. reflexivity.
Qed.

(* ---- scalar forms ---- *)
Lemma slice_smul_modes (phis : list K) : forall (t : list (bmode K)) bb,
  slice_modes (bsmul_modes phis t) bb = smul_c phis (slice_modes t bb).
Proof.
  induction phis as [|f phis IH]; intros t bb; [reflexivity|].
  destruct t as [|m t]; [reflexivity|].
  cbn [bsmul_modes slice_modes map smul_c]. unfold slice_modes in IH. rewrite IH. f_equal.
  destruct m as [[a s b g|s r g] [[[d1 t1] U1]|]]; reflexivity.
Qed.

Theorem slice_smul_b (phis : list K) (t : btensor K) bb :
  slice_b (smul_b phis t) bb = smul_c phis (slice_b t bb).
Proof. unfold slice_b, smul_b. cbn [bmodes]. apply slice_smul_modes. Qed.

Theorem slice_const_b (c : K) B sh bb : slice_b (const_b c B sh) bb = const_c c sh.
Proof. unfold slice_b, const_b, const_c. cbn [bmodes]. destruct sh as [|d sh]; [reflexivity|].
  cbn [slice_modes map]. f_equal. rewrite map_map. reflexivity. Qed.

Theorem slice_sadd_b (c : K) (t : btensor K) bb :
  option_map (fun r => slice_b r bb) (sadd_b c t) = sadd_c c (slice_b t bb).
Proof.
  unfold sadd_b, sadd_c. rewrite slice_add_b by reflexivity. rewrite slice_const_b.
  unfold slice_b at 3. rewrite shape_slice. reflexivity.
Qed.

(* ---- selection along the batch mode ---- *)
Theorem slice_select_b B' sel (t : btensor K) bb : slice_b (select_b B' sel t) bb = slice_b t (sel bb).
Proof.
  unfold slice_b, select_b, slice_modes. cbn [bmodes]. rewrite map_map. apply map_ext.
  intros [[a s b g|s r g] [[[d1 t1] U1]|]]; reflexivity.
Qed.

Theorem select_int_b_spec k (t : btensor K) : select_int_b k t = slice_b t k.
Proof. unfold select_int_b. apply slice_select_b. Qed.

End BatchSliceP.
