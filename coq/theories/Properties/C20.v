(* C20 -- finite-difference calculus on compressed tensors matches the dense stencil.  Statements only.
   Model: Model/Deriv.v (one linear map on the differentiated mode). *)
From TN Require Import Proofs.DerivP Alg.Inst.

Section C20.
Variable K : Ops.
Hypothesis Kth : laws K.
Local Open Scope K_scope.

(* partial derivative of order 1 along mode k: the stencil applied to the dense array along that mode,
   times 1/step, for every format of that mode (hinv = 1/step is a parameter: the step formula is read
   from the case) *)
Theorem C20_partial : forall k n hinv periodic (cs : list (score K)) c idx i,
  nth_error cs k = Some c -> nth_error idx k = Some i -> dm c = n ->
  eval (partial1_net k n hinv periodic cs) idx =
  hinv * sumn n (fun j => (if periodic then stencil_p n i j else stencil_np n i j) * eval cs (upd k idx j)).
Proof. exact (partial1_sound K Kth). Qed.

(* the non-periodic stencil: centred differences inside, linearly extrapolated ends *)
Theorem C20_stencil : forall n i (f : nat -> K), (3 <= n)%nat -> (i < n)%nat ->
  sumn n (fun j => stencil_np n i j * f j) =
  if Nat.eqb i 0 then two * f 1%nat - two * f O
  else if Nat.eqb i (n - 1) then two * f (n - 1)%nat - two * f (n - 2)%nat
  else f (i + 1)%nat - f (i - 1)%nat.
Proof. exact (stencil_np_apply K Kth). Qed.

Theorem C20_constants_annihilated : forall n i (c0 : K), (3 <= n)%nat -> (i < n)%nat ->
  sumn n (fun j => stencil_np n i j * c0) = 0.
Proof. exact (stencil_np_const K Kth). Qed.

Theorem C20_affine_to_constant : forall n i (a b : K), (3 <= n)%nat -> (i < n)%nat ->
  sumn n (fun j => stencil_np n i j * (a + b * of_nat j)) = two * b.
Proof. exact (stencil_np_affine K Kth). Qed.
End C20.

Print Assumptions C20_partial.
Print Assumptions C20_stencil.
Print Assumptions C20_constants_annihilated.
Print Assumptions C20_affine_to_constant.
