(* C08, min/max clause over the reals: the value cross(_minimize=True) stores for a sample,
   tan(pi/2 - (pi/2 - atan(f - m))) + m   (cross.py:343-349), is the sampled value f itself. *)
From Coq Require Import Reals Ratan Lra.
Local Open Scope R_scope.

Lemma minimize_transform_inverse (f m : R) : tan (PI / 2 - (PI / 2 - atan (f - m))) + m = f.
Proof. replace (PI / 2 - (PI / 2 - atan (f - m))) with (atan (f - m)) by lra. rewrite tan_atan. lra. Qed.

(* the transform is strictly decreasing: the argmax of the transformed samples is an argmin of the samples *)
Lemma minimize_transform_decreasing (f g m : R) : f < g -> PI / 2 - atan (g - m) < PI / 2 - atan (f - m).
Proof. intros H. assert (atan (f - m) < atan (g - m)) by (apply atan_increasing; lra). lra. Qed.
