(* Carriers: Z (exact correspondence), Q normalised by Qred (division kernels),
   dual numbers over any carrier (forward-mode derivatives, C07). *)
From TN Require Export Alg.Ops.
From Coq Require Import QArith Qcanon.

Definition ZO : Ops := mkOps Z 0%Z 1%Z Z.add Z.mul Z.sub Z.opp.
Lemma ZO_laws : laws ZO. Proof. exact Zth. Qed.

(* executable rationals: every operation is followed by Qred, so results are canonical and
   structurally comparable.  The lawful version of the same carrier is Qc below. *)
Definition QO : Ops :=
  mkOps Q 0%Q 1%Q (fun a b => Qred (a + b)) (fun a b => Qred (a * b))
        (fun a b => Qred (a - b)) (fun a => Qred (- a)).

Definition QcO : Ops := mkOps Qc 0%Qc 1%Qc Qcplus Qcmult Qcminus Qcopp.
Lemma QcO_laws : laws QcO. Proof. exact Qcrt. Qed.

Section Dual.
Variable K : Ops.
Local Open Scope K_scope.
Definition dual := (car K * car K)%type.
Definition d0 : dual := (0, 0).
Definition d1 : dual := (1, 0).
Definition dadd (x y : dual) : dual := (fst x + fst y, snd x + snd y).
Definition dmul (x y : dual) : dual := (fst x * fst y, fst x * snd y + snd x * fst y).
Definition dopp (x : dual) : dual := (- fst x, - snd x).
Definition dsub (x y : dual) : dual := (fst x - fst y, snd x - snd y).
Definition DO : Ops := mkOps dual d0 d1 dadd dmul dsub dopp.
Hypothesis Kth : laws K.
Add Ring Kr : Kth.
Lemma DO_laws : laws DO.
Proof.
  constructor; intros; try destruct x as [x1 x2]; try destruct y as [y1 y2];
    try destruct z as [z1 z2]; cbn [DO car r0 r1 radd rmul rsub ropp];
    unfold d0, d1, dadd, dmul, dsub, dopp; cbn [fst snd]; try apply f_equal2; ring.
Qed.
End Dual.
