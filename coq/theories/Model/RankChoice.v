(* round.truncated_svd: the rank decision.  S = squared singular values (non-increasing), the code computes
   where((cumsum(S[reverse]) <= delta**2))[0], takes the last hit w and returns
   rank = max(1, min(rmax, len(S) - max(null, 1 + w)))   (or max(1, min(rmax, len(S) - null)) when there is no hit),
   where null = number of singular values at round-off level (<= s_0 max(m,n) eps), which are never kept.
   Here: [ndrop] = number of trailing values whose sum stays within the budget = w + 1.  No proofs here. *)
From Coq Require Export QArith List Arith Lia.
Import ListNotations.
Open Scope Q_scope.
Fixpoint sumq (l : list Q) : Q := match l with [] => 0 | x :: t => x + sumq t end.
(* scan the reversed spectrum, accumulating the tail sum; count how many prefixes of the reversed list fit *)
Fixpoint ndrop_rev (acc : Q) (rs : list Q) (d2 : Q) : nat :=
  match rs with
  | [] => O
  | x :: rs' => if Qle_bool (acc + x) d2 then S (ndrop_rev (acc + x) rs' d2) else O
  end.
Definition ndrop (S : list Q) (d2 : Q) : nat := ndrop_rev 0 (rev S) d2.
Definition choose_rank (S : list Q) (d2 : Q) (rmax null : nat) : nat :=
  Nat.max 1 (Nat.min rmax (length S - Nat.max null (ndrop S d2))).
Definition tail_energy (S : list Q) (r : nat) : Q := sumq (skipn r S).
