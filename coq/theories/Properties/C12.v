(* C12 -- array-manipulation and creation routines.  Statements only.
   Every manipulation routine changes one mode by a linear map (einsum with a matrix on the core or on
   its Tucker factor) or a re-indexing (index_select): Model/Tools.v; proofs Proofs/ToolsP.v. *)
From TN Require Import Proofs.ToolsP Proofs.ConvertP Model.Create Alg.Inst Harness.HBase.

Section C12.
Variable K : Ops.
Hypothesis Kth : laws K.
Local Open Scope K_scope.
Notation net := (list (score K)).

Theorem C12_ttm : forall k rows M (cs : net) c idx i,
  nth_error cs k = Some c -> nth_error idx k = Some i ->
  eval (ttm_net k rows M cs) idx = sumn (dm c) (fun j => M i j * eval cs (upd k idx j)).
Proof. exact (ttm_sound K Kth). Qed.

Theorem C12_flip : forall k (cs : net) c idx i,
  nth_error cs k = Some c -> nth_error idx k = Some i ->
  eval (flip_net k cs) idx = eval cs (upd k idx (dm c - 1 - i)%nat).
Proof. exact (flip_sound K). Qed.

Theorem C12_cumsum : forall k (cs : net) c idx i,
  nth_error cs k = Some c -> nth_error idx k = Some i -> (i < dm c)%nat ->
  eval (cumsum_net k cs) idx = sumn (S i) (fun j => eval cs (upd k idx j)).
Proof. exact (cumsum_sound K Kth). Qed.

Theorem C12_repeat : forall k r (cs : net) c idx i,
  nth_error cs k = Some c -> nth_error idx k = Some i ->
  eval (repeat_net k r cs) idx = eval cs (upd k idx (i mod dm c)%nat).
Proof. exact (repeat_sound K). Qed.

(* zero padding (off = 0) and the zero embedding used by cat *)
Theorem C12_pad_embed : forall k off tot (cs : net) c idx i,
  nth_error cs k = Some c -> nth_error idx k = Some i ->
  eval (embed_net k off tot cs) idx =
  if ((off <=? i) && (i <? off + dm c))%nat then eval cs (upd k idx (i - off)%nat) else 0.
Proof. exact (embed_sound K Kth). Qed.

Theorem C12_cat : forall k (a b cs : net) ca cb,
  nth_error a k = Some ca -> nth_error b k = Some cb -> good K a -> good K b ->
  upd k (sshape a) O = upd k (sshape b) O -> cat2_net k a b = Some cs ->
  sshape cs = upd k (sshape a) (dm ca + dm cb)%nat /\
  forall idx i, in_range (sshape cs) idx = true -> nth_error idx k = Some i ->
    eval cs idx = if (i <? dm ca)%nat then eval a idx else eval b (upd k idx (i - dm ca)%nat).
Proof. exact (cat2_sound K Kth). Qed.

(* slices of unbind, re-indexing of mask *)
Theorem C12_select : forall k d' g (cs : net) c idx i,
  nth_error cs k = Some c -> nth_error idx k = Some i ->
  eval (select_net k d' g cs) idx = eval cs (upd k idx (g i)).
Proof. exact (select_sound K). Qed.

Theorem C12_transpose : forall (t : tensor K) idx,
  wf_tensor t = true -> length idx = length t -> den (transpose t) (rev idx) = den t idx.
Proof. exact (transpose_sound K Kth). Qed.

(* ones / zeros / full *)
Theorem C12_full : forall (c : K) sh idx, sh <> [] -> length idx = length sh ->
  eval (full_net c sh) idx = c /\ sshape (full_net c sh) = sh.
Proof. exact (full_sound K Kth). Qed.

(* eye(n, m) *)
Theorem C12_eye : forall n m i j, (j < m)%nat ->
  eval (eye_net (K:=K) n m) [i; j] = delta i j /\ sshape (eye_net (K:=K) n m) = [n; m].
Proof. exact (eye_sound K Kth). Qed.
End C12.

Example C12_nonvacuous :
  let t := [zM (zCP 3 2 [1;2;0;1;-1;3]%Z) None; zM (zTT 2 2 1 [1;0;2;1]%Z) None] in
  dense_of (eval (flip_net 0 (sem t))) [3;2]%nat = [5;3;2;1;5;2]%Z /\
  dense_of (eval (cumsum_net 0 (sem t))) [3;2]%nat = [5;2;7;3;12;6]%Z.
Proof. split; vm_compute; reflexivity. Qed.

Print Assumptions C12_ttm.
Print Assumptions C12_flip.
Print Assumptions C12_cumsum.
Print Assumptions C12_repeat.
Print Assumptions C12_pad_embed.
Print Assumptions C12_cat.
Print Assumptions C12_select.
Print Assumptions C12_transpose.
Print Assumptions C12_full.
Print Assumptions C12_eye.
