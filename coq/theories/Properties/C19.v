(* C19 -- TT/CP matrices act like the dense matrices they compress.  Statements only.
   Model: Model/Matrix.v (mirrors tntorch/matrix.py: TTMatrix.torch/trace, tt_multiply, CPMatrix.torch, cp_multiply,
   Kronecker inv/cholesky with the per-block kernels as oracles); proofs: Proofs/MatrixP.v; any commutative ring. *)
From TN Require Import Proofs.MatrixP Model.Format.

Section C19.
Variable K : Ops.
Hypothesis Kth : laws K.
Local Open Scope K_scope.

(* multiplying by a TT-matrix = multiplying by its decompression (multi-index form and flat row/column form) *)
Theorem C19_tt_multiply : forall (cs : list (mcore K)) (x : list nat -> K) oo,
  chainm 1 cs -> in_dims (odims cs) oo ->
  tt_multiply cs x oo = sumidx (idims cs) (fun ii => x ii * mentry cs ii oo).
Proof. exact (tt_multiply_sound K Kth). Qed.
Theorem C19_tt_multiply_flat : forall (cs : list (mcore K)) (xf : nat -> K) col,
  chainm 1 cs -> (col < prodl (odims cs))%nat ->
  tt_multiply cs (fun ii => xf (ravel (idims cs) ii)) (unravel (odims cs) col) =
  sumn (prodl (idims cs)) (fun row => xf row * mat cs row col).
Proof. exact (tt_multiply_flat K Kth). Qed.

(* the TT-matrix trace is the trace of the decompression *)
Theorem C19_trace : forall cs : list (mcore K), chainm 1 cs -> Forall (fun c => mi c = mo c) cs ->
  trace cs = sumidx (idims cs) (fun ii => mentry cs ii ii).
Proof. exact (trace_sound K Kth). Qed.
Theorem C19_trace_flat : forall cs : list (mcore K), chainm 1 cs -> Forall (fun c => mi c = mo c) cs ->
  trace cs = sumn (prodl (idims cs)) (fun row => mat cs row row).
Proof. exact (trace_flat K Kth). Qed.

(* the (i_k, o_k) interleaving used by the constructor is undone by torch(), and stays inside the flattened modes *)
Theorem C19_interleave_roundtrip : forall (cs : list (mcore K)) ii oo, length ii = length cs -> in_dims (odims cs) oo ->
  unzip_i K cs (mzip cs ii oo) = ii /\ unzip_o K cs (mzip cs ii oo) = oo.
Proof. exact (interleave_roundtrip K). Qed.
Theorem C19_interleave_in_range : forall (cs : list (mcore K)) ii oo, in_dims (idims cs) ii -> in_dims (odims cs) oo ->
  in_dims (sshape (map flat cs)) (mzip cs ii oo).
Proof. exact (mzip_in_dims K). Qed.

(* CP matrices: decompression is sum_r prod_k core_k[i_k, o_k, r], and cp_multiply multiplies by it *)
Theorem C19_cp_torch : forall R (cs : list (cpcore K)) ii oo, cs <> [] -> in_dims (map (@co K) cs) oo -> length ii = length cs ->
  den (map (cp_flat K R) cs) (cpzip K cs ii oo) = cp_entry R cs ii oo.
Proof. exact (cp_torch_sound K Kth). Qed.
Theorem C19_cp_multiply : forall R (cs : list (cpcore K)) (x : list nat -> K) oo, length oo = length cs ->
  cp_multiply R cs x oo = sumidx (cidims cs) (fun ii => x ii * cp_entry R cs ii oo).
Proof. exact (cp_multiply_sound K Kth). Qed.

(* Kronecker products (all bonds 1): entries are products of block entries; products, inverses and Cholesky factors are
   block-wise (mixed-product property) *)
Theorem C19_kron_entry : forall (cs : list (mcore K)) ii oo, is_kron cs -> in_dims (odims cs) oo -> length ii = length cs ->
  mentry cs ii oo = kentry (map kmat cs) ii oo.
Proof. exact (mentry_kron K Kth). Qed.
Theorem C19_kron_mixed_product : forall (ds : list nat) (xs ys : list (nat -> nat -> K)) ii oo,
  length xs = length ds -> length ys = length ds -> length ii = length ds -> length oo = length ds ->
  sumidx ds (fun mm => kentry xs ii mm * kentry ys mm oo) = kentry (zip_matmul ds xs ys) ii oo.
Proof. exact (kron_mixed_product K Kth). Qed.
Theorem C19_kron_inverse : forall (ds : list nat) (xs ys : list (nat -> nat -> K)) ii oo,
  length xs = length ds -> length ys = length ds -> in_dims ds ii -> in_dims ds oo ->
  (forall k i o, (i < nth k ds 0)%nat -> (o < nth k ds 0)%nat ->
     matmul (nth k ds 0%nat) (nth k xs (fun _ _ => 0)) (nth k ys (fun _ _ => 0)) i o = delta i o) ->
  sumidx ds (fun mm => kentry xs ii mm * kentry ys mm oo) = deltas K ii oo.
Proof. exact (kron_inverse K Kth). Qed.
Theorem C19_kron_cholesky : forall (ds : list nat) (ls : list (nat -> nat -> K)) ii oo,
  length ls = length ds -> length ii = length ds -> length oo = length ds ->
  sumidx ds (fun mm => kentry ls ii mm * kentry ls oo mm) = kentry (zip_matmul ds ls (map (fun m i o => m o i) ls)) ii oo.
Proof. exact (kron_cholesky K Kth). Qed.
End C19.

Print Assumptions C19_tt_multiply.
Print Assumptions C19_tt_multiply_flat.
Print Assumptions C19_trace.
Print Assumptions C19_trace_flat.
Print Assumptions C19_interleave_roundtrip.
Print Assumptions C19_interleave_in_range.
Print Assumptions C19_cp_torch.
Print Assumptions C19_cp_multiply.
Print Assumptions C19_kron_entry.
Print Assumptions C19_kron_mixed_product.
Print Assumptions C19_kron_inverse.
Print Assumptions C19_kron_cholesky.
