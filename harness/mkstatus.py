"""Generates the machine-written parts of DESIGN.md section 0 (status tables) -> /verif/STATUS.md"""
import json, glob, os, re
V = os.path.dirname(os.path.dirname(os.path.abspath(__file__)))
claims = json.load(open(V + "/harness/claims.json"))
kf = json.load(open(V + "/known_findings.json"))
props = [json.loads(l) for l in open(V + "/properties.jsonl")]
out = []
out.append("| id | level | theorems (Properties/<id>.v) | model/impl comparisons per quick run | open known findings |")
out.append("|----|-------|------------------------------|--------------------------------------|---------------------|")
for p in props:
    pid = p["id"]; c = claims.get(pid, {})
    ev = {}
    try:
        ev = json.load(open(V + "/evidence/%s.json" % pid))
    except Exception:
        pass
    cov = ev.get("coverage", {})
    th = cov.get("theorems") or []
    open_f = [f["id"] for f in kf["findings"] if f["property"] == pid and f["status"] == "open"]
    out.append("| %s | %s | %s | %s of %s cases | %s |" % (pid, c.get("category", "proof"), ", ".join(th) if th else "-",
               cov.get("correspondence_cases_evaluated_in_coq", 0), cov.get("evaluations", "?"), ", ".join(open_f) or "-"))
out.append("")
out.append("Seeded changes (independent sub-agents, confirmed in a scratch worktree; `seeded/<id>/meta.json`):")
out.append("")
out.append("| seeded change | breaks | detected by quick check | what it needs to manifest (first line of the author's note) |")
out.append("|---|---|---|---|")
for d in sorted(glob.glob(V + "/seeded/C*-m*")):
    m = json.load(open(d + "/meta.json"))
    note = m.get("needs_to_manifest", "").strip().splitlines()
    out.append("| %s | %s | %s | %s |" % (m["id"], m["breaks_property"], "yes" if m.get("detected_by_quick_check") else "NO",
               (note[0] if note else "")[:160].replace("|", "/")))
out.append("")
out.append("Repairs committed to /repo (`fix:` commits) and open findings are listed in `known_findings.json`: %d fixed, %d open." %
           (len(kf["fixed"]), len([f for f in kf["findings"] if f["status"] == "open"])))
open(V + "/STATUS.md", "w").write("\n".join(out) + "\n")
print("\n".join(out[:25]))
