From TN Require Export Sem.Moves Model.FullRank.

Section FullRankP.
Variable K : Ops.
Hypothesis Kth : laws K.
Add Ring Kring : Kth.
Local Open Scope K_scope.

Lemma divmod_u k c a r : (r < c)%nat -> k = (a * c + r)%nat -> (k / c = a /\ k mod c = r)%nat.
Proof. intros H E. subst k. split.
  - rewrite Nat.add_comm, Nat.div_add by lia. rewrite Nat.div_small by lia. lia.
  - rewrite Nat.add_comm, Nat.mod_add by lia. apply Nat.mod_small; lia. Qed.

Lemma flat_lt sh : forall idx, in_range sh idx = true -> (flatidx sh idx < prodn sh)%nat.
Proof.
  induction sh as [|d sh IH]; intros [|i idx] H; try discriminate; [simpl; lia|].
  cbn [in_range] in H. apply andb_true_iff in H. destruct H as [Hi H]. apply Nat.ltb_lt in Hi.
  specialize (IH idx H). cbn [flatidx prodn]. nia.
Qed.

Lemma prodn_div s rest : (0 < s)%nat -> (prodn (s :: rest) / s = prodn rest)%nat.
Proof. intros H. cbn [prodn]. rewrite Nat.mul_comm. apply Nat.div_mul. lia. Qed.

Theorem frt_sound (rest : list nat) : forall r s (W : nat -> nat -> K) i idx p,
  in_range rest idx = true -> (i < s)%nat -> (p < r)%nat ->
  evalv (frt rest r s W) (i :: idx) ones p = W (p * s + i)%nat (flatidx rest idx).
Proof.
  induction rest as [|s' rest IH]; intros r s W i idx p Hr Hi Hp.
  - destruct idx; [|discriminate]. cbn [frt evalv rr sl flatidx].
    rewrite sumn_1 by assumption. unfold ones. ring.
  - destruct idx as [|j idx]; [discriminate|].
    cbn [in_range] in Hr. apply andb_true_iff in Hr. destruct Hr as [Hj Hr]. apply Nat.ltb_lt in Hj.
    assert (Hs': (0 < s')%nat) by lia.
    assert (Hfl := flat_lt rest idx Hr).
    cbn [frt]. rewrite (prodn_div s' rest Hs').
    destruct (Nat.ltb_spec (r * s) (prodn (s' :: rest))) as [Hlt|Hge].
    + cbn [evalv rr sl].
      assert (Hps: (p * s + i < r * s)%nat) by nia.
      rewrite sumn_delta by assumption.
      rewrite IH by (auto; lia).
      destruct (divmod_u ((p * s + i) * s' + j) s' (p * s + i) j Hj eq_refl) as [E1 E2].
      rewrite E1, E2. reflexivity.
    + cbn [evalv rr sl].
      rewrite (sumn_ext _ _ (fun q => W (p * s + i)%nat q * delta q (j * prodn rest + flatidx rest idx)%nat)).
      * rewrite (sumn_delta_r Kth); [reflexivity|cbn [prodn]; nia].
      * intros q Hq. rewrite IH by (auto; lia).
        destruct (divmod_u (q * s' + j) s' q j Hj eq_refl) as [E1 E2]. rewrite E1, E2. reflexivity.
Qed.

Lemma frt_shape (rest : list nat) : forall r s (W : nat -> nat -> K), sshape (frt rest r s W) = s :: rest.
Proof.
  induction rest as [|s' rest IH]; intros r s W; [reflexivity|].
  cbn [frt]. destruct (r * s <? prodn (s' :: rest))%nat; cbn [sshape map dm]; f_equal; apply IH.
Qed.

Lemma frt_chain (rest : list nat) : forall r s (W : nat -> nat -> K), chain r (frt rest r s W) = true.
Proof.
  induction rest as [|s' rest IH]; intros r s W.
  - cbn. rewrite Nat.eqb_refl. reflexivity.
  - cbn [frt]. destruct (r * s <? prodn (s' :: rest))%nat; cbn [chain rl rr];
      rewrite Nat.eqb_refl; apply IH.
Qed.

Theorem full_rank_tt_sound (sh : list nat) (xf : nat -> K) idx :
  in_range sh idx = true -> sh <> [] ->
  eval (full_rank_tt sh xf) idx = xf (flatidx sh idx) /\ sshape (full_rank_tt sh xf) = sh.
Proof.
  intros Hr Hne. destruct sh as [|s0 rest]; [congruence|]. destruct idx as [|i idx]; [discriminate|].
  cbn [in_range] in Hr. apply andb_true_iff in Hr. destruct Hr as [Hi Hr]. apply Nat.ltb_lt in Hi.
  split; [|apply frt_shape].
  unfold full_rank_tt, eval.
  assert (E: forall (W : nat -> nat -> K), match frt rest 1 s0 W with [] => 1 | c :: _ => sumn (rl c) (evalv (frt rest 1 s0 W) (i :: idx) ones) end
                       = evalv (frt rest 1 s0 W) (i :: idx) ones O).
  { intros W. destruct rest as [|s' rest']; cbn [frt].
    - cbn [rl]. rewrite sumn_1 by assumption. reflexivity.
    - destruct (1 * s0 <? prodn (s' :: rest'))%nat; cbn [rl]; rewrite sumn_1 by assumption; reflexivity. }
  rewrite E. rewrite frt_sound by (auto; lia). cbn [flatidx]. f_equal.
Qed.

End FullRankP.
