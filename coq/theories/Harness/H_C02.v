From TN Require Export Harness.HBase Sem.Fast Model.Arith.
From Coq Require Import QArith.

Section H.
Variable K : Ops.
Variable cmp : K -> K -> bool.

Record case := mkCase {
  c_env : list (tensor K); c_expr : expr K;
  c_ok : bool; c_shape : list nat; c_dense : list K }.

Definition check (c : case) : bool :=
  match interp (fun n => sem (nth n (c_env c) [])) (c_expr c) with
  | Some cs =>
      c_ok c && shape_eqb (sshape cs) (c_shape c) &&
      list_cmp cmp (dense_of (eval_l cs) (sshape cs)) (c_dense c)
  | None => negb (c_ok c)
  end.
End H.

Definition checkZ := check ZO cmpZ.
Definition checkQ := check QO cmpQ.
Definition mkZ := mkCase ZO.
Definition mkQ := mkCase QO.
Definition zLeaf := @ELeaf ZO. Definition zAdd := @EAdd ZO. Definition zSub := @ESub ZO.
Definition zMul := @EMul ZO. Definition zNeg := @ENeg ZO. Definition zSmul := @ESmul ZO.
Definition zSadd := @ESadd ZO. Definition zRsub := @ERsub ZO.
Definition qLeaf := @ELeaf QO. Definition qAdd := @EAdd QO. Definition qSub := @ESub QO.
Definition qMul := @EMul QO. Definition qNeg := @ENeg QO. Definition qSmul := @ESmul QO.
Definition qSadd := @ESadd QO. Definition qRsub := @ERsub QO.

Definition caseT := (case ZO + case QO)%type.
Definition cZ (c : case ZO) : caseT := inl c.
Definition cQ (c : case QO) : caseT := inr c.
Definition check_any (c : caseT) : bool := match c with inl z => checkZ z | inr q => checkQ q end.
