(* Theorems about the definitions the translator regenerates from the Python source
   (Gen/Generated.v): derived operators (C02, C15), metrics (C06), logic predicates (C15).
   The kernel primitives are abstract here; their specifications are the hypotheses H_*, each of
   which is a theorem of the kernel layer (Properties/C02.v, C06.v) for well-formed operands. *)
From TN Require Import Alg.InstR Gen.Generated.

Section GenP.
Variable tensor : Type.
Variable t_dot : tensor -> tensor -> R.
Variables t_add t_mul : tensor -> tensor -> tensor.
Variables t_smul t_sadd : R -> tensor -> tensor.
Variables t_mean t_numel t_sum : tensor -> R.
Variable den : tensor -> list nat -> R.
Variable sh : list nat.
Notation S := (sumR sh).
Open Scope R_scope.

(* [ok]: well-formed operands of the common shape [sh]; every kernel preserves it *)
Variable ok : tensor -> Prop.
Notation inr i := (in_range sh i = true).
Hypothesis H_add : forall a b, ok a -> ok b -> ok (t_add a b) /\ forall i, inr i -> den (t_add a b) i = den a i + den b i.
Hypothesis H_mul : forall a b, ok a -> ok b -> ok (t_mul a b) /\ forall i, inr i -> den (t_mul a b) i = den a i * den b i.
Hypothesis H_smul : forall c a, ok a -> ok (t_smul c a) /\ forall i, inr i -> den (t_smul c a) i = c * den a i.
Hypothesis H_sadd : forall c a, ok a -> ok (t_sadd c a) /\ forall i, inr i -> den (t_sadd c a) i = den a i + c.
Hypothesis H_dot : forall a b, ok a -> ok b -> t_dot a b = S (fun i => den a i * den b i).
Hypothesis H_sum : forall a, ok a -> t_sum a = S (den a).
Hypothesis H_numel : forall a, ok a -> 0 < t_numel a.
Hypothesis H_mean : forall a, ok a -> t_mean a = S (den a) / t_numel a.

Notation g_sub := (gen_tensor_sub_TT tensor t_add t_smul).
Notation g_subs := (gen_tensor_sub_TR tensor t_sadd).
Notation g_rsub := (gen_tensor_rsub_TR tensor t_smul t_sadd).
Notation g_neg := (gen_tensor_neg_T tensor t_smul).
Notation g_radd := (gen_tensor_radd_TR tensor t_sadd).
Notation g_rmul := (gen_tensor_rmul_TR tensor t_smul).
Notation g_div := (gen_tensor_truediv_TR tensor t_smul).
Notation g_not := (gen_tensor_invert_T tensor t_smul t_sadd).
Notation g_and := (gen_tensor_and_TT tensor t_mul).
Notation g_or := (gen_tensor_or_TT tensor t_add t_mul t_smul).
Notation g_xor := (gen_tensor_xor_TT tensor t_add t_mul t_smul).
Notation g_normsq := (gen_metrics_normsq tensor t_dot).
Notation g_norm := (gen_metrics_norm tensor t_dot).
Notation g_dist := (gen_metrics_dist tensor t_dot).
Notation g_relerr := (gen_metrics_relative_error tensor t_dot).
Notation g_rmse := (gen_metrics_rmse tensor t_dot t_numel).
Notation g_r2 := (gen_metrics_r_squared tensor t_dot t_sadd t_mean).
Notation g_var := (gen_metrics_var tensor t_dot t_sadd t_mean t_numel).
Notation g_std := (gen_metrics_std tensor t_dot t_sadd t_mean t_numel).

(* ---- derived operators (C02) ---- *)
Ltac prim :=
  repeat match goal with
  | |- context [den (t_add ?a ?b) ?i] => rewrite (proj2 (H_add a b ltac:(auto) ltac:(auto)) i) by assumption
  | |- context [den (t_mul ?a ?b) ?i] => rewrite (proj2 (H_mul a b ltac:(auto) ltac:(auto)) i) by assumption
  | |- context [den (t_smul ?c ?a) ?i] => rewrite (proj2 (H_smul c a ltac:(auto)) i) by assumption
  | |- context [den (t_sadd ?c ?a) ?i] => rewrite (proj2 (H_sadd c a ltac:(auto)) i) by assumption
  end.
Lemma ok_add a b : ok a -> ok b -> ok (t_add a b). Proof. intros; apply H_add; auto. Qed.
Lemma ok_mul a b : ok a -> ok b -> ok (t_mul a b). Proof. intros; apply H_mul; auto. Qed.
Lemma ok_smul c a : ok a -> ok (t_smul c a). Proof. intros; apply H_smul; auto. Qed.
Lemma ok_sadd c a : ok a -> ok (t_sadd c a). Proof. intros; apply H_sadd; auto. Qed.
Hint Resolve ok_add ok_mul ok_smul ok_sadd : core.

Lemma gen_sub_den a b : ok a -> ok b -> ok (g_sub a b) /\ forall i, inr i -> den (g_sub a b) i = den a i - den b i.
Proof. intros. unfold gen_tensor_sub_TT, gen_tensor_rmul_TR. split; [auto|]. intros i Hi. prim. lra. Qed.
Lemma gen_subs_den a c : ok a -> ok (g_subs a c) /\ forall i, inr i -> den (g_subs a c) i = den a i - c.
Proof. intros. unfold gen_tensor_sub_TR. split; [auto|]. intros i Hi. prim. lra. Qed.
Lemma gen_rsub_den a c : ok a -> ok (g_rsub a c) /\ forall i, inr i -> den (g_rsub a c) i = c - den a i.
Proof. intros. unfold gen_tensor_rsub_TR, gen_tensor_rmul_TR. split; [auto|]. intros i Hi. prim. lra. Qed.
Lemma gen_neg_den a : ok a -> ok (g_neg a) /\ forall i, inr i -> den (g_neg a) i = - den a i.
Proof. intros. unfold gen_tensor_neg_T, gen_tensor_rmul_TR. split; [auto|]. intros i Hi. prim. lra. Qed.
Lemma gen_radd_den a c : ok a -> ok (g_radd a c) /\ forall i, inr i -> den (g_radd a c) i = c + den a i.
Proof. intros. unfold gen_tensor_radd_TR. split; [auto|]. intros i Hi. prim. lra. Qed.
Lemma gen_rmul_den a c : ok a -> ok (g_rmul a c) /\ forall i, inr i -> den (g_rmul a c) i = c * den a i.
Proof. intros. unfold gen_tensor_rmul_TR. split; [auto|]. intros i Hi. prim. lra. Qed.
Lemma gen_div_den a c : ok a -> c <> 0 -> ok (g_div a c) /\ forall i, inr i -> den (g_div a c) i = den a i / c.
Proof. intros Ha Hc. unfold gen_tensor_truediv_TR. split; [auto|]. intros i Hi. prim. field. exact Hc. Qed.

(* ---- Boolean connectives (C15) ---- *)
Lemma gen_not_den a : ok a -> ok (g_not a) /\ forall i, inr i -> den (g_not a) i = 1 - den a i.
Proof. intros. unfold gen_tensor_invert_T. apply gen_rsub_den; auto. Qed.
Lemma gen_and_den a b : ok a -> ok b -> ok (g_and a b) /\ forall i, inr i -> den (g_and a b) i = den a i * den b i.
Proof. intros. unfold gen_tensor_and_TT. split; [auto|]. intros i Hi. prim. reflexivity. Qed.
Lemma gen_or_den a b : ok a -> ok b ->
  ok (g_or a b) /\ forall i, inr i -> den (g_or a b) i = den a i + den b i - den a i * den b i.
Proof. intros. unfold gen_tensor_or_TT.
  destruct (gen_sub_den (t_add a b) (t_mul a b)) as [O E]; auto. split; [exact O|].
  intros i Hi. rewrite E by assumption. prim. reflexivity. Qed.
Lemma gen_xor_den a b : ok a -> ok b ->
  ok (g_xor a b) /\ forall i, inr i -> den (g_xor a b) i = den a i + den b i - 2 * (den a i * den b i).
Proof. intros. unfold gen_tensor_xor_TT, gen_tensor_rmul_TR.
  destruct (gen_sub_den (t_add a b) (t_mul (t_smul (IZR 2) a) b)) as [O E]; auto. split; [exact O|].
  intros i Hi. rewrite E by assumption. prim. lra. Qed.

(* ---- metrics (C06) ---- *)
Definition sq (x : R) := x * x.
Lemma S_add f g : S (fun i => f i + g i) = S f + S g.
Proof. apply (sumidx_add (K:=RO) RO_laws). Qed.
Lemma S_scal c f : S (fun i => c * f i) = c * S f.
Proof. apply (sumidx_mul_l (K:=RO) RO_laws). Qed.
Lemma S_ext f g : (forall i, inr i -> f i = g i) -> S f = S g.
Proof. apply sumR_ext_in. Qed.

Lemma expand_sq a b : ok a -> ok b ->
  t_dot a a + t_dot b b - 2 * t_dot a b = S (fun i => sq (den a i - den b i)).
Proof.
  intros Ha Hb. rewrite !H_dot by assumption.
  rewrite (S_ext (fun i => sq (den a i - den b i))
     (fun i => (den a i * den a i + den b i * den b i) + (-2) * (den a i * den b i))).
  - rewrite S_add, S_add, S_scal. lra.
  - intros i _. unfold sq. lra.
Qed.

Lemma S_sq_nonneg f : 0 <= S (fun i => sq (f i)).
Proof. apply sumR_nonneg. intros idx. unfold sq. apply Rle_0_sqr. Qed.

Theorem gen_normsq_spec a : ok a -> g_normsq a = S (fun i => sq (den a i)).
Proof. intros. unfold gen_metrics_normsq. apply H_dot; auto. Qed.

Theorem gen_norm_spec a : ok a -> g_norm a = sqrt (S (fun i => sq (den a i))).
Proof. intros. unfold gen_metrics_norm. rewrite gen_normsq_spec by assumption.
  rewrite Rmax_right; [reflexivity|apply S_sq_nonneg]. Qed.

(* the distance is the norm of the difference -- also when the inner product is negative *)
Theorem gen_dist_spec a b : ok a -> ok b -> g_dist a b = sqrt (S (fun i => sq (den a i - den b i))).
Proof.
  intros. unfold gen_metrics_dist. change (IZR 2) with 2. rewrite expand_sq by assumption.
  rewrite Rmax_right; [reflexivity|apply S_sq_nonneg].
Qed.

Corollary gen_dist_is_norm_of_difference a b : ok a -> ok b -> g_dist a b = g_norm (g_sub a b).
Proof. intros Ha Hb. destruct (gen_sub_den a b Ha Hb) as [O E].
  rewrite gen_dist_spec, gen_norm_spec by assumption. f_equal. apply S_ext. intros i Hi.
  rewrite E by assumption. reflexivity. Qed.

Corollary gen_dist_sym a b : ok a -> ok b -> g_dist a b = g_dist b a.
Proof. intros. rewrite !gen_dist_spec by assumption. f_equal. apply S_ext. intros i _. unfold sq. lra. Qed.

Corollary gen_dist_zero_iff a b : ok a -> ok b ->
  (g_dist a b = 0 <-> forall idx, inr idx -> den a idx = den b idx).
Proof.
  intros Ha Hb. rewrite gen_dist_spec by assumption. split.
  - intros H idx Hr. apply sqrt_eq_0 in H; [|apply S_sq_nonneg].
    assert (Hnn: forall i, 0 <= sq (den a i - den b i)) by (intros i; unfold sq; apply Rle_0_sqr).
    assert (E := sumR_zero_each sh (fun i => sq (den a i - den b i)) Hnn H idx Hr).
    cbv beta in E. unfold sq in E. apply Rsqr_0_uniq in E. lra.
  - intros H. rewrite (sumR_ext_in sh _ (fun _ => 0)).
    + rewrite (sumidx_zero (K:=RO) RO_laws). apply sqrt_0.
    + intros idx Hr. rewrite (H idx Hr). unfold sq. lra.
Qed.

Theorem gen_relative_error_spec a b : ok a -> ok b ->
  g_relerr a b = sqrt (S (fun i => sq (den a i - den b i))) / sqrt (S (fun i => sq (den a i))).
Proof.
  intros. unfold gen_metrics_relative_error. change (IZR 2) with 2. rewrite expand_sq by assumption.
  rewrite Rmax_right by apply S_sq_nonneg. rewrite H_dot by assumption.
  rewrite Rmax_right; [reflexivity|]. apply (S_sq_nonneg (den a)).
Qed.

Theorem gen_rmse_spec a b : ok a -> ok b ->
  g_rmse a b = sqrt (S (fun i => sq (den a i - den b i))) / sqrt (t_numel a).
Proof. intros. unfold gen_metrics_rmse. rewrite gen_dist_spec by assumption. reflexivity. Qed.

Theorem gen_var_spec a : ok a ->
  g_var a = S (fun i => sq (den a i - S (den a) / t_numel a)) / t_numel a.
Proof.
  intros Ha. unfold gen_metrics_var. destruct (gen_subs_den a (t_mean a) Ha) as [O E].
  rewrite gen_normsq_spec by assumption. f_equal. apply S_ext. intros i Hi.
  rewrite E by assumption. rewrite H_mean by assumption. reflexivity.
Qed.

Theorem gen_std_spec a : ok a ->
  g_std a = sqrt (S (fun i => sq (den a i - S (den a) / t_numel a)) / t_numel a).
Proof. intros. unfold gen_metrics_std. rewrite gen_var_spec by assumption. reflexivity. Qed.

(* ---- moments through hadamard_sum (C06) ---- *)
Variable t_hsum : list tensor -> R.
Hypothesis H_hsum : forall l, l <> nil -> Forall ok l ->
  t_hsum l = S (fun i => fold_right (fun x acc => den x i * acc) 1 l).
(* numel depends on the shape only *)
Hypothesis H_numel_sh : forall a b, ok a -> ok b -> t_numel a = t_numel b.
Notation g_rawm := (gen_metrics_raw_moment tensor t_numel t_hsum).
Notation g_normm := (gen_metrics_normalized_moment tensor t_dot t_sadd t_mean t_numel t_hsum).

Lemma fold_repeat_pow a i k : fold_right (fun x acc => den x i * acc) 1 (repeat a k) = den a i ^ k.
Proof. induction k as [|k IH]; cbn [repeat fold_right pow]; [reflexivity|]. rewrite IH. reflexivity. Qed.

(* raw_moment(t, k) = E[t^k] (uniform weights) *)
Theorem gen_raw_moment_spec a k : ok a -> (0 < k)%nat ->
  g_rawm a k = S (fun i => den a i ^ k) / t_numel a.
Proof.
  intros Ha Hk. unfold gen_metrics_raw_moment. rewrite H_hsum.
  - f_equal. apply S_ext. intros i _. apply fold_repeat_pow.
  - destruct k; [inversion Hk|discriminate].
  - clear Hk. induction k as [|k IH]; cbn [repeat]; constructor; auto.
Qed.

(* normalized_moment(t, k) = E[(t - E t)^k] / var^(k/2), population variance *)
Theorem gen_normalized_moment_spec a k : ok a -> (0 < k)%nat ->
  g_normm a k =
  (S (fun i => (den a i - S (den a) / t_numel a) ^ k) / t_numel a) /
  Rpower (S (fun i => sq (den a i - S (den a) / t_numel a)) / t_numel a) (INR k / 2).
Proof.
  intros Ha Hk. unfold gen_metrics_normalized_moment.
  destruct (gen_subs_den a (t_mean a) Ha) as [O E].
  rewrite (gen_raw_moment_spec _ k O Hk), gen_var_spec by assumption.
  rewrite (H_numel_sh _ a O Ha). change (IZR 2) with 2. f_equal. f_equal.
  apply S_ext. intros i Hi. rewrite E by assumption. rewrite H_mean by assumption. reflexivity.
Qed.


Theorem gen_r_squared_spec a b : ok a -> ok b ->
  g_r2 a b = 1 - S (fun i => sq (den a i - den b i)) / S (fun i => sq (den a i - S (den a) / t_numel a)).
Proof.
  intros Ha Hb. unfold gen_metrics_r_squared. destruct (gen_subs_den a (t_mean a) Ha) as [O E].
  rewrite gen_dist_spec, gen_normsq_spec by assumption. change (IZR 1) with 1.
  rewrite sqrt_sqrt by apply S_sq_nonneg. f_equal. f_equal. apply S_ext. intros i Hi.
  rewrite E by assumption. rewrite H_mean by assumption. reflexivity.
Qed.


(* ================= Boolean formulas (C15) ================= *)
Lemma sumR_term_le (f : list nat -> R) : (forall i, 0 <= f i) ->
  forall idx, inr idx -> f idx <= S f.
Proof.
  revert f. generalize sh as s. induction s as [|d s IH]; intros f Hf idx Hr.
  - destruct idx; [|discriminate]. cbn. lra.
  - destruct idx as [|i idx]; [discriminate|]. cbn [in_range] in Hr. apply andb_true_iff in Hr.
    destruct Hr as [Hi Hr]. apply Nat.ltb_lt in Hi. cbn [sumidx].
    assert (G: forall n (g : nat -> R), (forall j, 0 <= g j) -> forall j, (j < n)%nat -> g j <= sumn (K:=RO) n g).
    { induction n as [|n IHn]; intros g Hg j Hj; [lia|]. cbn [sumn]. change (radd RO) with Rplus.
      assert (0 <= sumn (K:=RO) n g) by (apply sumnR_nonneg; intros; apply Hg).
      destruct (Nat.eq_dec j n) as [->|Hne]; [lra|]. specialize (IHn g Hg j ltac:(lia)). specialize (Hg n). lra. }
    eapply Rle_trans; [apply (IH (fun x => f (i :: x)) (fun x => Hf (i :: x)) idx Hr)|].
    apply (G d (fun j => sumR s (fun x => f (j :: x)))); auto.
    intros j. apply sumR_nonneg. intros; apply Hf.
Qed.

Inductive form := FSym (n : nat) | FTrue | FFalse | FNot (f : form)
                | FAnd (f g : form) | FOr (f g : form) | FXor (f g : form).
Variable sym : nat -> tensor.
Variables t_true t_false : tensor.
Definition bit (x : list nat) (n : nat) : bool := Nat.eqb (nth n x O) 1.
Definition b2r (b : bool) : R := if b then 1 else 0.
Hypothesis H_sym : forall n, ok (sym n) /\ forall x, inr x -> den (sym n) x = b2r (bit x n).
Hypothesis H_true : ok t_true /\ forall x, inr x -> den t_true x = 1.
Hypothesis H_false : ok t_false /\ forall x, inr x -> den t_false x = 0.

Fixpoint truth (f : form) (x : list nat) : bool :=
  match f with
  | FSym n => bit x n | FTrue => true | FFalse => false
  | FNot f => negb (truth f x) | FAnd f g => truth f x && truth g x
  | FOr f g => truth f x || truth g x | FXor f g => xorb (truth f x) (truth g x)
  end.

(* the formula built through the operators of the code: ~ & | ^ are the generated definitions *)
Fixpoint interp (f : form) : tensor :=
  match f with
  | FSym n => sym n | FTrue => t_true | FFalse => t_false
  | FNot f => g_not (interp f) | FAnd f g => g_and (interp f) (interp g)
  | FOr f g => g_or (interp f) (interp g) | FXor f g => g_xor (interp f) (interp g)
  end.

Theorem formula_truth_table (f : form) :
  ok (interp f) /\ forall x, inr x -> den (interp f) x = b2r (truth f x).
Proof.
  induction f as [n| | |f [Of Ef]|f [Of Ef] g [Og Eg]|f [Of Ef] g [Og Eg]|f [Of Ef] g [Og Eg]]; cbn [interp truth].
  - apply H_sym.
  - exact H_true.
  - exact H_false.
  - destruct (gen_not_den (interp f) Of) as [O E]. split; [exact O|]. intros x Hx.
    rewrite E, Ef by assumption. destruct (truth f x); cbn; lra.
  - destruct (gen_and_den (interp f) (interp g) Of Og) as [O E]. split; [exact O|]. intros x Hx.
    rewrite E, Ef, Eg by assumption. destruct (truth f x), (truth g x); cbn; lra.
  - destruct (gen_or_den (interp f) (interp g) Of Og) as [O E]. split; [exact O|]. intros x Hx.
    rewrite E, Ef, Eg by assumption. destruct (truth f x), (truth g x); cbn; lra.
  - destruct (gen_xor_den (interp f) (interp g) Of Og) as [O E]. split; [exact O|]. intros x Hx.
    rewrite E, Ef, Eg by assumption. destruct (truth f x), (truth g x); cbn; lra.
Qed.

Notation g_contra := (gen_logic_is_contradiction tensor t_dot).
Notation g_taut := (gen_logic_is_tautology tensor t_dot t_smul t_sadd).
Notation g_sat := (gen_logic_is_satisfiable tensor t_sum).
Notation g_implies := (gen_logic_implies tensor t_dot t_mul t_smul t_sadd).
Notation g_equiv := (gen_logic_equiv tensor t_dot t_mul t_smul t_sadd).

Lemma b2r_sq b : sq (b2r b) = b2r b. Proof. destruct b; unfold sq; cbn; lra. Qed.
Lemma b2r_nonneg b : 0 <= b2r b. Proof. destruct b; cbn; lra. Qed.

Lemma contra_iff (f : form) :
  g_contra (interp f) <-> forall x, inr x -> truth f x = false.
Proof.
  destruct (formula_truth_table f) as [O E]. unfold gen_logic_is_contradiction.
  rewrite (gen_norm_spec (interp f) O).
  rewrite (S_ext _ (fun i => b2r (truth f i))) by (intros i Hi; rewrite E by assumption; apply b2r_sq).
  split.
  - intros H x Hx.
    assert (Hs: 0 <= S (fun i => b2r (truth f i))) by (apply sumR_nonneg; intros; apply b2r_nonneg).
    assert (Hle := sumR_term_le (fun i => b2r (truth f i)) (fun i => b2r_nonneg _) x Hx). cbv beta in Hle.
    destruct (truth f x); [|reflexivity]. exfalso. cbn in Hle.
    assert (1 <= sqrt (S (fun i => b2r (truth f i)))).
    { rewrite <- sqrt_1. apply sqrt_le_1; lra. }
    lra.
  - intros H. rewrite (S_ext _ (fun _ => 0)) by (intros i Hi; rewrite (H i Hi); reflexivity).
    rewrite (sumidx_zero (K:=RO) RO_laws). change (r0 RO) with 0. rewrite sqrt_0. lra.
Qed.

Theorem is_contradiction_spec (f : form) :
  g_contra (interp f) <-> forall x, inr x -> truth f x = false.
Proof. apply contra_iff. Qed.

Theorem is_tautology_spec (f : form) :
  g_taut (interp f) <-> forall x, inr x -> truth f x = true.
Proof.
  unfold gen_logic_is_tautology. change (g_contra (interp (FNot f)) <-> forall x, inr x -> truth f x = true).
  rewrite contra_iff. cbn [truth]. split; intros H x Hx; specialize (H x Hx); destruct (truth f x); auto; discriminate.
Qed.

Theorem is_satisfiable_spec (f : form) :
  g_sat (interp f) <-> ~ (forall x, inr x -> truth f x = false).
Proof.
  destruct (formula_truth_table f) as [O E]. unfold gen_logic_is_satisfiable.
  rewrite (H_sum (interp f) O).
  rewrite (S_ext _ (fun i => b2r (truth f i))) by (intros i Hi; apply E; assumption).
  split.
  - intros H Hall. rewrite (S_ext _ (fun _ => 0)) in H by (intros i Hi; rewrite (Hall i Hi); reflexivity).
    rewrite (sumidx_zero (K:=RO) RO_laws) in H. change (r0 RO) with 0 in H. lra.
  - intros H. apply Rnot_lt_ge. intros Hlt. apply H. intros x Hx.
    assert (Hle := sumR_term_le (fun i => b2r (truth f i)) (fun i => b2r_nonneg _) x Hx). cbv beta in Hle.
    destruct (truth f x); [|reflexivity]. cbn in Hle. lra.
Qed.

Theorem implies_spec (f g : form) :
  g_implies (interp f) (interp g) <-> forall x, inr x -> truth f x = true -> truth g x = true.
Proof.
  unfold gen_logic_implies.
  change (g_contra (interp (FAnd f (FNot g))) <-> (forall x, inr x -> truth f x = true -> truth g x = true)).
  rewrite contra_iff. cbn [truth]. split; intros H x Hx.
  - specialize (H x Hx). destruct (truth f x), (truth g x); auto; discriminate.
  - specialize (H x Hx). destruct (truth f x), (truth g x); auto. discriminate H; auto.
Qed.

Theorem equiv_spec (f g : form) :
  g_equiv (interp f) (interp g) <-> forall x, inr x -> truth f x = truth g x.
Proof.
  unfold gen_logic_equiv. rewrite !implies_spec. split.
  - intros [H1 H2] x Hx. specialize (H1 x Hx). specialize (H2 x Hx).
    destruct (truth f x) eqn:Ef, (truth g x) eqn:Eg; auto;
      try (symmetry; apply H1; reflexivity); try (apply H2; reflexivity).
  - intros H. split; intros x Hx Ht; specialize (H x Hx); congruence.
Qed.

(* ---- sensitivity: mean dimension from the generated composition of sobol, weight and mask (C09) ---- *)
Section MeanDimension.
Variable marg : Type.
Variable t_sobol : tensor -> tensor -> marg -> R.
Variable t_weight : nat -> tensor.
Variable t_mask : tensor -> tensor -> tensor.
Variable t_dim : tensor -> nat.
Variable sub : list nat.                       (* the shape [2; ...; 2] of masks: subsets of variables *)
Notation SS := (sumR sub).
Notation ins al := (in_range sub al = true).
Variable okm : tensor -> Prop.                 (* well-formed masks *)
Variable comp : tensor -> marg -> list nat -> R.   (* variance components of t under the marginals *)
Variable wsize : list nat -> R.                (* |alpha| *)
Hypothesis H_sobol : forall t m g, ok t -> okm m ->
  t_sobol t m g = SS (fun al => den m al * comp t g al) / SS (comp t g).
Hypothesis H_weight : forall t, ok t -> okm (t_weight (t_dim t)) /\ forall al, ins al -> den (t_weight (t_dim t)) al = wsize al.
Hypothesis H_mask : forall a b, okm a -> okm b -> okm (t_mask a b) /\ forall al, ins al -> den (t_mask a b) al = den a al * den b al.

Notation g_md := (gen_anova_mean_dimension_N tensor marg t_sobol t_weight t_dim).
Notation g_mdm := (gen_anova_mean_dimension_M tensor marg t_sobol t_weight t_mask t_dim).

(* mean dimension = sum_alpha |alpha| D_alpha / sum_alpha D_alpha *)
Theorem gen_mean_dimension_spec t g : ok t ->
  g_md t g = SS (fun al => wsize al * comp t g al) / SS (comp t g).
Proof.
  intros Ht. unfold gen_anova_mean_dimension_N. destruct (H_weight t Ht) as [Hw Ew].
  rewrite (H_sobol t _ g Ht Hw). f_equal. apply sumR_ext_in. intros al Hal. rewrite Ew by exact Hal. reflexivity.
Qed.

(* restricted to a mask: sum |alpha| m_alpha D_alpha / sum m_alpha D_alpha *)
Theorem gen_mean_dimension_masked_spec t m g : ok t -> okm m ->
  SS (comp t g) <> 0 -> SS (fun al => den m al * comp t g al) <> 0 ->
  g_mdm t m g = SS (fun al => wsize al * (den m al * comp t g al)) / SS (fun al => den m al * comp t g al).
Proof.
  intros Ht Hm H0 H1. unfold gen_anova_mean_dimension_M. destruct (H_weight t Ht) as [Hw Ew].
  destruct (H_mask _ m Hw Hm) as [Hwm Ewm].
  rewrite (H_sobol t _ g Ht Hwm), (H_sobol t m g Ht Hm).
  replace (SS (fun al => den (t_mask (t_weight (t_dim t)) m) al * comp t g al))
    with (SS (fun al => wsize al * (den m al * comp t g al))).
  2:{ apply sumR_ext_in. intros al Hal. rewrite Ewm, Ew by exact Hal. ring. }
  field. split; assumption.
Qed.
End MeanDimension.

End GenP.
