From TN Require Export Proofs.ArithP Model.Tools Model.Create.

Section ToolsP.
Variable K : Ops.
Hypothesis Kth : laws K.
Add Ring Kring : Kth.
Local Open Scope K_scope.
Notation net := (list (score K)).

Lemma upd_head_rl (cs : net) k (c c' : score K) : nth_error cs k = Some c -> rl c' = rl c ->
  hd_rl K (upd k cs c') = hd_rl K cs.
Proof. destruct cs as [|a cs]; destruct k; simpl; intros H E; try discriminate; auto.
  injection H as ->. exact E. Qed.

Lemma eval_upd (cs : net) k (c c' : score K) idx (F : nat -> K) :
  nth_error cs k = Some c -> rl c' = rl c ->
  (forall p, evalv (upd k cs c') idx ones p = F p) ->
  eval (upd k cs c') idx = sumn (hd_rl K cs) F.
Proof.
  intros Hc Hrl HF. assert (Hh := upd_head_rl cs k c c' Hc Hrl).
  unfold eval. destruct (upd k cs c') as [|x xs] eqn:E.
  - destruct cs; destruct k; simpl in *; discriminate.
  - simpl in Hh. rewrite Hh. apply sumn_ext. intros p _. apply HF.
Qed.

(* a linear map on mode k *)
Theorem upd_lin_sound L d' (cs : net) k c idx i :
  nth_error cs k = Some c -> nth_error idx k = Some i ->
  eval (upd k cs (lin L d' c)) idx = sumn (dm c) (fun j => L i j * eval cs (upd k idx j)).
Proof.
  intros Hc Hi.
  rewrite (eval_upd cs k c (lin L d' c) idx
            (fun p => sumn (dm c) (fun j => L i j * evalv cs (upd k idx j) ones p))); auto.
  - rewrite (sumn_exch Kth). apply sumn_ext. intros j _. rewrite (sumn_mul_l Kth).
    f_equal. unfold eval. destruct cs as [|x cs]; [destruct k; discriminate|]. reflexivity.
  - intros p. eapply L1; eauto.
Qed.

(* re-indexing mode k *)
Theorem mode_lin_sound L d' (cs : net) k c idx i :
  nth_error cs k = Some c -> nth_error idx k = Some i ->
  eval (at_mode k (lin L d') cs) idx = sumn (dm c) (fun j => L i j * eval cs (upd k idx j)).
Proof. intros Hc Hi. unfold at_mode. rewrite Hc. apply upd_lin_sound; auto. Qed.

Theorem upd_reidx_sound g d' (cs : net) k c idx i :
  nth_error cs k = Some c -> nth_error idx k = Some i ->
  eval (upd k cs (reidx g d' c)) idx = eval cs (upd k idx (g i)).
Proof.
  intros Hc Hi.
  rewrite (eval_upd cs k c (reidx g d' c) idx (fun p => evalv cs (upd k idx (g i)) ones p)); auto.
  - unfold eval. destruct cs as [|x cs]; [destruct k; discriminate|]. reflexivity.
  - intros p. eapply L5; eauto.
Qed.

Theorem mode_reidx_sound g d' (cs : net) k c idx i :
  nth_error cs k = Some c -> nth_error idx k = Some i ->
  eval (at_mode k (reidx g d') cs) idx = eval cs (upd k idx (g i)).
Proof. intros Hc Hi. unfold at_mode. rewrite Hc. apply upd_reidx_sound; auto. Qed.

Theorem ttm_sound k rows M (cs : net) c idx i :
  nth_error cs k = Some c -> nth_error idx k = Some i ->
  eval (ttm_net k rows M cs) idx = sumn (dm c) (fun j => M i j * eval cs (upd k idx j)).
Proof. apply mode_lin_sound. Qed.

Theorem flip_sound k (cs : net) c idx i :
  nth_error cs k = Some c -> nth_error idx k = Some i ->
  eval (flip_net k cs) idx = eval cs (upd k idx (dm c - 1 - i)%nat).
Proof.
  intros Hc Hi. unfold flip_net, at_mode. rewrite Hc.
  eapply upd_reidx_sound; eauto.
Qed.

Theorem cumsum_sound k (cs : net) c idx i :
  nth_error cs k = Some c -> nth_error idx k = Some i -> (i < dm c)%nat ->
  eval (cumsum_net k cs) idx = sumn (S i) (fun j => eval cs (upd k idx j)).
Proof.
  intros Hc Hi Hlt. unfold cumsum_net, at_mode. rewrite Hc.
  rewrite (upd_lin_sound _ _ cs k c idx i Hc Hi).
  replace (dm c) with (S i + (dm c - S i))%nat by lia.
  rewrite (sumn_app Kth).
  rewrite (sumn_zero_ext Kth (dm c - S i)).
  - rewrite (sumn_ext (S i) _ (fun j => eval cs (upd k idx j))); [ring|].
    intros j Hj. destruct (Nat.leb_spec j i); [ring|lia].
  - intros j _. destruct (Nat.leb_spec (S i + j) i); [lia|ring].
Qed.

Theorem repeat_sound k r (cs : net) c idx i :
  nth_error cs k = Some c -> nth_error idx k = Some i ->
  eval (repeat_net k r cs) idx = eval cs (upd k idx (i mod dm c)%nat).
Proof.
  intros Hc Hi. unfold repeat_net, at_mode, rep_mode. rewrite Hc.
  eapply (upd_reidx_sound (fun i0 => (i0 mod dm c)%nat)); eauto.
Qed.

(* zero embedding: entries inside [off, off + dm c) are copied, all others are 0 *)
Theorem embed_sound k off tot (cs : net) c idx i :
  nth_error cs k = Some c -> nth_error idx k = Some i ->
  eval (embed_net k off tot cs) idx =
  if ((off <=? i) && (i <? off + dm c))%nat then eval cs (upd k idx (i - off)%nat) else 0.
Proof.
  intros Hc Hi. unfold embed_net, at_mode. rewrite Hc.
  rewrite (upd_lin_sound _ _ cs k c idx i Hc Hi).
  destruct (Nat.leb_spec off i) as [H1|H1]; cbn [andb].
  - destruct (Nat.ltb_spec i (off + dm c)) as [H2|H2].
    + rewrite (sumn_ext _ _ (fun j => delta (i - off)%nat j * eval cs (upd k idx j))).
      * apply (sumn_delta Kth). lia.
      * intros j Hj. unfold delta. destruct (Nat.eqb_spec i (off + j)), (Nat.eqb_spec (i - off) j); try lia; reflexivity.
    + apply (sumn_zero_ext Kth). intros j Hj. unfold delta.
      destruct (Nat.eqb_spec i (off + j)); [lia|ring].
  - apply (sumn_zero_ext Kth). intros j Hj. unfold delta.
    destruct (Nat.eqb_spec i (off + j)); [lia|ring].
Qed.

Theorem sum_sound k (cs : net) c idx i :
  nth_error cs k = Some c -> nth_error idx k = Some i ->
  eval (sum_net k cs) idx = sumn (dm c) (fun j => eval cs (upd k idx j)).
Proof.
  intros Hc Hi. unfold sum_net. rewrite (mode_lin_sound _ _ cs k c idx i Hc Hi).
  apply sumn_ext. intros; ring.
Qed.

Theorem wsum_sound k w (cs : net) c idx i :
  nth_error cs k = Some c -> nth_error idx k = Some i ->
  eval (wsum_net k w cs) idx = sumn (dm c) (fun j => w j * eval cs (upd k idx j)).
Proof. intros Hc Hi. unfold wsum_net. apply (mode_lin_sound _ _ cs k c idx i Hc Hi). Qed.

Theorem select_sound k d' g (cs : net) c idx i :
  nth_error cs k = Some c -> nth_error idx k = Some i ->
  eval (select_net k d' g cs) idx = eval cs (upd k idx (g i)).
Proof. apply mode_reidx_sound. Qed.


(* ---- cat of two tensors along mode k ---- *)
Lemma chain_upd (cs : net) : forall k r (c c' : score K), nth_error cs k = Some c ->
  rl c' = rl c -> rr c' = rr c -> chain r (upd k cs c') = chain r cs.
Proof.
  induction cs as [|a cs IH]; intros [|k] r c c' H E1 E2; simpl in *; try discriminate.
  - injection H as ->. rewrite E1, E2. reflexivity.
  - f_equal. eapply IH; eauto.
Qed.

Lemma sshape_upd (cs : net) : forall k (c' : score K), sshape (upd k cs c') = upd k (sshape cs) (dm c').
Proof. induction cs as [|a cs IH]; intros [|k] c'; simpl; auto. f_equal. apply IH. Qed.

Lemma upd_same {A} (l : list A) : forall k x, nth_error l k = Some x -> upd k l x = l.
Proof. induction l as [|a l IH]; intros [|k] x H; simpl in *; try discriminate; auto.
  - injection H as ->. reflexivity.
  - f_equal. auto. Qed.

Lemma nth_error_upd {A} (l : list A) : forall k x y, nth_error l k = Some y -> nth_error (upd k l x) k = Some x.
Proof. induction l as [|a l IH]; intros [|k] x y H; simpl in *; try discriminate; auto. eapply IH; eauto. Qed.

Lemma good_at_mode k (f : score K -> score K) (cs : net) :
  (forall c, rl (f c) = rl c /\ rr (f c) = rr c) -> good K cs -> good K (at_mode k f cs).
Proof.
  intros Hf [Hne Hc]. unfold at_mode. destruct (nth_error cs k) as [c|] eqn:E; [|split; auto].
  destruct (Hf c) as [E1 E2]. split.
  - destruct cs; [congruence|]. destruct k; simpl; discriminate.
  - rewrite (upd_head_rl cs k c (f c) E E1). rewrite (chain_upd cs k _ c (f c) E E1 E2). exact Hc.
Qed.

Lemma embed_shape k off tot (cs : net) c : nth_error cs k = Some c ->
  sshape (embed_net k off tot cs) = upd k (sshape cs) tot.
Proof. intros H. unfold embed_net, at_mode. rewrite H. rewrite sshape_upd. reflexivity. Qed.

Lemma in_range_nth sh : forall idx k i d, in_range sh idx = true -> nth_error idx k = Some i ->
  nth_error sh k = Some d -> (i < d)%nat.
Proof.
  induction sh as [|e sh IH]; intros [|j idx] [|k] i d Hr Hi Hd; simpl in *; try discriminate.
  - injection Hi as ->. injection Hd as ->. apply andb_true_iff in Hr. apply Nat.ltb_lt. tauto.
  - apply andb_true_iff in Hr. eapply IH; eauto. tauto.
Qed.

Theorem cat2_sound k (a b cs : net) ca cb :
  nth_error a k = Some ca -> nth_error b k = Some cb -> good K a -> good K b ->
  upd k (sshape a) O = upd k (sshape b) O -> cat2_net k a b = Some cs ->
  sshape cs = upd k (sshape a) (dm ca + dm cb)%nat /\
  forall idx i, in_range (sshape cs) idx = true -> nth_error idx k = Some i ->
    eval cs idx = if (i <? dm ca)%nat then eval a idx else eval b (upd k idx (i - dm ca)%nat).
Proof.
  intros Ha Hb Ga Gb Hsh H. unfold cat2_net in H. rewrite Ha, Hb in H.
  set (tot := (dm ca + dm cb)%nat) in *.
  assert (Gea: good K (embed_net k 0 tot a)) by (apply good_at_mode; auto; intros; split; reflexivity).
  assert (Geb: good K (embed_net k (dm ca) tot b)) by (apply good_at_mode; auto; intros; split; reflexivity).
  destruct (add_net_sound K Kth _ _ cs Gea Geb H) as (G & S & E).
  rewrite (embed_shape k 0 tot a ca Ha), (embed_shape k (dm ca) tot b cb Hb) in *.
  assert (Hs2: upd k (sshape b) tot = upd k (sshape a) tot).
  { clear - Hsh. revert Hsh. generalize (sshape a) (sshape b). intros l1.
    revert k. induction l1 as [|x l1 IH]; intros [|k] [|y l2] H; simpl in *; try discriminate; auto.
    - injection H as H. rewrite H. reflexivity.
    - injection H as H1 H2. rewrite H1. f_equal. apply IH; auto. }
  rewrite Hs2, bshape_same in S. injection S as S. split; [auto|].
  intros idx i Hr Hi. rewrite E by (apply in_range_len_net; auto).
  rewrite Hs2. rewrite <- S in Hr. rewrite !clip_in_range by assumption.
  rewrite (embed_sound k 0 tot a ca idx i Ha Hi), (embed_sound k (dm ca) tot b cb idx i Hb Hi).
  assert (Hlt: (i < tot)%nat).
  { eapply (in_range_nth _ idx k i tot Hr Hi). apply nth_error_upd with (y := dm ca).
    unfold sshape. rewrite nth_error_map, Ha. reflexivity. }
  cbn [Nat.leb andb]. rewrite Nat.add_0_l, Nat.sub_0_r.
  destruct (Nat.ltb_spec i (dm ca)) as [H1|H1].
  - rewrite (upd_same idx k i Hi).
    destruct (Nat.leb_spec (dm ca) i); [lia|]. cbn [andb]. ring.
  - destruct (Nat.leb_spec (dm ca) i); [|lia]. destruct (Nat.ltb_spec i (dm ca + dm cb)); [|unfold tot in Hlt; lia].
    cbn [andb]. ring.
Qed.


(* ---- creation routines ---- *)
Theorem eye_sound n m i j : (j < m)%nat ->
  eval (eye_net (K:=K) n m) [i; j] = delta i j /\ sshape (eye_net (K:=K) n m) = [n; m].
Proof.
  intros Hj. split; [|reflexivity]. unfold eval, eye_net. cbn [rl]. rewrite (sumn_1 Kth).
  cbn [evalv rr sl]. rewrite (sumn_ext _ _ (fun q => delta i q * delta q j)).
  - apply (sumn_delta_r Kth). exact Hj.
  - intros q _. rewrite (sumn_1 Kth). unfold ones. ring.
Qed.

Theorem full_sound (c : K) sh idx : sh <> [] -> length idx = length sh ->
  eval (full_net c sh) idx = c /\ sshape (full_net c sh) = sh.
Proof. intros Hne Hl. destruct (const_net_sound K Kth c sh Hne) as (_ & S & E). split; auto. Qed.

End ToolsP.
