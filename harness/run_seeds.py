#!/usr/bin/env python3
"""Confirm seeded defects and run the checks against them, in a scratch worktree (never in /repo).
usage: run_seeds.py [PROP ...]    results -> /verif/seeded/<PROP>-<m>/meta.json and /verif/seeded/RESULTS.md"""
import os, sys, json, subprocess, shutil, glob, time
WT = "/tmp/wt/seedrun"
OUT = "/verif/seeded"
def sh(cmd, **kw):
    p = subprocess.run(cmd, shell=True, capture_output=True, text=True, **kw)
    return p.returncode, (p.stdout + p.stderr)
head = sh("git -C /repo rev-parse HEAD")[1].strip()
if not os.path.isdir(WT):
    sh("git -C /repo worktree add -q --detach %s HEAD" % WT)
sh("git -C %s checkout -q --detach %s" % (WT, head))
props = sys.argv[1:] or sorted(set(os.path.basename(os.path.dirname(os.path.dirname(p))) for p in glob.glob("/tmp/wt/out/C*/m*/patch.diff")))
rows = []
env = dict(os.environ, TNTORCH_ROOT=WT, OMP_NUM_THREADS="2", PYTHONPATH=WT)
for prop in props:
    for md in sorted(glob.glob("/tmp/wt/out/%s/m*" % prop)):
        m = os.path.basename(md)
        patch = os.path.join(md, "patch_rebased.diff") if os.path.exists(os.path.join(md, "patch_rebased.diff")) else os.path.join(md, "patch.diff")
        pid = prop[:3]                      # out/C01r2/m3 -> property C01, seed id C01-m3
        sid = "%s-%s" % (pid, m)
        meta = {"id": sid, "breaks_property": pid, "repo_head": head, "source": "independent sub-agent (given only the property text and a scratch worktree)"}
        notes = open(os.path.join(md, "notes.txt")).read() if os.path.exists(os.path.join(md, "notes.txt")) else ""
        meta["needs_to_manifest"] = notes.strip()[:1500]
        sh("git -C %s reset -q --hard %s" % (WT, head))
        rc0, o0 = sh("/venv/bin/python %s/demo.py" % md, env=env)
        rc, o = sh("git -C %s apply --3way %s || git -C %s apply %s" % (WT, patch, WT, patch))
        if rc != 0:
            meta["status"] = "patch does not apply to the current tree (overtaken by a fix): not kept"
            rows.append((sid, "n/a", "n/a", "n/a", meta["status"])); continue
        sh("git -C %s reset -q" % WT)
        rc1, o1 = sh("/venv/bin/python %s/demo.py" % md, env=env)
        rct, ot = sh("cd %s && /venv/bin/python -m pytest -q -p no:cacheprovider --timeout=900 2>&1 | tail -1" % WT, env=env)
        if "43 passed" not in ot:          # tests/test_cross.py::test_tensors is flaky (~1 in 12 on any tree): one re-run
            rct, ot = sh("cd %s && /venv/bin/python -m pytest -q -p no:cacheprovider --timeout=900 2>&1 | tail -1" % WT, env=env)
        meta["confirmed"] = {"demo_without_patch_exit": rc0, "demo_with_patch_exit": rc1, "test_suite_with_patch": ot.strip()[-80:]}
        ok = rc0 == 0 and rc1 != 0 and "43 passed" in ot
        t0 = time.time()
        rcc, oc = sh("cd /verif && /venv/bin/python harness/check.py --property %s --tier quick" % pid, env=env)
        lines = [l for l in oc.splitlines() if l.startswith("VIOLATION") or l.startswith(pid + " quick")]
        meta["check_quick"] = {"exit": rcc, "output": lines, "wall_s": round(time.time() - t0, 1)}
        detected = rcc == 1 and any(l.startswith("VIOLATION") for l in lines)
        meta["detected_by_quick_check"] = detected
        meta["what_was_run"] = ["TNTORCH_ROOT=<scratch worktree> demo.py with and without the patch", "unedited test suite with the patch",
                                "harness/check.py --property %s --tier quick with TNTORCH_ROOT=<scratch worktree>" % pid]
        if ok:
            d = os.path.join(OUT, sid); os.makedirs(d, exist_ok=True)
            shutil.copy(patch, os.path.join(d, "patch.diff")); shutil.copy(os.path.join(md, "demo.py"), os.path.join(d, "demo.py"))
            json.dump(meta, open(os.path.join(d, "meta.json"), "w"), indent=1)
        rows.append((sid, rc0, rc1, ot.strip()[-40:], "DETECTED" if detected else "MISSED", "kept" if ok else "not confirmed"))
        print(rows[-1], flush=True)
sh("git -C %s reset -q --hard %s" % (WT, head))
with open(os.path.join(OUT, "RESULTS_%s.md" % "_".join(props)[:40]), "w") as f:
    f.write("| seed | demo w/o patch | demo with patch | suite with patch | quick check | kept |\n|---|---|---|---|---|---|\n")
    for r in rows:
        f.write("| " + " | ".join(str(x) for x in r) + " |\n")
