From TN Require Export Harness.HBase Sem.Fast Model.Sobol.
From Coq Require Import QArith Qabs.
(* tn.sobol(t, mask, marginals, normalize): the model builds the centred extended tensor a, the marginal-weighted copy am
   and the masked copy am_masked as networks (Model/Sobol.sobol_nets); the two inner products are evaluated as dense sums
   of products of entries, which is what tn.dot computes (theorem C06_dot / dot_net_sound). *)
Record case := mkCase { c_t : tensor QO; c_ws : list (list Q); c_mask : tensor QO; c_norm : bool; c_val : Q }.
Definition netQ := list (score QO).
(* tabulate a core once (the networks built by the model are towers of closures) *)
Definition freeze (c : score QO) : score QO :=
  let t := map (fun i => map (fun p => map (fun q => Qred (sl c i p q)) (seq 0 (rr c))) (seq 0 (rl c))) (seq 0 (dm c)) in
  mkScore (K:=QO) (rl c) (rr c) (dm c) (fun i p q => nth q (nth p (nth i t []) []) 0%Q).
Definition ddot (x y : netQ) : Q :=
  fold_right (fun e acc => Qred (eval_l x e * eval_l y e + acc)) 0%Q (all_idx (sshape x)).
Definition close6 (x y : Q) : bool := Qle_bool (Qabs (x - y)) ((1 # 100000) * (1 + Qabs y)).
Definition hd_rl_b (cs : netQ) : nat := match cs with c :: _ => rl c | [] => O end.
Definition goodb (cs : netQ) : bool := negb (Nat.eqb (length cs) 0) && chain (hd_rl_b cs) cs.
Definition check (c : case) : bool :=
  let cs := sem (c_t c) in let mk := sem (c_mask c) in
  let ws := map (fun l i => nth i l 0%Q) (c_ws c) in
  goodb cs && goodb mk && Nat.eqb (length ws) (length cs) && Nat.eqb (length mk) (length cs) &&
  forallb (fun m => Nat.eqb (dm m) 2) mk &&
  match sobol_nets (K:=QO) ws mk cs with
  | Some (a, am, amm) =>
      let a := map freeze a in let am := map freeze am in let amm := map freeze amm in
      let num := ddot a amm in let den := ddot a am in
      if c_norm c then negb (Qeq_bool den 0) && close6 (num / den) (c_val c) else close6 num (c_val c)
  | None => false
  end.
