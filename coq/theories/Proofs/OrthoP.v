From TN Require Export Sem.Moves.
From TN Require Export Model.Ortho.
Section OrthoP.
Variable K : Ops.
Hypothesis Kth : laws K.
Add Ring Kring : Kth.
Local Open Scope K_scope.
Notation net := (list (score K)).
Variable qr : nat -> nat -> (nat -> nat -> K) -> nat * (nat -> nat -> K) * (nat -> nat -> K).

Lemma divmod_s b i j : (j < b)%nat -> ((i*b+j)/b = i /\ (i*b+j) mod b = j)%nat.
Proof. intros H. split.
  - rewrite Nat.add_comm, Nat.div_add by lia. rewrite Nat.div_small by lia. lia.
  - rewrite Nat.add_comm, Nat.mod_add by lia. apply Nat.mod_small; lia. Qed.

(* left_orthogonalize: the tensor is unchanged (only A = Q R is used) *)
Theorem left_step_sound (c next : score K) rest i j idx v p :
  qr_exact qr (rl c * dm c) (rr c) (left_unf c) -> rl next = rr c ->
  (i < dm c)%nat -> (p < rl c)%nat ->
  let '(c', next') := left_step qr c next in
  evalv (c' :: next' :: rest) (i :: j :: idx) v p = evalv (c :: next :: rest) (i :: j :: idx) v p.
Proof.
  unfold qr_exact, left_step. destruct (qr (rl c * dm c) (rr c) (left_unf c)) as [[k Q] R].
  intros Hex Hrl Hi Hp.
  set (c' := mkScore (rl c) k (dm c) (fun i0 p0 s => Q (p0 * dm c + i0)%nat s)).
  change (lmulM R next k) with (lmulM R next (rr c')).
  rewrite <- (L4_head K Kth c' next R rest i j idx v p).
  cbn [evalv]. cbn [rmulM rr]. rewrite Hrl. apply sumn_ext. intros q Hq. f_equal.
  cbn [rmulM sl c' rr].
  assert (Ha: (p * dm c + i < rl c * dm c)%nat) by nia.
  rewrite <- (Hex (p * dm c + i)%nat q Ha Hq). unfold left_unf.
  destruct (divmod_s (dm c) p i Hi) as [E1 E2]. rewrite E1, E2. reflexivity.
Qed.

Theorem left_step_gauge (c next : score K) :
  qr_orthonormal qr (rl c * dm c) (rr c) (left_unf c) ->
  left_orthonormal (fst (left_step qr c next)).
Proof.
  unfold qr_orthonormal, left_step. destruct (qr (rl c * dm c) (rr c) (left_unf c)) as [[k Q] R].
  intros Ho. cbn [fst]. unfold left_orthonormal. cbn [rl rr dm sl]. intros s t Hs Ht.
  rewrite <- (Ho s t Hs Ht). rewrite (sumn_prod Kth). reflexivity.
Qed.

(* right_orthogonalize *)
Theorem right_step_sound (prev c : score K) rest i j idx v p :
  qr_exact qr (dm c * rr c) (rl c) (right_unf_t c) -> rr prev = rl c ->
  (j < dm c)%nat ->
  let '(prev', c') := right_step qr prev c in
  evalv (prev' :: c' :: rest) (i :: j :: idx) v p = evalv (prev :: c :: rest) (i :: j :: idx) v p.
Proof.
  unfold qr_exact, right_step. destruct (qr (dm c * rr c) (rl c) (right_unf_t c)) as [[k Q] R].
  intros Hex Hrr Hj.
  set (c' := mkScore k (rr c) (dm c) (fun i0 s q => Q (i0 * rr c + q)%nat s)).
  change (rmulM prev (fun s t => R t s) k) with (rmulM prev (fun s t => R t s) (rl c')).
  rewrite (L4_head K Kth prev c' (fun s t => R t s) rest i j idx v p).
  cbn [evalv]. apply sumn_ext. intros s Hs. f_equal. cbn [lmulM rr sl rl c'].
  apply sumn_ext. intros q Hq. f_equal.
  assert (Ha: (j * rr c + q < dm c * rr c)%nat) by nia.
  rewrite Hrr in Hs.
  rewrite (sumn_ext k _ (fun s0 => Q (j * rr c + q)%nat s0 * R s0 s)) by (intros; ring).
  rewrite <- (Hex (j * rr c + q)%nat s Ha Hs). unfold right_unf_t.
  destruct (divmod_s (rr c) j q Hq) as [E1 E2]. rewrite E1, E2. reflexivity.
Qed.

Theorem right_step_gauge (prev c : score K) :
  qr_orthonormal qr (dm c * rr c) (rl c) (right_unf_t c) ->
  right_orthonormal (snd (right_step qr prev c)).
Proof.
  unfold qr_orthonormal, right_step. destruct (qr (dm c * rr c) (rl c) (right_unf_t c)) as [[k Q] R].
  intros Ho. cbn [snd]. unfold right_orthonormal. cbn [rl rr dm sl]. intros s t Hs Ht.
  rewrite <- (Ho s t Hs Ht). rewrite (sumn_prod Kth). reflexivity.
Qed.

(* isometry: a chain of right-orthonormal cores ending in a bond of size 1 preserves inner products *)
Fixpoint rchain (r : nat) (cs : net) : Prop :=
  match cs with [] => r = 1%nat | c :: cs' => rl c = r /\ right_orthonormal c /\ rchain (rr c) cs' end.

Lemma iso_right (cs : net) : forall r p p', rchain r cs -> (p < r)%nat -> (p' < r)%nat ->
  sumidx (sshape cs) (fun idx => evalv cs idx ones p * evalv cs idx ones p') = delta p p'.
Proof.
  induction cs as [|c cs IH]; intros r p p' Hc Hp Hp'.
  - cbn in *. subst. assert (p = O) by lia. assert (p' = O) by lia. subst. unfold delta, ones. cbn. ring.
  - destruct Hc as (Hr & Hro & Hc). subst r. cbn [sshape map sumidx evalv].
    rewrite (sumn_ext (dm c) _ (fun i => sumn (rr c) (fun q => sl c i p q * sl c i p' q))).
    + apply Hro; auto.
    + intros i Hi.
      rewrite (sumidx_ext _ _ (fun idx => sumn (rr c) (fun q => sumn (rr c) (fun q' =>
         (sl c i p q * sl c i p' q') * (evalv cs idx ones q * evalv cs idx ones q'))))).
      2:{ intros idx. rewrite <- (sumn_sumn_mul Kth). apply sumn_ext; intros q _.
          apply sumn_ext; intros q' _. ring. }
      rewrite (sumidx_sumn Kth). apply sumn_ext; intros q Hq.
      rewrite (sumidx_sumn Kth).
      rewrite (sumn_ext _ _ (fun q' => delta q q' * (sl c i p q * sl c i p' q'))).
      2:{ intros q' Hq'. rewrite (sumidx_mul_l Kth). fold (sshape cs). rewrite (IH (rr c)); auto. ring. }
      rewrite (sumn_delta Kth) by assumption. reflexivity.
Qed.

Theorem isometry_right (cs : net) r (x y : nat -> K) : rchain r cs ->
  sumidx (sshape cs) (fun idx => sumn r (fun p => x p * evalv cs idx ones p) * sumn r (fun p' => y p' * evalv cs idx ones p'))
  = sumn r (fun p => x p * y p).
Proof.
  intros Hc.
  rewrite (sumidx_ext _ _ (fun idx => sumn r (fun p => sumn r (fun p' => (x p * y p') * (evalv cs idx ones p * evalv cs idx ones p'))))).
  2:{ intros idx. rewrite <- (sumn_sumn_mul Kth). apply sumn_ext; intros p _. apply sumn_ext; intros; ring. }
  rewrite (sumidx_sumn Kth). apply sumn_ext; intros p Hp. rewrite (sumidx_sumn Kth).
  rewrite (sumn_ext _ _ (fun p' => delta p p' * (x p * y p'))).
  2:{ intros p' Hp'. rewrite (sumidx_mul_l Kth). rewrite (iso_right cs r); auto. ring. }
  apply (sumn_delta Kth); assumption.
Qed.

(* after orthogonalize(0): the squared norm of the tensor is the squared norm of the first core *)
Theorem norm_first_core (c : score K) (cs : net) : rl c = 1%nat -> rchain (rr c) cs ->
  sumidx (sshape (c :: cs)) (fun idx => eval (c :: cs) idx * eval (c :: cs) idx) =
  sumn (dm c) (fun i => sumn (rr c) (fun q => sl c i O q * sl c i O q)).
Proof.
  intros H1 Hc. cbn [sshape map sumidx]. apply sumn_ext. intros i _.
  rewrite <- (isometry_right cs (rr c) (sl c i O) (sl c i O) Hc).
  apply sumidx_ext. intros idx. unfold eval. rewrite H1, (sumn_1 Kth). reflexivity.
Qed.
End OrthoP.
