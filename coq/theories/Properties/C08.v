(* C08 -- cross-approximation interpolates its samples and evaluates the function only at grid points; min/max
   estimates are attained values.  Statements only.  Model: Model/Cross.v (executable, oracles replayed:
   function table, maxvol rows, QR factor, random integers, number of iterations).  Proofs: Proofs/CrossP.v, CrossR.v.
   Exact recovery is proved at the algebra level (C08_cur_exact, C08_exact_recovery_sweep, C08_qr_core_is_skeleton_core);
   NOT proved: that the executable replayed run's cores satisfy those hypotheses (factorisation of the unfoldings,
   invertible intersections are hypotheses), and the consequence for the operators routed through cross. *)
From TN Require Import Proofs.CrossP Proofs.CrossR Proofs.CrossRun Proofs.CrossRecover Model.Cross Alg.Inst.
From Coq Require Import QArith Reals.

Section C08.
Variable K : Ops.
Hypothesis Kth : laws K.
Local Open Scope K_scope.

(* a core built as (coefficients) x (inverse of the rows picked by maxvol) is the identity on the picked
   (mode index, right index) pairs = unravel_index(local, [Is[j], Rs[j+1]]) *)
Theorem C08_core_identity_pattern : forall (Rj Ij Rj1 : nat) (Qm Binv : nat -> nat -> K) (loc : nat -> nat),
  (Rj1 <> 0)%nat ->
  (forall k a, (k < Rj)%nat -> (a < Rj)%nat -> mmulK K Rj (fun k t => Qm (loc k) t) Binv k a = delta k a) ->
  forall k a, (k < Rj)%nat -> (a < Rj)%nat ->
    sl (core_of K Rj Ij Rj1 (mmulK K Rj Qm Binv)) (loc k / Rj1) a (loc k mod Rj1) = delta a k.
Proof. exact (core_identity_pattern K). Qed.

(* every state of the right-to-left sweep: the product of the cores along the k-th tuple of the current right index
   set is the k-th unit vector (any number of modes, any maxvol answers in range) *)
Theorem C08_skeleton_unit : forall (cs : list (score K)) (Rs : list rows), sweep_reach K cs Rs ->
  forall k a, (k < length (hd [] Rs))%nat -> (a < length (hd [] Rs))%nat ->
    evalv cs (nth k (hd [] Rs) []) ones a = delta a k.
Proof. intros cs Rs H. apply (skeleton_unit K Kth). apply sweep_reach_skeleton. exact H. Qed.

(* the returned tensor (first core = sampled fibres, then the sweep's cores) reproduces the sampled function on
   every first-mode fibre through the returned right index set rsets[0] *)
Theorem C08_interpolation : forall (c0 : score K) cs Rs (fv : nat -> nat -> K),
  sweep_reach K cs Rs -> rl c0 = 1%nat -> rr c0 = length (hd [] Rs) ->
  (forall i b, (b < rr c0)%nat -> sl c0 i 0%nat b = fv i b) ->
  forall i k, (k < length (hd [] Rs))%nat -> eval (c0 :: cs) (i :: nth k (hd [] Rs) []) = fv i k.
Proof. exact (cross_interpolates K Kth). Qed.

(* interface matrices stay consistent with the pivots: the incremental updates (cross.py:410-420, 441-451) equal the
   partial products along the updated index tuples (for the right side: equal init_interfaces on the new set) *)
Theorem C08_rinterface_consistent : forall (c : cdata K) (post : list (cdata K)) (rN : nat) (R : rows) (loc : list nat),
  (forall x, In x loc -> (x mod length R < length R)%nat) ->
  rint_update c (length R) (map (fun row => rvec post row rN) R) loc =
  map (fun row => rvec (c :: post) row rN) (rupdate (length R) R loc).
Proof. exact (rint_update_consistent K). Qed.

Theorem C08_linterface_consistent : forall (c : cdata K) (pre : list (cdata K)) (r0 Ij : nat) (L : rows) (loc : list nat),
  (forall l, In l L -> length l = S (length pre)) ->
  (forall x, In x loc -> (x / Ij < length L)%nat) ->
  lint_update c Ij (map (fun l => lvec K pre (tl l) r0) L) loc =
  map (fun l => lvec K (pre ++ [c]) (tl l) r0) (lupdate Ij L loc).
Proof. exact (lint_update_consistent K). Qed.

(* the argument handed to the function for entry (a, i, b) of evaluate_function(j) -- left interface row x core j x
   right interface column -- is the entry of the given tensor at the grid point idxl ++ i :: idxr *)
Theorem C08_argument_is_entry : forall (pre post : list (cdata K)) (c : cdata K) (r0 : nat) (idxl idxr : list nat) (i : nat),
  chain r0 (map (score_of K) (pre ++ c :: post)) = true ->
  length idxl = length pre -> (length post <= length idxr)%nat ->
  vdot (c_rl c) (lvec K pre idxl r0)
       (c_matvec c i (rvec post idxr (last_rr r0 (map (score_of K) (pre ++ c :: post))))) =
  den (map (fun c => mkMode c None) (pre ++ c :: post)) (idxl ++ i :: idxr).
Proof. exact (eval_arg_is_tensor_entry K Kth). Qed.

(* ---- exact recovery (skeleton / CUR argument) ---- *)
(* matrix case, any index types: A = X Y through inner dimension r, A[I,J] W = I, U X[I,:] = I  ==>
   A = A[:,J] (W A[I,:]) on all admissible rows and columns *)
Theorem C08_cur_exact : forall (RI CI : Type) (r : nat) (A : RI -> CI -> K) (X : RI -> nat -> K) (Y : nat -> CI -> K)
    (PR : RI -> Prop) (PC : CI -> Prop) (rowsel : nat -> RI) (colsel : nat -> CI) (W U : nat -> nat -> K),
  (forall i c, PR i -> PC c -> A i c = sumn r (fun s => X i s * Y s c)) ->
  (forall t, (t < r)%nat -> PR (rowsel t)) -> (forall a, (a < r)%nat -> PC (colsel a)) ->
  (forall t a, (t < r)%nat -> (a < r)%nat -> sumn r (fun a' => A (rowsel t) (colsel a') * W a' a) = delta t a) ->
  (forall s s', (s < r)%nat -> (s' < r)%nat -> sumn r (fun t => U s t * X (rowsel t) s') = delta s s') ->
  forall i c, PR i -> PC c ->
    sumn r (fun a => A i (colsel a) * sumn r (fun t => W a t * A (rowsel t) c)) = A i c.
Proof. exact (cur_exact K Kth). Qed.

(* all modes, one right-to-left sweep (and cross_forward's formula): first core = sampled first-mode fibres, core j =
   W_j x (fibres of the target through lsets[j] x mode j x rsets[j]); if every unfolding of the target factors through
   the rank used (TT ranks <= ranks used) and the intersections / factor blocks are invertible ([recov]), the network
   equals the target on the WHOLE grid *)
Theorem C08_exact_recovery_sweep : forall (T : list nat -> K) (c0 : score K) (cs : list (score K)) (lvs : list (level K)),
  rl c0 = 1%nat -> rr c0 = next_r K lvs ->
  (forall i b, (b < next_r K lvs)%nat -> sl c0 i 0%nat b = T (i :: next_R K lvs b)) ->
  recov K T 1 cs lvs ->
  forall i idx, length idx = length cs -> eval (c0 :: cs) (i :: idx) = T (i :: idx).
Proof. exact (tt_recovery K Kth). Qed.

(* the cores cross actually builds, Q Q[local]^-1 with Q from an exact QR of the sampled unfolding, have that form *)
Theorem C08_qr_core_is_skeleton_core : forall (r : nat) (Vt Qm Rf Binv W : nat -> nat -> K) (loc : nat -> nat),
  (forall x a, (a < r)%nat -> Vt x a = sumn r (fun s => Qm x s * Rf s a)) ->
  (forall s s', (s < r)%nat -> (s' < r)%nat -> sumn r (fun k => Binv s k * Qm (loc k) s') = delta s s') ->
  (forall a a', (a < r)%nat -> (a' < r)%nat -> sumn r (fun t => W a t * Vt (loc a') t) = delta a a') ->
  forall x a, (a < r)%nat -> mmulK K r Qm Binv x a = sumn r (fun t => W a t * Vt x t).
Proof. exact (qr_core_form K Kth). Qed.
End C08.
Local Open Scope nat_scope.

(* index bookkeeping: grid membership and nestedness, for every maxvol answer whose row numbers are in range *)
Theorem C08_point_in_grid : forall Is j l i r, j < length Is ->
  lrow_ok Is j l -> i < nth j Is 0 -> rrow_ok Is j r -> in_grid Is (point l i r).
Proof. exact point_in_grid. Qed.

Theorem C08_lsets_nested : forall Ij L loc l, (forall x, In x loc -> x < length L * Ij) ->
  In l (lupdate Ij L loc) -> exists l0 i, In l0 L /\ i < Ij /\ l = l0 ++ [i].
Proof. exact lupdate_nested. Qed.

Theorem C08_rsets_nested : forall Ij R loc r, (forall x, In x loc -> x < Ij * length R) ->
  In r (rupdate (length R) R loc) -> exists r0 i, In r0 R /\ i < Ij /\ r = i :: r0.
Proof. exact rupdate_nested. Qed.

Theorem C08_lsets_in_grid : forall Is j L loc, j < length Is ->
  (forall l, In l L -> lrow_ok Is j l) -> (forall x, In x loc -> x < length L * nth j Is 0) ->
  forall l, In l (lupdate (nth j Is 0) L loc) -> lrow_ok Is (S j) l.
Proof. exact lupdate_ok. Qed.

Theorem C08_rsets_in_grid : forall Is j R loc, 1 <= j -> j < length Is ->
  (forall r, In r R -> rrow_ok Is j r) -> (forall x, In x loc -> x < nth j Is 0 * length R) ->
  forall r, In r (rupdate (length R) R loc) -> rrow_ok Is (j - 1) r.
Proof. exact rupdate_ok. Qed.

(* the whole replayed run (all iterations, rank kicks, both sweeps): every point the function is asked for, the
   reported argmin and all index tuples lie in the grid *)
Theorem C08_run_in_grid : forall ts Is ftab ranks kick rmax randint its, 0 < length Is ->
  (forall row, In row randint -> rrow_ok Is 0 row) ->
  (forall it row, In it its -> In row (it_extra it) -> rrow_ok Is 0 row) ->
  let s := cross_run ts Is ftab ranks kick rmax randint its in
  x_ok s = true ->
  (forall p, In p (x_evals s) -> in_range Is p = true) /\
  (forall p, x_argmin s = Some p -> in_range Is p = true) /\
  sets_ok Is (x_ls s) (x_rs s).
Proof. exact run_in_grid. Qed.

(* whole run, value level: every argument vector the implementation passed to the function (recorded in the replayed
   steps) is, in order, the vector of dense entries of the given tensors at the points the model requested, which lie
   in the grid; the stored interface matrices are init_interfaces / partial products of the current index sets *)
Theorem C08_run_arguments_are_entries : forall ts Is ftab ranks kick rmax randint its, 0 < length Is -> wf_ts ts Is ->
  (forall row, In row randint -> rrow_ok Is 0 row) ->
  (forall it row, In it its -> In row (it_extra it) -> rrow_ok Is 0 row) ->
  let s := cross_run ts Is ftab ranks kick rmax randint its in
  x_ok s = true ->
  (forall k, k < length ts ->
     Forall2 Qeq (flat_map (fun sp => nth k (st_xs sp) []) (flat_map it_steps its))
                 (map (fun p => den (map (fun c => mkMode c None) (nth k ts [])) p) (rev (x_evals s)))) /\
  (forall p, In p (rev (x_evals s)) -> in_range Is p = true) /\
  (forall j, j < length Is -> RVat ts s j) /\ LVat ts s 0.
Proof. exact run_arguments_are_entries. Qed.

(* min/max: the reported position is one of the evaluated points; an attained value is never below the minimum of
   the table; over the reals the stored estimate tan(pi/2 - (pi/2 - atan(f - m))) + m is the sampled value *)
Theorem C08_argmin_evaluated : forall ts Is ftab ranks kick rmax randint its p,
  x_argmin (cross_run ts Is ftab ranks kick rmax randint its) = Some p ->
  In p (x_evals (cross_run ts Is ftab ranks kick rmax randint its)).
Proof. exact argmin_evaluated. Qed.

Theorem C08_attained_ge_min : forall (l : list Q) (x : Q), In x l -> (minq l <= x)%Q.
Proof. exact minq_le. Qed.

Theorem C08_min_estimate_is_sample : forall f m : R, (tan (PI / 2 - (PI / 2 - atan (f - m))) + m = f)%R.
Proof. exact minimize_transform_inverse. Qed.

Print Assumptions C08_core_identity_pattern.
Print Assumptions C08_skeleton_unit.
Print Assumptions C08_interpolation.
Print Assumptions C08_rinterface_consistent.
Print Assumptions C08_linterface_consistent.
Print Assumptions C08_argument_is_entry.
Print Assumptions C08_cur_exact.
Print Assumptions C08_exact_recovery_sweep.
Print Assumptions C08_qr_core_is_skeleton_core.
Print Assumptions C08_run_arguments_are_entries.
Print Assumptions C08_point_in_grid.
Print Assumptions C08_lsets_nested.
Print Assumptions C08_rsets_nested.
Print Assumptions C08_lsets_in_grid.
Print Assumptions C08_rsets_in_grid.
Print Assumptions C08_run_in_grid.
Print Assumptions C08_argmin_evaluated.
Print Assumptions C08_attained_ge_min.
Print Assumptions C08_min_estimate_is_sample.
