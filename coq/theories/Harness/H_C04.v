From TN Require Export Harness.HBase Sem.Fast Harness.H_C13.
From TN Require Export Model.RoundReplay.
From Coq Require Import QArith Qabs.
(* Tensor.round_tt(eps, rmax, algorithm) with torch.linalg.qr and tn.truncated_svd replayed *)
Record case := mkCase { c_t : tensor QO; c_eps2 : Q; c_rmaxs : list nat; c_qr : list answer; c_ts : list ts_answer; c_shape : list nat; c_dense : list Q }.
(* the dense results are compared relative to the largest entry: the implementation's round-off scales with it *)
Definition maxabs (l : list Q) : Q := fold_right (fun x acc => if Qle_bool acc (Qabs x) then Qabs x else acc) 0 l.
Definition cmp_scaled (scale : Q) (x y : Q) : bool := Qle_bool (Qabs (x - y)) ((1 # 100000) * (1 + scale)).
Definition check (c : case) : bool :=
  let s := round_tt (c_eps2 c) (c_rmaxs c) (mkSt (map of_mode (cp_to_tt (c_t c))) (c_qr c) true) (c_ts c) in
  let t' := to_tensor (s_modes (r_st s)) in
  r_ok s && s_ok (r_st s) && Nat.eqb (length (r_ts s)) 0 && Nat.eqb (length (s_ans (r_st s))) 0 &&
  shape_eqb (shape t') (c_shape c) && list_cmp (cmp_scaled (maxabs (c_dense c))) (dense_of (eval_l (sem t')) (shape t')) (c_dense c).
