(* Proofs/HeapP.v -- isolation theorems of the aliasing model (property C14). *)
From Coq Require Import List ZArith PArith Bool FMapPositive Lia.
From TN Require Import Model.Heap.
Import ListNotations.

(* ------------------------------------------------------------------ stores *)
Lemma hget_add : forall m c n c', hget (PositiveMap.add c n m) c' = if Pos.eqb c' c then n else hget m c'.
Proof.
  intros m c n c'. unfold hget. destruct (Pos.eqb_spec c' c) as [E | E].
  - subst. rewrite PositiveMap.gss. reflexivity.
  - rewrite PositiveMap.gso by exact E. reflexivity.
Qed.

Lemma apply_untouched : forall s e c, touched e <> Some c -> hget (hp (apply s e)) c = hget (hp s) c.
Proof.
  intros s e c H. destruct e as [c0 n | c0 p | c0 rs | r]; cbn [apply hp touched] in *; try reflexivity;
    rewrite hget_add; destruct (Pos.eqb_spec c c0) as [E | E]; try reflexivity; subst; exfalso; apply H; reflexivity.
Qed.

Lemma apply_live_incl : forall s e r, In r (live s) -> In r (live (apply s e)).
Proof.
  intros s e r H. destruct e; cbn [apply live]; try exact H. apply in_or_app. left. exact H.
Qed.

Lemma memc_In : forall c l, memc c l = true <-> In c l.
Proof.
  intros c l. unfold memc. rewrite existsb_exists. split.
  - intros [x [Hx E]]. apply Pos.eqb_eq in E. subst. exact Hx.
  - intros H. exists c. split; [exact H | apply Pos.eqb_refl].
Qed.

Lemma memc_false : forall c l, memc c l = false <-> ~ In c l.
Proof.
  intros c l. split.
  - intros H Hin. apply memc_In in Hin. rewrite H in Hin. discriminate.
  - intros H. destruct (memc c l) eqn:E; [exfalso; apply H; apply memc_In; exact E | reflexivity].
Qed.

(* ------------------------------------------------------------------ unfolding only looks at reachable cells *)
Definition agree_on (l : list cell) (h h' : heap) : Prop := forall c, In c l -> h' c = h c.

Lemma reach_head : forall d h c, In c (reach d h c).
Proof. intros d h c. destruct d; cbn [reach]; left; reflexivity. Qed.

Lemma reach_child : forall d h c x y, In x (refs (h c)) -> In y (reach d h x) -> In y (reach (S d) h c).
Proof.
  intros d h c x y Hx Hy. cbn [reach]. right. apply in_flat_map. exists x. split; assumption.
Qed.

Lemma flat_map_ext_in : forall (A B : Type) (f g : A -> list B) l, (forall a, In a l -> f a = g a) -> flat_map f l = flat_map g l.
Proof.
  intros A B f g l H. induction l as [| a l IH]; cbn [flat_map]; [reflexivity |].
  rewrite H by (left; reflexivity). rewrite IH; [reflexivity |]. intros b Hb. apply H. right. exact Hb.
Qed.

Lemma unfold_reach_agree : forall d h h' c, agree_on (reach d h c) h h' ->
  unfold d h' c = unfold d h c /\ reach d h' c = reach d h c.
Proof.
  induction d as [| d IH]; intros h h' c Hag.
  - cbn [unfold reach]. rewrite (Hag c) by apply reach_head. split; reflexivity.
  - assert (Hc : h' c = h c) by (apply Hag; apply reach_head).
    cbn [unfold reach]. rewrite Hc.
    assert (Hch : forall x, In x (refs (h c)) -> unfold d h' x = unfold d h x /\ reach d h' x = reach d h x).
    { intros x Hx. apply IH. intros y Hy. apply Hag. apply (reach_child d h c x y Hx Hy). }
    split.
    + f_equal. apply map_ext_in. intros x Hx. apply (Hch x Hx).
    + f_equal. apply flat_map_ext_in. intros x Hx. apply (Hch x Hx).
Qed.

(* ------------------------------------------------------------------ one step *)
Lemma fold_apply_untouched : forall evs s c, (forall e, In e evs -> touched e <> Some c) ->
  hget (hp (fold_left apply evs s)) c = hget (hp s) c.
Proof.
  induction evs as [| e evs IH]; intros s c H; cbn [fold_left]; [reflexivity |].
  rewrite IH by (intros e' He'; apply H; right; exact He').
  apply apply_untouched. apply H. left. reflexivity.
Qed.

Lemma fold_apply_live_incl : forall evs s r, In r (live s) -> In r (live (fold_left apply evs s)).
Proof.
  induction evs as [| e evs IH]; intros s r H; cbn [fold_left]; [exact H |]. apply IH. apply apply_live_incl. exact H.
Qed.

Lemma others_In : forall d s tgt r c, In r (live s) -> is_tgt tgt r = false -> In c (reach d (hget (hp s)) r) ->
  In c (others d s tgt).
Proof.
  intros d s tgt r c Hr Ht Hc. unfold others. apply in_flat_map. exists r. split; [| exact Hc].
  apply filter_In. split; [exact Hr |]. rewrite Ht. reflexivity.
Qed.

(* (a) a step whose mutations avoid every cell reachable from another live object leaves those objects' unfoldings
   (hence anything computed from them) exactly as they were.  Alloc, Write and Rebind are all covered; NewObject never
   mutates.  Cells allocated during the step are automatically allowed: they are not reachable from any object that
   was live before the step unless that object is rebound, which safe_step forbids. *)
Theorem safe_step_agree : forall d s st r, safe_step d s st = true -> In r (live s) -> is_tgt (s_tgt st) r = false ->
  agree_on (reach d (hget (hp s)) r) (hget (hp s)) (hget (hp (exec s st))).
Proof.
  intros d s st r Hsafe Hr Ht c Hc. unfold exec. apply fold_apply_untouched.
  intros e He Htouch. unfold safe_step in Hsafe. rewrite forallb_forall in Hsafe. specialize (Hsafe e He).
  unfold safe_event in Hsafe. rewrite Htouch in Hsafe. apply negb_true_iff in Hsafe. apply memc_false in Hsafe.
  apply Hsafe. apply (others_In d s (s_tgt st) r c Hr Ht Hc).
Qed.

Theorem safe_step_isolation : forall d s st r, safe_step d s st = true -> In r (live s) -> is_tgt (s_tgt st) r = false ->
  unfold d (hget (hp (exec s st))) r = unfold d (hget (hp s)) r /\
  reach d (hget (hp (exec s st))) r = reach d (hget (hp s)) r.
Proof.
  intros d s st r Hsafe Hr Ht. apply unfold_reach_agree. apply (safe_step_agree d s st r Hsafe Hr Ht).
Qed.

Theorem decomp_isolation : forall (D : Type) (F : tree -> D) d s st r,
  safe_step d s st = true -> In r (live s) -> is_tgt (s_tgt st) r = false ->
  decomp F d (exec s st) r = decomp F d s r.
Proof.
  intros D F d s st r Hsafe Hr Ht. unfold decomp. f_equal. apply (safe_step_isolation d s st r Hsafe Hr Ht).
Qed.

(* operands (and every bystander, and every argument array) of a pure operation: no target, nobody changes *)
Corollary pure_step_isolation : forall (D : Type) (F : tree -> D) d s evs r,
  safe_step d s (mkStep None evs) = true -> In r (live s) ->
  decomp F d (exec s (mkStep None evs)) r = decomp F d s r.
Proof.
  intros D F d s evs r Hsafe Hr. apply decomp_isolation; [exact Hsafe | exact Hr | reflexivity].
Qed.

(* events that do not mutate are always safe; in a closed state a fresh cell is reachable from nobody,
   so Alloc and NewObject can never break the discipline: only Write / Rebind (and Alloc over an existing cell) can *)
Lemma reach_allocated : forall d s c x, closed s -> allocated (hp s) c = true -> In x (reach d (hget (hp s)) c) ->
  allocated (hp s) x = true.
Proof.
  induction d as [| d IH]; intros s c x Hcl Hc Hx; cbn [reach] in Hx.
  - destruct Hx as [E | []]. subst. exact Hc.
  - destruct Hx as [E | Hx]; [subst; exact Hc |]. apply in_flat_map in Hx. destruct Hx as [y [Hy Hxy]].
    apply (IH s y x Hcl); [| exact Hxy]. destruct Hcl as [Hrefs _]. apply (Hrefs c y Hc Hy).
Qed.

Theorem alloc_newobject_safe : forall d s tgt e, closed s ->
  match e with Alloc c _ => allocated (hp s) c = false | NewObject _ => True | _ => False end ->
  safe_event (others d s tgt) e = true.
Proof.
  intros d s tgt e Hcl He. destruct e as [c n | c p | c rs | r]; try contradiction; [| reflexivity].
  unfold safe_event. cbn [touched]. apply negb_true_iff. apply memc_false. intros Hin.
  unfold others in Hin. apply in_flat_map in Hin. destruct Hin as [r [Hr Hc]]. apply filter_In in Hr. destruct Hr as [Hr _].
  assert (Ha : allocated (hp s) c = true).
  { apply (reach_allocated d s r c Hcl); [| exact Hc]. destruct Hcl as [_ Hl]. apply Hl. exact Hr. }
  rewrite He in Ha. discriminate.
Qed.


(* ------------------------------------------------------------------ the effect table implies the discipline:
   no entry of the table allows a Write to a pre-existing cell, and Rebind is allowed only on Tensor-object / list cells
   reachable from the in-place target.  Hence in any closed state in which the target's own Tensor-object and list cells
   are not reachable from another live object (tntorch never shares list objects between tensors: observed on every
   step by the harness), EVERY effect that stays within its table entry is safe - "in-place methods rebind list
   entries instead of overwriting cores", as a theorem. *)
Lemma fresh_not_in_others : forall d s tgt c, closed s -> allocated (hp s) c = false -> ~ In c (others d s tgt).
Proof.
  intros d s tgt c Hcl Hf Hin. unfold others in Hin. apply in_flat_map in Hin. destruct Hin as [r [Hr Hc]].
  apply filter_In in Hr. destruct Hr as [Hr _].
  assert (Ha : allocated (hp s) c = true).
  { apply (reach_allocated d s r c Hcl); [| exact Hc]. destruct Hcl as [_ Hl]. apply Hl. exact Hr. }
  rewrite Hf in Ha. discriminate.
Qed.

Definition lists_exclusive (d : nat) (s : state) (tgt : option cell) : Prop :=
  forall t c, tgt = Some t -> In c (reach d (hget (hp s)) t) ->
    (knd (hget (hp s) c) = 1 \/ knd (hget (hp s) c) = 2)%Z -> ~ In c (others d s tgt).

Lemma table_never_writes : forall k, p_write (table k) = false.
Proof. intros k. destruct k; reflexivity. Qed.

Theorem table_conformance_implies_safe : forall d k s tgt evs,
  closed s -> lists_exclusive d s tgt ->
  forallb (event_allowed d (table k) s tgt) evs = true ->
  safe_step d s (mkStep tgt evs) = true.
Proof.
  intros d k s tgt evs Hcl Hex Hall. unfold safe_step. cbn [s_tgt s_evs]. rewrite forallb_forall in *. intros e He.
  specialize (Hall e He). unfold safe_event.
  destruct e as [c n | c p | c rs | r]; cbn [touched event_allowed] in *; try reflexivity;
    apply negb_true_iff; apply memc_false.
  - apply negb_true_iff in Hall. apply (fresh_not_in_others d s tgt c Hcl Hall).
  - rewrite table_never_writes in Hall. rewrite orb_false_r in Hall. apply negb_true_iff in Hall.
    apply (fresh_not_in_others d s tgt c Hcl Hall).
  - apply orb_true_iff in Hall. destruct Hall as [Hall | Hall].
    + apply negb_true_iff in Hall. apply (fresh_not_in_others d s tgt c Hcl Hall).
    + destruct ((knd (hget (hp s) c) =? 1)%Z || (knd (hget (hp s) c) =? 2)%Z)%bool eqn:Ek.
      * apply andb_true_iff in Hall. destruct Hall as [_ Hm]. destruct tgt as [t |]; [| discriminate].
        apply memc_In in Hm. apply (Hex t c eq_refl Hm).
        apply orb_true_iff in Ek. destruct Ek as [Ek | Ek]; apply Z.eqb_eq in Ek; [left | right]; exact Ek.
      * rewrite table_never_writes in Hall. discriminate.
Qed.

(* ------------------------------------------------------------------ (b) histories *)
Lemma exec_live_incl : forall s st r, In r (live s) -> In r (live (exec s st)).
Proof. intros s st r H. unfold exec. apply fold_apply_live_incl. exact H. Qed.

Lemma run_live_incl : forall hs s r, In r (live s) -> In r (live (run s hs)).
Proof.
  induction hs as [| st hs IH]; intros s r H; cbn [run fold_left]; [exact H |].
  apply (IH (exec s st)). apply exec_live_incl. exact H.
Qed.

Lemma run_cons : forall s st hs, run s (st :: hs) = run (exec s st) hs.
Proof. reflexivity. Qed.

Lemma run_app : forall s hs hs', run s (hs ++ hs') = run (run s hs) hs'.
Proof. intros s hs hs'. unfold run. apply fold_left_app. Qed.

Lemma safe_run_app : forall d hs hs' s, safe_run d s (hs ++ hs') = true ->
  safe_run d s hs = true /\ safe_run d (run s hs) hs' = true.
Proof.
  induction hs as [| st hs IH]; intros hs' s H; cbn [app safe_run] in *.
  - split; [reflexivity | exact H].
  - apply andb_true_iff in H. destruct H as [H1 H2]. destruct (IH hs' (exec s st) H2) as [H3 H4].
    rewrite H1, H3. split; [reflexivity | exact H4].
Qed.

(* every step of every accepted history: all objects live at that point, other than the step's in-place target,
   decompress after the step exactly as before it *)
Theorem history_step_isolation : forall (D : Type) (F : tree -> D) d pre st post s r,
  safe_run d s (pre ++ st :: post) = true ->
  In r (live (run s pre)) -> is_tgt (s_tgt st) r = false ->
  decomp F d (run s (pre ++ [st])) r = decomp F d (run s pre) r.
Proof.
  intros D F d pre st post s r Hsafe Hr Ht.
  destruct (safe_run_app d pre (st :: post) s Hsafe) as [_ H2]. cbn [safe_run] in H2.
  apply andb_true_iff in H2. destruct H2 as [Hst _].
  rewrite run_app. cbn [run fold_left]. apply (decomp_isolation D F d (run s pre) st r Hst Hr Ht).
Qed.

(* an object that is never the in-place target decompresses at the end of the history as at the start,
   whatever was done to objects sharing cells with it in between *)
Theorem history_isolation : forall (D : Type) (F : tree -> D) d hs s r,
  safe_run d s hs = true -> In r (live s) -> Forall (fun st => is_tgt (s_tgt st) r = false) hs ->
  decomp F d (run s hs) r = decomp F d s r.
Proof.
  intros D F d hs. induction hs as [| st hs IH]; intros s r Hsafe Hr Hall; [reflexivity |].
  cbn [safe_run] in Hsafe. apply andb_true_iff in Hsafe. destruct Hsafe as [H1 H2].
  inversion Hall as [| st' hs' Hst Hrest]; subst.
  rewrite run_cons. rewrite (IH (exec s st) r H2 (exec_live_incl s st r Hr) Hrest).
  apply (decomp_isolation D F d s st r H1 Hr Hst).
Qed.

(* an object created in the middle of a history (result of a derivation) is protected from then on *)
Corollary history_isolation_from : forall (D : Type) (F : tree -> D) d pre post s r,
  safe_run d s (pre ++ post) = true -> In r (live (run s pre)) ->
  Forall (fun st => is_tgt (s_tgt st) r = false) post ->
  decomp F d (run s (pre ++ post)) r = decomp F d (run s pre) r.
Proof.
  intros D F d pre post s r Hsafe Hr Hall. destruct (safe_run_app d pre post s Hsafe) as [_ H2].
  rewrite run_app. apply (history_isolation D F d post (run s pre) r H2 Hr Hall).
Qed.

(* ------------------------------------------------------------------ the discipline is not over-cautious:
   a Write that changes the payload of a cell another object reaches DOES change that object's unfolding *)
Lemma unfold_root : forall d h c, match unfold d h c with T k p _ => k = knd (h c) /\ p = pay (h c) end.
Proof. intros d h c. destruct d; cbn [unfold]; split; reflexivity. Qed.

Definition updp (h : heap) (c : cell) (p : Z) : heap := fun c' => if Pos.eqb c' c then set_pay (h c) p else h c'.

Lemma updp_refs : forall h c p x, refs (updp h c p x) = refs (h x).
Proof. intros h c p x. unfold updp. destruct (Pos.eqb_spec x c) as [E | E]; [subst; reflexivity | reflexivity]. Qed.

Lemma map_neq_witness : forall (A B : Type) (f g : A -> B) l x, In x l -> f x <> g x -> map f l <> map g l.
Proof.
  intros A B f g l x. induction l as [| a l IH]; intros Hin Hne Heq; [destruct Hin |].
  cbn [map] in Heq. injection Heq as E1 E2. destruct Hin as [E | Hin]; [subst; exact (Hne E1) | exact (IH Hin Hne E2)].
Qed.

Lemma T_inj : forall k p ch k' p' ch', T k p ch = T k' p' ch' -> k = k' /\ p = p' /\ ch = ch'.
Proof. intros k p ch k' p' ch' H. inversion H. repeat split; reflexivity. Qed.

Theorem write_shared_visible : forall d h r c p, In c (reach d h r) -> pay (h c) <> p ->
  unfold d (updp h c p) r <> unfold d h r.
Proof.
  induction d as [| d IH]; intros h r c p Hin Hne Heq.
  - cbn [reach] in Hin. destruct Hin as [E | []]. subst. cbn [unfold] in Heq. apply T_inj in Heq.
    destruct Heq as [_ [E2 _]]. unfold updp in E2. rewrite Pos.eqb_refl in E2. cbn [set_pay pay] in E2.
    apply Hne. symmetry. exact E2.
  - cbn [reach] in Hin. cbn [unfold] in Heq. apply T_inj in Heq. destruct Heq as [_ [E2 E3]]. destruct Hin as [E | Hin].
    + subst. unfold updp in E2. rewrite Pos.eqb_refl in E2. cbn [set_pay pay] in E2. apply Hne. symmetry. exact E2.
    + apply in_flat_map in Hin. destruct Hin as [x [Hx Hc]]. rewrite updp_refs in E3.
      apply (map_neq_witness cell tree (unfold d (updp h c p)) (unfold d h) (refs (h r)) x Hx (IH h x c p Hc Hne) E3).
Qed.

(* ------------------------------------------------------------------ tree_eqb decides equality (used by the harness) *)
Fixpoint tree_rect' (P : tree -> Prop) (HT : forall k p ch, Forall P ch -> P (T k p ch)) (t : tree) : P t :=
  match t with
  | T k p ch => HT k p ch ((fix go (l : list tree) : Forall P l :=
                              match l with [] => Forall_nil P | x :: l' => Forall_cons x (tree_rect' P HT x) (go l') end) ch)
  end.

Lemma tree_eqb_eq : forall a b, tree_eqb a b = true <-> a = b.
Proof.
  intros a. induction a as [k p ch IH] using tree_rect'. intros [k' p' ch']. cbn [tree_eqb].
  set (go := fix go (l l' : list tree) {struct l} : bool :=
               match l, l' with [] , [] => true | x :: t, y :: t' => tree_eqb x y && go t t' | _, _ => false end).
  assert (Hgo : forall l', go ch l' = true <-> ch = l').
  { induction IH as [| x l Hx Hl IHl]; intros l'; destruct l' as [| y l']; cbn [go]; try (split; [discriminate | discriminate]).
    - split; reflexivity.
    - rewrite andb_true_iff, Hx, IHl. split; [intros [E1 E2]; subst; reflexivity | intros E; injection E as E1 E2; split; assumption]. }
  rewrite !andb_true_iff, Z.eqb_eq, Z.eqb_eq, Hgo. split.
  - intros [[E1 E2] E3]. subst. reflexivity.
  - intros E. injection E as E1 E2 E3. repeat split; assumption.
Qed.

(* ------------------------------------------------------------------ non-vacuity: histories WITH shared cells *)
Module Examples.
Local Open Scope positive_scope.
(* cell 1 = None.  Tensor A = root 10 -> lists 11 (cores) , 12 (Us) ; cores: torch objects 13, 14 on storages 15, 16.
   B = A[:, 0:1] : root 20 -> lists 21, 22 ; its first core 23 is a VIEW on storage 15 (shared), second core is 14 itself. *)
Definition s0 : state := fold_left apply
  [Alloc 1 nil_node;
   Alloc 15 (mkNode 4 100 []); Alloc 16 (mkNode 4 101 []);
   Alloc 13 (mkNode 3 7 [15%positive]); Alloc 14 (mkNode 3 8 [16%positive]);
   Alloc 11 (mkNode 2 0 [13%positive; 14%positive]); Alloc 12 (mkNode 2 0 [1%positive; 1%positive]);
   Alloc 10 (mkNode 1 0 [11%positive; 12%positive]); NewObject 10;
   Alloc 23 (mkNode 3 9 [15%positive]);
   Alloc 21 (mkNode 2 0 [23%positive; 14%positive]); Alloc 22 (mkNode 2 0 [1%positive; 1%positive]);
   Alloc 20 (mkNode 1 0 [21%positive; 22%positive]); NewObject 20] empty_state.

(* in-place rounding of A the way tntorch does it: new core, rebind A's list entry.  B still reaches 15 and 14. *)
Definition round_A : step := mkStep (Some 10%positive)
  [Alloc 30 (mkNode 4 200 []); Alloc 31 (mkNode 3 7 [30%positive]); Rebind 11 [31%positive; 14%positive]].
(* a pure operation on B allocating a result that shares B's second core *)
Definition slice_B : step := mkStep None
  [Alloc 41 (mkNode 2 0 [14%positive]); Alloc 42 (mkNode 2 0 [1%positive]); Alloc 40 (mkNode 1 0 [41%positive; 42%positive]); NewObject 40].
(* the forbidden thing: an in-place method on A that overwrites storage 15 (core *= x), which B also reaches *)
Definition bad_A : step := mkStep (Some 10%positive) [Write 15 999].

Example shared_cells : memc 15%positive (reach 4 (hget (hp s0)) 10%positive) = true /\ memc 15%positive (reach 4 (hget (hp s0)) 20%positive) = true.
Proof. split; vm_compute; reflexivity. Qed.
Example safe_history : safe_run 4 s0 [round_A; slice_B; round_A] = true.
Proof. vm_compute. reflexivity. Qed.
Example safe_history_changes_target : tree_eqb (unfold 4 (hget (hp (run s0 [round_A]))) 10%positive) (unfold 4 (hget (hp s0)) 10%positive) = false.
Proof. vm_compute. reflexivity. Qed.
Example isolation_instance : unfold 4 (hget (hp (run s0 [round_A; slice_B; round_A]))) 20%positive = unfold 4 (hget (hp s0)) 20%positive.
Proof.
  apply (history_isolation tree (fun t => t) 4 [round_A; slice_B; round_A] s0 20%positive).
  - vm_compute. reflexivity.
  - vm_compute. right. left. reflexivity.
  - repeat constructor.
Qed.
Example bad_rejected : safe_step 4 s0 bad_A = false.
Proof. vm_compute. reflexivity. Qed.
Example bad_is_visible : tree_eqb (unfold 4 (hget (hp (exec s0 bad_A))) 20%positive) (unfold 4 (hget (hp s0)) 20%positive) = false.
Proof. vm_compute. reflexivity. Qed.
(* the same write is fine once nobody else reaches the cell: after B has been rebound away from 15 and 14 *)
Definition detach_B : step := mkStep (Some 20%positive)
  [Alloc 50 (mkNode 4 100 []); Alloc 51 (mkNode 3 9 [50%positive]); Alloc 52 (mkNode 4 101 []); Alloc 53 (mkNode 3 8 [52%positive]);
   Rebind 21 [51%positive; 53%positive]].
Example write_ok_when_exclusive : safe_run 4 s0 [detach_B; bad_A] = true.
Proof. vm_compute. reflexivity. Qed.
Example closed_s0 : forall c, In c (reach 4 (hget (hp s0)) 10%positive) -> allocated (hp s0) c = true.
Proof. intros c H. vm_compute in H. repeat (destruct H as [H | H]; [subst; vm_compute; reflexivity |]). destruct H. Qed.
Example lists_exclusive_s0 : forall c, In c (reach 4 (hget (hp s0)) 10) ->
  (knd (hget (hp s0) c) = 1 \/ knd (hget (hp s0) c) = 2)%Z -> ~ In c (others 4 s0 (Some 10)).
Proof.
  intros c H Hk Hin. apply memc_In in Hin. vm_compute in H.
  repeat (destruct H as [H | H]; [subst; vm_compute in Hin; try discriminate; vm_compute in Hk; destruct Hk; discriminate |]).
  destruct H.
Qed.
Example round_A_conforms : forallb (event_allowed 4 (table KRoundIn) s0 (Some 10)) (s_evs round_A) = true.
Proof. vm_compute. reflexivity. Qed.
End Examples.
