#!/bin/bash
# multi-seed pass over all checks (used to hunt seed-dependent false alarms); run from /verif
cd "$(dirname "$0")/.." || exit 2
/venv/bin/python harness/check.py --setup | tail -1
for s in ${SEEDS:-1 2 3}; do
  for p in C01 C02 C03 C04 C05 C06 C07 C08 C09 C10 C11 C12 C13 C14 C15 C16 C17 C18 C19 C20; do
    VERIF_SEED=$s timeout 1800 /venv/bin/python harness/check.py --property $p --tier ${TIER:-quick} 2>&1 | grep -E "VIOLATION|^$p " 
  done
done
