(* anova.truncate_anova(t, mask, keepdim=True) = undo_anova_decomposition(tn.mask(anova_decomposition(t), mask)):
   the result is the sum of the ANOVA terms selected (weighted) by the mask. *)
From TN Require Export Proofs.SobolP.
From TN Require Import Proofs.ArithP Proofs.AnovaP.
Section Truncate.
Variable K : Ops.
Hypothesis Kth : laws K.
Add Ring Kring : Kth.
Local Open Scope K_scope.
Notation net := (list (score K)).

Definition truncate_net (ws : list (nat -> K)) (mask cs : net) : option net :=
  let a := anova_net ws cs in
  match mul_net a (mask_ext mask (sshape a)) with Some am => Some (undo_net am) | None => None end.

(* the extended index that realises subset al at the point x: 0 where the variable is absent, x_n + 1 where present *)
Fixpoint sel (al x : list nat) : list nat :=
  match al, x with a :: al', i :: x' => (match a with O => O | _ => S i end) :: sel al' x' | _, _ => [] end.

(* undoing = summing, mode by mode, the entry 0 and the entry x_n + 1: a sum over all subsets *)
Lemma dlin_bmat (ds : list nat) : forall (G : list nat -> K) x, in_range ds x = true ->
  dlin (map (fun _ => @bmat K) ds) (map S ds) G x = sumidx (repeat 2%nat (length ds)) (fun al => G (sel al x)).
Proof.
  induction ds as [|d ds IH]; intros G x Hin.
  - destruct x; [|discriminate]. reflexivity.
  - destruct x as [|i x]; [discriminate|]. cbn [in_range] in Hin. apply andb_true_iff in Hin. destruct Hin as [Hi Hin].
    apply Nat.ltb_lt in Hi. cbn [map dlin length repeat sumidx].
    rewrite (sumn_ext (S d) _ (fun j => delta (S i) j * dlin (map (fun _ => @bmat K) ds) (map S ds) (fun r => G (j :: r)) x
                                      + delta O j * dlin (map (fun _ => @bmat K) ds) (map S ds) (fun r => G (j :: r)) x)).
    2:{ intros j _. unfold bmat, delta. rewrite (Nat.eqb_sym j (S i)), (Nat.eqb_sym j O). ring. }
    rewrite (sumn_add Kth), !(sumn_delta Kth) by lia.
    rewrite !IH by exact Hin. cbn [sumn]. cbn [sel]. ring.
Qed.

Lemma pat_sel : forall al x, in_range (repeat 2%nat (length x)) al = true -> pat (sel al x) = al.
Proof.
  induction al as [|a al IH]; intros [|i x] H; cbn in *; try discriminate; auto.
  apply andb_true_iff in H. destruct H as [Ha H]. cbn [pat map]. fold (pat (sel al x)).
  rewrite IH by exact H. destruct a as [|[|a]]; [reflexivity | destruct i; reflexivity | cbn in Ha; discriminate].
Qed.

Lemma sel_in_range : forall ds al x, in_range ds x = true -> in_range (repeat 2%nat (length ds)) al = true ->
  in_range (map S ds) (sel al x) = true.
Proof.
  induction ds as [|d ds IH]; intros [|a al] [|i x] Hx Ha; cbn in *; try discriminate; auto.
  apply andb_true_iff in Hx. destruct Hx as [Hi Hx]. apply andb_true_iff in Ha. destruct Ha as [_ Ha].
  rewrite (IH al x Hx Ha), andb_true_r. apply Nat.ltb_lt in Hi. destruct a; [apply Nat.leb_le; lia | apply Nat.leb_le; lia].
Qed.

Theorem truncate_sound (ws : list (nat -> K)) (mask cs r : net) x :
  good K cs -> good K mask -> length ws = length cs -> length mask = length cs ->
  sshape mask = repeat 2%nat (length mask) ->
  truncate_net ws mask cs = Some r -> in_range (sshape cs) x = true ->
  eval r x = sumidx (repeat 2%nat (length cs)) (fun al => eval mask al * eval (anova_net ws cs) (sel al x)).
Proof.
  intros Gc Gm Hw Hm Hsm H Hx. unfold truncate_net in H.
  set (sh := map (fun c : score K => S (dm c)) cs).
  assert (Lsh: length sh = length cs) by (unfold sh; apply map_length).
  assert (Esh: sh = map S (sshape cs)) by (unfold sh, sshape; rewrite map_map; reflexivity).
  assert (Ga0: good K (anova_net ws cs) /\ sshape (anova_net ws cs) = sh).
  { rewrite (anova_is_lin_all K) by exact Hw. rewrite <- (lin_modes_is_all K).
    apply (good_lin_modes K); rewrite ?map_length; auto. }
  destruct Ga0 as [Ga0 Sa0]. rewrite Sa0 in H.
  assert (Gme: good K (mask_ext mask sh) /\ sshape (mask_ext mask sh) = sh).
  { unfold mask_ext. apply (good_lin_modes K); rewrite ?map_length; auto; lia. }
  destruct Gme as [Gme Sme].
  destruct (mul_net (anova_net ws cs) (mask_ext mask sh)) as [am|] eqn:Em; [|discriminate]. injection H as <-.
  destruct (mul_net_sound K Kth _ _ am Ga0 Gme Em) as (Gam & Bam & Eam).
  assert (Sam: sshape am = sh) by (rewrite Sa0, Sme, bshape_same in Bam; injection Bam as <-; reflexivity).
  assert (Lam: length am = length cs) by (rewrite <- (sshape_length K), Sam; exact Lsh).
  (* undo is a linear map on every mode *)
  assert (Eu: undo_net am = lin_all K (map (fun _ => @bmat K) (sshape cs)) (sshape cs) am).
  { unfold undo_net. clear - Sam Esh. revert Sam. rewrite Esh. generalize (sshape cs) as ds. revert am.
    induction am as [|c am IH]; intros [|d ds] S; cbn in S; try discriminate; [reflexivity|].
    injection S as S1 S2. cbn [map lin_all]. rewrite S1. cbn [Nat.sub]. rewrite Nat.sub_0_r. f_equal. apply IH. exact S2. }
  rewrite Eu. pose proof (in_range_length _ _ Hx) as Lx. rewrite (sshape_length K) in Lx.
  rewrite (lin_all_eval K Kth) by (rewrite ?map_length, ?(sshape_length K); try lia; apply (proj1 Gam)).
  rewrite Sam, Esh. rewrite dlin_bmat by exact Hx. rewrite (sshape_length K).
  apply sumidx_ext_in. intros al Hal.
  assert (Hs: in_range sh (sel al x) = true).
  { rewrite Esh. apply sel_in_range; [exact Hx | rewrite (sshape_length K); exact Hal]. }
  rewrite Eam by (rewrite (in_range_length _ _ Hs), Lam; exact Lsh).
  rewrite Sa0, Sme, !clip_in_range by exact Hs.
  unfold mask_ext. rewrite (lin_modes_is_all K).
  rewrite (lin_all_eval K Kth) by (rewrite ?map_length; try lia; try apply (proj1 Gm); rewrite (in_range_length _ _ Hs); lia).
  rewrite (dlin_pat K Kth mask) by (auto; rewrite (in_range_length _ _ Hs); lia).
  rewrite pat_sel by (rewrite Lx; exact Hal). ring.
Qed.

(* the term of subset al depends only on the variables in al *)
Lemma sel_depends_only : forall al x y, length x = length y ->
  (forall n, nth n al O <> O -> nth n x O = nth n y O) -> sel al x = sel al y.
Proof.
  induction al as [|a al IH]; intros [|i x] [|j y] Hl H; cbn in *; try discriminate; auto.
  f_equal.
  - destruct a; [reflexivity|]. f_equal. apply (H O). discriminate.
  - apply IH; [lia|]. intros n Hn. apply (H (S n)). exact Hn.
Qed.
End Truncate.
