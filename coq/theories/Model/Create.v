(* create.py: eye (two identity cores), ones/zeros/full (rank-1 constant: Model/Arith.const_net). *)
From TN Require Export Model.Arith.
Section Create.
Variable K : Ops.
Local Open Scope K_scope.
(* Tensor([eye(n, m)[None], eye(m, m)[:, :, None]]) *)
Definition eye_net (n m : nat) : list (score K) :=
  [mkScore 1 m n (fun i _ q => delta i q); mkScore m 1 m (fun j p _ => delta p j)].
(* full(shape, c) = c * ones(shape): the scalar is spread as |c|^(1/N) over the cores; any spreading
   with product c gives the same tensor *)
Definition full_net (c : K) (sh : list nat) : list (score K) := const_net c sh.
End Create.
Arguments eye_net {K}. Arguments full_net {K}.
