From TN Require Export Proofs.ToolsP Model.Automata.
From TN Require Export Model.Deriv.
Section DerivP.
Variable K : Ops.
Hypothesis Kth : laws K.
Add Ring Kring : Kth.
Local Open Scope K_scope.

(* a row with two non-zero entries *)
Lemma sumn_two_point n a b (ca cb : K) (f : nat -> K) : (a < n)%nat -> (b < n)%nat -> a <> b ->
  sumn n (fun j => (if Nat.eqb j a then ca else if Nat.eqb j b then cb else 0) * f j) = ca * f a + cb * f b.
Proof.
  intros Ha Hb Hab.
  rewrite (sumn_ext n _ (fun j => delta a j * (ca * f j) + delta b j * (cb * f j))).
  - rewrite (sumn_add Kth), !(sumn_delta Kth) by assumption. reflexivity.
  - intros j _. unfold delta. rewrite (Nat.eqb_sym a j), (Nat.eqb_sym b j).
    destruct (Nat.eqb_spec j a), (Nat.eqb_spec j b); try lia; ring.
Qed.

(* interior rows: centred difference; end rows: the linearly extrapolated ends *)
Theorem stencil_np_apply n i (f : nat -> K) : (3 <= n)%nat -> (i < n)%nat ->
  sumn n (fun j => stencil_np n i j * f j) =
  if Nat.eqb i 0 then two * f 1%nat - two * f O
  else if Nat.eqb i (n - 1) then two * f (n - 1)%nat - two * f (n - 2)%nat
  else f (i + 1)%nat - f (i - 1)%nat.
Proof.
  intros Hn Hi. unfold stencil_np.
  destruct (Nat.eqb_spec i 0) as [->|H0].
  - rewrite (sumn_two_point n 1 0) by lia. ring.
  - destruct (Nat.eqb_spec i (n - 1)) as [->|H1].
    + rewrite (sumn_two_point n (n - 1) (n - 2)) by lia. ring.
    + rewrite (sumn_ext n _ (fun j => (if Nat.eqb j (i + 1) then 1 else if Nat.eqb j (i - 1) then - (1) else 0) * f j)).
      * rewrite (sumn_two_point n (i + 1) (i - 1)) by lia. ring.
      * intros j _. destruct (Nat.eqb_spec j (i + 1)); [reflexivity|].
        destruct (Nat.eqb_spec (j + 1) i), (Nat.eqb_spec j (i - 1)); try lia; reflexivity.
Qed.

Theorem partial1_sound k n hinv periodic (cs : list (score K)) c idx i :
  nth_error cs k = Some c -> nth_error idx k = Some i -> dm c = n ->
  eval (partial1_net k n hinv periodic cs) idx =
  hinv * sumn n (fun j => (if periodic then stencil_p n i j else stencil_np n i j) * eval cs (upd k idx j)).
Proof.
  intros Hc Hi Hd. unfold partial1_net. rewrite (ttm_sound K Kth k n _ cs c idx i Hc Hi). rewrite Hd.
  rewrite <- (sumn_mul_l Kth). apply sumn_ext. intros; ring.
Qed.

(* constants along the mode are annihilated, affine functions become constant (non-periodic) *)
Theorem stencil_np_const n i (c0 : K) : (3 <= n)%nat -> (i < n)%nat ->
  sumn n (fun j => stencil_np n i j * c0) = 0.
Proof.
  intros Hn Hi. rewrite (stencil_np_apply n i (fun _ => c0) Hn Hi).
  destruct (Nat.eqb i 0); [ring|]. destruct (Nat.eqb i (n - 1)); ring.
Qed.

Theorem stencil_np_affine n i (a b : K) : (3 <= n)%nat -> (i < n)%nat ->
  sumn n (fun j => stencil_np n i j * (a + b * of_nat j)) = two * b.
Proof.
  intros Hn Hi. rewrite (stencil_np_apply n i (fun j => a + b * of_nat j) Hn Hi).
  assert (S1: forall m, of_nat (K:=K) (S m) = of_nat m + 1) by reflexivity.
  destruct (Nat.eqb_spec i 0) as [->|H0].
  - cbn [of_nat]. unfold two. ring.
  - destruct (Nat.eqb_spec i (n - 1)) as [->|H1].
    + replace (n - 1)%nat with (S (n - 2)) by lia. rewrite S1. unfold two. ring.
    + replace (i + 1)%nat with (S (S (i - 1))) by lia. rewrite !S1. unfold two. ring.
Qed.
End DerivP.
