From TN Require Export Harness.HBase Sem.Fast Model.Anova Model.Sobol.
From Coq Require Import QArith.
Inductive op10 :=
| OExtended (t : tensor QO) (ws : list (list Q))     (* tn.anova_decomposition(t, marginals): normalised weights *)
| OUndo (t : tensor QO) (ws : list (list Q))         (* tn.undo_anova_decomposition(tn.anova_decomposition(t)) *)
| OTruncate (t : tensor QO) (ws : list (list Q)) (m : tensor QO).   (* undo(tn.mask(anova(t), m)) = truncate_anova(keepdim=True) *)
Record case := mkCase { c_op : op10; c_shape : list nat; c_dense : list Q }.
Definition wfun (w : list Q) : nat -> Q := fun j => nth j w 0%Q.
Definition run (o : op10) : list (score QO) :=
  match o with
  | OExtended t ws => anova_net (K:=QO) (map wfun ws) (sem t)
  | OUndo t ws => undo_net (anova_net (K:=QO) (map wfun ws) (sem t))
  | OTruncate t ws m =>
      let a := anova_net (K:=QO) (map wfun ws) (sem t) in
      match mul_net a (mask_ext (sem m) (sshape a)) with Some am => undo_net am | None => [] end
  end.
Definition check (c : case) : bool :=
  let cs := run (c_op c) in
  shape_eqb (sshape cs) (c_shape c) && list_cmp cmpQ (dense_of (eval_l cs) (sshape cs)) (c_dense c).
