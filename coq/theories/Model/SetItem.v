(* Tensor.__setitem__: result = src - subtract + add, where (after the Tucker factors of the target have been
   absorbed and integers turned into size-1 slices)
     subtract = src with every keyed mode zeroed outside its slice        (zeros_like + copy of the chunk),
     add      = the value placed at the slice positions, zeros elsewhere  (scalar: rank-1 indicator times value).
   A slice is (start, step, count): positions start + a*step, a < count.  No proofs in this file. *)
From TN Require Export Model.Anova Model.Arith Model.Logic Model.FullRank.
Section SetItem.
Variable K : Ops.
Local Open Scope K_scope.
Notation net := (list (score K)).
Record region := mkReg { r_start : nat; r_step : nat; r_count : nat }.
Definition in_reg (r : region) (i : nat) : bool :=
  (r_start r <=? i)%nat && ((i - r_start r) mod r_step r =? 0)%nat && ((i - r_start r) / r_step r <? r_count r)%nat.
Definition pos_reg (r : region) (i : nat) : nat := ((i - r_start r) / r_step r)%nat.
(* diagonal indicator of the region, and the embedding of the value's index a at position start + a*step *)
Definition dmat (r : region) : nat -> nat -> K := fun i j => if Nat.eqb i j && in_reg r i then 1 else 0.
Definition emat (r : region) : nat -> nat -> K := fun i a => if Nat.eqb i (r_start r + a * r_step r) then 1 else 0.

Fixpoint lin_each (Ls : list (nat -> nat -> K)) (d's : list nat) (cs : net) : net :=
  match Ls, d's, cs with
  | L :: Ls', d' :: d's', c :: cs' => lin L d' c :: lin_each Ls' d's' cs'
  | _, _, _ => cs
  end.
Definition subtract_net (regs : list region) (cs : net) : net := lin_each (map dmat regs) (sshape cs) cs.
Definition place_net (regs : list region) (sh : list nat) (vs : net) : net := lin_each (map emat regs) sh vs.
(* scalar value: torch.zeros(1, I, 1) with ones on the slice, the first core times the value *)
Definition indicator_net (c : K) (regs : list region) (sh : list nat) : net :=
  match regs, sh with
  | r :: regs', d :: sh' =>
      vec_core d (fun i => if in_reg r i then c else 0) ::
      map (fun rd : region * nat => vec_core (snd rd) (fun i => if in_reg (fst rd) i then 1 else 0)) (combine regs' sh')
  | _, _ => []
  end.
Definition minus1 : K := - (1).
Definition setitem_net (cs : net) (regs : list region) (add : net) : option net :=
  obind (add_net cs (smul_net (first_scaled minus1 (length cs)) (subtract_net regs cs))) (fun d => add_net d add).
Definition setitem_scalar (cs : net) (regs : list region) (c : K) : option net :=
  setitem_net cs regs (indicator_net c regs (sshape cs)).
Definition setitem_tensor (cs : net) (regs : list region) (vs : net) : option net :=
  setitem_net cs regs (place_net regs (sshape cs) vs).
Fixpoint all_in (regs : list region) (idx : list nat) : bool :=
  match regs, idx with r :: regs', i :: idx' => in_reg r i && all_in regs' idx' | [], [] => true | _, _ => false end.
Fixpoint all_pos (regs : list region) (idx : list nat) : list nat :=
  match regs, idx with r :: regs', i :: idx' => pos_reg r i :: all_pos regs' idx' | _, _ => [] end.
End SetItem.
Arguments dmat {K}. Arguments emat {K}. Arguments lin_each {K}. Arguments subtract_net {K}. Arguments place_net {K}.
Arguments indicator_net {K}. Arguments setitem_net {K}. Arguments setitem_scalar {K}. Arguments setitem_tensor {K}.
