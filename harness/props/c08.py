"""C08: cross-approximation interpolates its samples, evaluates only grid points / tensor entries, recovers
TT-representable targets for every seed; element-wise operations routed through cross agree with the dense result on
representable targets; minimum/maximum estimates are attained values at the reported positions.

The implementation is random (initial cores, index sets, validation sample): every case carries its seed, set in run()."""
from lib import *
import io, contextlib, logging

torch.set_num_threads(1)      # tiny matrices: thread start-up dominates QR/lstsq otherwise

# ----------------------------------------------------------------------------- function tables
# Black-box functions handed to cross.  Each entry evaluates the same expression with the array module `xp`
# (torch for the implementation, numpy for the specification); xs is the list of argument vectors/arrays.


def _tot(xs):
    s = xs[0]
    for x in xs[1:]:
        s = s + x
    return s


def _wsum(xs):
    s = 1.0 * xs[0]
    for i, x in enumerate(xs[1:]):
        s = s + (i + 2) * x
    return s


def _prod1(xs):
    s = 1.0 + xs[0]
    for x in xs[1:]:
        s = s * (1.0 + x)
    return s


def _pairs(xs):
    s = xs[0] * xs[1]
    for i in range(1, len(xs) - 1):
        s = s + xs[i] * xs[i + 1]
    return s


DOMAIN_FUNCS = {   # functions of the N coordinates
    "wsum": lambda xp, xs: _wsum(xs),                                   # TT-rank 2
    "prod": lambda xp, xs: _prod1(xs),                                  # rank 1
    "sumsq": lambda xp, xs: _tot([x * x for x in xs]),                  # rank 2
    "x0x1_rest": lambda xp, xs: xs[0] * xs[1] + _tot(xs[1:]),           # rank <= 3
    "sin_sum": lambda xp, xs: xp.sin(_tot(xs)),                         # rank 2
    "exp_sum": lambda xp, xs: xp.exp(-0.5 * _tot(xs)),                  # rank 1
    "pairs": lambda xp, xs: _pairs(xs),                                 # rank 3
    "first_only": lambda xp, xs: xs[0] * xs[0] - 1.0 + 0.0 * xs[-1],    # rank 1
    "last_only": lambda xp, xs: 0.0 * xs[0] + 2.0 * xs[-1] + 1.0,       # rank 1
    "const": lambda xp, xs: 0.0 * xs[0] + 3.5,                          # rank 1
    "inv": lambda xp, xs: 1.0 / (1.0 + _tot([x * x for x in xs])),      # full rank, fast-decaying spectrum
    "maxabs": lambda xp, xs: xp.abs(_wsum(xs) - 1.0),                   # full rank, no structure
}

TENSOR_FUNCS = {   # name: (arity, function of K entry vectors)
    "id": (1, lambda xp, xs: 1.0 * xs[0]),
    "sq": (1, lambda xp, xs: xs[0] * xs[0]),
    "affine": (1, lambda xp, xs: 2.0 * xs[0] - 3.0),
    "cube": (1, lambda xp, xs: xs[0] * xs[0] * xs[0]),
    "abs": (1, lambda xp, xs: xp.abs(xs[0])),
    "add": (2, lambda xp, xs: xs[0] + xs[1]),
    "mul": (2, lambda xp, xs: xs[0] * xs[1]),
    "lin": (2, lambda xp, xs: xs[0] - 2.0 * xs[1]),
    "first": (2, lambda xp, xs: xs[0] + 0.0 * xs[1]),
    "fma": (3, lambda xp, xs: xs[0] * xs[1] + xs[2]),
    "sum3": (3, lambda xp, xs: xs[0] + xs[1] - xs[2]),
    "sinadd": (2, lambda xp, xs: xp.sin(xs[0] + xs[1])),
}

# Operators / functions of the library that are implemented through cross.
# name: (arity, implementation on tn tensors (+scalar), numpy reference, requirement on operand values)
_erf = np.vectorize(math.erf)


def _np_erfinv(y):
    return torch.erfinv(torch.tensor(np.asarray(y, dtype=np.float64))).numpy()   # dense torch = reference


OPS = {
    "abs": (1, lambda a: tn.abs(a), lambda a: np.abs(a), "any"),
    "acos": (1, lambda a: tn.acos(a), lambda a: np.arccos(a), "unit"),
    "asin": (1, lambda a: tn.asin(a), lambda a: np.arcsin(a), "unit"),
    "cos": (1, lambda a: tn.cos(a), lambda a: np.cos(a), "any"),
    "cosh": (1, lambda a: tn.cosh(a), lambda a: np.cosh(a), "any"),
    "erf": (1, lambda a: tn.erf(a), lambda a: _erf(a), "any"),
    "erfinv": (1, lambda a: tn.erfinv(a), lambda a: _np_erfinv(a), "openunit"),
    "exp": (1, lambda a: tn.exp(a), lambda a: np.exp(a), "any"),
    "log": (1, lambda a: tn.log(a), lambda a: np.log(a), "pos"),
    "log10": (1, lambda a: tn.log10(a), lambda a: np.log10(a), "pos"),
    "log2": (1, lambda a: tn.log2(a), lambda a: np.log2(a), "pos"),
    "reciprocal": (1, lambda a: tn.reciprocal(a), lambda a: 1.0 / a, "nonzero"),
    "rsqrt": (1, lambda a: tn.rsqrt(a), lambda a: 1.0 / np.sqrt(a), "pos"),
    "sigmoid": (1, lambda a: tn.sigmoid(a), lambda a: 1.0 / (1.0 + np.exp(-a)), "any"),
    "sin": (1, lambda a: tn.sin(a), lambda a: np.sin(a), "any"),
    "sinh": (1, lambda a: tn.sinh(a), lambda a: np.sinh(a), "any"),
    "sqrt": (1, lambda a: tn.sqrt(a), lambda a: np.sqrt(a), "pos"),
    "tan": (1, lambda a: tn.tan(a), lambda a: np.tan(a), "any"),
    "tanh": (1, lambda a: tn.tanh(a), lambda a: np.tanh(a), "any"),
    "add": (2, lambda a, b: tn.add(a, b), lambda a, b: a + b, "any"),
    "mul": (2, lambda a, b: tn.mul(a, b), lambda a, b: a * b, "any"),
    "atan2": (2, lambda a, b: tn.atan2(a, b), lambda a, b: np.arctan2(a, b), "nonzero"),
    "div": (2, lambda a, b: tn.div(a, b), lambda a, b: a / b, "den_nonzero"),
    "truediv": (2, lambda a, b: a / b, lambda a, b: a / b, "den_nonzero"),
    "pow": (2, lambda a, b: tn.pow(a, b), lambda a, b: a ** b, "pos"),
    "pow_tensor": (2, lambda a, b: a ** b, lambda a, b: a ** b, "pos"),
    "pow_scalar": ("s", lambda a, s: a ** s, lambda a, s: a ** s, "pos"),
    "pow_int": ("s", lambda a, s: a ** int(s), lambda a, s: a ** int(s), "any"),
    "rtruediv": ("s", lambda a, s: s / a, lambda a, s: s / a, "nonzero"),
    "truediv_scalar": ("s", lambda a, s: a / s, lambda a, s: a / s, "any"),
    "cumprod": (1, lambda a: tn.cumprod(a), lambda a: _np_cumprod(a), "pos"),
}


def _np_cumprod(a):
    for d in range(a.ndim):
        a = np.cumprod(a, axis=d)
    return a


# ----------------------------------------------------------------------------- helpers

def quiet():
    logging.disable(logging.CRITICAL)
    return contextlib.redirect_stdout(io.StringIO())


def seed_all(seed):
    torch.manual_seed(seed)
    np.random.seed(seed)
    random.seed(seed)


def tn_operand(tj, den):
    """explicit tensor with the first core divided by `den` (values k/den)"""
    t = to_tn(tj)
    if den != 1:
        t.cores[0] = t.cores[0] / float(den)
    return t


def dense_operand(tj, den):
    return dense_np(tj) / float(den)


def tt_ranks(D, tol=1e-12):
    """exact TT ranks of a dense array (ranks of its unfoldings), and whether the spectra have a clean gap"""
    shape = D.shape
    ranks = []; gap = True
    for k in range(1, len(shape)):
        M = D.reshape(int(np.prod(shape[:k])), -1)
        s = np.linalg.svd(M, compute_uv=False)
        if s[0] == 0:
            ranks.append(0); continue
        ranks.append(int(np.sum(s > tol * s[0])))
        if np.any((s > tol * s[0]) & (s < 1e-4 * s[0])):
            gap = False
    return ranks, gap


def cap_ranks(Rs, Is):
    """the documented capping of requested ranks by the full ranks of the grid"""
    Rs = list(Rs); N = len(Is)
    for n in list(range(1, N)) + list(range(N - 1, -1, -1)):
        Rs[n] = min(Rs[n - 1] * Is[n - 1], Rs[n], Is[n] * Rs[n + 1])
    return Rs


def reachable_ranks(case, Is):
    """largest ranks cross may use on this case (fixed: the capped request; adaptive: after max_iter-1 growth steps)"""
    N = len(Is)
    cp = case.get("cross", {})
    ranks = cp.get("ranks_tt")
    if ranks is not None:
        r = [ranks] * (N - 1) if not isinstance(ranks, list) else list(ranks)
        return cap_ranks([1] + r + [1], Is)
    kick = cp.get("kickrank", 3); rmax = cp.get("rmax", 100); iters = cp.get("max_iter", 25)
    Rs = cap_ranks([1] * (N + 1), Is)
    for _ in range(iters - 1):
        new = list(Rs)
        for n in range(1, N):
            new[n] = min(rmax, new[n] + kick)
        Rs = cap_ranks(new, Is)
    return Rs


def uniq_rows(X, cap=8000):
    X = np.asarray(X, dtype=np.float64)
    if X.ndim != 2:
        X = X.reshape(len(X), -1)
    U = np.unique(X, axis=0) if len(X) else X
    return U[:cap].tolist(), int(len(U))


class Recorder:
    """wraps the black-box function and records every argument it is called with"""

    def __init__(self, fn, matrix=False, out2d=False):
        self.fn = fn; self.matrix = matrix; self.out2d = out2d; self.rows = []; self.bad = None

    def __call__(self, *args):
        if self.matrix:
            X = args[0]
            if len(args) != 1 or X.dim() != 2:
                self.bad = "matrix convention: called with %d arguments of dims %s" % (len(args), [a.dim() for a in args])
            xs = [X[:, k] for k in range(X.shape[1])]
        else:
            xs = list(args)
            if any(x.dim() != 1 for x in xs) and not all(x.dim() == 2 and x.shape[1] == 1 for x in xs):
                self.bad = "vector convention: arguments of dims %s" % [tuple(x.shape) for x in xs]
            xs = [x.reshape(-1) for x in xs]
        self.rows.append(torch.stack([x.detach() for x in xs], dim=1).numpy().copy())
        y = self.fn(torch, xs)
        return y[:, None] if self.out2d else y

    def points(self):
        return np.concatenate(self.rows, axis=0) if self.rows else np.zeros((0, 0))


def all_kinds_cycle(rng, N):
    return [rng.choice(KINDS) for _ in range(N)]


# ----------------------------------------------------------------------------- the property

class Prop:
    ID = "C08"
    LEVEL = "proof"
    COQ_HEADER = "From TN Require Import Harness.H_C08.\nFrom Coq Require Import QArith.\nOpen Scope Q_scope.\n"
    CHECK_FN = "check"
    RULE = ("seeded runs (torch.manual_seed / np.random.seed = case seed) of tn.cross on grids with 2..5 modes of sizes 1..5: "
            "(a) 12 named functions on explicit domains (regular, irregular, negative, size-1 axes), vector and matrix calling "
            "convention, 1-D and column outputs, fixed ranks (int, list, below / at / above the target's TT ranks) and adaptive "
            "ranks (kickrank, rmax, max_iter, eps), record_samples; (b) 12 named functions of 1..3 explicit small-integer "
            "tensors over the format lattice ({TT,CP} x {Tucker factor or not} per mode, enumerated for N=2, seeded for N=3..5), "
            "list and single-tensor calling convention; (c) every operator / function routed through cross (tensor.py "
            "__truediv__/__rtruediv__/__pow__, ops.py abs..tanh, add, mul, atan2, div, pow, cumprod) on operands whose result "
            "is TT-representable (rank-1 / additive structure on larger grids, arbitrary values on tiny grids); (d) "
            "minimum/argmin/maximum/argmax (public wrappers, re-seeded so that value and position come from the same "
            "trajectory, and cross(_minimize=True)) on tensors and domains, incl. tensors whose minimum is 0; (e) cross_forward "
            "on the index sets of a finished run; (f) 370 (quick) small runs (N 2..4, mode sizes 2..4, ranks <= 3, <= 3 "
            "iterations, validation sample 4..8, integer / dyadic axis values or small-integer tensors in every format, "
            "fixed and adaptive ranks, vector and matrix convention, cross and cross(_minimize=True) behind "
            "minimum/argmin) that are additionally replayed in the Coq model Model/Cross.v with the oracles "
            "(function table, maxvol rows, QR factor Q of the last right-to-left sweep, np.random.randint / choice "
            "answers, number of iterations, position of every new best sample) recorded from the run: argument vectors "
            "of every function call, lsets / rsets / Rs and argmin compared exactly, the returned tensor and min within "
            "1e-5 of the largest entry. Outside the model's scope (not replayed): larger runs, non-dyadic axes, "
            "cross_forward, the operators, maximum/argmax (same code with -f). "
            "Several seeds per configuration. A case is non-trivial when the run "
            "returned and the target is not constant; distinct = distinct (kind, function/op, formats, shape, rank "
            "configuration, calling convention, seed).")
    TRUSTED = ["checks are evaluated by harness/props/c08.py with NumPy float64: grid membership 1e-9, interpolation 1e-7, recovery "
               "1e-6 (max-norm relative to the target), min/max 1e-6",
               "the exact TT ranks of a target are the numerical ranks (1e-12) of the unfoldings of the dense target",
               "the evaluation points are observed by wrapping the black-box function (and, for domains, through "
               "record_samples)",
               "dense reference of erfinv is torch.erfinv on the dense operand",
               "oracle replay (coq_term): maxvol / rect_maxvol, torch.linalg.qr (observed as maxvol's argument; its contract "
               "Q^T Q = I, span(Q) = span(unfolding) is validated numerically at 1e-9 / 1e-8 on every replayed call), "
               "np.random.randint / np.random.choice, np.unravel_index on 3 axes (signals a replaced best sample), the "
               "stopping rule (number of iterations) and the black-box function are intercepted by monkeypatching "
               "during a second, identically seeded run whose result must coincide with the checked run",
               "Q entries, function table and dense result are rounded to 2^-40 before they enter Coq (compared within a "
               "tolerance); argument vectors are passed exactly"]
    ASSUMPTIONS = ["recovery is required only when the exact TT ranks of the dense target are <= the ranks cross may reach on that "
                   "case (fixed: request capped by the grid's full ranks; adaptive: min(rmax, 1+(max_iter-1) kickrank) capped) and, "
                   "for adaptive ranks, the unfolding spectra have no singular values in (1e-12, 1e-4) relative (otherwise the "
                   "eps=1e-6 stopping rule legitimately stops before exactness)",
                   "recovery additionally assumes the non-singularity hypothesis of DESIGN.md (C08_exact_recovery_partial), observed "
                   "on the run: the target restricted to the returned nested index sets lsets[j] x rsets[j-1] has the rank of the "
                   "j-th unfolding for every bond; a run that ends on a degenerate skeleton AND misses the target is reported (it is "
                   "the recorded finding C08-degenerate-skeleton-no-recovery, about 0.7% of the claims; three such inputs are "
                   "pinned in corpus/C08) - interpolation, grid-only evaluation and min/max are unconditional",
                   "for-every-seed is sampled: a finite number of seeds per configuration, offset by VERIF_SEED",
                   "entries-only is observed on values: every tuple of arguments passed to the function equals the tuple of "
                   "entries of the given tensors at some common position"]
    THEOREMS = ["C08_core_identity_pattern", "C08_skeleton_unit", "C08_interpolation", "C08_rinterface_consistent",
                "C08_linterface_consistent", "C08_argument_is_entry", "C08_cur_exact", "C08_exact_recovery_sweep",
                "C08_qr_core_is_skeleton_core", "C08_run_arguments_are_entries", "C08_point_in_grid",
                "C08_lsets_nested", "C08_rsets_nested", "C08_lsets_in_grid", "C08_rsets_in_grid", "C08_run_in_grid",
                "C08_argmin_evaluated", "C08_attained_ge_min", "C08_min_estimate_is_sample"]

    # ------------------------------------------------------------------ generation
    def generate(self, rng, tier):
        quick = tier == "quick"
        cases = []
        nseed = [0]

        def seed():
            nseed[0] += 1
            return rng.randrange(10 ** 6)

        def rank_cfg(N, shape, kind=None):
            """a rank configuration for cross; kind in fixed_int, fixed_list, adaptive"""
            kind = kind or rng.choice(["fixed_int", "fixed_list", "adaptive", "adaptive", "adaptive_small"])
            cp = {}
            if kind == "fixed_int":
                cp["ranks_tt"] = rng.choice([1, 2, 3, 4, 6, 30])
            elif kind == "fixed_list":
                cp["ranks_tt"] = [rng.choice([1, 2, 3, 5, 9]) for _ in range(N - 1)]
            elif kind == "adaptive_small":
                cp["kickrank"] = rng.choice([1, 2, 3]); cp["rmax"] = rng.choice([2, 3, 4, 100]); cp["max_iter"] = rng.choice([1, 2, 3, 6])
            else:
                if rng.random() < 0.5:
                    cp["kickrank"] = rng.choice([1, 2, 5])
                if rng.random() < 0.3:
                    cp["rmax"] = rng.choice([3, 5, 8, 20])
                if rng.random() < 0.3:
                    cp["max_iter"] = rng.choice([4, 8, 12])
            if rng.random() < 0.25:
                cp["val_size"] = rng.choice([50, 200, 1000])
            if rng.random() < 0.15:
                cp["eps"] = rng.choice([1e-10, 1e-4])
            if rng.random() < 0.2:
                cp["detach_evaluations"] = True
            if rng.random() < 0.2:
                cp["suppress_warnings"] = True
            return cp, kind

        def rand_shape(N, maxpts=700, lo=2):
            while True:
                shape = [rng.randint(lo, 5) for _ in range(N)]
                if int(np.prod(shape)) <= maxpts:
                    return shape

        def axis(s):
            style = rng.choice(["lin01", "linneg", "irregular", "ints"])
            if s == 1:
                return [rng.choice([0.5, -1.0, 2.0])]
            if style == "lin01":
                return np.linspace(0, 1, s).tolist()
            if style == "linneg":
                return np.linspace(-1, 2, s).tolist()
            if style == "ints":
                return [float(v) for v in range(-1, s - 1)]
            return sorted(rng.sample([-1.5, -0.75, -0.3, 0.1, 0.45, 0.8, 1.25, 1.7, 2.2], s))

        # ---- (a) functions on domains
        def domain_case(N, fname, shape=None, rk=None, **over):
            shape = shape or rand_shape(N, lo=1 if rng.random() < 0.15 else 2)
            cp, rkind = rank_cfg(N, shape, rk)
            c = {"kind": "domain", "seed": seed(), "domain": [axis(s) for s in shape], "func": fname, "cross": cp,
                 "function_arg": rng.choice(["vectors", "vectors", "matrix"]), "out2d": False, "record_samples": True}
            if rng.random() < 0.12:
                c["out2d"] = True; c["record_samples"] = False
            c.update(over)
            c["tags"] = {"kind": "domain", "func": fname, "N": N, "shape": "x".join(map(str, shape)), "ranks": rkind,
                         "function_arg": c["function_arg"], "out2d": c["out2d"], "size1": 1 in shape}
            cases.append(c)

        for fname in sorted(DOMAIN_FUNCS):
            for N in (2, 3, 4, 5):
                for _ in range(10 if quick else 70):
                    domain_case(N, fname)
        # ---- (b) functions of explicit tensors
        def tensors_case(N, fname, kinds_list=None, shape=None, rk=None, single=False, **tagx):
            K, _ = TENSOR_FUNCS[fname]
            shape = shape or rand_shape(N, lo=1 if rng.random() < 0.1 else 2)
            ts = []
            for k in range(K):
                kinds = kinds_list[k] if kinds_list else all_kinds_cycle(rng, N)
                ts.append(rand_tensor_json(rng, shape, kinds, maxr=rng.choice([1, 2, 2, 3]), maxs=3))
            cp, rkind = rank_cfg(N, shape, rk)
            c = {"kind": "tensors", "seed": seed(), "tensors": ts, "den": [1] * K, "func": fname, "cross": cp,
                 "function_arg": rng.choice(["vectors", "vectors", "matrix"]), "out2d": rng.random() < 0.1,
                 "single": bool(single and K == 1)}
            c["tags"] = {"kind": "tensors", "func": fname, "N": N, "shape": "x".join(map(str, shape)), "ranks": rkind,
                         "formats": "|".join(tsig(t) for t in ts), "function_arg": c["function_arg"], "K": K,
                         "single": c["single"], "size1": 1 in shape}
            c["tags"].update(tagx)
            cases.append(c)

        for ka in itertools.product(KINDS, repeat=2):          # format lattice, N = 2
            for fname in (["id", "mul"] if quick else ["id", "sq", "add", "mul", "fma"]):
                K = TENSOR_FUNCS[fname][0]
                kl = [list(ka)] + [all_kinds_cycle(rng, 2) for _ in range(K - 1)]
                tensors_case(2, fname, kl, single=rng.random() < 0.5)
        for N in (3, 4, 5):                                     # position of CP / Tucker modes: first, middle, last
            for pos in range(N):
                for k in KINDS[1:]:
                    kinds = [("tt", False)] * N; kinds = list(kinds); kinds[pos] = k
                    tensors_case(N, rng.choice(["id", "affine", "sq"]), [kinds], single=rng.random() < 0.5)
            tensors_case(N, "id", [[("cp", False)] * N]); tensors_case(N, "id", [[("cp", True)] * N])
            tensors_case(N, "mul", [[("cp", False)] * N, [("tt", True)] * N])
        for fname in sorted(TENSOR_FUNCS):
            for N in (2, 3, 4, 5):
                for _ in range(10 if quick else 70):
                    tensors_case(N, fname, single=rng.random() < 0.3)
        # several seeds on one configuration: the for-every-seed quantifier
        base_t = rand_tensor_json(rng, [4, 3, 4, 3], [("tt", False)] * 4, maxr=2)
        base_c = rand_tensor_json(rng, [3, 4, 3], [("cp", False), ("tt", True), ("cp", True)], maxr=2)
        for s in range(30 if quick else 300):
            for bt, rk in ((base_t, {"ranks_tt": 2}), (base_c, {}), (base_t, {"kickrank": 1})):
                c = {"kind": "tensors", "seed": seed(), "tensors": [bt], "den": [1], "func": "id", "cross": dict(rk),
                     "function_arg": "vectors", "out2d": False, "single": False}
                c["tags"] = {"kind": "tensors", "func": "id", "N": len(bt["modes"]), "shape": "x".join(map(str, tshape(bt))),
                             "ranks": "fixed_int" if "ranks_tt" in rk else "adaptive", "formats": tsig(bt),
                             "function_arg": "vectors", "K": 1, "single": False, "size1": False, "manyseeds": True}
                cases.append(c)
        # ---- (c) operators through cross
        def structured_operand(shape, need, style):
            """explicit tensor + denominator whose values satisfy `need`; style: rank1 | additive | tiny(any values)"""
            N = len(shape)
            kinds = all_kinds_cycle(rng, N)
            pos = need in ("pos", "nonzero", "den_nonzero", "unit", "openunit")
            if style == "additive":     # sum of univariate terms: TT cores [[1,0],[a_i,1]] pattern, no Tucker/CP
                modes = []
                for n, s in enumerate(shape):
                    a = [rng.randint(0 if pos else -2, 2) for _ in range(s)]
                    if n == 0:
                        core = [[[a[i], 1] for i in range(s)]]
                        if pos:
                            core = [[[a[i] + 1, 1] for i in range(s)]]
                    elif n == N - 1:
                        core = [[[1] for i in range(s)], [[a[i]] for i in range(s)]]
                    else:
                        core = [[[1, 0] for i in range(s)], [[a[i], 1] for i in range(s)]]
                    modes.append({"kind": "tt", "core": core, "U": None})
                tj = {"modes": modes}
            else:
                maxr = 1 if style == "rank1" else rng.choice([1, 2, 3])
                tj = rand_tensor_json(rng, shape, kinds, maxr=maxr, lo=1 if pos else -2, hi=2 if pos else 2, maxs=2)
            den = 1
            if need in ("unit", "openunit"):
                m = float(np.abs(dense_np(tj)).max())
                den = int(m) + (1 if need == "openunit" else 0)
                den = max(den, 1)
                if need == "openunit" and den <= m:
                    den = int(m) + 1
            return tj, den

        def op_case(op, style, N=None, shape=None):
            ar, _, _, need = OPS[op]
            if style == "tiny":
                N = N or rng.choice([2, 3]); shape = shape or [rng.randint(2, 3) for _ in range(N)]
            else:
                N = N or rng.choice([2, 3, 4]); shape = shape or rand_shape(N, maxpts=400)
            K = ar if ar != "s" else 1
            ops_ = [structured_operand(shape, need if (k == K - 1 or need != "den_nonzero") else "any", style) for k in range(K)]
            if op in ("pow", "pow_tensor"):   # small exponents: a tensor with entries in {0,1,2,..}
                e = structured_operand(shape, "pos", style); ops_[1] = e
            c = {"kind": "op", "seed": seed(), "op": op, "tensors": [o[0] for o in ops_], "den": [o[1] for o in ops_],
                 "scalar": None}
            if ar == "s":
                c["scalar"] = {"pow_scalar": rng.choice([2.0, 0.5, -1.0, 1.5, 3.0]), "pow_int": rng.choice([2, 3, 0, 1]),
                               "rtruediv": rng.choice([1.0, 2.0, -3.0, 0.5, 1]), "truediv_scalar": rng.choice([2.0, -4.0, 0.5, 3])}[op]
            c["tags"] = {"kind": "op", "op": op, "style": style, "N": N, "shape": "x".join(map(str, shape)),
                         "formats": "|".join(tsig(t) for t in c["tensors"])}
            # integer power of a tensor with negative entries: input class of a known finding of the pinned tree
            c["tags"]["neg_base_int_pow"] = bool(op == "pow_int" and c["scalar"] not in (0, 1) and
                                                 float(dense_np(c["tensors"][0]).min()) < 0)
            cases.append(c)

        for op in sorted(OPS):
            for style in ("tiny", "rank1", "additive"):
                for _ in range(4 if quick else 24):
                    op_case(op, style)
        for _ in range(6 if quick else 40):
            op_case("pow_int", "tiny", N=rng.choice([2, 3, 4]))
        # ---- (d) minimum / maximum
        def minmax_case(N, src, api, zero_min=False):
            shape = rand_shape(N, maxpts=500)
            c = {"kind": "minmax", "seed": seed(), "api": api, "src": src, "cross": {}}
            if rng.random() < 0.5:
                c["cross"] = {"rmax": rng.choice([2, 4, 10]), "max_iter": rng.choice([1, 2, 5, 10])}
            if src == "domain":
                c["domain"] = [axis(s) for s in shape]; c["func"] = rng.choice(sorted(DOMAIN_FUNCS))
                c["function_arg"] = rng.choice(["vectors", "matrix"])
                fm = ""
            else:
                fname = rng.choice(["id", "id", "sq", "affine", "abs", "add", "mul", "fma"])
                K = TENSOR_FUNCS[fname][0]
                lo, hi = (0, 2) if zero_min else (-2, 2)
                c["tensors"] = [rand_tensor_json(rng, shape, all_kinds_cycle(rng, N), maxr=rng.choice([1, 2, 3]), lo=lo, hi=hi)
                                for _ in range(K)]
                c["den"] = [1] * K; c["func"] = fname; c["function_arg"] = "vectors"
                if fname in ("id", "affine", "abs", "add") and rng.random() < 0.35:
                    # data of large magnitude: the estimate must still be the sampled entry itself
                    c["den"] = [rng.choice([1e-8, 1e-12, 1e-15])] * K
                fm = "|".join(tsig(t) for t in c["tensors"])
            c["tags"] = {"kind": "minmax", "api": api, "src": src, "func": c["func"], "N": N, "shape": "x".join(map(str, shape)),
                         "formats": fm, "zero_min": zero_min, "magnitude": "%g" % (1.0 / c["den"][0]) if c.get("den") else "1"}
            cases.append(c)

        for N in (2, 3, 4, 5):
            for _ in range(20 if quick else 150):
                minmax_case(N, "tensors", rng.choice(["wrappers", "direct"]), zero_min=rng.random() < 0.3)
            for _ in range(6 if quick else 50):
                minmax_case(N, "domain", rng.choice(["wrappers", "direct"]))
        # ---- (e) cross_forward on the stored index sets (TT cores only: cross_forward has no CP branch)
        for _ in range(20 if quick else 150):
            N = rng.randint(2, 4); shape = rand_shape(N, maxpts=300)
            fname = rng.choice(["id", "affine", "add", "mul"])
            K = TENSOR_FUNCS[fname][0]
            ts = [rand_tensor_json(rng, shape, [("tt", False)] * N, maxr=2) for _ in range(K)]
            c = {"kind": "forward", "seed": seed(), "tensors": ts, "den": [1] * K, "func": fname, "cross": {},
                 "function_arg": "vectors", "out2d": False, "single": False}
            c["tags"] = {"kind": "forward", "func": fname, "N": N, "shape": "x".join(map(str, shape)), "K": K,
                         "formats": "|".join(tsig(t) for t in ts)}
            cases.append(c)
        # ---- (f) small runs replayed in the Coq model (oracle replay: see coq_term)
        def small_cross():
            cp = {"val_size": rng.choice([4, 6, 8])}
            mode = rng.choice(["fixed_int", "fixed_list", "adaptive", "adaptive"])
            return cp, mode

        def replay_case(kind):
            N = rng.choice([2, 3, 3, 4]); shape = [rng.randint(2, 4 if N < 4 else 3) for _ in range(N)]
            cp, mode = small_cross()
            if mode == "fixed_int":
                cp["ranks_tt"] = rng.choice([1, 2, 3]); cp["max_iter"] = rng.choice([1, 2, 3])
            elif mode == "fixed_list":
                cp["ranks_tt"] = [rng.choice([1, 2, 3]) for _ in range(N - 1)]; cp["max_iter"] = rng.choice([1, 2])
            else:
                cp["kickrank"] = rng.choice([1, 2]); cp["rmax"] = rng.choice([2, 3]); cp["max_iter"] = rng.choice([2, 3])
            if kind == "domain":
                axes = [[float(v) for v in rng.choice([range(0, s), range(-1, s - 1), [0.5 * k for k in range(s)],
                                                        [2.0 * k - 1 for k in range(s)]])] for s in shape]
                fname = rng.choice(["wsum", "prod", "sumsq", "x0x1_rest", "pairs", "inv", "maxabs", "sin_sum", "const", "last_only"])
                c = {"kind": "domain", "seed": seed(), "domain": axes, "func": fname, "cross": cp,
                     "function_arg": rng.choice(["vectors", "matrix"]), "out2d": False, "record_samples": rng.random() < 0.5}
                c["tags"] = {"kind": "domain", "func": fname, "N": N, "shape": "x".join(map(str, shape)), "ranks": mode,
                             "function_arg": c["function_arg"], "out2d": False, "size1": False, "replay": True}
            elif kind == "tensors":
                fname = rng.choice(["id", "sq", "affine", "cube", "abs", "add", "mul", "lin", "fma", "sum3"])
                K = TENSOR_FUNCS[fname][0]
                ts = [rand_tensor_json(rng, shape, all_kinds_cycle(rng, N), maxr=rng.choice([1, 2, 2, 3]), maxs=3) for _ in range(K)]
                c = {"kind": "tensors", "seed": seed(), "tensors": ts, "den": [1] * K, "func": fname, "cross": cp,
                     "function_arg": rng.choice(["vectors", "matrix"]), "out2d": False, "single": bool(K == 1 and rng.random() < 0.3)}
                c["tags"] = {"kind": "tensors", "func": fname, "N": N, "shape": "x".join(map(str, shape)), "ranks": mode,
                             "formats": "|".join(tsig(t) for t in ts), "function_arg": c["function_arg"], "K": K,
                             "single": c["single"], "size1": False, "replay": True}
            else:
                cp = {"val_size": cp["val_size"], "rmax": rng.choice([1, 2, 3]), "max_iter": rng.choice([1, 2, 3])}
                fname = rng.choice(["id", "sq", "affine", "abs", "add", "mul"])
                K = TENSOR_FUNCS[fname][0]
                zero_min = rng.random() < 0.3
                lo, hi = (0, 2) if zero_min else (-2, 2)
                ts = [rand_tensor_json(rng, shape, all_kinds_cycle(rng, N), maxr=rng.choice([1, 2, 3]), lo=lo, hi=hi) for _ in range(K)]
                c = {"kind": "minmax", "seed": seed(), "api": rng.choice(["wrappers", "direct"]), "src": "tensors", "cross": cp,
                     "tensors": ts, "den": [1] * K, "func": fname, "function_arg": "vectors"}
                c["tags"] = {"kind": "minmax", "api": c["api"], "src": "tensors", "func": fname, "N": N,
                             "shape": "x".join(map(str, shape)), "formats": "|".join(tsig(t) for t in ts),
                             "zero_min": zero_min, "replay": True}
            cases.append(c)

        for _ in range(140 if quick else 700):
            replay_case("domain")
        for _ in range(140 if quick else 700):
            replay_case("tensors")
        for _ in range(90 if quick else 400):
            replay_case("minmax")
        return cases

    # ------------------------------------------------------------------ implementation
    def _operands(self, case):
        return [tn_operand(t, d) for t, d in zip(case["tensors"], case["den"])]

    def run(self, case):
        kind = case["kind"]
        try:
            with quiet():
                seed_all(case["seed"])
                if kind in ("domain", "tensors", "forward"):
                    return self._run_cross(case)
                if kind == "op":
                    return self._run_op(case)
                if kind == "minmax":
                    return self._run_minmax(case)
            raise ValueError("unknown kind " + kind)
        except Exception as e:
            return {"ok": False, "err": type(e).__name__, "msg": str(e)[:300]}

    def _run_cross(self, case):
        kind = case["kind"]
        matrix = case["function_arg"] == "matrix"
        if kind == "domain":
            rec = Recorder(DOMAIN_FUNCS[case["func"]], matrix, case.get("out2d", False))
            kw = {"domain": [torch.tensor(a, dtype=torch.float64) for a in case["domain"]]}
            if case.get("record_samples"):
                kw["record_samples"] = True
        else:
            rec = Recorder(TENSOR_FUNCS[case["func"]][1], matrix, case.get("out2d", False))
            ts = self._operands(case)
            kw = {"tensors": ts[0] if case.get("single") else ts}
        t, info = tn.cross(function=rec, function_arg=case["function_arg"], verbose=False, return_info=True,
                           **kw, **case["cross"])
        out = {"ok": True, "shape": list(t.shape), "dense": t.torch().detach().reshape(-1).tolist(),
               "Rs": [int(r) for r in info["Rs"]], "rsets0": np.asarray(info["rsets"][0]).astype(int).tolist(),
               "val_eps": float(info["val_eps"]), "n_iter": len(info["val_epss"]), "recorder_problem": rec.bad,
               "lsets": [np.asarray(a).astype(int).tolist() for a in info["lsets"]],
               "rsets": [np.asarray(a).astype(int).tolist() for a in info["rsets"]]}
        out["evals"], out["n_evals_unique"] = uniq_rows(rec.points())
        if kind == "domain" and case.get("record_samples"):
            sp = info["sample_positions"].detach().numpy(); sv = info["sample_values"].detach().numpy()
            out["samples"], out["n_samples_unique"] = uniq_rows(np.concatenate([sp, sv.reshape(-1, 1)], axis=1))
            out["nsamples"] = int(info["nsamples"]); out["n_sample_rows"] = int(len(sp))
        if kind == "forward":
            seed_all(case["seed"] + 1)
            rec2 = Recorder(TENSOR_FUNCS[case["func"]][1], matrix)
            t2 = tn.cross_forward(info, function=rec2, tensors=self._operands(case), function_arg=case["function_arg"])
            out["forward_dense"] = t2.torch().detach().reshape(-1).tolist(); out["forward_shape"] = list(t2.shape)
            out["forward_evals"], _ = uniq_rows(rec2.points())
        return out

    def _run_op(self, case):
        ar, impl, _, _ = OPS[case["op"]]
        ts = self._operands(case)
        r = impl(ts[0], case["scalar"]) if ar == "s" else impl(*ts)
        return {"ok": True, "shape": list(r.shape), "dense": r.torch().detach().reshape(-1).tolist(),
                "ranks": [int(x) for x in r.ranks_tt]}

    def _run_minmax(self, case):
        matrix = case["function_arg"] == "matrix"
        if case["src"] == "domain":
            base = DOMAIN_FUNCS[case["func"]]
            kw = {"domain": [torch.tensor(a, dtype=torch.float64) for a in case["domain"]], "function_arg": case["function_arg"]}
        else:
            base = TENSOR_FUNCS[case["func"]][1]
            kw = {"tensors": self._operands(case)}

        def f(*args):
            if matrix:
                return base(torch, [args[0][:, k] for k in range(args[0].shape[1])])
            return base(torch, list(args))
        kw.update(case["cross"])
        tup = lambda a: None if a is None else [int(v) for v in a]
        out = {"ok": True}
        if case["api"] == "wrappers":      # same seed before each call: value and position of the same trajectory
            seed_all(case["seed"]); out["min"] = float(tn.minimum(function=f, **kw))
            seed_all(case["seed"]); out["argmin"] = tup(tn.argmin(function=f, **kw))
            seed_all(case["seed"]); out["max"] = float(tn.maximum(function=f, **kw))
            seed_all(case["seed"]); out["argmax"] = tup(tn.argmax(function=f, **kw))
        else:
            kw.setdefault("rmax", 10); kw.setdefault("max_iter", 10)
            seed_all(case["seed"])
            _, info = tn.cross(function=f, verbose=False, return_info=True, _minimize=True, **kw)
            out["min"] = float(info["min"]); out["argmin"] = tup(info["argmin"])
            seed_all(case["seed"])
            _, info = tn.cross(function=lambda *a: -f(*a), verbose=False, return_info=True, _minimize=True, **kw)
            out["max"] = -float(info["min"]); out["argmax"] = tup(info["argmin"])
        return out

    # ------------------------------------------------------------------ specification
    def _target(self, case):
        """dense target, and the array of admissible argument tuples (grid points / entry tuples)"""
        if case.get("src", case["kind"]) == "domain" or case["kind"] == "domain":
            axes = [np.array(a, dtype=np.float64) for a in case["domain"]]
            G = np.meshgrid(*axes, indexing="ij")
            D = np.asarray(DOMAIN_FUNCS[case["func"]](np, G), dtype=np.float64)
            return D, axes, None
        ds = [dense_operand(t, d) for t, d in zip(case["tensors"], case["den"])]
        D = np.asarray(TENSOR_FUNCS[case["func"]][1](np, ds), dtype=np.float64)
        E = np.stack([d.reshape(-1) for d in ds], axis=1)
        return D, None, E

    def expected(self, case):
        kind = case["kind"]
        if kind == "op":
            ar, _, ref, need = OPS[case["op"]]
            ds = [dense_operand(t, d) for t, d in zip(case["tensors"], case["den"])]
            with np.errstate(all="ignore"):
                D = np.asarray(ref(ds[0], case["scalar"]) if ar == "s" else ref(*ds), dtype=np.float64)
            valid = bool(np.all(np.isfinite(D)))
            exp = {"ok": True, "shape": list(D.shape), "dense": D.reshape(-1).tolist(), "valid": valid}
            if valid:
                ranks, gap = tt_ranks(D)
                reach = reachable_ranks({"cross": {}}, list(D.shape))     # the operators use cross's defaults
                exp.update(ttranks=ranks, gap=gap, reach=reach,
                           claim=bool(all(a <= b for a, b in zip(ranks, reach[1:-1])) and gap))
            return exp
        D, axes, E = self._target(case)
        exp = {"ok": True, "shape": list(D.shape), "dense": D.reshape(-1).tolist(),
               "min": float(D.min()), "max": float(D.max())}
        if kind in ("domain", "tensors", "forward"):
            ranks, gap = tt_ranks(D)
            reach = reachable_ranks(case, list(D.shape))
            adaptive = case["cross"].get("ranks_tt") is None
            exp.update(ttranks=ranks, gap=gap, reach=reach, adaptive=adaptive,
                       claim=bool(all(a <= b for a, b in zip(ranks, reach[1:-1])) and (gap or not adaptive)
                                  and float(np.abs(D).max()) > 0))
        return exp

    # ------------------------------------------------------------------ comparison
    @staticmethod
    def _on_grid(P, axes):
        """every coordinate of every row is a value of the corresponding axis"""
        for n, ax in enumerate(axes):
            d = np.abs(P[:, n][:, None] - ax[None, :]).min(axis=1)
            if not np.all(d <= 1e-9 * max(1.0, float(np.abs(ax).max()))):
                return False, "coordinate %d: value %r is not a grid value" % (n, float(P[int(np.nanargmax(np.where(np.isnan(d), np.inf, d))), n]))
        return True, ""

    @staticmethod
    def _are_entries(P, E):
        scale = max(1.0, float(np.abs(E).max()))
        Eu = np.unique(np.round(E, 9), axis=0)
        for i in range(0, len(P), 512):
            blk = P[i:i + 512]
            d = np.abs(blk[:, None, :] - Eu[None, :, :]).max(axis=2).min(axis=1)
            if not np.all(d <= 1e-9 * scale):
                j = int(np.nanargmax(np.where(np.isnan(d), np.inf, d)))
                return False, "arguments %s are not the entries of the given tensors at any position" % blk[j].tolist()
        return True, ""

    @staticmethod
    def _skeleton_ok(D, res, ttranks):
        """the intersection of the target with the returned nested index sets has the rank of the unfolding at every
        bond (the non-singularity hypothesis of the exact-recovery statement)"""
        try:
            N = D.ndim
            for j in range(1, N):
                L = [tuple(r[1:]) for r in res["lsets"][j]]
                R = [tuple(r[:-1]) for r in res["rsets"][j - 1]]
                M = np.array([[D[l + r] for r in R] for l in L])
                if np.linalg.matrix_rank(M, tol=1e-9 * max(1.0, float(np.abs(D).max()))) < ttranks[j - 1]:
                    return False
            return True
        except Exception:
            return False

    def agree(self, case, res, exp):
        kind = case["kind"]
        if not res.get("ok"):
            if kind == "op" and not exp.get("valid", True):
                return True, "operand outside the function's domain"
            return False, "implementation raised %s: %s" % (res.get("err"), res.get("msg"))
        if kind == "op":
            if not exp["valid"]:
                return True, "operand outside the function's domain"
            if res["shape"] != exp["shape"]:
                return False, "shape %s, expected %s" % (res["shape"], exp["shape"])
            if exp["claim"] and not close(res["dense"], exp["dense"], 1e-6):
                return False, "%s differs from the dense element-wise result by %g (target TT ranks %s)" % (
                    case["op"], _maxdiff(res["dense"], exp["dense"]), exp["ttranks"])
            return True, ""
        D = np.array(exp["dense"]).reshape(exp["shape"])
        if kind == "minmax":
            scale = max(1.0, float(np.abs(D).max()))
            for which, sign in (("min", 1), ("max", -1)):
                pos = res["arg" + which]; v = res[which]
                if pos is None or len(pos) != D.ndim or any(p < 0 or p >= s for p, s in zip(pos, D.shape)):
                    return False, "arg%s %s is not a position of the grid %s" % (which, pos, list(D.shape))
                if not math.isfinite(v):
                    return False, "%s estimate is %r" % (which, v)
                if not (abs(v - D[tuple(pos)]) <= 1e-9 * scale):
                    return False, "%s estimate %r is not the value %r attained at the reported arg%s %s" % (
                        which, v, float(D[tuple(pos)]), which, pos)
                if which == "min" and not (v >= exp["min"] - 1e-6 * scale):
                    return False, "minimum estimate %r below the true minimum %r" % (v, exp["min"])
                if which == "max" and not (v <= exp["max"] + 1e-6 * scale):
                    return False, "maximum estimate %r above the true maximum %r" % (v, exp["max"])
            return True, ""
        # ---- cross proper
        if res["shape"] != exp["shape"]:
            return False, "shape %s, expected %s" % (res["shape"], exp["shape"])
        if res.get("recorder_problem"):
            return False, res["recorder_problem"]
        _, axes, E = self._target(case)
        N = D.ndim
        scale = max(1.0, float(np.abs(D).max()))
        # 1. evaluation points
        P = np.array(res["evals"], dtype=np.float64)
        if P.size == 0 or P.shape[1] != (N if axes is not None else E.shape[1]):
            return False, "function called with %s arguments" % (P.shape[1:] or 0)
        if not np.all(np.isfinite(P)):
            return False, "function evaluated at a non-finite point"
        ok, msg = self._on_grid(P, axes) if axes is not None else self._are_entries(P, E)
        if not ok:
            return False, "function evaluated off the grid: " + msg
        if axes is not None and case.get("record_samples"):
            S = np.array(res["samples"], dtype=np.float64)
            if S.size == 0 or S.shape[1] != N + 1 or not np.all(np.isfinite(S)):
                return False, "record_samples: malformed sample table"
            ok, msg = self._on_grid(S[:, :N], axes)
            if not ok:
                return False, "record_samples: position off the grid: " + msg
            fv = np.asarray(DOMAIN_FUNCS[case["func"]](np, [S[:, n] for n in range(N)]), dtype=np.float64)
            if not close(S[:, N], fv, 1e-9):
                return False, "record_samples: recorded values are not the function values at the recorded positions"
            if res["n_sample_rows"] != res["nsamples"]:
                return False, "record_samples: %d rows for %d evaluations" % (res["n_sample_rows"], res["nsamples"])
        # 2. interpolation on the first-mode fibres through the returned right index set
        X = np.array(res["dense"], dtype=np.float64).reshape(exp["shape"])
        rs = res["rsets0"]
        if len(rs) != res["Rs"][1]:
            return False, "%d right index tuples for rank %d" % (len(rs), res["Rs"][1])
        for k, row in enumerate(rs):
            pos = tuple(row[:-1])
            if len(pos) != N - 1 or any(p < 0 or p >= s for p, s in zip(pos, D.shape[1:])):
                return False, "right index tuple %s is not a position of modes 1..%d of the grid" % (row, N - 1)
            a = X[(slice(None),) + pos]; b = D[(slice(None),) + pos]
            if not close(a, b, 1e-7 * scale / max(1.0, float(np.abs(b).max()))):
                return False, "fibre (:, %s) through right index tuple %d is not interpolated: error %g" % (
                    list(pos), k, _maxdiff(a, b))
        # 3. exact recovery of representable targets (premise: the final skeleton is not degenerate)
        skeleton_ok = self._skeleton_ok(D, res, exp["ttranks"])
        if exp["claim"] and skeleton_ok:
            if not close(X, D, 1e-6):
                return False, "target with TT ranks %s not recovered with reachable ranks %s (used %s): error %g, seed %d" % (
                    exp["ttranks"], exp["reach"], res["Rs"], _maxdiff(X, D), case["seed"])
        if kind == "forward":
            if res["forward_shape"] != exp["shape"]:
                return False, "cross_forward: shape %s" % res["forward_shape"]
            P2 = np.array(res["forward_evals"], dtype=np.float64)
            ok, msg = self._are_entries(P2, E) if P2.size and np.all(np.isfinite(P2)) else (False, "no finite evaluations")
            if not ok:
                return False, "cross_forward evaluated off the grid: " + msg
            if exp["claim"] and skeleton_ok and res["Rs"][1:-1] == exp["ttranks"] and \
                    not close(res["forward_dense"], exp["dense"], 1e-6):
                return False, "cross_forward does not reproduce the representable target: error %g" % _maxdiff(
                    res["forward_dense"], exp["dense"])
        if exp["claim"] and not skeleton_ok and not close(X, D, 1e-6):
            # the property asks for recovery on every seed: a run that ends on a degenerate skeleton and misses the target
            # is a violation (attributed to the recorded finding by its tags and this message, nothing else is)
            return False, "representable target (TT ranks %s, reachable %s, used %s) not recovered; the run ended on a degenerate " \
                          "skeleton (target restricted to the returned index sets is rank deficient): error %g, seed %d" % (
                              exp["ttranks"], exp["reach"], res["Rs"], _maxdiff(X, D), case["seed"])
        return True, ""

    def nontrivial(self, case, res):
        if not res.get("ok"):
            return False
        if "dense" in res:
            d = np.array(res["dense"])
            return bool(d.size and np.all(np.isfinite(d)) and d.max() > d.min())
        return res.get("min") != res.get("max")

    def signature(self, case):
        t = case["tags"]
        return "%s;%s;%s;%s;%s;%s;%s;%d" % (t["kind"], t.get("func", t.get("op")), t.get("formats"), t["shape"],
                                           json.dumps(case.get("cross"), sort_keys=True), case.get("function_arg"),
                                           t.get("api", t.get("style")), case["seed"])

    # ------------------------------------------------------------------ correspondence with the Coq model
    def _replay_run(self, case):
        """the same call as run(), with the oracles intercepted: np.random.randint / choice, maxvol / rect_maxvol
        (argument = the QR factor Q, answer = rows), np.unravel_index on 3 axes (only reached when _minimize replaces
        its best sample), and the black-box function (arguments and values of every call)"""
        import tntorch.maxvol as mv
        kind = case["kind"]; minimize = kind == "minmax"
        rec = {"randint": [], "choice": [], "maxvol": [], "unravel3": [], "calls": [], "inside": False}
        o_randint, o_choice, o_unravel = np.random.randint, np.random.choice, np.unravel_index
        o_mv, o_rmv = mv.py_maxvol, mv.py_rect_maxvol

        def w_randint(*a, **k):
            r = o_randint(*a, **k); rec["randint"].append(np.array(r).copy()); return r

        def w_choice(*a, **k):
            r = o_choice(*a, **k); rec["choice"].append(np.array(r).copy()); return r

        def w_unravel(idx, shape, *a, **k):
            if len(shape) == 3:
                rec["unravel3"].append((len(rec["calls"]) - 1, int(idx)))
            return o_unravel(idx, shape, *a, **k)

        def w_mv(A, *a, **k):
            r = o_mv(A, *a, **k)
            if not rec["inside"]:
                rec["maxvol"].append((np.array(A, dtype=np.float64).copy(), [int(v) for v in r[0]]))
            return r

        def w_rmv(A, *a, **k):
            rec["inside"] = True
            try:
                r = o_rmv(A, *a, **k)
            finally:
                rec["inside"] = False
            rec["maxvol"].append((np.array(A, dtype=np.float64).copy(), [int(v) for v in r[0]]))
            return r
        matrix = case.get("function_arg") == "matrix"
        base = DOMAIN_FUNCS[case["func"]] if kind == "domain" else TENSOR_FUNCS[case["func"]][1]

        def f(*args):
            xs = [args[0][:, k] for k in range(args[0].shape[1])] if matrix else [a.reshape(-1) for a in args]
            y = base(torch, xs)
            rec["calls"].append(([x.detach().numpy().astype(np.float64).copy() for x in xs],
                                 y.detach().numpy().astype(np.float64).reshape(-1).copy()))
            return y
        if kind == "domain":
            kw = {"domain": [torch.tensor(a, dtype=torch.float64) for a in case["domain"]]}
            if case.get("record_samples"):
                kw["record_samples"] = True
        else:
            ts = self._operands(case)
            kw = {"tensors": ts[0] if case.get("single") else ts}
        kw.update(case["cross"])
        if minimize:
            kw.setdefault("rmax", 10); kw.setdefault("max_iter", 10)
        np.random.randint, np.random.choice, np.unravel_index = w_randint, w_choice, w_unravel
        mv.py_maxvol, mv.py_rect_maxvol = w_mv, w_rmv
        try:
            with quiet():
                seed_all(case["seed"])
                t, info = tn.cross(function=f, function_arg=case.get("function_arg", "vectors"), verbose=False,
                                   return_info=True, _minimize=minimize, **kw)
        finally:
            np.random.randint, np.random.choice, np.unravel_index = o_randint, o_choice, o_unravel
            mv.py_maxvol, mv.py_rect_maxvol = o_mv, o_rmv
        return t, info, rec

    def coq_term(self, case, res):
        """oracle replay of small runs (cases tagged replay: N 2..4, mode sizes 2..4, ranks <= 3, <= 3 iterations,
        small validation sample, dyadic axis values / small-integer tensors so that every argument vector is exact)"""
        if not case.get("tags", {}).get("replay") or not res.get("ok"):
            return None
        kind = case["kind"]; minimize = kind == "minmax"
        try:
            t, info, rec = self._replay_run(case)
        except Exception:
            return None
        dense = t.torch().detach().double().reshape(-1).numpy()
        if minimize:
            if float(info["min"]) != res["min"] or [int(v) for v in info["argmin"]] != res["argmin"]:
                return None          # not the trajectory that was checked
        elif dense.tolist() != res["dense"]:
            return None
        # ---- the tensors and the function table
        if kind == "domain":
            axes = case["domain"]; N = len(axes)
            tjs = [{"modes": [{"kind": "tt", "core": [[[float(v)] for v in (axes[m] if m == n else [1.0] * len(axes[m]))]],
                               "U": None} for m in range(N)]} for n in range(N)]
            cols = [g.reshape(-1) for g in np.meshgrid(*[np.array(a, dtype=np.float64) for a in axes], indexing="ij")]
        else:
            tjs = case["tensors"]
            cols = [dense_operand(tj, d).reshape(-1) for tj, d in zip(case["tensors"], case["den"])]
            N = len(tjs[0]["modes"])
        Is = [int(v) for v in t.shape]
        base = DOMAIN_FUNCS[case["func"]] if kind == "domain" else TENSOR_FUNCS[case["func"]][1]
        ftab = np.asarray(base(torch, [torch.tensor(c, dtype=torch.float64) for c in cols]).detach().numpy(), dtype=np.float64)
        if ftab.shape != (int(np.prod(Is)),) or not np.all(np.isfinite(ftab)):
            return None
        # ---- ranks
        cp = case["cross"]
        ranks = cp.get("ranks_tt")
        if ranks is None:
            kick = "(Some %d%%nat)" % cp.get("kickrank", 3); ranks = [1] * (N - 1)
        else:
            kick = "None"; ranks = list(ranks) if isinstance(ranks, list) else [ranks] * (N - 1)
        rmax = min(int(cp.get("rmax", 10 if minimize else 100)), 60)
        n_iter = len(info["val_epss"]); spi = 2 * N - 1
        calls = rec["calls"]
        FAIL = "mkCase [] [] [] [] None 0%nat [] [] [] [] false [] [] [] [] [] 0"     # forces a disagreement
        nk = (n_iter - 1) if kick != "None" else 0
        if len(calls) != 1 + n_iter * spi or len(rec["maxvol"]) != n_iter * (2 * N - 2) or len(rec["choice"]) != N or \
                len(rec["randint"]) != (N - 1) * (1 + nk):
            return FAIL              # the sequence of oracle calls is not the one of the modelled control flow
        from fractions import Fraction
        D = 2 ** 40

        def qx(x):            # exact
            fr = Fraction(float(x)); return "(%d#%d)" % (fr.numerator, fr.denominator)

        def qr(x):            # rounded to 2^-40 (values compared within a tolerance)
            fr = Fraction(round(float(x) * D), D); return "(%d#%d)" % (fr.numerator, fr.denominator)

        def rows(M):
            return "[" + ";".join(coq_natlist(r) for r in M) + "]"

        def qrows(M, lit):
            return "[" + ";".join(coq_list(list(r), lit, "Q") for r in M) + "]"

        def randrows(blocks):   # N-1 column blocks + the zero column
            cols_ = [np.array(b).reshape(-1) for b in blocks]
            n = len(cols_[0])
            return rows([[int(c[i]) for c in cols_] + [0] for i in range(n)])
        upd = {}
        for ci, k in rec["unravel3"]:
            upd[ci] = k
        iters = []
        for it in range(n_iter):
            steps = []
            for sidx in range(spi):
                ci = 1 + it * spi + sidx
                xs, vals = calls[ci]
                if sidx < 2 * N - 2:
                    A, local = rec["maxvol"][it * (2 * N - 2) + sidx]
                else:
                    A, local = None, []
                Qs = "[]"
                if A is not None and sidx >= N - 1 and it == n_iter - 1 and not minimize:
                    # QR contract, validated numerically: orthonormal columns spanning the columns of the unfolding
                    if A.shape[0] < A.shape[1] or vals.size % A.shape[1] != 0:
                        return None
                    V = vals.reshape(A.shape[1], -1)
                    sc = max(1.0, float(np.abs(V).max()))
                    if float(np.abs(A.T @ A - np.eye(A.shape[1])).max()) > 1e-9 or \
                            float(np.abs(V.T - A @ (A.T @ V.T)).max()) > 1e-8 * sc:
                        return FAIL     # contract violated
                    Qs = qrows(A, qr)
                u = "(Some %d%%nat)" % upd[ci] if ci in upd else "None"
                steps.append("mkStep %s %s %s %s" % (qrows(xs, qx), u, coq_natlist(local), Qs))
            extra = "[]" if it == 0 or nk == 0 else randrows(rec["randint"][(N - 1) * it:(N - 1) * (it + 1)])
            iters.append("mkIter %s [%s]" % (extra, ";".join(steps)))
        valpos = rows([[int(rec["choice"][n][i]) for n in range(N)] for i in range(len(rec["choice"][0]))])
        lit = lambda x: qlit(Fraction(x))
        lsets = "[" + ";".join(rows(np.asarray(a).astype(int).tolist()) for a in info["lsets"]) + "]"
        rsets = "[" + ";".join(rows(np.asarray(a).astype(int).tolist()) for a in info["rsets"]) + "]"
        if minimize:
            am = coq_natlist([int(v) for v in info["argmin"]]); mn = qr(float(info["min"])); dn = "[]"
        else:
            am = "[]"; mn = "0"; dn = coq_list(dense.tolist(), qr, "Q")
        return "mkCase [%s] %s %s %s %s %d%%nat %s %s %s [%s] %s %s %s %s %s %s %s" % (
            ";".join(coq_tensor(tj, lit, "Q") for tj in tjs), coq_natlist(Is), coq_list(ftab.tolist(), qr, "Q"),
            coq_natlist([1] + [int(r) for r in ranks] + [1]), kick, rmax, randrows(rec["randint"][:N - 1]), valpos,
            qrows(calls[0][0], qx), ";".join(iters), "true" if minimize else "false", lsets, rsets,
            coq_natlist([int(r) for r in info["Rs"]]), dn, am, mn)


def _maxdiff(a, b):
    a = np.asarray(a, dtype=np.float64).reshape(-1); b = np.asarray(b, dtype=np.float64).reshape(-1)
    if a.shape != b.shape:
        return float("inf")
    with np.errstate(all="ignore"):
        d = np.abs(a - b)
    return float("nan") if np.any(np.isnan(d)) else float(d.max()) if d.size else 0.0
