From TN Require Export Harness.HBase Sem.Fast.
From TN Require Export Model.GetItem.
(* keys are sent after the harness has replayed _process_key (Ellipsis expanded, trailing modes filled,
   negative integers normalised, slices turned into start/step/count, runs of index arrays grouped);
   None entries only change the shape and are removed (theorem C03_none). *)
Inductive zkent := ZInt (i : nat) | ZSlice (start step count : nat) | ZRun (P : nat) (ls : list (list nat)).
Definition to_kent (k : zkent) : kent :=
  match k with
  | ZInt i => KInt i
  | ZSlice st sp n => KSel (fun a => st + a * sp)%nat n
  | ZRun P ls => KRun P (map (fun l a => nth a l O) ls)
  end.
Record case := mkCase { c_t : tensor ZO; c_key : list zkent; c_shape : list nat; c_dense : list Z }.
Definition check (c : case) : bool :=
  match getitem (sem (c_t c)) (map to_kent (c_key c)) with
  | Some (RNet cs) => shape_eqb (sshape cs) (c_shape c) && list_cmp cmpZ (dense_of (eval_l cs) (sshape cs)) (c_dense c)
  | Some (RScalar x) => shape_eqb [] (c_shape c) && list_cmp cmpZ [x] (c_dense c)
  | None => false
  end.
