From TN Require Export Sem.Moves.
From TN Require Export Model.GetItem.
Section GetItemP.
Variable K : Ops.
Hypothesis Kth : laws K.
Add Ring Kring : Kth.
Local Open Scope K_scope.
Notation net := (list (score K)).

Lemma mv_mm (A B : mat K) v p : mv (mm A B) v p = mv A (mv B v) p.
Proof. unfold mv, mm; cbn [mc me].
  rewrite (sumn_ext _ _ (fun q => sumn (mc A) (fun s => me A p s * (me B s q * v q)))).
  2:{ intros q _. rewrite <- (sumn_mul_r Kth). apply sumn_ext; intros; ring. }
  rewrite (sumn_exch Kth). apply sumn_ext. intros s _. rewrite (sumn_mul_l Kth). reflexivity. Qed.

Definition pmv (P : option (mat K)) (v : nat -> K) : nat -> K := match P with None => v | Some M => mv M v end.

Lemma pmv_int P (c : score K) i w q :
  pmv (Some (match P with None => slice_of c i | Some M => mm M (slice_of c i) end)) w q =
  pmv P (fun p => sumn (rr c) (fun q0 => sl c i p q0 * w q0)) q.
Proof. destruct P as [M|]; cbn [pmv]; [rewrite mv_mm|]; reflexivity. Qed.

Lemma absorb_eval P (c : score K) a w q :
  evalv [absorb P c] [a] w q = pmv P (fun p => sumn (rr c) (fun q0 => sl c a p q0 * w q0)) q.
Proof. destruct P as [M|]; cbn [pmv absorb evalv lmulc rr sl]; [|reflexivity].
  unfold mv.
  rewrite (sumn_ext _ _ (fun q0 => sumn (mc M) (fun s0 => me M q s0 * (sl c a s0 q0 * w q0)))).
  2:{ intros q0 _. rewrite <- (sumn_mul_r Kth). apply sumn_ext; intros; ring. }
  rewrite (sumn_exch Kth). apply sumn_ext; intros s0 _. rewrite (sumn_mul_l Kth). reflexivity. Qed.

(* the fused core of a run evaluates to the selected slices multiplied in order *)
Lemma fuse_sound P (cs : net) : forall ls F a w p, fuse P cs ls = Some F ->
  evalv [F] [a] w p = evalv cs (map (fun l => l a) ls) w p /\ length ls = length cs.
Proof.
  induction cs as [|c cs IH]; intros ls F a w p H; [destruct ls; discriminate|].
  destruct ls as [|l ls]; [destruct cs; discriminate|].
  destruct cs as [|c2 cs]; destruct ls as [|l2 ls].
  - cbn [fuse] in H. injection H as H. subst F. split; reflexivity.
  - cbn [fuse] in H. discriminate.
  - cbn [fuse] in H. destruct cs; discriminate.
  - change (fuse P (c :: c2 :: cs) (l :: l2 :: ls)) with
      (match fuse P (c2 :: cs) (l2 :: ls) with
       | Some F0 => Some (mkScore (rl c) (rr F0) P (fun a0 p0 q => sumn (rr c) (fun s => sl c (l a0) p0 s * sl F0 a0 s q)))
       | None => None end) in H.
    destruct (fuse P (c2 :: cs) (l2 :: ls)) as [F0|] eqn:E; [|discriminate]. injection H as <-.
    destruct (IH (l2 :: ls) F0 a w p E) as [_ Hl]. split; [|simpl in *; lia].
    cbn [map evalv rr sl].
    rewrite (sumn_ext _ _ (fun q => sumn (rr c) (fun s => sl c (l a) p s * (sl F0 a s q * w q)))).
    2:{ intros q _. rewrite <- (sumn_mul_r Kth). apply sumn_ext; intros; ring. }
    rewrite (sumn_exch Kth). apply sumn_ext. intros s _. rewrite (sumn_mul_l Kth). f_equal.
    destruct (IH (l2 :: ls) F0 a w s E) as [Ev _]. cbn [evalv] in Ev. exact Ev.
Qed.

Lemma run_inv (key : list kent) : forall (cs : net) s s' ix idx' v p,
  run s cs key = Some s' -> length ix = length (out s) -> length idx' = nres key ->
  evalv (out s') (ix ++ idx') (pmv (pend s') v) p =
  evalv (out s) ix (pmv (pend s) (evalv cs (merge key idx') v)) p /\
  length (out s') = (length (out s) + nres key)%nat.
Proof.
  induction key as [|k key IH]; intros cs s s' ix idx' v p Hrun Hix Hi.
  - cbn [run] in Hrun. destruct cs; [|discriminate]. injection Hrun as <-.
    destruct idx'; [|discriminate]. rewrite app_nil_r. cbn [merge evalv nres]. split; [reflexivity|lia].
  - destruct k as [i|g d'|P ls]; cbn [run] in Hrun.
    + destruct cs as [|c cs]; [discriminate|]. cbn [nres] in Hi.
      destruct (IH cs _ s' ix idx' v p Hrun Hix Hi) as [E L]. cbn [out pend] in E, L.
      split; [|exact L]. rewrite E. cbn [merge evalv]. apply evalv_ext_v. intros q. apply pmv_int.
    + destruct cs as [|c cs]; [discriminate|]. cbn [nres] in Hi.
      destruct idx' as [|a idx']; [discriminate|]. injection Hi as Hi.
      replace (ix ++ a :: idx') with ((ix ++ [a]) ++ idx') by (rewrite <- app_assoc; reflexivity).
      destruct (IH cs _ s' (ix ++ [a]) idx' v p Hrun) as [E L]; auto.
      { cbn [out]. rewrite !app_length. simpl. lia. }
      cbn [out pend pmv] in E, L. rewrite app_length in L. split; [|cbn [nres]; simpl in L; lia].
      rewrite E. rewrite (evalv_app K) by assumption. cbn [merge].
      apply evalv_ext_v. intros q. rewrite absorb_eval. cbn [reidx rr sl evalv]. reflexivity.
    + destruct (fuse P (firstn (length ls) cs) ls) as [F|] eqn:EF; [|discriminate]. cbn [nres] in Hi.
      destruct idx' as [|a idx']; [discriminate|]. injection Hi as Hi.
      replace (ix ++ a :: idx') with ((ix ++ [a]) ++ idx') by (rewrite <- app_assoc; reflexivity).
      destruct (IH _ _ s' (ix ++ [a]) idx' v p Hrun) as [E L]; auto.
      { cbn [out]. rewrite !app_length. simpl. lia. }
      cbn [out pend pmv] in E, L. rewrite app_length in L. split; [|cbn [nres]; simpl in L; lia].
      rewrite E. rewrite (evalv_app K) by assumption. cbn [merge].
      apply evalv_ext_v. intros q. rewrite absorb_eval.
      destruct (fuse_sound P _ ls F a (evalv (skipn (length ls) cs) (merge key idx') v) q EF) as [_ Hl].
      destruct (pend s) as [M|]; cbn [pmv].
      * unfold mv. apply sumn_ext. intros s0 _. f_equal.
        destruct (fuse_sound P _ ls F a (evalv (skipn (length ls) cs) (merge key idx') v) s0 EF) as [Ev0 _].
        cbn [evalv] in Ev0. rewrite Ev0. rewrite <- (firstn_skipn (length ls) cs) at 3.
        rewrite (evalv_app K); [reflexivity|]. rewrite map_length. exact Hl.
      * destruct (fuse_sound P _ ls F a (evalv (skipn (length ls) cs) (merge key idx') v) q EF) as [Ev0 _].
        cbn [evalv] in Ev0. rewrite Ev0. rewrite <- (firstn_skipn (length ls) cs) at 3.
        rewrite (evalv_app K); [reflexivity|]. rewrite map_length. exact Hl.
Qed.

Lemma flush_last (xs : net) : forall last (P : mat K) idx v p, length idx = S (length xs) ->
  evalv (xs ++ [rmulc last P]) idx v p = evalv (xs ++ [last]) idx (mv P v) p.
Proof.
  intros last P idx v p H.
  assert (exists ix a, idx = ix ++ [a] /\ length ix = length xs) as (ix & a & -> & Hl).
  { destruct (rev idx) as [|a r] eqn:E.
    - apply (f_equal (@length nat)) in E. rewrite rev_length in E. simpl in E. lia.
    - exists (rev r), a. split. rewrite <- (rev_involutive idx), E. reflexivity.
      apply (f_equal (@length nat)) in E. rewrite rev_length in *. simpl in E. lia. }
  rewrite !(evalv_app K) by assumption. apply evalv_ext_v. intros q.
  cbn [evalv rmulc rr sl]. unfold mv.
  rewrite (sumn_ext _ _ (fun q0 => sumn (rr last) (fun s0 => sl last a q s0 * (me P s0 q0 * v q0)))).
  2:{ intros q0 _. rewrite <- (sumn_mul_r Kth). apply sumn_ext; intros; ring. }
  rewrite (sumn_exch Kth). apply sumn_ext; intros s0 _. rewrite (sumn_mul_l Kth). reflexivity.
Qed.

(* t[key]: the result network (or scalar) evaluates to the source at the merged index *)
Theorem getitem_sound (cs : net) key idx' v p r :
  getitem cs key = Some r -> length idx' = nres key ->
  match r with
  | RNet res => evalv res idx' v p = evalv cs (merge key idx') v p
  | RScalar x => True
  end.
Proof.
  unfold getitem. intros H Hi. destruct (run (mkSt None []) cs key) as [s|] eqn:Hrun; [|discriminate].
  injection H as <-.
  destruct (run_inv key cs (mkSt None []) s [] idx' v p Hrun eq_refl Hi) as [E L].
  cbn [out pend pmv evalv app length] in E, L.
  unfold flush. destruct (pend s) as [P|] eqn:EP; cbn [pmv] in E.
  - destruct (rev (out s)) as [|last rinit] eqn:ER; [exact I|].
    assert (E0: out s = rev rinit ++ [last]) by (rewrite <- (rev_involutive (out s)), ER; reflexivity).
    rewrite E0 in E, L. rewrite flush_last; [exact E|].
    rewrite app_length in L. rewrite rev_length in *. simpl in L. lia.
  - exact E.
Qed.

(* all-integer key: the scalar is the entry *)
Theorem getitem_scalar (cs : net) key x : cs <> [] ->
  getitem cs key = Some (RScalar x) -> nres key = O ->
  x = eval cs (merge key []).
Proof.
  unfold getitem. intros Hne H Hn. destruct (run (mkSt None []) cs key) as [s|] eqn:Hrun; [|discriminate].
  injection H as H. unfold flush in H. destruct (pend s) as [P|] eqn:EP; [|discriminate].
  destruct (rev (out s)) as [|last rinit] eqn:ER; [|discriminate]. injection H as <-.
  assert (Ho: out s = []) by (rewrite <- (rev_involutive (out s)), ER; reflexivity).
  destruct cs as [|c cs]; [congruence|]. unfold eval.
  (* rows of the pending matrix are the rows of the first core *)
  assert (Hmr: forall key (cs : net) s0 s1, run s0 cs key = Some s1 -> nres key = O ->
            match pend s0 with Some P0 => True | None => True end -> True) by trivial.
  assert (Hrows: mr P = rl c).
  { clear - Hrun EP Hn. 
    assert (G: forall key (cs : net) s0 s1 P1, run s0 cs key = Some s1 -> nres key = O -> pend s1 = Some P1 ->
               mr P1 = match pend s0 with Some P0 => mr P0 | None => match cs with c0 :: _ => rl c0 | [] => O end end).
    { induction key0 as [|k key0 IH]; intros cs0 s0 s1 P1 Hr Hn0 Hp.
      - cbn [run] in Hr. destruct cs0; [|discriminate]. injection Hr as <-. rewrite Hp. reflexivity.
      - destruct k as [i|g d'|P0 ls]; cbn [nres] in Hn0; try discriminate. cbn [run] in Hr.
        destruct cs0 as [|c0 cs0]; [discriminate|].
        rewrite (IH cs0 _ s1 P1 Hr Hn0 Hp). cbn [pend]. destruct (pend s0); reflexivity. }
    rewrite (G key (c :: cs) _ s P Hrun Hn EP). reflexivity. }
  rewrite Hrows. apply sumn_ext. intros p _.
  destruct (run_inv key (c :: cs) (mkSt None []) s [] [] ones p Hrun eq_refl ltac:(rewrite Hn; reflexivity)) as [E _].
  assert (E' : mv P ones p = evalv (c :: cs) (merge key []) ones p).
  { cbn [out pend] in E. rewrite Ho, EP in E. exact E. }
  rewrite <- E'. unfold mv. apply sumn_ext. intros q _. unfold ones. ring.
Qed.
End GetItemP.
