(* The lemma kit L1..L8: each algebraic move on the matrix-product form, proved once for
   all N, all ranks and all mode sizes, over any commutative ring. *)
From TN Require Export Sem.Score.

Section Moves.
Variable K : Ops.
Hypothesis Kth : laws K.
Add Ring Kring : Kth.
Local Open Scope K_scope.
Notation score := (score K).

Lemma evalv_ext_v (cs : list score) : forall idx v w p,
  (forall q, v q = w q) -> evalv cs idx v p = evalv cs idx w p.
Proof. induction cs as [|c cs IH]; intros idx v w p H; [apply H|].
  destruct idx as [|i idx]; [apply H|]. cbn [evalv]. apply sumn_ext. intros q _.
  f_equal. apply IH; auto. Qed.

Lemma evalv_app_ext (pre : list score) : forall cs1 cs2 idxp idx1 idx2 v w p,
  length idxp = length pre ->
  (forall q, evalv cs1 idx1 v q = evalv cs2 idx2 w q) ->
  evalv (pre ++ cs1) (idxp ++ idx1) v p = evalv (pre ++ cs2) (idxp ++ idx2) w p.
Proof.
  induction pre as [|c pre IH]; intros cs1 cs2 idxp idx1 idx2 v w p Hl H.
  - destruct idxp; [|discriminate]. apply H.
  - destruct idxp as [|i idxp]; [discriminate|]. cbn [app evalv].
    apply sumn_ext. intros q _. f_equal. apply IH; auto.
Qed.

Lemma evalv_app (pre : list score) : forall cs idxp idx v p,
  length idxp = length pre ->
  evalv (pre ++ cs) (idxp ++ idx) v p = evalv pre idxp (evalv cs idx v) p.
Proof.
  induction pre as [|c pre IH]; intros cs idxp idx v p Hl.
  - destruct idxp; [|discriminate]. reflexivity.
  - destruct idxp as [|i idxp]; [discriminate|]. cbn [app evalv].
    apply sumn_ext. intros q _. f_equal. apply IH. simpl in Hl. lia.
Qed.

(* linearity in the terminal vector *)
Lemma evalv_lin_add (cs : list score) : forall idx v w p,
  evalv cs idx (fun q => v q + w q) p = evalv cs idx v p + evalv cs idx w p.
Proof. induction cs as [|c cs IH]; intros idx v w p; [reflexivity|].
  destruct idx as [|i idx]; [reflexivity|]. cbn [evalv].
  rewrite <- sumn_add by assumption. apply sumn_ext. intros q _. rewrite IH. ring. Qed.

Lemma evalv_lin_scal (cs : list score) : forall idx c v p,
  evalv cs idx (fun q => c * v q) p = c * evalv cs idx v p.
Proof. induction cs as [|a cs IH]; intros idx c v p; [reflexivity|].
  destruct idx as [|i idx]; [reflexivity|]. cbn [evalv].
  rewrite <- sumn_mul_l by assumption. apply sumn_ext. intros q _. rewrite IH. ring. Qed.


(* ---------------- L0: congruence on in-range entries ---------------- *)
Definition score_eq_in (a b : score) : Prop :=
  rl a = rl b /\ rr a = rr b /\ dm a = dm b /\
  forall i p q, (i < dm a)%nat -> (p < rl a)%nat -> (q < rr a)%nat -> sl a i p q = sl b i p q.

Lemma L0 (xs : list score) : forall ys r idx v w p,
  Forall2 score_eq_in xs ys -> chain r xs = true -> in_range (sshape xs) idx = true ->
  (p < r)%nat -> (forall q, (q < last_rr r xs)%nat -> v q = w q) ->
  evalv xs idx v p = evalv ys idx w p.
Proof.
  induction xs as [|a xs IH]; intros ys r idx v w p HF Hc Hr Hp Hv.
  - inversion HF; subst. destruct idx; [|discriminate]. apply Hv. exact Hp.
  - inversion HF as [|? b ? ys' (E1 & E2 & E3 & E4) HF']; subst.
    destruct idx as [|i idx]; [discriminate|].
    cbn [sshape map in_range] in Hr. apply andb_true_iff in Hr. destruct Hr as [Hi Hr].
    apply Nat.ltb_lt in Hi.
    cbn [chain] in Hc. apply andb_true_iff in Hc. destruct Hc as [Hrl Hc]. apply Nat.eqb_eq in Hrl.
    cbn [evalv]. rewrite <- E2. apply sumn_ext. intros q Hq.
    rewrite E4 by (auto; lia). f_equal.
    apply (IH ys' (rr a)); auto.
Qed.

Lemma score_eq_in_refl (a : score) : score_eq_in a a.
Proof. repeat split; auto. Qed.

Lemma Forall2_score_eq_refl (xs : list score) : Forall2 score_eq_in xs xs.
Proof. induction xs; constructor; auto using score_eq_in_refl. Qed.

Lemma L0_eval (xs ys : list score) idx :
  Forall2 score_eq_in xs ys -> chain (match xs with c :: _ => rl c | [] => O end) xs = true ->
  in_range (sshape xs) idx = true -> eval xs idx = eval ys idx.
Proof.
  intros HF Hc Hr. destruct xs as [|a xs]; inversion HF as [|? b ? ys' E HF']; subst; [reflexivity|].
  unfold eval. destruct E as (E1 & _). rewrite <- E1. apply sumn_ext. intros p Hp.
  eapply L0; eauto.
Qed.


(* unbounded congruence *)
Definition score_eq (a b : score) : Prop :=
  rl a = rl b /\ rr a = rr b /\ forall i p q, sl a i p q = sl b i p q.

Lemma evalv_score_eq (xs : list score) : forall ys idx v p,
  Forall2 score_eq xs ys -> evalv xs idx v p = evalv ys idx v p.
Proof.
  induction xs as [|a xs IH]; intros ys idx v p HF; inversion HF as [|? b ? ys' (E1 & E2 & E3) HF']; subst.
  - reflexivity.
  - destruct idx as [|i idx]; [reflexivity|]. cbn [evalv]. rewrite <- E2.
    apply sumn_ext. intros q _. rewrite E3. f_equal. apply IH; auto.
Qed.

Lemma eval_score_eq (xs ys : list score) idx : Forall2 score_eq xs ys -> eval xs idx = eval ys idx.
Proof.
  intros HF. destruct xs as [|a xs]; inversion HF as [|? b ? ys' E HF']; subst; [reflexivity|].
  unfold eval. destruct E as (E1 & _). rewrite <- E1. apply sumn_ext. intros p _.
  apply evalv_score_eq; auto.
Qed.

(* ---------------- L5: re-index / restrict a mode ---------------- *)
Lemma L5 g d' (cs : list score) : forall k idx c i v p,
  nth_error cs k = Some c -> nth_error idx k = Some i ->
  evalv (upd k cs (reidx g d' c)) idx v p = evalv cs (upd k idx (g i)) v p.
Proof.
  induction cs as [|a cs IH]; intros k idx c i v p Hc Hi; [destruct k; discriminate|].
  destruct idx as [|j idx]; [destruct k; discriminate|].
  destruct k as [|k]; simpl in Hc, Hi.
  - injection Hc as ->. injection Hi as ->. reflexivity.
  - cbn [upd evalv]. apply sumn_ext. intros q Hq. f_equal. eapply IH; eauto.
Qed.

(* ---------------- L1: a linear map applied to one mode ---------------- *)
Lemma L1 L d' (cs : list score) : forall k idx c i v p,
  nth_error cs k = Some c -> nth_error idx k = Some i ->
  evalv (upd k cs (lin L d' c)) idx v p =
  sumn (dm c) (fun j => L i j * evalv cs (upd k idx j) v p).
Proof.
  induction cs as [|a cs IH]; intros k idx c i v p Hc Hi; [destruct k; discriminate|].
  destruct idx as [|j0 idx]; [destruct k; discriminate|].
  destruct k as [|k]; simpl in Hc, Hi.
  - injection Hc as ->. injection Hi as ->. cbn [upd evalv lin rr sl dm].
    rewrite (sumn_ext _ _ (fun q => sumn (dm c) (fun j => L i j * (sl c j p q * evalv cs idx v q)))).
    2:{ intros q _. rewrite <- sumn_mul_r by assumption. apply sumn_ext; auto; intros; ring. }
    rewrite sumn_exch by assumption. apply sumn_ext; auto. intros j _.
    rewrite sumn_mul_l by assumption. reflexivity.
  - cbn [upd evalv].
    rewrite (sumn_ext _ _ (fun q => sumn (dm c) (fun j => L i j * (sl a j0 p q * evalv cs (upd k idx j) v q)))).
    2:{ intros q _. erewrite IH; eauto. rewrite <- sumn_mul_l by assumption.
        apply sumn_ext; auto; intros; ring. }
    rewrite sumn_exch by assumption. apply sumn_ext; auto. intros j _.
    rewrite sumn_mul_l by assumption. reflexivity.
Qed.

(* ---------------- L4: move a matrix across a bond ---------------- *)
Lemma L4_head (a b : score) M cs i j idx v p :
  evalv (rmulM a M (rl b) :: b :: cs) (i :: j :: idx) v p =
  evalv (a :: lmulM M b (rr a) :: cs) (i :: j :: idx) v p.
Proof.
  cbn [evalv rmulM lmulM rr rl sl].
  rewrite (sumn_ext (rl b) _ (fun q => sumn (rr a) (fun s => sl a i p s * (M s q * sumn (rr b) (fun t => sl b j q t * evalv cs idx v t))))).
  2:{ intros q _. rewrite <- sumn_mul_r by assumption. apply sumn_ext; auto; intros; ring. }
  rewrite sumn_exch by assumption. apply sumn_ext; auto. intros s _.
  rewrite sumn_mul_l by assumption. f_equal.
  rewrite (sumn_ext (rr b) _ (fun t => sumn (rl b) (fun q => M s q * (sl b j q t * evalv cs idx v t)))).
  2:{ intros t _. rewrite <- sumn_mul_r by assumption. apply sumn_ext; auto; intros; ring. }
  rewrite sumn_exch by assumption. apply sumn_ext; auto. intros q _.
  rewrite sumn_mul_l by assumption. reflexivity.
Qed.

Theorem L4 pre (a b : score) M cs idxp i j idx v p : length idxp = length pre ->
  evalv (pre ++ rmulM a M (rl b) :: b :: cs) (idxp ++ i :: j :: idx) v p =
  evalv (pre ++ a :: lmulM M b (rr a) :: cs) (idxp ++ i :: j :: idx) v p.
Proof. intros. apply evalv_app_ext; auto. intros. apply L4_head. Qed.

(* a matrix absorbed into the terminal vector *)
Lemma L4_last (a : score) M r' i v p :
  evalv [rmulM a M r'] [i] v p =
  evalv [a] [i] (fun s => sumn r' (fun q => M s q * v q)) p.
Proof.
  cbn [evalv rmulM rr sl].
  rewrite (sumn_ext r' _ (fun q => sumn (rr a) (fun s => sl a i p s * (M s q * v q)))).
  2:{ intros q _. rewrite <- sumn_mul_r by assumption. apply sumn_ext; auto; intros; ring. }
  rewrite sumn_exch by assumption. apply sumn_ext; auto. intros s _.
  rewrite sumn_mul_l by assumption. reflexivity.
Qed.

(* ---------------- L2: block-diagonal stacking ---------------- *)
Lemma L2 (xs : list score) : forall ys ra rb idx va vb p,
  wf2 ra rb xs ys -> length idx = length xs -> (p < ra + rb)%nat ->
  evalv (zipbd xs ys) idx (cat2 (last_rr ra xs) va vb) p =
  if (p <? ra)%nat then evalv xs idx va p else evalv ys idx vb (p - ra)%nat.
Proof.
  induction xs as [|a xs IH]; intros ys ra rb idx va vb p Hwf Hlen Hp.
  - destruct ys; [|simpl in Hwf; tauto]. destruct idx; [|discriminate].
    cbn. unfold cat2. reflexivity.
  - destruct ys as [|b ys]; [simpl in Hwf; tauto|].
    destruct idx as [|i idx]; [discriminate|].
    destruct Hwf as (Ha & Hb & Hwf). subst ra rb.
    cbn [zipbd evalv]. cbn [rr bd sl].
    assert (Hl: last_rr (rl a) (a :: xs) = last_rr (rr a) xs) by reflexivity.
    rewrite Hl.
    assert (IH' := fun q Hq => IH ys (rr a) (rr b) idx va vb q Hwf
                      ltac:(simpl in Hlen; lia) Hq).
    rewrite sumn_app by assumption.
    destruct (Nat.ltb_spec p (rl a)).
    + rewrite (sumn_zero_ext Kth (rr b)).
      2:{ intros k Hk. destruct (Nat.ltb_spec (rr a + k) (rr a)); [lia|]. ring. }
      rewrite (sumn_ext (rr a) _ (fun q => sl a i p q * evalv xs idx va q)).
      2:{ intros k Hk. rewrite IH' by lia.
          destruct (Nat.ltb_spec k (rr a)); [|lia]. reflexivity. }
      ring.
    + rewrite (sumn_zero_ext Kth (rr a)).
      2:{ intros k Hk. destruct (Nat.ltb_spec k (rr a)); [|lia]. ring. }
      rewrite (sumn_ext (rr b) _ (fun q => sl b i (p - rl a)%nat q * evalv ys idx vb q)).
      2:{ intros k Hk. rewrite IH' by lia.
          destruct (Nat.ltb_spec (rr a + k) (rr a)); [lia|].
          replace (rr a + k - rr a)%nat with k by lia. reflexivity. }
      ring.
Qed.

Lemma cat2_ones n q : cat2 n (@ones K) ones q = ones q.
Proof. unfold cat2, ones. destruct (q <? n)%nat; reflexivity. Qed.

Theorem L2_eval (xs ys : list score) idx :
  wf2 (match xs with a :: _ => rl a | _ => O end)
      (match ys with b :: _ => rl b | _ => O end) xs ys ->
  xs <> [] -> length idx = length xs ->
  eval (zipbd xs ys) idx = eval xs idx + eval ys idx.
Proof.
  intros Hwf Hne Hlen. destruct xs as [|a xs]; [congruence|].
  destruct ys as [|b ys]; [simpl in Hwf; tauto|].
  unfold eval. cbn [zipbd]. cbn [rl bd].
  rewrite sumn_app by assumption.
  f_equal.
  - apply sumn_ext; auto. intros p Hp.
    rewrite (evalv_ext_v _ _ ones (cat2 (last_rr (rl a) (a :: xs)) ones ones)).
    2:{ intros; symmetry; apply cat2_ones. }
    rewrite (L2 (a :: xs) (b :: ys) (rl a) (rl b)); auto; try lia.
    destruct (Nat.ltb_spec p (rl a)); [reflexivity|lia].
  - apply sumn_ext; auto. intros p Hp.
    rewrite (evalv_ext_v _ _ ones (cat2 (last_rr (rl a) (a :: xs)) ones ones)).
    2:{ intros; symmetry; apply cat2_ones. }
    rewrite (L2 (a :: xs) (b :: ys) (rl a) (rl b)); auto; try lia.
    destruct (Nat.ltb_spec (rl a + p) (rl a)); [lia|]. f_equal. lia.
Qed.

(* ---------------- L3: Kronecker product ---------------- *)
Lemma divmod_small b i j : (j < b)%nat -> ((i*b+j)/b = i /\ (i*b+j) mod b = j)%nat.
Proof. intros H. split.
  - rewrite Nat.add_comm, Nat.div_add by lia. rewrite Nat.div_small by lia. lia.
  - rewrite Nat.add_comm, Nat.mod_add by lia. apply Nat.mod_small; lia. Qed.

Lemma L3 (xs : list score) : forall ys ra rb idx va vb p1 p2,
  wf2 ra rb xs ys -> length idx = length xs -> (p2 < rb)%nat ->
  evalv (zipkr xs ys) idx (krv (last_rr rb ys) va vb) (p1 * rb + p2)%nat =
  evalv xs idx va p1 * evalv ys idx vb p2.
Proof.
  induction xs as [|a xs IH]; intros ys ra rb idx va vb p1 p2 Hwf Hlen Hp.
  - destruct ys; [|simpl in Hwf; tauto]. destruct idx; [|discriminate].
    cbn. unfold krv. destruct (divmod_small rb p1 p2 Hp) as [E1 E2]. rewrite E1, E2. reflexivity.
  - destruct ys as [|b ys]; [simpl in Hwf; tauto|].
    destruct idx as [|i idx]; [discriminate|].
    destruct Hwf as (Ha & Hb & Hwf). subst ra rb.
    cbn [zipkr evalv]. cbn [rr rl kr sl].
    destruct (divmod_small (rl b) p1 p2 Hp) as [E1 E2]. rewrite E1, E2.
    rewrite sumn_prod by assumption.
    assert (Hl: last_rr (rl b) (b :: ys) = last_rr (rr b) ys) by reflexivity. rewrite Hl.
    rewrite (sumn_ext (rr a) _ (fun q1 => sumn (rr b) (fun q2 =>
       (sl a i p1 q1 * evalv xs idx va q1) * (sl b i p2 q2 * evalv ys idx vb q2)))).
    2:{ intros q1 H1. apply sumn_ext; auto. intros q2 H2.
        destruct (divmod_small (rr b) q1 q2 H2) as [F1 F2]. rewrite F1, F2.
        rewrite (IH ys (rr a) (rr b)); auto; try ring; simpl in Hlen; lia. }
    rewrite sumn_sumn_mul by assumption. reflexivity.
Qed.

Lemma krv_ones rb q : krv rb (@ones K) ones q = ones q.
Proof. unfold krv, ones. ring. Qed.

Theorem L3_eval (xs ys : list score) idx :
  wf2 (match xs with a :: _ => rl a | _ => O end)
      (match ys with b :: _ => rl b | _ => O end) xs ys ->
  xs <> [] -> length idx = length xs ->
  eval (zipkr xs ys) idx = eval xs idx * eval ys idx.
Proof.
  intros Hwf Hne Hlen. destruct xs as [|a xs]; [congruence|].
  destruct ys as [|b ys]; [simpl in Hwf; tauto|].
  unfold eval. cbn [zipkr]. cbn [rl kr].
  rewrite sumn_prod by assumption.
  rewrite <- sumn_sumn_mul by assumption.
  apply sumn_ext; auto. intros p1 H1. apply sumn_ext; auto. intros p2 H2.
  rewrite (evalv_ext_v _ _ ones (krv (last_rr (rl b) (b :: ys)) ones ones)).
  2:{ intros; symmetry; apply krv_ones. }
  apply (L3 (a :: xs) (b :: ys) (rl a) (rl b)); auto.
Qed.

(* ---------------- L6: reversing the product ---------------- *)
Lemma bil_cons (u : nat -> K) (c : score) cs i idx v :
  bil u (c :: cs) (i :: idx) v =
  sumn (rr c) (fun q => sumn (rl c) (fun p => u p * sl c i p q) * evalv cs idx v q).
Proof.
  unfold bil. cbn [evalv].
  rewrite (sumn_ext (rl c) _ (fun p => sumn (rr c) (fun q => u p * sl c i p q * evalv cs idx v q))).
  2:{ intros p _. rewrite <- sumn_mul_l by assumption. apply sumn_ext; auto; intros; ring. }
  rewrite sumn_exch by assumption. apply sumn_ext; auto. intros q _.
  rewrite <- sumn_mul_r by assumption. reflexivity.
Qed.

Definition vecmat (n : nat) (u : nat -> K) (M : nat -> nat -> K) : nat -> K :=
  fun q => sumn n (fun p => u p * M p q).

(* u^T M_1..M_N v computed left to right equals right to left *)
Lemma bil_step (u : nat -> K) (c : score) cs i idx v : cs <> [] ->
  chain (rr c) cs = true -> length idx = length cs ->
  bil u (c :: cs) (i :: idx) v = bil (vecmat (rl c) u (sl c i)) cs idx v.
Proof.
  intros Hne Hch Hlen. rewrite bil_cons. destruct cs as [|c2 cs]; [congruence|].
  unfold bil. cbn [chain] in Hch. apply andb_true_iff in Hch. destruct Hch as [E _].
  apply Nat.eqb_eq in E. rewrite E. reflexivity.
Qed.


Lemma evalv_app_ext_b (pre : list score) : forall r0 cs1 cs2 idxp idx1 idx2 v w p,
  length idxp = length pre -> (p < r0)%nat -> chain r0 pre = true ->
  (forall q, (q < last_rr r0 pre)%nat -> evalv cs1 idx1 v q = evalv cs2 idx2 w q) ->
  evalv (pre ++ cs1) (idxp ++ idx1) v p = evalv (pre ++ cs2) (idxp ++ idx2) w p.
Proof.
  induction pre as [|c pre IH]; intros r0 cs1 cs2 idxp idx1 idx2 v w p Hl Hp Hc H.
  - destruct idxp; [|discriminate]. apply H. exact Hp.
  - destruct idxp as [|i idxp]; [discriminate|]. cbn [app evalv].
    cbn [chain] in Hc. apply andb_true_iff in Hc. destruct Hc as [_ Hc].
    apply sumn_ext. intros q Hq. f_equal. apply (IH (rr c)); auto.
Qed.

(* ---------------- L6: reversing the product ---------------- *)
Fixpoint prop (u : nat -> K) (cs : list score) (idx : list nat) : nat -> K :=
  match cs, idx with
  | c :: cs', i :: idx' => prop (vecmat (rl c) u (sl c i)) cs' idx'
  | _, _ => u
  end.

Lemma prop_ext (cs : list score) : forall idx u u' q,
  (forall p, u p = u' p) -> prop u cs idx q = prop u' cs idx q.
Proof. induction cs as [|c cs IH]; intros idx u u' q H; [apply H|].
  destruct idx as [|i idx]; [apply H|]. cbn [prop]. apply IH. intros p.
  unfold vecmat. apply sumn_ext. intros; rewrite H; reflexivity. Qed.

Lemma rev_is_prop (cs : list score) : forall idx u q, length idx = length cs ->
  evalv (rev (map transp cs)) (rev idx) u q = prop u cs idx q.
Proof.
  induction cs as [|c cs IH]; intros idx u q Hl.
  - destruct idx; [|discriminate]. reflexivity.
  - destruct idx as [|i idx]; [discriminate|]. cbn [map rev prop].
    rewrite evalv_app. 2:{ rewrite !rev_length, map_length. simpl in Hl. lia. }
    rewrite IH by (simpl in Hl; lia).
    apply prop_ext. intros p. cbn [evalv transp rr sl]. unfold vecmat.
    apply sumn_ext. intros; ring.
Qed.

Lemma prop_bil (cs : list score) : forall r idx u v, cs <> [] ->
  chain r cs = true -> length idx = length cs ->
  sumn (last_rr r cs) (fun q => prop u cs idx q * v q) = bil u cs idx v.
Proof.
  induction cs as [|c cs IH]; intros r idx u v Hne Hc Hl; [congruence|].
  destruct idx as [|i idx]; [discriminate|].
  cbn [chain] in Hc. apply andb_true_iff in Hc. destruct Hc as [_ Hc].
  destruct cs as [|c2 cs].
  - destruct idx; [|discriminate]. cbn [prop last_rr fold_left].
    rewrite bil_cons. cbn [evalv]. unfold vecmat. reflexivity.
  - rewrite bil_step; auto; try discriminate; try (simpl in *; lia).
    cbn [prop]. change (last_rr r (c :: c2 :: cs)) with (last_rr (rr c) (c2 :: cs)).
    apply IH; auto; try discriminate; simpl in *; lia.
Qed.

Lemma last_rr_rev_head (cs : list score) r :
  cs <> [] -> match rev (map transp cs) with a :: _ => rl a | [] => O end = last_rr r cs.
Proof.
  intros Hne. revert r. induction cs as [|c cs IH]; intros r; [congruence|].
  destruct cs as [|c2 cs].
  - reflexivity.
  - change (last_rr r (c :: c2 :: cs)) with (last_rr (rr c) (c2 :: cs)).
    rewrite <- (IH ltac:(discriminate) (rr c)).
    cbn [map rev]. destruct (rev (map transp cs) ++ [transp c2]) eqn:E.
    + apply app_eq_nil in E. destruct E; discriminate.
    + reflexivity.
Qed.

Theorem L6 (cs : list score) r idx u v : cs <> [] ->
  chain r cs = true -> length idx = length cs ->
  bil v (rev (map transp cs)) (rev idx) u = bil u cs idx v.
Proof.
  intros Hne Hc Hl. rewrite <- (prop_bil cs r idx u v Hne Hc Hl).
  unfold bil. destruct (rev (map transp cs)) eqn:E.
  - exfalso. destruct cs; [congruence|]. cbn [map rev] in E.
    apply app_eq_nil in E. destruct E; discriminate.
  - assert (H := last_rr_rev_head cs r Hne). rewrite E in H. rewrite H.
    apply sumn_ext. intros q _. rewrite <- E. rewrite rev_is_prop by assumption. ring.
Qed.

Lemma bil_ones_eval (cs : list score) idx : cs <> [] -> bil ones cs idx ones = eval cs idx.
Proof. intros H. destruct cs; [congruence|]. unfold bil, eval.
  apply sumn_ext. intros. unfold ones at 1. ring. Qed.

Theorem L6_eval (cs : list score) r idx : cs <> [] ->
  chain r cs = true -> length idx = length cs ->
  eval (rev (map transp cs)) (rev idx) = eval cs idx.
Proof.
  intros Hne Hc Hl. rewrite <- !bil_ones_eval; auto.
  - eapply L6; eauto.
  - destruct cs; [congruence|]. cbn [map rev]. intros E.
    apply app_eq_nil in E. destruct E; discriminate.
Qed.

(* ---------------- L8: an identity core on a dummy index ---------------- *)
Lemma L8_head r (cs : list score) i idx v p : (p < r)%nat ->
  evalv (idcore r :: cs) (i :: idx) v p = evalv cs idx v p.
Proof. intros Hp. cbn [evalv idcore rr sl]. apply sumn_delta; assumption. Qed.

Theorem L8 pre r0 (cs : list score) idxp i idx v p :
  length idxp = length pre -> (p < r0)%nat -> chain r0 pre = true ->
  evalv (pre ++ idcore (last_rr r0 pre) :: cs) (idxp ++ i :: idx) v p =
  evalv (pre ++ cs) (idxp ++ idx) v p.
Proof. intros. eapply evalv_app_ext_b; eauto. intros. apply L8_head; auto. Qed.

End Moves.
Arguments score_eq_in {K}. Arguments score_eq {K}. Arguments vecmat {K}. Arguments prop {K}.
