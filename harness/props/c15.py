"""C15: Boolean formulas over tensor symbols have exactly their truth-table semantics.

A case carries one or two formula trees in JSON.  run() builds them through the tntorch API (tn.symbols, ~ & | ^,
tn.all/any/none/one, tn.presence/absence, tn.true/false, tn.only, tn.round/round_tt at interior nodes) and observes
.torch(), tn.sum, the predicates, relevant/irrelevant symbols and only().  expected() evaluates the same tree by brute
force on all 2^N assignments with NumPy booleans (no tntorch).

Formula trees (nested lists):
  ["sym", n] ["true"] ["false"]
  ["not", f] ["and", f, g] ["or", f, g] ["xor", f, g]
  ["all"|"any"|"none"|"one", which]     which = None (default argument) or a list of symbol indices
  ["presence"|"absence", which]         which = an int or a list of symbol indices
  ["only", f]                           tn.only: f, with the symbols f does not depend on forced to false
  ["round", f] ["round_tt", f]          intermediate recompression (semantically the identity)

case = {"N", "f": tree, "g": tree (pairs only), "obs": subset of table|pred|relevant|pair, "rounded": bool, "tags"}.
Unrounded formulas are compared exactly (lib.canon_dense), rounded ones to 1e-6; predicates and symbol lists exactly.

Tags used by the known-findings matcher (all static properties of the formula except root_tucker):
  one_partial        the formula contains tn.one restricted to a strict subset of the symbols
  root_tucker        (set in run()) the implementation's tensor for f carries Tucker factors (only after tn.round)
  inexact            recompression, or xor with N >= 2 (the scalar 2 of a+b-2ab is spread as 2^(1/N) over the cores)
  syn_irrelevant     a symbol occurs in f but the truth table does not depend on it
  inner_only_cancel  tn.only is applied inside f to an inexact operand with such a symbol
  noise_risk         unrounded, xor, N >= 2 and rank bound >= 64 of the tensor whose norm a predicate thresholds
"""
from lib import *

torch.set_num_threads(1)   # the tensors are tiny (2 x 2 x .. x 2); intra-op threads only add contention

HELPERS = ("all", "any", "none", "one", "presence", "absence")
BIN = ("and", "or", "xor")


# --------------------------------------------------------------------------- specification: truth tables

def _wset(N, which):
    if which is None:
        return list(range(N))
    if isinstance(which, int):
        return [which % N]
    return sorted(set(w % N for w in which))


def table(f, N):
    """truth table of a formula tree: numpy bool array of shape [2]*N (index n = value of symbol n)"""
    op = f[0]
    grid = np.indices([2] * N).astype(bool) if N else None
    if op == "sym":
        return grid[f[1]].copy()
    if op == "true":
        return np.ones([2] * N, dtype=bool)
    if op == "false":
        return np.zeros([2] * N, dtype=bool)
    if op in ("round", "round_tt"):
        return table(f[1], N)
    if op == "not":
        return ~table(f[1], N)
    if op == "and":
        return table(f[1], N) & table(f[2], N)
    if op == "or":
        return table(f[1], N) | table(f[2], N)
    if op == "xor":
        return table(f[1], N) ^ table(f[2], N)
    if op == "only":
        T = table(f[1], N)
        return only_table(T)
    if op in HELPERS:
        W = _wset(N, f[1])
        cnt = np.zeros([2] * N, dtype=int)
        for n in W:
            cnt = cnt + grid[n]
        if op in ("all", "presence"):
            return cnt == len(W)
        if op in ("none", "absence"):
            return cnt == 0
        if op == "any":
            return cnt >= 1
        if op == "one":
            # docstring: "satisfied iff one and only one input is true", `which` = the inputs to consider: exactly one
            # of ALL inputs is true and it is one of `which` (the other helpers leave symbols outside `which` free;
            # for `one` the documentation does not say so, and the code's reading is taken: see DESIGN.md)
            tot = np.zeros([2] * N, dtype=int)
            for n in range(N):
                tot = tot + grid[n]
            return (tot == 1) & (cnt == 1)
    raise ValueError("unknown node %r" % (op,))


def relevant_of(T):
    return [n for n in range(T.ndim) if not np.array_equal(np.take(T, 0, axis=n), np.take(T, 1, axis=n))]


def only_table(T):
    rel = relevant_of(T)
    out = T.copy()
    for n in range(T.ndim):
        if n not in rel:
            idx = [slice(None)] * T.ndim
            idx[n] = 1
            out[tuple(idx)] = False
    return out


# --------------------------------------------------------------------------- implementation: build through the API

def build(f, N, syms):
    op = f[0]
    if op == "sym":
        return syms[f[1]]
    if op == "true":
        return tn.true(N)
    if op == "false":
        return tn.false(N)
    if op == "not":
        return ~build(f[1], N, syms)
    if op == "and":
        return build(f[1], N, syms) & build(f[2], N, syms)
    if op == "or":
        return build(f[1], N, syms) | build(f[2], N, syms)
    if op == "xor":
        return build(f[1], N, syms) ^ build(f[2], N, syms)
    if op == "round":
        return tn.round(build(f[1], N, syms))
    if op == "round_tt":
        return tn.round_tt(build(f[1], N, syms))
    if op == "only":
        return tn.only(build(f[1], N, syms))
    if op in ("all", "any", "none", "one"):
        fn = getattr(tn, op)
        return fn(N) if f[1] is None else fn(N, list(f[1]))
    if op in ("presence", "absence"):
        fn = getattr(tn, op)
        return fn(N, f[1] if isinstance(f[1], int) else list(f[1]))
    raise ValueError("unknown node %r" % (op,))


# --------------------------------------------------------------------------- formula construction

def bal(op, items, unit):
    """balanced binary tree of `op` over items"""
    if not items:
        return unit
    if len(items) == 1:
        return items[0]
    m = len(items) // 2
    return [op, bal(op, items[:m], unit), bal(op, items[m:], unit)]


def assignments(N):
    return list(itertools.product((0, 1), repeat=N))


def f_dnf(N, bits):
    terms = [bal("and", [["sym", n] if a[n] else ["not", ["sym", n]] for n in range(N)], ["true"])
             for a, b in zip(assignments(N), bits) if b]
    return bal("or", terms, ["false"])


def f_cnf(N, bits):
    cl = [bal("or", [["not", ["sym", n]] if a[n] else ["sym", n] for n in range(N)], ["false"])
          for a, b in zip(assignments(N), bits) if not b]
    return bal("and", cl, ["true"])


def f_anf(N, bits):
    A = assignments(N)
    val = dict(zip(A, bits))
    mons = []
    for a in A:
        c = 0
        for b in A:
            if all(b[n] <= a[n] for n in range(N)):
                c ^= val[b]
        if c:
            mons.append(bal("and", [["sym", n] for n in range(N) if a[n]], ["true"]))
    return bal("xor", mons, ["false"])


def f_shannon(N, bits, n=0):
    if all(bits):
        return ["true"]
    if not any(bits):
        return ["false"]
    h = len(bits) // 2
    return ["or", ["and", ["not", ["sym", n]], f_shannon(N, bits[:h], n + 1)],
            ["and", ["sym", n], f_shannon(N, bits[h:], n + 1)]]


STYLES = {"dnf": f_dnf, "cnf": f_cnf, "anf": f_anf, "shannon": f_shannon}


def est_rank(f, N):
    """upper bound of the TT rank the implementation reaches for this tree (used to keep cases cheap)"""
    op = f[0]
    if op in ("sym", "true", "false", "all", "none", "presence", "absence"):
        return 1
    if op == "any":
        return 2
    if op == "one":
        return 2 if f[1] is None else 4
    if op == "not":
        return est_rank(f[1], N) + 1
    if op == "and":
        return est_rank(f[1], N) * est_rank(f[2], N)
    if op in ("or", "xor"):
        a, b = est_rank(f[1], N), est_rank(f[2], N)
        return a + b + a * b
    if op == "only":
        return est_rank(f[1], N)
    if op in ("round", "round_tt"):
        return min(est_rank(f[1], N), 2 ** (N // 2))
    raise ValueError(op)


def pair_rank(f, g, N):
    """rank bound of the largest tensor the binary predicates / connectives build for the pair"""
    a, b = est_rank(f, N), est_rank(g, N)
    return max(a * (b + 1), b * (a + 1), a + b + a * b)


def has_node(f, pred):
    if pred(f):
        return True
    return any(has_node(x, pred) for x in f[1:] if isinstance(x, list) and x and isinstance(x[0], str))


def depth(f):
    sub = [x for x in f[1:] if isinstance(x, list) and x and isinstance(x[0], str)]
    return 0 if not sub else 1 + max(depth(x) for x in sub)


def is_rounded(f):
    return has_node(f, lambda g: g[0] in ("round", "round_tt"))


def one_partial(f, N):
    """contains tn.one restricted to a strict subset of the symbols"""
    return has_node(f, lambda g: g[0] == "one" and g[1] is not None and set(g[1]) != set(range(N)))


def syn_symbols(f, N):
    """symbols that occur syntactically in the tree"""
    op = f[0]
    if op == "sym":
        return {f[1]}
    if op in HELPERS:
        return set(_wset(N, f[1]))
    out = set()
    for x in f[1:]:
        if isinstance(x, list) and x and isinstance(x[0], str):
            out |= syn_symbols(x, N)
    return out


def inexact_cancel(f, N):
    """inexact arithmetic (recompression, or the scalar 2 of xor for N >= 2) and a symbol that occurs in f although
    the truth table of f does not depend on it: its difference slice is zero only up to rounding error"""
    inexact = is_rounded(f) or (N >= 2 and has_node(f, lambda x: x[0] == "xor"))
    return bool(inexact and (syn_symbols(f, N) - set(relevant_of(table(f, N)))))


def add_rounds(f, rng, p=1.0, kinds=("round",)):
    """insert recompression after interior nodes (each with probability p)"""
    op = f[0]
    if op in ("not", "only"):
        g = [op, add_rounds(f[1], rng, p, kinds)]
    elif op in BIN:
        g = [op, add_rounds(f[1], rng, p, kinds), add_rounds(f[2], rng, p, kinds)]
    elif op in ("round", "round_tt"):
        return [op, add_rounds(f[1], rng, p, kinds)]
    else:
        return f
    if rng.random() < p:
        return [rng.choice(kinds), g]
    return g


def rewrite(f):
    """an equivalent formula of different syntax (De Morgan, xor expansion, helper synonyms)"""
    op = f[0]
    if op == "and":
        return ["not", ["or", ["not", rewrite(f[1])], ["not", rewrite(f[2])]]]
    if op == "or":
        return ["not", ["and", ["not", rewrite(f[1])], ["not", rewrite(f[2])]]]
    if op == "xor":
        a, b = rewrite(f[1]), rewrite(f[2])
        return ["and", ["or", a, b], ["not", ["and", a, b]]]
    if op == "not":
        return ["not", rewrite(f[1])]
    if op in ("round", "round_tt", "only"):
        return [op, rewrite(f[1])]
    if op == "all":
        return ["presence", f[1]] if f[1] is not None else f
    if op == "presence":
        return ["all", [f[1]] if isinstance(f[1], int) else f[1]]
    if op == "absence":
        return ["none", [f[1]] if isinstance(f[1], int) else f[1]]
    if op == "none":
        return ["not", ["any", f[1]]]
    if op == "any":
        return ["not", ["none", f[1]]]
    return f


def rand_which(rng, N, allow_none=True):
    r = rng.random()
    if allow_none and r < 0.3:
        return None
    k = rng.randint(0 if r < 0.4 else 1, N)
    return sorted(rng.sample(range(N), k))


def rand_leaf(rng, N, helpers=True):
    r = rng.random()
    if r < 0.62 or not helpers:
        return ["sym", rng.randrange(N)]
    if r < 0.68:
        return [rng.choice(["true", "false"])]
    h = rng.choice(HELPERS)
    if h == "one" and rng.random() < 0.6:     # keep the restricted tn.one rare (see finding C15-one-which)
        return ["one", rng.choice([None, list(range(N))])]
    if h in ("presence", "absence"):
        return [h, rng.randrange(N)] if rng.random() < 0.4 else [h, rand_which(rng, N, allow_none=False)]
    return [h, rand_which(rng, N)]


def rand_tree(rng, N, d, only_ok=False):
    if d == 0 or rng.random() < 0.12:
        return rand_leaf(rng, N)
    r = rng.random()
    if r < 0.2:
        return ["not", rand_tree(rng, N, d - 1, only_ok)]
    if only_ok and r < 0.26:
        return ["only", rand_tree(rng, N, d - 1, only_ok)]
    return [rng.choice(BIN), rand_tree(rng, N, d - 1, only_ok), rand_tree(rng, N, d - 1, only_ok)]


def bounded_tree(rng, N, d, bound, only_ok=False):
    for _ in range(200):
        f = rand_tree(rng, N, d, only_ok)
        if est_rank(f, N) <= bound:
            return f
    return rand_tree(rng, N, 1)


# --------------------------------------------------------------------------- the property

MIX = ("round", "round_tt", "round_tt")    # tn.round is ~5x the cost of tn.round_tt: one node in three
RANK_BOUND = 300      # single formula
PAIR_BOUND = 600      # rank of t1 & ~t2


class Prop:
    ID = "C15"
    LEVEL = "proof"
    COQ_HEADER = "From TN Require Import Harness.H_C15.\nOpen Scope Z_scope.\n"
    CHECK_FN = "check"
    RULE = ("every Boolean function of N<=2 variables (quick; N<=3 thorough, seeded sample of N=3 (quick) and N=4) built "
            "through the API in 4 balanced syntactic styles (DNF, CNF, algebraic normal form, Shannon expansion), each "
            "without rounding (exact comparison) and with tn.round after every interior node (1e-6); every (which) "
            "argument of all/any/none/one/presence/absence for N<=4 (N<=3 quick); all ordered pairs of functions of "
            "N<=2 variables for implies/equiv/&/|/^ (plain and with rounding), seeded pairs (implied / rewritten / "
            "independent) for N=3,4; seeded trees of depth<=5 over N<=4 symbols with helper leaves and only() nodes, "
            "plain and with tn.round/tn.round_tt at random nodes; noisy contradictions/tautologies f^round(f). "
            "Every formula gives two cases: (table, sum, tautology/contradiction/satisfiable) and (relevant, irrelevant, "
            "only). Trees whose rank bound exceeds 300 (600 for the tensors built by binary predicates) are recompressed "
            "at every node instead. Non-trivial: the formula is neither a tautology nor a "
            "contradiction, or the case is a pair; distinct = distinct (N, formula trees, observations).")
    TRUSTED = ["harness/props/c15.py: the truth-table evaluator table() (NumPy booleans over all 2^N assignments)",
               "tn.Tensor.torch() decompression (property C01) is used to observe formulas"]
    ASSUMPTIONS = ["tn.one(N, which) is specified as 'exactly one of the symbols in `which` is true, the others free' "
                   "(the reading under which all four quantifier helpers treat `which` alike)",
                   "formulas are built only through the logic API, hence in TT format (Tucker factors appear only via tn.round)",
                   "N <= 4 symbols (helpers N <= 5); rounding uses the default eps=1e-14"]
    THEOREMS = ["C15_symbol", "C15_true", "C15_false", "C15_helpers", "C15_relevance_test", "C15_only", "C15_formula", "C15_is_contradiction", "C15_is_tautology", "C15_is_satisfiable", "C15_implies", "C15_equiv"]

    # ---------------------------------------------------------------- generation
    def generate(self, rng, tier):
        quick = tier == "quick"
        cases = []

        def mk(N, f, obs, kind, g=None, **tags):
            # cost guard: no case may build a tensor of rank > RANK_BOUND (PAIR_BOUND for pairs); recompress instead
            if (g is None and est_rank(f, N) > RANK_BOUND) or (g is not None and pair_rank(f, g, N) > PAIR_BOUND):
                f = add_rounds(f, rng, 1.0, MIX)
                g = add_rounds(g, rng, 1.0, MIX) if g is not None else None
                f = f if is_rounded(f) else ["round_tt", f]
            rounded = is_rounded(f) or (g is not None and is_rounded(g))
            tags.update(kind=kind, N=N, obs="+".join(obs), rounded=rounded,
                        depth=max(depth(f), depth(g) if g is not None else 0),
                        one_partial=one_partial(f, N) or (g is not None and one_partial(g, N)),
                        has_only=has_node(f, lambda x: x[0] == "only"),
                        # inexact arithmetic: recompression, or the scalar 2 of a^b = a+b-2ab (cores scaled by 2^(1/N))
                        inexact=rounded or (N >= 2 and has_node(f, lambda x: x[0] == "xor")),
                        # a symbol occurs in the formula but the truth table does not depend on it
                        syn_irrelevant=bool(syn_symbols(f, N) - set(relevant_of(table(f, N)))),
                        # rank bound of the largest tensor whose norm / sum a predicate thresholds
                        pred_rank=(pair_rank(f, g, N) if g is not None else est_rank(f, N) + 1),
                        # un-recompressed high-rank tensor with inexact cores: tn.norm of a numerically zero tensor
                        # (sqrt of a cancellation error) approaches the 1e-6 threshold of the predicates
                        noise_risk=bool(not rounded and N >= 2 and has_node(f, lambda x: x[0] == "xor") and
                                        (pair_rank(f, g, N) if g is not None else est_rank(f, N) + 1) >= 64),
                        # tn.only applied inside the formula to an operand of the same kind as in `syn_irrelevant`
                        inner_only_cancel=has_node(f, lambda x: x[0] == "only" and inexact_cancel(x[1], N)),
                        root_tucker=False)   # set by run(): does the implementation's formula carry Tucker factors
            c = {"N": N, "f": f, "obs": list(obs), "rounded": rounded, "tags": tags}
            if g is not None:
                c["g"] = g
            cases.append(c)

        def single(N, f, kind, **tags):
            """all observations; relevant/irrelevant/only go to a separate case (own known-findings matcher)"""
            mk(N, f, ["table", "pred"], kind, **tags)
            mk(N, f, ["relevant"], kind, **tags)

        # ---- 1. every Boolean function, four styles, plain and rounded
        def function_cases(N, bits, styles, plain=True):
            for st in styles:
                f = STYLES[st](N, list(bits))
                nsat = sum(bits)
                if plain and est_rank(f, N) <= RANK_BOUND:
                    single(N, f, "function", style=st, nsat=nsat)
                fr = add_rounds(f, rng, 1.0, MIX)
                if fr[0] != "round":    # tn.round at the root (or of a leaf): the result may carry Tucker factors
                    fr = ["round", fr[1] if fr[0] == "round_tt" else fr]
                single(N, fr, "function", style=st, nsat=nsat)

        for N in (1, 2) if quick else (1, 2, 3):
            for bits in itertools.product((0, 1), repeat=2 ** N):
                function_cases(N, bits, list(STYLES))
        if quick:
            fs = rng.sample(list(itertools.product((0, 1), repeat=8)), 40)
            for bits in fs:
                function_cases(3, bits, [rng.choice(list(STYLES))])
        for _ in range(12 if quick else 300):
            bits = [rng.randint(0, 1) for _ in range(16)]
            if rng.random() < 0.3:      # sparse / dense functions keep the un-rounded variant affordable
                keep = rng.sample(range(16), 3)
                v = rng.randint(0, 1)
                bits = [(1 - v) if i in keep else v for i in range(16)]
            function_cases(4, bits, [rng.choice(list(STYLES))])

        # ---- 2. quantifier helpers, every `which`
        for N in (1, 2, 3) if quick else (1, 2, 3, 4):
            subsets = [list(s) for k in range(N + 1) for s in itertools.combinations(range(N), k)]
            for h in ("all", "any", "none", "one"):
                for w in [None] + subsets:
                    single(N, [h, w], "helper", helper=h, which="default" if w is None else "list%d" % len(w))
            # positions counted from the end
            for h in ("all", "any", "none", "one", "presence", "absence"):
                for w in subsets[1:]:
                    if rng.random() < 0.5:
                        single(N, [h, [x - N if rng.random() < 0.6 else x for x in w]], "helper", helper=h, which="negative")
            for h in ("presence", "absence"):
                for w in subsets:
                    single(N, [h, w], "helper", helper=h, which="list%d" % len(w))
                for n in range(N):
                    single(N, [h, n], "helper", helper=h, which="int")
        for N in (4, 5):
            for _ in range(12 if quick else 60):
                h = rng.choice(HELPERS)
                w = rand_which(rng, N, allow_none=h not in ("presence", "absence"))
                if h in ("presence", "absence") and rng.random() < 0.3:
                    w = rng.randrange(N)
                f = [h, list(reversed(w)) + w[:1] if (isinstance(w, list) and rng.random() < 0.3) else w]  # unsorted, duplicate
                single(N, f if rng.random() < 0.6 else ["round", f], "helper", helper=h,
                       which="default" if w is None else ("int" if isinstance(w, int) else "list%d" % len(w)))

        # ---- 3. binary predicates and connectives on pairs
        def pair(N, f, g, kind, **tags):
            mk(N, f, ["pair"], kind, g=g, **tags)

        st = list(STYLES)
        for N in (1, 2):
            fns = list(itertools.product((0, 1), repeat=2 ** N))
            for b1 in fns:
                for b2 in fns:
                    f, g = f_anf(N, list(b1)), f_anf(N, list(b2))      # fallback: ranks <= 15
                    for _ in range(8):
                        f2 = STYLES[rng.choice(st)](N, list(b1)); g2 = STYLES[rng.choice(st)](N, list(b2))
                        if pair_rank(f2, g2, N) <= PAIR_BOUND:
                            f, g = f2, g2
                            break
                    pair(N, f, g, "pair-exhaustive")
                    if not quick or rng.random() < 0.5:
                        kinds = MIX if rng.random() < 0.7 else ("round",)
                        fr = add_rounds(f, rng, 0.6, kinds); gr = add_rounds(g, rng, 0.6, kinds)
                        if not (is_rounded(fr) or is_rounded(gr)):
                            fr = ["round", fr]
                        pair(N, fr, gr, "pair-exhaustive")

        def seeded_pair(N):
            d = rng.randint(2, 4)
            f = bounded_tree(rng, N, d, 24)
            r = rng.random()
            if r < 0.3:
                g = ["or", f, bounded_tree(rng, N, 2, 6)]; rel = "f->g"
            elif r < 0.45:
                f, g = ["and", f, bounded_tree(rng, N, 2, 6)], f; rel = "f->g"
            elif r < 0.7:
                g = rewrite(f); rel = "equiv"
            elif r < 0.8:
                g = ["not", rewrite(f)]; rel = "negation"
            else:
                g = bounded_tree(rng, N, d, 24); rel = "independent"
            if rng.random() < 0.4 or pair_rank(f, g, N) > PAIR_BOUND:
                kinds = MIX if rng.random() < 0.7 else ("round",)
                f = add_rounds(f, rng, 1.0, kinds); g = add_rounds(g, rng, 1.0, kinds)
                if not is_rounded(f):
                    f = ["round", f]
                if not is_rounded(g):
                    g = ["round", g]
            pair(N, f, g, "pair-seeded", relation=rel)

        for N in (3, 4):
            for _ in range(60 if quick else 1200):
                seeded_pair(N)
        if not quick:       # N=3 function pairs in minimal-rank style, rounded
            fns = list(itertools.product((0, 1), repeat=8))
            for _ in range(1500):
                b1 = rng.choice(fns)
                b2 = rng.choice(fns) if rng.random() < 0.5 else tuple(x | y for x, y in zip(b1, rng.choice(fns)))
                f = add_rounds(STYLES[rng.choice(st)](3, list(b1)), rng, 1.0, MIX)
                g = add_rounds(STYLES[rng.choice(st)](3, list(b2)), rng, 1.0, MIX)
                pair(3, f if is_rounded(f) else ["round", f], g if is_rounded(g) else ["round", g], "pair-function")

        # ---- 4. seeded trees, plain and with recompression at random nodes
        for _ in range(130 if quick else 1500):
            N = rng.randint(1, 4)
            f = bounded_tree(rng, N, rng.randint(1, 5), RANK_BOUND, only_ok=rng.random() < 0.3)
            single(N, f, "tree")
        for _ in range(130 if quick else 1500):
            N = rng.randint(1, 4)
            f = bounded_tree(rng, N, rng.randint(1, 5), 4000)
            kinds = rng.choice([("round",), ("round_tt",), MIX, MIX])
            fr = add_rounds(f, rng, 1.0 if est_rank(f, N) > RANK_BOUND else rng.choice([0.3, 0.6, 1.0]), kinds)
            if est_rank(fr, N) > RANK_BOUND:
                fr = add_rounds(f, rng, 1.0, kinds)
            if not is_rounded(fr):
                fr = [kinds[0], fr]
            single(N, fr, "tree")

        # ---- 5. noisy contradictions / tautologies: thresholds of the predicates
        for _ in range(40 if quick else 400):
            N = rng.randint(1, 4)
            f = bounded_tree(rng, N, rng.randint(1, 3), 12)
            fr = add_rounds(f, rng, 1.0, rng.choice([("round",), MIX]))
            if not is_rounded(fr):
                fr = ["round", fr]
            z = ["xor", fr, f]
            single(N, z if rng.random() < 0.5 else ["not", z], "noisy")
            pair(N, fr, rewrite(f) if rng.random() < 0.5 else f, "noisy", relation="equiv")
        # ---- 5b. contradictions / tautologies whose operands were each recompressed (leaves included) and whose root is
        #          not: the cancellation happens inside / across the Tucker factors that tn.round leaves behind
        def rnd(h):
            return [rng.choice(["round", "round", "round_tt"]), h]
        for _ in range(60 if quick else 500):
            N = rng.randint(1, 4)
            v = rng.randrange(N)
            h = ["sym", v] if rng.random() < 0.4 else bounded_tree(rng, N, rng.randint(1, 2), 12)
            h2 = rewrite(h) if rng.random() < 0.4 else h
            if est_rank(["not", h2], N) > 32:        # cost guard: the operands are built unrounded before tn.round sees them
                h2 = h
            if est_rank(["not", h], N) > 32:
                continue
            r = rng.random()
            if r < 0.35:
                z = ["and", rnd(h), rnd(["not", h2])]           # contradiction
            elif r < 0.7:
                z = ["xor", rnd(h), rnd(h2)]                      # contradiction
            else:
                z = ["or", rnd(h), rnd(["not", h2])]            # tautology
            single(N, z, "cancel-rounded", first_var=bool(v == 0))
            if rng.random() < 0.3:
                single(N, ["not", z], "cancel-rounded", first_var=bool(v == 0))
        return cases

    # ---------------------------------------------------------------- implementation
    def run(self, case):
        try:
            N = case["N"]
            syms = tn.symbols(N)
            t = build(case["f"], N, syms)
            out = {"ok": True}
            if "relevant" in case["obs"]:
                # descriptive tag for the known-findings matcher (check.py reads the tags after run()): Tucker factors
                # exist only after tn.round, and whether it creates them depends on the numerical error it reached
                case.setdefault("tags", {})["root_tucker"] = bool(any(U is not None for U in t.Us))
            dense = lambda x: x.torch().detach().double().reshape(-1).tolist()
            for o in case["obs"]:
                if o == "table":
                    out["shape"] = list(t.shape)
                    out["dense"] = dense(t)
                    out["sum"] = float(tn.sum(t))
                elif o == "pred":
                    out["taut"] = bool(tn.is_tautology(t))
                    out["contr"] = bool(tn.is_contradiction(t))
                    out["sat"] = bool(tn.is_satisfiable(t))
                elif o == "relevant":
                    out["relevant"] = [int(n) for n in tn.relevant_symbols(t)]
                    out["irrelevant"] = [int(n) for n in tn.irrelevant_symbols(t)]
                    out["only"] = dense(tn.only(t))
                elif o == "pair":
                    u = build(case["g"], N, syms)
                    out["implies"] = bool(tn.implies(t, u))
                    out["implies_rev"] = bool(tn.implies(u, t))
                    out["equiv"] = bool(tn.equiv(t, u))
                    out["and"] = dense(t & u)
                    out["or"] = dense(t | u)
                    out["xor"] = dense(t ^ u)
                    out["dense"] = dense(t)
                    out["dense_g"] = dense(u)
            return out
        except Exception as e:
            return {"ok": False, "err": type(e).__name__, "msg": str(e)[:200]}

    # ---------------------------------------------------------------- specification
    def expected(self, case):
        N = case["N"]
        T = table(case["f"], N)
        ints = lambda A: A.astype(int).reshape(-1).tolist()
        out = {"ok": True}
        for o in case["obs"]:
            if o == "table":
                out["shape"] = [2] * N
                out["dense"] = ints(T)
                out["sum"] = int(T.sum())
            elif o == "pred":
                out["taut"] = bool(T.all()); out["contr"] = bool(not T.any()); out["sat"] = bool(T.any())
            elif o == "relevant":
                rel = relevant_of(T)
                out["relevant"] = rel
                out["irrelevant"] = [n for n in range(N) if n not in rel]
                out["only"] = ints(only_table(T))
            elif o == "pair":
                G = table(case["g"], N)
                out["implies"] = bool(np.all(~T | G)); out["implies_rev"] = bool(np.all(~G | T))
                out["equiv"] = bool(np.array_equal(T, G))
                out["and"] = ints(T & G); out["or"] = ints(T | G); out["xor"] = ints(T ^ G)
                out["dense"] = ints(T); out["dense_g"] = ints(G)
        return out

    def agree(self, case, res, exp):
        if not res.get("ok"):
            return False, "implementation raised %s: %s" % (res.get("err"), res.get("msg"))
        rounded = case.get("rounded", False)

        def same_dense(key):
            a = res[key]; b = exp[key]
            if len(a) != len(b):
                return "%s has %d entries, expected %d" % (key, len(a), len(b))
            if rounded:
                if not close(a, b, 1e-6):
                    return "%s %s differs from the truth table %s" % (key, a[:16], b[:16])
            elif canon_dense(a) != b:
                return "%s %s is not the truth table %s" % (key, a[:16], b[:16])
            return None

        for key in ("dense", "dense_g", "and", "or", "xor", "only"):
            if key in exp:
                m = same_dense(key)
                if m:
                    return False, m
        if "shape" in exp and res["shape"] != exp["shape"]:
            return False, "shape %s, expected %s" % (res["shape"], exp["shape"])
        if "sum" in exp:
            s = res["sum"]
            if (rounded and not close([s], [exp["sum"]], 1e-6)) or (not rounded and canon_int(s) != exp["sum"]):
                return False, "sum %r, but the formula has %d satisfying assignments" % (s, exp["sum"])
        for key in ("taut", "contr", "sat", "implies", "implies_rev", "equiv"):
            if key in exp and res[key] != exp[key]:
                return False, "%s returned %s, truth table says %s" % (key, res[key], exp[key])
        for key in ("relevant", "irrelevant"):
            if key in exp and list(res[key]) != exp[key]:
                return False, "%s symbols %s, truth table depends on %s" % (key, res[key], exp[key])
        return True, ""

    def nontrivial(self, case, res):
        if not res.get("ok"):
            return False
        if "g" in case:
            return True
        T = table(case["f"], case["N"])
        return bool(T.any() and not T.all())

    def signature(self, case):
        return "%d;%s;%s;%s" % (case["N"], json.dumps(case["f"]), json.dumps(case.get("g")), "+".join(case["obs"]))

    def coq_term(self, case, res):
        """unrounded formulas over symbols, constants, ~ & | ^ and the all/none/presence/absence/any helpers"""
        if not res.get("ok") or "dense" not in res or "table" not in case.get("obs", []):
            return None
        N = case["N"]
        if case.get("tags", {}).get("pred_rank", 0) > 40:
            return None        # the functional model is evaluated entry by entry: keep it to moderate ranks
        def wl(w):
            if w is None:
                return list(range(N))
            return [int(w) % N] if isinstance(w, int) else [int(x) % N for x in w]
        def tr(f):
            op = f[0]
            if op == "sym": return "(BSym %d)" % f[1]
            if op == "true": return "BTrue"
            if op == "false": return "BFalse"
            if op == "not": return "(BNot %s)" % tr(f[1])
            if op in ("and", "or", "xor"): return "(B%s %s %s)" % (op.capitalize(), tr(f[1]), tr(f[2]))
            if op in ("all", "presence"): return "(BPresence %s)" % coq_natlist(wl(f[1]))
            if op in ("none", "absence"): return "(BAbsence %s)" % coq_natlist(wl(f[1]))
            if op == "any": return "(BNot (BAbsence %s))" % coq_natlist(wl(f[1]))
            raise KeyError(op)
        try:
            t = tr(case["f"])
        except (KeyError, IndexError, TypeError):
            return None
        dense = canon_dense(res["dense"])
        if dense is None:
            dense = [10 ** 9]
        return "mkCase %d %s %s" % (N, t, coq_list(dense))
