(* anova.py: anova_decomposition replaces every factor U_n (identity if absent) by
   [E_n U_n ; U_n - E_n U_n], i.e. applies to mode n the (I_n+1) x I_n matrix A with rows
   A[0] = w (normalised marginal) and A[i+1] = e_i - w;  undo applies B[i] = e_{i+1} + e_0.
   No proofs in this file. *)
From TN Require Export Model.Tools.
Section Anova.
Variable K : Ops.
Local Open Scope K_scope.
Notation net := (list (score K)).

Definition amat (w : nat -> K) : nat -> nat -> K :=
  fun i j => match i with O => w j | S i' => delta i' j - w j end.
Definition bmat : nat -> nat -> K := fun i j => delta j (S i) + delta j O.

Fixpoint anova_net (ws : list (nat -> K)) (cs : net) : net :=
  match ws, cs with
  | w :: ws', c :: cs' => lin (amat w) (S (dm c)) c :: anova_net ws' cs'
  | _, _ => cs
  end.
Definition undo_net (cs : net) : net := map (fun c => lin bmat (dm c - 1) c) cs.

(* dense counterpart: a list of per-mode matrices applied to a function of the index *)
Fixpoint dlin (Ls : list (nat -> nat -> K)) (ds : list nat) (F : list nat -> K) (idx : list nat) : K :=
  match Ls, ds, idx with
  | L :: Ls', d :: ds', i :: idx' => sumn d (fun j => L i j * dlin Ls' ds' (fun r => F (j :: r)) idx')
  | _, _, _ => F []
  end.
End Anova.
Arguments amat {K}. Arguments bmat {K}. Arguments anova_net {K}. Arguments undo_net {K}. Arguments dlin {K}.
