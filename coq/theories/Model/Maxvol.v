(* Executable model of tntorch/maxvol.py: py_maxvol (square maximum-volume row selection) and py_rect_maxvol
   (rectangular / greedy row additions).  The model is generic in the carrier K (Alg/Ops.v) and in three extra
   operations (reciprocal, modulus, decidable order); it is executed on QO (rationals, Qred) in Harness/H_C17.v and
   its theorems (Proofs/MaxvolP.v) hold for every lawful carrier.
   ORACLES (not modelled, replayed): LAPACK getrf (only its pivot vector ipiv is used by the code for the index;
   H = LU factors go into the two trtrs solves) and the two trtrs solves that turn C = A^T into the initial
   coefficient matrix.  The model receives `ipiv` and the initial `C0` (r x N, the layout the code uses: C is stored
   transposed) and mirrors everything else: parameter clamping, the pivot permutation loop, the argmax with NumPy's
   first-maximum rule on the row-major flattening of C[:, :top_k] followed by divmod, the stopping rule, index[i] = j,
   the rank-one update through ger, the returned index[:r] and C^T; for the rectangular routine the clamping of
   maxK / minK / min_add_K / top_k_index, the chosen mask, row_norm_sqr bookkeeping, the appended column, the final
   identity rows.  No proofs in this file. *)
From TN Require Export Alg.Ops.
From Coq Require Import ZArith.

Section MaxvolModel.
Variable K : Ops.
Variable inv : K -> K.            (* 1.0 / x *)
Variable absv : K -> K.           (* abs(x) *)
Variable leb : K -> K -> bool.    (* x <= y *)
Variable c105 : K.                (* the literal 1.05 of py_rect_maxvol's call of py_maxvol *)
Local Open Scope K_scope.

Definition gtb (x y : K) : bool := negb (leb x y).     (* x > y *)

(* matrices: lists of rows *)
Definition mat := list (list K).
Definition mget (M : mat) (i j : nat) : K := nth j (nth i M []) 0.
Definition mtab (n m : nat) (f : nat -> nat -> K) : mat :=
  map (fun i => map (fun j => f i j) (seq 0 m)) (seq 0 n).
Definition eye (n : nat) : mat := mtab n n (fun i j => delta i j).

(* numpy.argmax of a vector f(0..n-1): the FIRST maximum *)
Fixpoint amax (f : nat -> K) (n : nat) : nat :=
  match n with
  | O => O
  | S m => let b := amax f m in if gtb (f m) (f b) then m else b
  end.

(* if top_k_index == -1 or top_k_index > N: top_k_index = N;  if top_k_index < r: top_k_index = r *)
Definition clamp_topk (t : Z) (N r : nat) : nat :=
  let t1 := if (t =? -1)%Z || (Z.of_nat N <? t)%Z then N else Z.to_nat t in
  if (t1 <? r)%nat then r else t1.

(* for i in range(r): tmp = index[i]; index[i] = index[ipiv[i]]; index[ipiv[i]] = tmp *)
Definition swap_step (idx : list nat) (i p : nat) : list nat :=
  let tmp := nth i idx O in upd p (upd i idx (nth p idx O)) tmp.
Fixpoint pivots (idx : list nat) (i : nat) (ipiv : list nat) : list nat :=
  match ipiv with
  | [] => idx
  | p :: t => pivots (swap_step idx i p) (S i) t
  end.

(* tmp_row = C[i]; tmp_column = C[:, j]; tmp_column[i] -= 1; alpha = -1/C[i, j]; C += alpha * tmp_column (x) tmp_row *)
Definition sq_update (C : mat) (r N i j : nat) : mat :=
  let alpha := - inv (mget C i j) in
  mtab r N (fun p q => mget C p q + alpha * ((mget C p j - delta p i) * mget C i q)).

(* i, j = divmod(abs(C[:, :top_k]).argmax(), top_k) *)
Definition sq_argmax (C : mat) (r topk : nat) : nat * nat :=
  let k := amax (fun k => absv (mget C (k / topk) (k mod topk))) (r * topk) in
  (k / topk, k mod topk)%nat.

(* while abs(C[i, j]) > tol and iters < max_iters: ...   fuel = max_iters - iters; returns (index, C, iters) *)
Fixpoint sq_loop (fuel r N topk : nat) (tol : K) (idx : list nat) (C : mat) (iters : nat) : list nat * mat * nat :=
  match fuel with
  | O => (idx, C, iters)
  | S f =>
      let '(i, j) := sq_argmax C r topk in
      if gtb (absv (mget C i j)) tol
      then sq_loop f r N topk tol (upd i idx j) (sq_update C r N i j) (S iters)
      else (idx, C, iters)
  end.

Definition sq_tol (tol : K) : K := if gtb 1 tol then 1 else tol.      (* if tol < 1: tol = 1.0 *)

Definition transpose (n m : nat) (C : mat) : mat := mtab n m (fun q p => mget C p q).

(* state of py_maxvol at the return statement, before slicing/transposing (used by the theorems) *)
Definition maxvol_run (N r : nat) (tol : K) (max_iters : nat) (topk_arg : Z) (ipiv : list nat) (C0 : mat)
  : list nat * mat * nat :=
  sq_loop max_iters r N (clamp_topk topk_arg N r) (sq_tol tol) (pivots (seq 0 N) 0 (firstn r ipiv)) C0 0.

Definition py_maxvol (N r : nat) (tol : K) (max_iters : nat) (topk_arg : Z) (ipiv : list nat) (C0 : mat)
  : list nat * mat :=
  if (N <=? r)%nat then (seq 0 N, eye N)
  else let '(idx, C, _) := maxvol_run N r tol max_iters topk_arg ipiv C0 in
       (firstn r idx, transpose N r C).

(* ------------------------------------------------------------------ py_rect_maxvol *)
(* normalisation of maxK, minK, min_add_K (N > r) *)
Definition rect_params (N r : nat) (maxK min_add_K minK : option Z) : nat * nat :=
  let Nz := Z.of_nat N in let rz := Z.of_nat r in
  let mk := match maxK with None => Nz | Some m => if (m >? Nz)%Z then Nz else m end in
  let mk := if (mk <? rz)%Z then rz else mk in
  let mn := match minK with None => rz | Some m => if (m <? rz)%Z then rz else m end in
  let mn := if (mn >? Nz)%Z then Nz else mn in
  let mn := match min_add_K with None => mn | Some a => Z.max mn (rz + a) end in
  let mn := if (mn >? mk)%Z then mk else mn in
  (Z.to_nat mk, Z.to_nat mn).

Definition dotrow (C : mat) (t i Kc : nat) : K := sumn Kc (fun p => mget C t p * mget C i p).
Definition b2k (b : bool) : K := if b then 1 else 0.

(* np.where(chosen > 0, row_norm_sqr, -1.0).argmax() *)
Definition rect_pick (topk : nat) (chosen : list bool) (rns : list K) : nat :=
  amax (fun t => if nth t chosen false then nth t rns 0 else - (1)) topk.

Record rstate := mkRS { rs_index : list nat; rs_chosen : list bool; rs_C : mat; rs_rns : list K; rs_i : nat; rs_K : nat }.

(* one pass through the body of the while loop *)
Definition rect_step (N topk : nat) (s : rstate) : rstate :=
  let i := rs_i s in let Kc := rs_K s in let C := rs_C s in
  let index' := upd Kc (rs_index s) i in
  let chosen' := upd i (rs_chosen s) false in
  let v := map (fun t => dotrow C t i Kc) (seq 0 N) in              (* v = C.dot(c), c = C[i] *)
  let l := inv (1 + nth i v 0) in                                    (* l = 1/(1 + v[i]) *)
  let C' := mtab N (S Kc) (fun t p => if (p <? Kc)%nat then mget C t p - l * nth t v 0 * mget C i p
                                      else l * nth t v 0) in         (* ger(-l, v, c); hstack([C, l*v]) *)
  let rns' := map (fun t => (nth t (rs_rns s) 0 - l * nth t v 0 * nth t v 0) * b2k (nth t chosen' false))
                  (seq 0 topk) in                                    (* rns -= l v^2; rns *= chosen *)
  mkRS index' chosen' C' rns' (rect_pick topk chosen' rns') (S Kc).

Definition rect_cond (maxK minK : nat) (tol2 : K) (s : rstate) : bool :=
  (gtb (nth (rs_i s) (rs_rns s) 0) tol2 && (rs_K s <? maxK)%nat) || (rs_K s <? minK)%nat.

Fixpoint rect_loop (fuel N topk maxK minK : nat) (tol2 : K) (s : rstate) : rstate :=
  match fuel with
  | O => s
  | S f => if rect_cond maxK minK tol2 s then rect_loop f N topk maxK minK tol2 (rect_step N topk s) else s
  end.

(* C[index[:K]] = eye(K): row index[p] <- e_p, p = 0..K-1 in this order *)
Definition set_identity (C : mat) (index : list nat) (Kc : nat) : mat :=
  fold_left (fun M p => upd (nth p index O) M (map (fun q => delta p q) (seq 0 Kc))) (seq 0 Kc) C.

Definition rect_init (N r topk : nat) (tmp : list nat) (C : mat) : rstate :=
  let index0 := firstn N (tmp ++ repeat O N) in                      (* index = zeros(N); index[:r] = tmp_index *)
  let chosen0 := fold_left (fun ch t => upd t ch false) tmp (repeat true topk) in
  let rns0 := map (fun t => b2k (nth t chosen0 false) * dotrow C t t r) (seq 0 topk) in
  mkRS index0 chosen0 C rns0 (rect_pick topk chosen0 rns0) r.

Definition py_rect_maxvol (N r : nat) (tol : K) (maxK min_add_K minK : option Z) (start_iters : nat)
  (identity : bool) (topk_arg : Z) (ipiv : list nat) (C0 : mat) : list nat * mat :=
  if (N <=? r)%nat then (seq 0 N, eye N)
  else
    let tol2 := tol * tol in
    let '(mK, mn) := rect_params N r maxK min_add_K minK in
    let topk := clamp_topk topk_arg N r in
    let '(tmp, C) := py_maxvol N r c105 start_iters (Z.of_nat topk) ipiv C0 in
    (* fuel: the loop condition implies K < maxK <= N, so it runs at most N - r times (Proofs: rect_fuel_enough) *)
    let s := rect_loop N N topk mK mn tol2 (rect_init N r topk tmp C) in
    let C' := if identity then set_identity (rs_C s) (rs_index s) (rs_K s) else rs_C s in
    (firstn (rs_K s) (rs_index s), C').

End MaxvolModel.

Arguments mget {K} M i j.
Arguments mtab {K} n m f.
Arguments eye {K} n.
