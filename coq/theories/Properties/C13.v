(* C13 -- orthogonalisation yields the documented gauge without changing the tensor.  Statements only.
   Model: Model/Ortho.v; the QR factorisation is an oracle whose contract (A = Q R, orthonormal columns of Q)
   appears as the hypotheses qr_exact / qr_orthonormal -- validated numerically on every call the
   implementation makes (harness/props/c13.py). *)
From TN Require Import Proofs.OrthoP Alg.Inst.

Section C13.
Variable K : Ops.
Hypothesis Kth : laws K.
Variable qr : nat -> nat -> (nat -> nat -> K) -> nat * (nat -> nat -> K) * (nat -> nat -> K).
Local Open Scope K_scope.

(* left_orthogonalize(mu): core mu becomes Q, the returned R is pushed into core mu+1, the tensor is unchanged *)
Theorem C13_left_unchanged : forall (c next : score K) rest i j idx v p,
  qr_exact qr (rl c * dm c) (rr c) (left_unf c) -> rl next = rr c -> (i < dm c)%nat -> (p < rl c)%nat ->
  let '(c', next') := left_step qr c next in
  evalv (c' :: next' :: rest) (i :: j :: idx) v p = evalv (c :: next :: rest) (i :: j :: idx) v p.
Proof. exact (left_step_sound K Kth qr). Qed.

Theorem C13_left_gauge : forall (c next : score K),
  qr_orthonormal qr (rl c * dm c) (rr c) (left_unf c) -> left_orthonormal (fst (left_step qr c next)).
Proof. exact (left_step_gauge K Kth qr). Qed.

Theorem C13_right_unchanged : forall (prev c : score K) rest i j idx v p,
  qr_exact qr (dm c * rr c) (rl c) (right_unf_t c) -> rr prev = rl c -> (j < dm c)%nat ->
  let '(prev', c') := right_step qr prev c in
  evalv (prev' :: c' :: rest) (i :: j :: idx) v p = evalv (prev :: c :: rest) (i :: j :: idx) v p.
Proof. exact (right_step_sound K Kth qr). Qed.

Theorem C13_right_gauge : forall (prev c : score K),
  qr_orthonormal qr (dm c * rr c) (rl c) (right_unf_t c) -> right_orthonormal (snd (right_step qr prev c)).
Proof. exact (right_step_gauge K Kth qr). Qed.

(* isometry of a right-orthonormal chain, and the norm identity after orthogonalize(0) *)
Theorem C13_isometry : forall (cs : list (score K)) r (x y : nat -> K), rchain K r cs ->
  sumidx (sshape cs) (fun idx => sumn r (fun p => x p * evalv cs idx ones p) * sumn r (fun p' => y p' * evalv cs idx ones p'))
  = sumn r (fun p => x p * y p).
Proof. exact (isometry_right K Kth). Qed.

Theorem C13_norm : forall (c : score K) (cs : list (score K)), rl c = 1%nat -> rchain K (rr c) cs ->
  sumidx (sshape (c :: cs)) (fun idx => eval (c :: cs) idx * eval (c :: cs) idx) =
  sumn (dm c) (fun i => sumn (rr c) (fun q => sl c i O q * sl c i O q)).
Proof. exact (norm_first_core K Kth). Qed.
End C13.

Print Assumptions C13_left_unchanged.
Print Assumptions C13_left_gauge.
Print Assumptions C13_right_unchanged.
Print Assumptions C13_right_gauge.
Print Assumptions C13_isometry.
Print Assumptions C13_norm.
