From TN Require Export Harness.HBase Model.Convert Model.FullRank.

Inductive op1 :=
| ORoundtrip (sh : list nat) (x : list Z)            (* tn.Tensor(x).torch() *)
| OTT (t : tensor ZO) | ODecomp (sel : list bool) (t : tensor ZO)
| OCpToTT (t : tensor ZO) | OTranspose (t : tensor ZO) | OClone (t : tensor ZO).

Record case := mkCase { c_op : op1; c_shape : list nat; c_dense : list Z }.

Definition run (o : op1) : list nat * list Z :=
  match o with
  | ORoundtrip sh x =>
      let cs := full_rank_tt (K:=ZO) sh (fun k => nth k x 0%Z) in (sshape cs, dense_of (eval cs) (sshape cs))
  | OTT t => (shape (tt t), dense_of (den (tt t)) (shape (tt t)))
  | ODecomp sel t => let r := decompress_sel sel t in (shape r, dense_of (den r) (shape r))
  | OCpToTT t => let r := cp_to_tt t in (shape r, dense_of (den r) (shape r))
  | OTranspose t => let r := transpose t in (shape r, dense_of (den r) (shape r))
  | OClone t => (shape t, dense_of (den t) (shape t))
  end.

Definition check (c : case) : bool :=
  let r := run (c_op c) in shape_eqb (fst r) (c_shape c) && list_cmp cmpZ (snd r) (c_dense c).
