(* Theorems about the vector-calculus routines the translator regenerates from derivatives.py
   (Gen/Generated.v: divergence, curl, laplacian; variant P = bounds given as one pair per mode).
   The kernels (partial derivative along one mode, Python's sum of tensors, addition and scaling) are abstract; their
   specifications are the hypotheses H_*, each a theorem of the kernel layer (Properties/C20.v, C02.v). *)
From TN Require Import Alg.InstR Gen.Generated Proofs.GenP.
From Coq Require Import List Lia.
Import ListNotations.

Section GenDerivP.
Variable tensor : Type.
Variables t_add : tensor -> tensor -> tensor.
Variable t_smul : R -> tensor -> tensor.
Variable t_dim : tensor -> nat.
Variable tseq : Type.
Variable s_nth : tseq -> nat -> tensor.
Variable s_len : tseq -> nat.
Variables bnds bnd : Type.
Variable b_at : bnds -> nat -> bnd.
Variable t_partial : tensor -> nat -> nat -> bnd -> tensor.
Variable t_pysum : list tensor -> tensor.
Variable den : tensor -> list nat -> R.
Variable sh : list nat.
Open Scope R_scope.
Variable ok : tensor -> Prop.
Notation inr i := (in_range sh i = true).
(* the dense partial derivative: mode, order, bounds of that mode, array -> array *)
Variable D : nat -> nat -> bnd -> (list nat -> R) -> list nat -> R.

Hypothesis H_add : forall a b, ok a -> ok b -> ok (t_add a b) /\ forall i, inr i -> den (t_add a b) i = den a i + den b i.
Hypothesis H_smul : forall c a, ok a -> ok (t_smul c a) /\ forall i, inr i -> den (t_smul c a) i = c * den a i.
Hypothesis H_partial : forall a d o b, ok a -> (d < length sh)%nat ->
  ok (t_partial a d o b) /\ forall i, inr i -> den (t_partial a d o b) i = D d o b (den a) i.
Hypothesis H_pysum : forall l, l <> [] -> Forall ok l ->
  ok (t_pysum l) /\ forall i, inr i -> den (t_pysum l) i = fold_right (fun x acc => den x i + acc) 0 l.

Notation g_sub := (gen_tensor_sub_TT tensor t_add t_smul).
Notation g_curl := (gen_derivatives_curl_P tensor t_add t_smul tseq s_nth bnds bnd b_at t_partial).
Notation g_lap := (gen_derivatives_laplacian_P tensor t_dim bnds bnd b_at t_partial t_pysum).
Notation g_div := (gen_derivatives_divergence_P tensor tseq s_nth s_len bnds bnd b_at t_partial t_pysum).

Fixpoint sum_upto (n : nat) (f : nat -> R) : R := match n with O => 0 | S k => sum_upto k f + f k end.

Lemma fold_map_seq (f : nat -> R) : forall n a,
  fold_right (fun x acc => x + acc) 0 (map f (seq a n)) = sum_upto n (fun k => f (a + k)%nat).
Proof.
  induction n as [|n IH]; intros a; [reflexivity|].
  rewrite seq_S, map_app, fold_right_app. cbn [map fold_right sum_upto].
  rewrite <- IH. clear IH. generalize (f (a + n)%nat) as x. generalize (map f (seq a n)) as l.
  induction l as [|y l IHl]; intros x; cbn [fold_right]; [lra|]. rewrite IHl. lra.
Qed.

(* curl: three components, each the difference of two first-order partial derivatives, each partial taken along its
   own mode with that mode's bounds *)
Theorem gen_curl_spec (ts : tseq) (b : bnds) : length sh = 3%nat ->
  ok (s_nth ts 0) -> ok (s_nth ts 1) -> ok (s_nth ts 2) ->
  exists c0 c1 c2, g_curl ts b = [c0; c1; c2] /\ ok c0 /\ ok c1 /\ ok c2 /\
  forall i, inr i ->
    den c0 i = D 1 1 (b_at b 1) (den (s_nth ts 2)) i - D 2 1 (b_at b 2) (den (s_nth ts 1)) i /\
    den c1 i = D 2 1 (b_at b 2) (den (s_nth ts 0)) i - D 0 1 (b_at b 0) (den (s_nth ts 2)) i /\
    den c2 i = D 0 1 (b_at b 0) (den (s_nth ts 1)) i - D 1 1 (b_at b 1) (den (s_nth ts 0)) i.
Proof.
  intros L H0 H1 H2. unfold gen_derivatives_curl_P.
  assert (P: forall k d, ok (s_nth ts k) -> (d < 3)%nat -> ok (t_partial (s_nth ts k) d 1 (b_at b d)) /\
            forall i, inr i -> den (t_partial (s_nth ts k) d 1 (b_at b d)) i = D d 1 (b_at b d) (den (s_nth ts k)) i).
  { intros k d Hk Hd. apply H_partial; [exact Hk|rewrite L; exact Hd]. }
  destruct (P 2%nat 1%nat H2 ltac:(lia)) as [O21 E21]. destruct (P 1%nat 2%nat H1 ltac:(lia)) as [O12 E12].
  destruct (P 0%nat 2%nat H0 ltac:(lia)) as [O02 E02]. destruct (P 2%nat 0%nat H2 ltac:(lia)) as [O20 E20].
  destruct (P 1%nat 0%nat H1 ltac:(lia)) as [O10 E10]. destruct (P 0%nat 1%nat H0 ltac:(lia)) as [O01 E01].
  destruct (gen_sub_den tensor t_add t_smul den sh ok H_add H_smul _ _ O21 O12) as [Oa Ea].
  destruct (gen_sub_den tensor t_add t_smul den sh ok H_add H_smul _ _ O02 O20) as [Ob Eb].
  destruct (gen_sub_den tensor t_add t_smul den sh ok H_add H_smul _ _ O10 O01) as [Oc Ec].
  eexists _, _, _. split; [reflexivity|]. split; [exact Oa|]. split; [exact Ob|]. split; [exact Oc|].
  intros i Hi. rewrite Ea, Eb, Ec, E21, E12, E02, E20, E10, E01 by exact Hi. auto.
Qed.

Lemma den_sum_map (f : nat -> tensor) i : forall l,
  fold_right (fun x acc => den x i + acc) 0 (map f l) = fold_right (fun x acc => x + acc) 0 (map (fun n => den (f n) i) l).
Proof. induction l as [|x l IH]; cbn [map fold_right]; [reflexivity|]. rewrite IH. reflexivity. Qed.

(* laplacian: the sum over all modes of the second-order partial derivative along that mode *)
Theorem gen_laplacian_spec (t : tensor) (b : bnds) : ok t -> t_dim t = length sh -> sh <> [] ->
  ok (g_lap t b) /\ forall i, inr i ->
    den (g_lap t b) i = sum_upto (length sh) (fun n => D n 2 (b_at b n) (den t) i).
Proof.
  intros Ht Hd Hne. unfold gen_derivatives_laplacian_P. rewrite Hd.
  assert (Hall: Forall ok (map (fun n : nat => t_partial t n 2 (b_at b n)) (seq 0 (length sh)))).
  { apply Forall_forall. intros x Hx. apply in_map_iff in Hx. destruct Hx as (n & <- & Hn). apply in_seq in Hn.
    apply H_partial; [exact Ht|lia]. }
  assert (Hnn: map (fun n : nat => t_partial t n 2 (b_at b n)) (seq 0 (length sh)) <> []).
  { intros Hm. apply (f_equal (@length _)) in Hm. rewrite map_length, seq_length in Hm.
    clear - Hm Hne. destruct sh; [congruence|discriminate]. }
  destruct (H_pysum _ Hnn Hall) as [O E]. split; [exact O|]. intros i Hi. rewrite E by exact Hi.
  rewrite den_sum_map.
  rewrite (map_ext_in _ (fun n => D n 2 (b_at b n) (den t) i)).
  - rewrite fold_map_seq. reflexivity.
  - intros n Hn. apply in_seq in Hn. apply H_partial; [exact Ht|lia|exact Hi].
Qed.

(* divergence: the sum over all modes n of the first-order partial derivative of component n along mode n *)
Theorem gen_divergence_spec (ts : tseq) (b : bnds) : s_len ts = length sh -> sh <> [] ->
  (forall n, (n < length sh)%nat -> ok (s_nth ts n)) ->
  ok (g_div ts b) /\ forall i, inr i ->
    den (g_div ts b) i = sum_upto (length sh) (fun n => D n 1 (b_at b n) (den (s_nth ts n)) i).
Proof.
  intros Hd Hne Hts. unfold gen_derivatives_divergence_P. rewrite Hd.
  assert (Hall: Forall ok (map (fun n : nat => t_partial (s_nth ts n) n 1 (b_at b n)) (seq 0 (length sh)))).
  { apply Forall_forall. intros x Hx. apply in_map_iff in Hx. destruct Hx as (n & <- & Hn). apply in_seq in Hn.
    apply H_partial; [apply Hts; lia|lia]. }
  assert (Hnn: map (fun n : nat => t_partial (s_nth ts n) n 1 (b_at b n)) (seq 0 (length sh)) <> []).
  { intros Hm. apply (f_equal (@length _)) in Hm. rewrite map_length, seq_length in Hm.
    clear - Hm Hne. destruct sh; [congruence|discriminate]. }
  destruct (H_pysum _ Hnn Hall) as [O E]. split; [exact O|]. intros i Hi. rewrite E by exact Hi.
  rewrite (den_sum_map (fun n => t_partial (s_nth ts n) n 1 (b_at b n))).
  rewrite (map_ext_in _ (fun n => D n 1 (b_at b n) (den (s_nth ts n)) i)).
  - rewrite fold_map_seq. reflexivity.
  - intros n Hn. apply in_seq in Hn. apply H_partial; [apply Hts; lia|lia|exact Hi].
Qed.
End GenDerivP.
