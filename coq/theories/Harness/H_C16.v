From TN Require Export Harness.HBase Model.Automata Sem.Fast Proofs.AcceptedFast.
(* the evaluators used here are the list-based ones, proved equal to eval / accepted_inputs
   (Sem/Fast.eval_l_sound, Proofs/AcceptedFast.accepted_inputs_l_sound) *)

Inductive op16 :=
| OMask (w nss : list nat)            (* tn.weight_mask(N, w, nsymbols) *)
| OWeight (nss : list nat)            (* tn.weight(N, nsymbols) *)
| OOneHot (r : nat) (nss : list nat)  (* tn.weight_one_hot(N, r, nsymbols), last bond open *)
| OAccepted (t : tensor ZO).          (* tn.accepted_inputs(t) *)

Record case := mkCase { c_op : op16; c_dense : list Z; c_rows : list (list nat) }.

Definition check (c : case) : bool :=
  match c_op c with
  | OMask w nss => list_cmp cmpZ (dense_of (eval_l (K:=ZO) (weight_mask_u w nss)) nss) (c_dense c)
  | OWeight nss => list_cmp cmpZ (dense_of (eval_l (K:=ZO) (weight_net nss)) nss) (c_dense c)
  | OOneHot r nss =>
      (* the last bond is left open: entry (x, k) = k-th component of the propagated row vector *)
      list_cmp cmpZ (flat_map (fun idx => propl (K:=ZO) [1%Z] (one_hot_net r nss) idx) (all_idx nss)) (c_dense c)
  | OAccepted t => list_eqb (list_eqb Nat.eqb) (accepted_inputs_l (sem t)) (c_rows c)
  end.
