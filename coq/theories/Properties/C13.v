(* C13 -- orthogonalisation yields the documented gauge without changing the tensor.  Statements only.
   Model: Model/Ortho.v; the QR factorisation is an oracle whose contract (A = Q R, orthonormal columns of Q)
   appears as the hypotheses qr_exact / qr_orthonormal -- validated numerically on every call the
   implementation makes (harness/props/c13.py). *)
From TN Require Import Proofs.OrthoP Proofs.SandwichP Proofs.OrthoSweepP Proofs.FactorOrthoP Alg.Inst.

Section C13.
Variable K : Ops.
Hypothesis Kth : laws K.
Variable qr : nat -> nat -> (nat -> nat -> K) -> nat * (nat -> nat -> K) * (nat -> nat -> K).
Local Open Scope K_scope.

(* left_orthogonalize(mu): core mu becomes Q, the returned R is pushed into core mu+1, the tensor is unchanged *)
Theorem C13_left_unchanged : forall (c next : score K) rest i j idx v p,
  qr_exact qr (rl c * dm c) (rr c) (left_unf c) -> rl next = rr c -> (i < dm c)%nat -> (p < rl c)%nat ->
  let '(c', next') := left_step qr c next in
  evalv (c' :: next' :: rest) (i :: j :: idx) v p = evalv (c :: next :: rest) (i :: j :: idx) v p.
Proof. exact (left_step_sound K Kth qr). Qed.

Theorem C13_left_gauge : forall (c next : score K),
  qr_orthonormal qr (rl c * dm c) (rr c) (left_unf c) -> left_orthonormal (fst (left_step qr c next)).
Proof. exact (left_step_gauge K Kth qr). Qed.

Theorem C13_right_unchanged : forall (prev c : score K) rest i j idx v p,
  qr_exact qr (dm c * rr c) (rl c) (right_unf_t c) -> rr prev = rl c -> (j < dm c)%nat ->
  let '(prev', c') := right_step qr prev c in
  evalv (prev' :: c' :: rest) (i :: j :: idx) v p = evalv (prev :: c :: rest) (i :: j :: idx) v p.
Proof. exact (right_step_sound K Kth qr). Qed.

Theorem C13_right_gauge : forall (prev c : score K),
  qr_orthonormal qr (dm c * rr c) (rl c) (right_unf_t c) -> right_orthonormal (snd (right_step qr prev c)).
Proof. exact (right_step_gauge K Kth qr). Qed.

(* isometry of a right-orthonormal chain, and the norm identity after orthogonalize(0) *)
Theorem C13_isometry : forall (cs : list (score K)) r (x y : nat -> K), rchain K r cs ->
  sumidx (sshape cs) (fun idx => sumn r (fun p => x p * evalv cs idx ones p) * sumn r (fun p' => y p' * evalv cs idx ones p'))
  = sumn r (fun p => x p * y p).
Proof. exact (isometry_right K Kth). Qed.

Theorem C13_norm : forall (c : score K) (cs : list (score K)), rl c = 1%nat -> rchain K (rr c) cs ->
  sumidx (sshape (c :: cs)) (fun idx => eval (c :: cs) idx * eval (c :: cs) idx) =
  sumn (dm c) (fun i => sumn (rr c) (fun q => sl c i O q * sl c i O q)).
Proof. exact (norm_first_core K Kth). Qed.

(* the whole of orthogonalize(mu) (left sweep over cores 0..mu-1, right sweep over cores N-1..mu+1), for any oracle that meets
   the QR contract on every call: the tensor is unchanged, the shape is unchanged, the cores left of mu form a
   left-orthonormal chain and the cores right of mu a right-orthonormal chain *)
Theorem C13_orthogonalize : (forall m n A, qr_exact qr m n A /\ qr_orthonormal qr m n A) ->
  forall (mu : nat) (cs : list (score K)) idx,
  chain 1 cs = true -> last_rr 1 cs = 1%nat -> (mu < length cs)%nat -> in_range (sshape cs) idx = true ->
  eval (orthogonalize K qr mu cs) idx = eval cs idx /\
  sshape (orthogonalize K qr mu cs) = sshape cs /\
  lchain K 1 (firstn mu (orthogonalize K qr mu cs)) /\
  match skipn mu (orthogonalize K qr mu cs) with h :: rest => rchain K (rr h) rest | [] => False end.
Proof. intros Hqr. exact (orthogonalize_sound K Kth qr Hqr). Qed.

(* factor_orthogonalize(mu): the Tucker factor becomes Q (orthonormal columns), R is pushed into the core along the spatial
   index (TT core or CP factor): the mode's semantic core - hence the tensor - is unchanged *)
Theorem C13_factor_unchanged : forall (m : mode K), wf_mode m = true ->
  (forall di s U, fac m = Some (di, s, U) -> qr_exact qr di s U) ->
  let m' := factor_step K qr m in
  rl (sem_mode m') = rl (sem_mode m) /\ rr (sem_mode m') = rr (sem_mode m) /\ dm (sem_mode m') = dm (sem_mode m) /\
  forall i p q, (i < dm (sem_mode m))%nat -> sl (sem_mode m') i p q = sl (sem_mode m) i p q.
Proof. exact (factor_step_sound K Kth qr). Qed.
Theorem C13_factor_gauge : forall (m : mode K) di s U, fac m = Some (di, s, U) -> qr_orthonormal qr di s U ->
  match fac (factor_step K qr m) with
  | Some (di', k, Q) => di' = di /\ forall a b, (a < k)%nat -> (b < k)%nat -> sumn di (fun i => Q i a * Q i b) = delta a b
  | None => False
  end.
Proof. exact (factor_step_gauge K qr). Qed.
End C13.

Print Assumptions C13_left_unchanged.
Print Assumptions C13_left_gauge.
Print Assumptions C13_right_unchanged.
Print Assumptions C13_right_gauge.
Print Assumptions C13_isometry.
Print Assumptions C13_orthogonalize.
Print Assumptions C13_factor_unchanged.
Print Assumptions C13_factor_gauge.
Print Assumptions C13_norm.
