#!/usr/bin/env python3
"""Formula-mode translator (DESIGN.md 4.1): reads the *current* source of /repo/tntorch and emits
coq/theories/Gen/Generated.v.  Fail-closed: a construct outside the grammar below makes the function's
definition disappear from the output (a comment records why), so every theorem about it stops building.

usage: py2coq.py <repo root> <output dir>
"""
import ast, sys, os


class Unsupported(Exception):
    pass


PRIM_T = {"t_add", "t_mul", "t_smul", "t_sadd"}          # kernel primitives returning a tensor

# logic._norm is mapped to "the Frobenius norm" by an argument outside the translator's grammar (ordinary tensors only, clone,
# orthogonalize(0), norm of the first core with its factor absorbed): the mapping is used only for exactly this body
NORM_BODY = ("if t.batch:\n    raise ValueError('Batched tensors are not supported.')\n"
             "t = t.clone()\nt.orthogonalize(0)\ncore = t.cores[0]\nif t.Us[0] is not None:\n"
             "    core = torch.einsum('ijk,aj->iak', (core, t.Us[0]))\nreturn torch.norm(core)")
NORM_BODY_OK = {}


def check_norm_body(repo):
    try:
        tree = ast.parse(open(os.path.join(repo, "tntorch", "logic.py")).read())
        fn = [n for n in tree.body if isinstance(n, ast.FunctionDef) and n.name == "_norm"]
        if len(fn) != 1 or [a.arg for a in fn[0].args.args] != ["t"]:
            NORM_BODY_OK.update(ok=False, why="no single _norm(t)")
            return
        body = [x for x in fn[0].body if not (isinstance(x, ast.Expr) and isinstance(x.value, ast.Constant))]
        txt = "\n".join(ast.unparse(x) for x in body)
        NORM_BODY_OK.update(ok=(txt == NORM_BODY), why="body is now: " + txt[:200].replace("\n", " ; "))
    except Exception as e:
        NORM_BODY_OK.update(ok=False, why=repr(e)[:100])


def qname(f):
    if isinstance(f, ast.Attribute) and isinstance(f.value, ast.Name):
        return f.value.id + "." + f.attr
    if isinstance(f, ast.Name):
        return f.id
    return None


def num(v):
    if isinstance(v, bool):
        raise Unsupported("bool constant")
    if float(v).is_integer():
        return "(IZR (%d))" % int(v)
    from fractions import Fraction
    fr = Fraction(repr(v))           # decimal literal as written in the source
    return "(IZR (%d) / IZR (%d))" % (fr.numerator, fr.denominator)


class Tr:
    """translate one function body for one argument-kind variant"""

    def __init__(self, defined, tys):
        self.defined = defined     # generated names already emitted: python name -> (coq name, result type)
        self.env = {}
        self.ty = dict(tys)

    def call(self, e):
        # numerical-control keywords (eps=, algorithm=) do not change what is computed in exact arithmetic, and a keyword
        # passing on an optional argument that this variant leaves at None passes None: both are dropped
        kws = [k for k in e.keywords if not (k.arg in ("eps", "algorithm") or
               (isinstance(k.value, ast.Name) and k.value.id in self.none_args))]
        if len(kws) != len(e.keywords):
            e = ast.Call(func=e.func, args=e.args, keywords=kws)
        f = e.func
        # methods
        if isinstance(f, ast.Attribute) and f.attr == "clamp" and len(e.args) == 1 and isinstance(e.args[0], ast.Constant) \
                and e.args[0].value == 0 and not e.keywords:
            ty, x = self.texpr(f.value)
            if ty != "R":
                raise Unsupported("clamp on a tensor")
            return "R", "(Rmax 0 %s)" % x
        if isinstance(f, ast.Attribute) and f.attr == "numel" and not e.args:
            ty, x = self.texpr(f.value)
            if ty != "T":
                raise Unsupported("numel of a scalar")
            return "R", "(t_numel %s)" % x
        n = qname(f)
        if n == "_norm" and len(e.args) == 1 and not e.keywords:
            # logic._norm: the Frobenius norm computed on an orthogonalised copy (tensor unchanged and norm = norm of the
            # first core, its Tucker factor absorbed, by C13_orthogonalize / C13_norm); translated as the norm it
            # computes - but only while its body is the one that argument was made for
            if not NORM_BODY_OK.get("ok"):
                raise Unsupported("logic._norm no longer has the body whose meaning (the Frobenius norm) rests on "
                                  "C13_orthogonalize / C13_norm: " + NORM_BODY_OK.get("why", "not found"))
            n = "tn.norm"
        if n == "tn.norm" and len(e.args) == 1 and "tn.norm" in self.defined:
            pass
        if n in ("torch.sqrt", "np.sqrt") and len(e.args) == 1:
            ty, x = self.texpr(e.args[0])
            if ty != "R":
                raise Unsupported("sqrt of tensor")
            return "R", "(sqrt %s)" % x
        if n == "torch.clamp" and len(e.args) == 1 and len(e.keywords) == 1 and e.keywords[0].arg == "min" \
                and isinstance(e.keywords[0].value, ast.Constant) and e.keywords[0].value.value == 0:
            ty, x = self.texpr(e.args[0])
            return "R", "(Rmax 0 %s)" % x
        if n == "bool" and len(e.args) == 1:
            return self.texpr(e.args[0])
        if n == "tn.dot" and len(e.args) == 2 and not e.keywords:
            a = [self.texpr(x) for x in e.args]
            if [t for t, _ in a] != ["T", "T"]:
                raise Unsupported("dot of non-tensors")
            return "R", "(t_dot %s %s)" % (a[0][1], a[1][1])
        if n == "tn.partial" and len(e.args) == 2 and all(k.arg in ("order", "bounds") for k in e.keywords) \
                and "bounds" in [k.arg for k in e.keywords]:
            # tn.partial(t, dim, order=o, bounds=pair): non-periodic partial derivative along one mode
            ty, x = self.texpr(e.args[0])
            if ty != "T":
                raise Unsupported("partial of a non-tensor")
            d = self.nexpr(e.args[1])
            kw = {k.arg: k.value for k in e.keywords}
            o = self.nexpr(kw["order"]) if "order" in kw else "1%nat"
            tb, b = self.texpr(kw["bounds"])
            if tb != "Q":
                raise Unsupported("partial with bounds of kind " + tb)
            return "T", "(t_partial %s %s %s %s)" % (x, d, o, b)
        if n == "sum" and len(e.args) == 1 and not e.keywords:
            ty, x = self.texpr(e.args[0])
            if ty != "L":
                raise Unsupported("builtin sum of kind " + ty)
            return "T", "(t_pysum %s)" % x
        if n == "hadamard_sum" and len(e.args) == 1 and not e.keywords:
            ty, x = self.texpr(e.args[0])
            if ty != "L":
                raise Unsupported("hadamard_sum of kind " + ty)
            return "R", "(t_hsum %s)" % x
        if n == "len" and len(e.args) == 1 and not e.keywords:
            ty, x = self.texpr(e.args[0])
            if ty != "S":
                raise Unsupported("len of kind " + ty)
            return "N", "(s_len %s)" % x
        if isinstance(f, ast.Attribute) and f.attr == "dim" and not e.args and not e.keywords:
            ty, x = self.texpr(f.value)
            if ty != "T":
                raise Unsupported("dim of a non-tensor")
            return "N", "(t_dim %s)" % x
        if n == "tn.weight" and len(e.args) == 1 and not e.keywords:
            ty, x = self.texpr(e.args[0])
            if ty != "N":
                raise Unsupported("weight of a non-integer")
            return "T", "(t_weight %s)" % x
        if n == "tn.mask" and len(e.args) == 2 and not e.keywords:
            a = [self.texpr(x) for x in e.args]
            if [t for t, _ in a] != ["T", "T"]:
                raise Unsupported("mask of non-tensors")
            return "T", "(t_mask %s %s)" % (a[0][1], a[1][1])
        if n == "tn.sobol" and len(e.args) == 2 and len(e.keywords) == 1 and e.keywords[0].arg == "marginals":
            a = [self.texpr(x) for x in e.args]
            g = self.texpr(e.keywords[0].value)
            if [t for t, _ in a] != ["T", "T"] or g[0] != "G":
                raise Unsupported("sobol with argument kinds %s" % ([t for t, _ in a] + [g[0]]))
            return "R", "(t_sobol %s %s %s)" % (a[0][1], a[1][1], g[1])
        if n == "tn.mean" and len(e.args) == 1 and not e.keywords:
            ty, x = self.texpr(e.args[0])
            return "R", "(t_mean %s)" % x
        if n == "tn.sum" and len(e.args) == 1 and not e.keywords:
            ty, x = self.texpr(e.args[0])
            return "R", "(t_sum %s)" % x
        if n is not None and "." not in n and ("tn." + n) in self.defined:
            n = "tn." + n             # a sibling function of the same module
        if n in self.defined and len(self.defined[n]) == 4 and e.keywords and all(k.arg in self.defined[n][3] for k in e.keywords):
            # keyword arguments of an already translated function: put them in positional order
            names = self.defined[n][3]
            bypos = dict(zip(names, e.args))
            for k in e.keywords:
                if k.arg in bypos:
                    raise Unsupported("argument %s given twice" % k.arg)
                bypos[k.arg] = k.value
            if set(bypos) != set(names):
                raise Unsupported("call of %s without all its arguments" % n)
            e = ast.Call(func=e.func, args=[bypos[x] for x in names], keywords=[])
        if n in self.defined and not e.keywords:
            cn, rty, argtys = self.defined[n][:3]
            a = [self.texpr(x) for x in e.args]
            if [t for t, _ in a] != argtys:
                raise Unsupported("call of %s with argument kinds %s" % (n, [t for t, _ in a]))
            return rty, "(%s %s)" % (cn, " ".join(x for _, x in a))
        raise Unsupported("call of " + (n or ast.dump(f)[:40]))

    def nexpr(self, e):
        """an expression used as a natural number (mode number, order, length)"""
        if isinstance(e, ast.Constant) and isinstance(e.value, int) and not isinstance(e.value, bool) and e.value >= 0:
            return "%d%%nat" % e.value
        ty, x = self.texpr(e)
        if ty != "N":
            raise Unsupported("natural number expected, got kind " + ty)
        return x

    def texpr(self, e):
        if isinstance(e, ast.Subscript) and isinstance(e.value, ast.Name) and e.value.id in self.env \
                and self.ty[e.value.id] in ("S", "P"):
            # ts[k] on a sequence of tensors / bounds[k] on per-mode bounds
            k = self.nexpr(e.slice)
            if self.ty[e.value.id] == "S":
                return "T", "(s_nth %s %s)" % (self.env[e.value.id], k)
            return "Q", "(b_at %s %s)" % (self.env[e.value.id], k)
        if isinstance(e, ast.List) and len(e.elts) == 2 and isinstance(e.elts[0], ast.Constant) and e.elts[0].value == 0 \
                and isinstance(e.elts[1], ast.Subscript) and isinstance(e.elts[1].value, ast.Attribute) \
                and e.elts[1].value.attr == "shape" and isinstance(e.elts[1].value.value, ast.Name):
            # [0, t.shape[d]]: the default bounds of mode d of tensor t
            ty, x = self.texpr(e.elts[1].value.value)
            if ty != "T":
                raise Unsupported("shape of a non-tensor")
            return "Q", "(b_default %s %s)" % (x, self.nexpr(e.elts[1].slice))
        if isinstance(e, ast.ListComp) and len(e.generators) == 1 and not e.generators[0].ifs \
                and isinstance(e.generators[0].target, ast.Name) and isinstance(e.generators[0].iter, ast.Name) \
                and self.ty.get(e.generators[0].iter.id) == "D":
            # [f(d) for d in dim]  over a list of modes
            v = e.generators[0].target.id
            if v in self.env:
                raise Unsupported("comprehension variable shadows " + v)
            self.env[v] = v; self.ty[v] = "N"
            try:
                ty, body = self.texpr(e.elt)
            finally:
                del self.env[v]; del self.ty[v]
            if ty not in ("T", "Q"):
                raise Unsupported("comprehension of kind " + ty)
            return ("L" if ty == "T" else "LB"), "(map (fun %s : nat => %s) %s)" % (v, body, self.env[e.generators[0].iter.id])
        if isinstance(e, ast.ListComp) and len(e.generators) == 1 and not e.generators[0].ifs \
                and isinstance(e.generators[0].target, ast.Tuple) and len(e.generators[0].target.elts) == 2 \
                and all(isinstance(x, ast.Name) for x in e.generators[0].target.elts) \
                and isinstance(e.generators[0].iter, ast.Call) and qname(e.generators[0].iter.func) == "zip" \
                and len(e.generators[0].iter.args) == 2 and all(isinstance(x, ast.Name) for x in e.generators[0].iter.args):
            # [f(d, b) for d, b in zip(dim, bounds)]  over a list of modes and a list of bounds pairs
            a, b = [x.id for x in e.generators[0].iter.args]
            if self.ty.get(a) != "D" or self.ty.get(b) != "LB":
                raise Unsupported("zip of kinds %s,%s" % (self.ty.get(a), self.ty.get(b)))
            va, vb = [x.id for x in e.generators[0].target.elts]
            if va in self.env or vb in self.env:
                raise Unsupported("comprehension variable shadows a name")
            self.env[va] = "(fst %s_%s)" % (va, vb); self.ty[va] = "N"
            self.env[vb] = "(snd %s_%s)" % (va, vb); self.ty[vb] = "Q"
            try:
                ty, body = self.texpr(e.elt)
            finally:
                for x in (va, vb):
                    del self.env[x]; del self.ty[x]
            if ty != "T":
                raise Unsupported("comprehension of non-tensors")
            return "L", "(map (fun %s_%s : nat * bnd => %s) (combine %s %s))" % (va, vb, body, self.env[a], self.env[b])
        if isinstance(e, ast.List):
            items = [self.texpr(x) for x in e.elts]
            if not items or any(t != "T" for t, _ in items):
                raise Unsupported("list of non-tensors")
            return "L", "[%s]" % "; ".join(x for _, x in items)
        if isinstance(e, ast.ListComp) and len(e.generators) == 1 and not e.generators[0].ifs \
                and isinstance(e.generators[0].target, ast.Name) and isinstance(e.generators[0].iter, ast.Call) \
                and qname(e.generators[0].iter.func) == "range" and len(e.generators[0].iter.args) == 1:
            # [f(n) for n in range(E)]
            v = e.generators[0].target.id
            if v in self.env:
                raise Unsupported("comprehension variable shadows " + v)
            bound = self.nexpr(e.generators[0].iter.args[0])
            self.env[v] = v; self.ty[v] = "N"
            try:
                ty, body = self.texpr(e.elt)
            finally:
                del self.env[v]; del self.ty[v]
            if ty != "T":
                raise Unsupported("comprehension of non-tensors")
            return "L", "(map (fun %s : nat => %s) (seq 0 %s))" % (v, body, bound)
        if isinstance(e, ast.Name):
            if e.id in self.env:
                return self.ty[e.id], self.env[e.id]
            raise Unsupported("free name " + e.id)
        if isinstance(e, ast.Constant) and isinstance(e.value, (int, float)) and not isinstance(e.value, bool):
            return "R", num(e.value)
        if isinstance(e, ast.UnaryOp) and isinstance(e.op, ast.USub):
            ty, x = self.texpr(e.operand)
            if ty == "R":
                return "R", "(- %s)" % x
            return self.dispatch("neg", [(ty, x)])
        if isinstance(e, ast.UnaryOp) and isinstance(e.op, ast.Invert):
            ty, x = self.texpr(e.operand)
            if ty != "T":
                raise Unsupported("~ on a non-tensor")
            return self.dispatch("invert", [(ty, x)])
        if isinstance(e, ast.UnaryOp) and isinstance(e.op, ast.Not):
            ty, x = self.texpr(e.operand)
            if ty != "B":
                raise Unsupported("not on non-boolean")
            return "B", "(~ %s)" % x
        if isinstance(e, ast.BinOp) and isinstance(e.op, ast.Mult) and isinstance(e.left, ast.List) and len(e.left.elts) == 1:
            # [t] * k: the list of k copies of t
            ty, x = self.texpr(e.left.elts[0])
            if ty != "T":
                raise Unsupported("repetition of a non-tensor")
            return "L", "(repeat %s %s)" % (x, self.nexpr(e.right))
        if isinstance(e, ast.BinOp):
            tl, l = self.texpr(e.left)
            tr, r = self.texpr(e.right)
            op = type(e.op).__name__
            if (tl, tr) in (("N", "R"), ("R", "N")):          # an integer in real arithmetic
                if tl == "N":
                    tl, l = "R", "(INR %s)" % l
                else:
                    tr, r = "R", "(INR %s)" % r
            if op in ("BitAnd", "BitOr", "BitXor"):
                if tl == "T" and tr == "T":
                    return self.dispatch({"BitAnd": "and", "BitOr": "or", "BitXor": "xor"}[op], [(tl, l), (tr, r)])
                if tl == "B" and tr == "B" and op == "BitAnd":
                    return "B", "(%s /\\ %s)" % (l, r)
                raise Unsupported("bit operator on kinds %s,%s" % (tl, tr))
            if tl == "R" and tr == "R":
                if op == "Pow":
                    if isinstance(e.right, ast.Constant) and e.right.value == 2:
                        return "R", "(%s * %s)" % (l, l)
                    return "R", "(Rpower %s %s)" % (l, r)     # real exponent: defined for a positive base
                sym = {"Add": "+", "Sub": "-", "Mult": "*", "Div": "/"}.get(op)
                if sym is None:
                    raise Unsupported("operator " + op)
                return "R", "(%s %s %s)" % (l, sym, r)
            # Python's operator dispatch on tntorch.Tensor
            if op == "Add":
                if tl == "T" and tr == "T":
                    return "T", "(t_add %s %s)" % (l, r)
                if tl == "T" and tr == "R":
                    return "T", "(t_sadd %s %s)" % (r, l)
                if tl == "R" and tr == "T":
                    return self.dispatch("radd", [(tr, r), (tl, l)])
            if op == "Mult":
                if tl == "T" and tr == "T":
                    return "T", "(t_mul %s %s)" % (l, r)
                if tl == "T" and tr == "R":
                    return "T", "(t_smul %s %s)" % (r, l)
                if tl == "R" and tr == "T":
                    return self.dispatch("rmul", [(tr, r), (tl, l)])
            if op == "Sub":
                if tl == "T":
                    return self.dispatch("sub", [(tl, l), (tr, r)])
                if tl == "R" and tr == "T":
                    return self.dispatch("rsub", [(tr, r), (tl, l)])
            if op == "Div" and tl == "T" and tr == "R":
                return self.dispatch("truediv", [(tl, l), (tr, r)])
            raise Unsupported("operator %s on kinds %s,%s" % (op, tl, tr))
        if isinstance(e, ast.Compare) and len(e.ops) == 1:
            tl, l = self.texpr(e.left)
            tr, r = self.texpr(e.comparators[0])
            if tl != "R" or tr != "R":
                raise Unsupported("comparison of tensors")
            sym = {"LtE": "<=", "Lt": "<", "GtE": ">=", "Gt": ">"}.get(type(e.ops[0]).__name__)
            if sym is None:
                raise Unsupported("comparison " + type(e.ops[0]).__name__)
            return "B", "(%s %s %s)" % (l, sym, r)
        if isinstance(e, ast.Call):
            return self.call(e)
        raise Unsupported(type(e).__name__)

    def dispatch(self, op, args):
        key = "Tensor.__%s__" % op
        kinds = "".join(t for t, _ in args)
        for cand in (key + "#" + kinds,):
            if cand in self.defined:
                cn, rty = self.defined[cand][:2]
                return rty, "(%s %s)" % (cn, " ".join(x for _, x in args))
        raise Unsupported("operator method %s for kinds %s not translated yet" % (key, kinds))

    def _is_bounds_normalisation(self, s):
        """`if B is None: B = ... elif not hasattr(B[0], '__len__'): B = ...` (no else) for an argument B of kind P:
        neither branch runs when B is a list of pairs, and both only rebind B"""
        def only_rebinds(body, nm):
            return all(isinstance(x, ast.Assign) and len(x.targets) == 1 and isinstance(x.targets[0], ast.Name)
                       and x.targets[0].id == nm for x in body)
        t = s.test
        if not (isinstance(t, ast.Compare) and len(t.ops) == 1 and isinstance(t.ops[0], ast.Is) and isinstance(t.left, ast.Name)
                and isinstance(t.comparators[0], ast.Constant) and t.comparators[0].value is None):
            return False
        nm = t.left.id
        if self.ty.get(nm) != "P" or not only_rebinds(s.body, nm):
            return False
        if not s.orelse:
            return True
        if len(s.orelse) == 1 and isinstance(s.orelse[0], ast.If) and not s.orelse[0].orelse \
                and ast.unparse(s.orelse[0].test) == "not hasattr(%s[0], '__len__')" % nm and only_rebinds(s.orelse[0].body, nm):
            return True
        return False

    def body(self, fn):
        out = None
        for s in fn.body:
            if isinstance(s, ast.Expr) and isinstance(s.value, ast.Constant):
                continue
            if isinstance(s, ast.Assign) and isinstance(s.targets[0], ast.Tuple) and isinstance(s.value, ast.Call) \
                    and qname(s.value.func) == "_process":
                continue                      # both operands compressed: _process is the identity
            if isinstance(s, ast.Assert):
                continue                      # a precondition: a premise of the theorems about this variant
            if isinstance(s, ast.If) and not s.orelse and ast.unparse(s.test).startswith("isinstance(") \
                    and ast.unparse(s.test).endswith(", np.generic)") and len(s.body) == 1 \
                    and isinstance(s.body[0], ast.Assign) and len(s.body[0].targets) == 1 \
                    and isinstance(s.body[0].targets[0], ast.Name) \
                    and ast.unparse(s.test) == "isinstance(%s, np.generic)" % s.body[0].targets[0].id \
                    and ast.unparse(s.body[0].value) == "%s.item()" % s.body[0].targets[0].id:
                continue                      # `if isinstance(x, np.generic): x = x.item()`: the same number as a Python scalar
            if isinstance(s, ast.If) and not s.orelse and len(s.body) == 1 and isinstance(s.body[0], ast.Raise) \
                    and isinstance(s.test, ast.Attribute) and s.test.attr == "batch" and isinstance(s.test.value, ast.Name) \
                    and self.ty.get(s.test.value.id) == "T":
                continue                      # `if t.batch: raise`: a premise (ordinary tensors)
            if isinstance(s, ast.If) and not s.orelse and isinstance(s.test, ast.Compare) and len(s.test.ops) == 1 \
                    and isinstance(s.test.ops[0], ast.Eq) and isinstance(s.test.left, ast.Name) \
                    and self.ty.get(s.test.left.id) == "D" and isinstance(s.test.comparators[0], ast.Constant) \
                    and isinstance(s.test.comparators[0].value, str) \
                    and all(isinstance(x, ast.Assign) and len(x.targets) == 1 and isinstance(x.targets[0], ast.Name)
                            and x.targets[0].id == s.test.left.id for x in s.body):
                continue                      # `if dim == 'all': dim = ...`: not this variant (dim is an explicit list of modes)
            if isinstance(s, ast.If) and isinstance(s.test, ast.UnaryOp) and isinstance(s.test.op, ast.Not) \
                    and isinstance(s.test.operand, ast.Call) and qname(s.test.operand.func) == "hasattr" \
                    and len(s.test.operand.args) == 2 and isinstance(s.test.operand.args[1], ast.Constant) \
                    and s.test.operand.args[1].value == "__len__":
                tgt = s.test.operand.args[0]
                # a list has __len__: `if not hasattr(L, '__len__'): A else: B` runs B (or nothing)
                if isinstance(tgt, ast.Name) and self.ty.get(tgt.id) in ("D", "LB", "P"):
                    if s.orelse:
                        sub = ast.FunctionDef(name="_", args=None, body=s.orelse, decorator_list=[])
                        out = self.body(sub)
                    continue
                # the entries of a list of pairs have __len__: `if not hasattr(B[0], '__len__'): B = ...` does not run
                if isinstance(tgt, ast.Subscript) and isinstance(tgt.value, ast.Name) and self.ty.get(tgt.value.id) in ("LB", "P") \
                        and isinstance(tgt.slice, ast.Constant) and tgt.slice.value == 0 and not s.orelse \
                        and all(isinstance(x, ast.Assign) and len(x.targets) == 1 and isinstance(x.targets[0], ast.Name)
                                and x.targets[0].id == tgt.value.id for x in s.body):
                    continue
            if isinstance(s, ast.If) and not s.orelse and isinstance(s.test, ast.Compare) and len(s.test.ops) == 1 \
                    and isinstance(s.test.ops[0], ast.Is) and isinstance(s.test.left, ast.Name) \
                    and isinstance(s.test.comparators[0], ast.Constant) and s.test.comparators[0].value is None \
                    and s.test.left.id in self.none_args and len(s.body) == 1 and isinstance(s.body[0], ast.Assign) \
                    and len(s.body[0].targets) == 1 and isinstance(s.body[0].targets[0], ast.Name) \
                    and s.body[0].targets[0].id == s.test.left.id:
                # `if B is None: B = E` with B left at None in this variant: B becomes E
                ty, v = self.texpr(s.body[0].value)
                self.env[s.test.left.id] = v; self.ty[s.test.left.id] = ty
                continue
            if isinstance(s, ast.If) and not s.orelse and isinstance(s.test, ast.Compare) and len(s.test.ops) == 1 \
                    and isinstance(s.test.ops[0], ast.Is) and isinstance(s.test.left, ast.Name) \
                    and isinstance(s.test.comparators[0], ast.Constant) and s.test.comparators[0].value is None \
                    and s.test.left.id in self.env and s.test.left.id not in self.none_args \
                    and all(isinstance(x, ast.Assign) and len(x.targets) == 1 and isinstance(x.targets[0], ast.Name)
                            and x.targets[0].id == s.test.left.id for x in s.body):
                continue                      # `if B is None: B = E` with B given in this variant: does not run
            if isinstance(s, ast.If) and self._is_bounds_normalisation(s):
                continue                      # variant: bounds already is a list of one pair per mode
            if isinstance(s, ast.If) and s.orelse and isinstance(s.test, ast.Compare) and len(s.test.ops) == 1 \
                    and isinstance(s.test.ops[0], ast.Is) and isinstance(s.test.left, ast.Name) \
                    and isinstance(s.test.comparators[0], ast.Constant) and s.test.comparators[0].value is None \
                    and (s.test.left.id in self.none_args or s.test.left.id in self.env):
                # `if <optional argument> is None: A else: B` -- this variant fixes which branch runs
                branch = s.body if s.test.left.id in self.none_args else s.orelse
                sub = ast.FunctionDef(name="_", args=None, body=branch, decorator_list=[])
                out = self.body(sub)
                continue
            if isinstance(s, ast.If):
                t = ast.unparse(s.test)
                if "isinstance" in t and "torch.Tensor" in t:
                    continue                  # dense branch, not this variant
                if t.endswith("is None") and all(isinstance(x, ast.Return) for x in s.body) and not s.orelse:
                    continue                  # `if other is None: return self` (variant: not None)
                if t.endswith("is not None") and t.split()[0] in self.none_args and not s.orelse:
                    continue                  # optional argument left at None in this variant
                raise Unsupported("if " + t[:60])
            if isinstance(s, ast.Assign) and len(s.targets) == 1 and isinstance(s.targets[0], ast.Name):
                ty, v = self.texpr(s.value)
                nm = s.targets[0].id
                self.env[nm] = v
                self.ty[nm] = ty
                continue
            if isinstance(s, ast.Return) and s.value is not None:
                out = self.texpr(s.value)
                continue
            raise Unsupported(type(s).__name__)
        if out is None:
            raise Unsupported("no return")
        return out


COQ_TY = {"T": "tensor", "R": "R", "B": "Prop", "G": "marg", "N": "nat", "S": "tseq", "P": "bnds", "Q": "bnd", "L": "list tensor",
          "D": "list nat", "LB": "list bnd"}

# (python qualified name, file, class or None, function, variants: list of (suffix, {arg: kind}, none_args))
PLAN = [
    ("Tensor.__rmul__", "tensor.py", "Tensor", "__rmul__", [("TR", {"self": "T", "other": "R"}, [])]),
    ("Tensor.__neg__", "tensor.py", "Tensor", "__neg__", [("T", {"self": "T"}, [])]),
    ("Tensor.__radd__", "tensor.py", "Tensor", "__radd__", [("TR", {"self": "T", "other": "R"}, [])]),
    ("Tensor.__sub__", "tensor.py", "Tensor", "__sub__", [("TT", {"self": "T", "other": "T"}, []), ("TR", {"self": "T", "other": "R"}, [])]),
    ("Tensor.__rsub__", "tensor.py", "Tensor", "__rsub__", [("TR", {"self": "T", "other": "R"}, [])]),
    ("Tensor.__truediv__", "tensor.py", "Tensor", "__truediv__", [("TR", {"self": "T", "other": "R"}, [])]),
    ("Tensor.__invert__", "tensor.py", "Tensor", "__invert__", [("T", {"self": "T"}, [])]),
    ("Tensor.__and__", "tensor.py", "Tensor", "__and__", [("TT", {"self": "T", "other": "T"}, [])]),
    ("Tensor.__or__", "tensor.py", "Tensor", "__or__", [("TT", {"self": "T", "other": "T"}, [])]),
    ("Tensor.__xor__", "tensor.py", "Tensor", "__xor__", [("TT", {"self": "T", "other": "T"}, [])]),
    ("tn.normsq", "metrics.py", None, "normsq", [("", {"t": "T"}, [])]),
    ("tn.norm", "metrics.py", None, "norm", [("", {"t": "T"}, [])]),
    ("tn.dist", "metrics.py", None, "dist", [("", {"t1": "T", "t2": "T"}, [])]),
    ("tn.relative_error", "metrics.py", None, "relative_error", [("", {"gt": "T", "approx": "T"}, [])]),
    ("tn.rmse", "metrics.py", None, "rmse", [("", {"gt": "T", "approx": "T"}, [])]),
    ("tn.r_squared", "metrics.py", None, "r_squared", [("", {"gt": "T", "approx": "T"}, [])]),
    ("tn.var", "metrics.py", None, "var", [("", {"t": "T"}, ["marginals"])]),
    ("tn.std", "metrics.py", None, "std", [("", {"t": "T"}, [])]),
    ("tn.raw_moment", "metrics.py", None, "raw_moment", [("", {"t": "T", "k": "N"}, ["marginals"])]),
    ("tn.normalized_moment", "metrics.py", None, "normalized_moment", [("", {"t": "T", "k": "N"}, ["marginals"])]),
    ("tn.is_tautology", "logic.py", None, "is_tautology", [("", {"t": "T"}, [])]),
    ("tn.is_contradiction", "logic.py", None, "is_contradiction", [("", {"t": "T"}, [])]),
    ("tn.is_satisfiable", "logic.py", None, "is_satisfiable", [("", {"t": "T"}, [])]),
    ("tn.implies", "logic.py", None, "implies", [("", {"t1": "T", "t2": "T"}, [])]),
    ("tn.equiv", "logic.py", None, "equiv", [("", {"t1": "T", "t2": "T"}, [])]),
    ("tn.mean_dimension", "anova.py", None, "mean_dimension",
     [("N", {"t": "T", "marginals": "G"}, ["mask"]), ("M", {"t": "T", "mask": "T", "marginals": "G"}, [])]),
    # vector calculus, variant P: bounds given as a list of one [lower, upper] pair per mode
    ("tn.divergence", "derivatives.py", None, "divergence", [("P", {"ts": "S", "bounds": "P"}, [])]),
    ("tn.curl", "derivatives.py", None, "curl", [("P", {"ts": "S", "bounds": "P"}, [])]),
    ("tn.laplacian", "derivatives.py", None, "laplacian", [("P", {"t": "T", "bounds": "P"}, [])]),
    # gradient over an explicit list of modes: N = default bounds (bounds=None), B = one bounds pair per listed mode
    ("tn.gradient", "derivatives.py", None, "gradient",
     [("N", {"t": "T", "dim": "D"}, ["bounds"]), ("B", {"t": "T", "dim": "D", "bounds": "LB"}, [])]),
]

HEADER = """(* GENERATED on every run from the current source of /repo/tntorch by translator/py2coq.py -- never edit.
   One definition per Python function and argument-kind variant (T = compressed tensor, R = scalar).
   Kernel primitives (hand-modelled, tied by correspondence) are the Section variables. *)
From Coq Require Import Reals List.
Import ListNotations.
Open Scope R_scope.
Section Gen.
Variable tensor : Type.
Variable t_dot : tensor -> tensor -> R.
Variables t_add t_mul : tensor -> tensor -> tensor.
Variables t_smul t_sadd : R -> tensor -> tensor.
Variables t_mean t_numel t_sum : tensor -> R.
Variable marg : Type.
Variable t_sobol : tensor -> tensor -> marg -> R.
Variable t_weight : nat -> tensor.
Variable t_mask : tensor -> tensor -> tensor.
Variable t_dim : tensor -> nat.
Variable tseq : Type.
Variable s_nth : tseq -> nat -> tensor.
Variable s_len : tseq -> nat.
Variables bnds bnd : Type.
Variable b_at : bnds -> nat -> bnd.
Variable t_partial : tensor -> nat -> nat -> bnd -> tensor.
Variable t_pysum : list tensor -> tensor.
Variable b_default : tensor -> nat -> bnd.
Variable t_hsum : list tensor -> R.
"""


def find_fn(tree, cls, name):
    found = None
    body = tree.body
    if cls:
        for n in body:
            if isinstance(n, ast.ClassDef) and n.name == cls:
                body = n.body
                break
        else:
            return None
    for n in body:
        if isinstance(n, ast.FunctionDef) and n.name == name:
            found = n          # the last definition wins, as in Python (e.g. the second __truediv__)
    return found


def main(repo, outdir):
    check_norm_body(repo)
    trees = {}
    lines = [HEADER]
    defined = {}
    report = []
    for pyname, fname, cls, fn, variants in PLAN:
        if fname not in trees:
            trees[fname] = ast.parse(open(os.path.join(repo, "tntorch", fname)).read())
        node = find_fn(trees[fname], cls, fn)
        for suffix, kinds, none_args in variants:
            coqname = "gen_%s_%s%s" % (fname[:-3], fn.strip("_"), ("_" + suffix) if suffix else "")
            if node is None:
                lines.append("(* FAIL-CLOSED %s: function not found *)" % coqname)
                report.append((coqname, "missing"))
                continue
            args = [a.arg for a in node.args.args if a.arg in kinds]
            tr = Tr(defined, kinds)
            tr.none_args = none_args
            tr.env = {a: a for a in args}
            try:
                rty, body = tr.body(node)
            except Unsupported as e:
                lines.append("(* FAIL-CLOSED %s: %s *)" % (coqname, e))
                report.append((coqname, "unsupported: %s" % e))
                continue
            sig = " ".join("(%s : %s)" % (a, COQ_TY[kinds[a]]) for a in args)
            lines.append("Definition %s %s : %s :=\n  %s." % (coqname, sig, COQ_TY[rty], body))
            key = pyname + ("#" + suffix if cls else "")
            defined[key] = (coqname, rty, [kinds[a] for a in args], list(args))
            if not cls:
                defined[pyname] = (coqname, rty, [kinds[a] for a in args], list(args))
            report.append((coqname, "ok"))
    lines.append("End Gen.\n")
    os.makedirs(outdir, exist_ok=True)
    text = "\n".join(lines)
    path = os.path.join(outdir, "Generated.v")
    old = open(path).read() if os.path.exists(path) else None
    if old != text:
        open(path, "w").write(text)
    for n, st in report:
        print("%-40s %s" % (n, st))
    return 0


if __name__ == "__main__":
    sys.exit(main(sys.argv[1], sys.argv[2]))
