"""Regenerate coq/theories/Gen/*.v from /repo's current working tree (translator, DESIGN 4.1)."""
import os, sys, subprocess
HERE = os.path.dirname(os.path.abspath(__file__))
VERIF = os.path.dirname(HERE)


def regenerate():
    tr = os.path.join(VERIF, "translator", "py2coq.py")
    if not os.path.exists(tr):
        return True, "no translator yet"
    p = subprocess.run(["python3", tr, os.environ.get("TNTORCH_ROOT", "/repo"), os.path.join(VERIF, "coq", "theories", "Gen")],
                       capture_output=True, text=True)
    return p.returncode == 0, p.stdout + p.stderr
