(* Executable models of round.truncated_svd (svd path) and Tensor.round_tt with the factorisations replayed from
   the implementation (oracle replay).  truncated_svd: the rank decision (Model/RankChoice.choose_rank), the zero
   special case, which side receives the singular values; round_tt: orthogonalize(N-1), factor_orthogonalize(N-1),
   the budget delta, the right-to-left sweep (right unfolding, reshape, factor passed to the left). *)
From TN Require Export Model.OrthoReplay Model.RankChoice.
From Coq Require Import QArith Qabs.
Local Open Scope Q_scope.

(* ---- truncated_svd(M, delta, rmax, left_ortho), algorithm='svd' ---- *)
Record svd_answer := mkSvd { sv_U : arr2; sv_s : list Q; sv_Vh : arr2 }.     (* torch.linalg.svd(M): U (m x m), s, Vh (n x n) *)
Definition tsvd (M : arr2) (d2 : Q) (rmax : nat) (left_ortho : bool) (a : svd_answer) : arr2 * arr2 :=
  let m := m_r M in let n := m_c M in
  let s := sv_s a in
  if Qle_bool (nth 0 s 0) 0        (* svd[1][0] == 0: the zero matrix *)
  then (tab2 m 1 (fun _ _ => 0), tab2 1 n (fun _ _ => 0))
  else
    let S := map (fun x => Qred (x * x)) s in
    (* singular values <= s_0 * max(m, n) * eps (float64: eps = 2^-52) are null directions *)
    let tolq := Qred (inject_Z (Z.of_nat (Nat.max m n)) * (1 # 4503599627370496)) in
    let null := length (filter (fun x => Qle_bool x (nth 0 s 0 * tolq)) s) in
    let r := choose_rank S d2 rmax null in
    let U := sv_U a in
    if left_ortho
    then (tab2 m r (fun i k => g2 U i k),
          tab2 r n (fun k j => qsum m (fun i => Qred (g2 U i k * g2 M i j))))
    else (tab2 m r (fun i k => Qred (g2 U i k * nth k s 0)),
          tab2 r n (fun k j => g2 (sv_Vh a) k j)).      (* the right singular vectors themselves *)

(* ---- round_tt(eps, rmax) ---- *)
Record ts_answer := mkTs { ts_left : arr2; ts_right : arr2; ts_M : arr2; ts_d2 : Q; ts_rmax : nat }.   (* recorded truncated_svd call; rmax 0 = None *)
Record rst := mkRst { r_st : st; r_ts : list ts_answer; r_ok : bool }.
Definition frob2 (c : arr3) : Q := fold_right (fun x acc => Qred (x * x + acc)) 0 (a_dat c).
Definition close5 (x y : Q) : bool := Qle_bool (Qabs (x - y)) ((1 # 100000) * (1 + Qabs x)).

Definition tt_step (rmaxs : list nat) (mu : nat) (d2 : Q) (s : rst) : rst :=
  let ms := s_modes (r_st s) in
  let m := nth_mode mu ms in let c := cm_core m in
  let pv := nth_mode (mu - 1) ms in let cp := cm_core pv in
  match r_ts s with
  | [] => mkRst (r_st s) [] false
  | an :: rest =>
      let M := tab2 (a_d0 c) (a_d1 c * a_d2 c) (fun p a => g3 c p (a / a_d2 c) (a mod a_d2 c)) in
      let r := m_c (ts_left an) in
      let c' := tab3 r (a_d1 c) (a_d2 c) (fun a j q => g2 (ts_right an) a (j * a_d2 c + q)) in
      let cp' := tab3 (a_d0 cp) (a_d1 cp) r (fun p j a => qsum (a_d2 cp) (fun t => Qred (g3 cp p j t * g2 (ts_left an) t a))) in
      mkRst (mkSt (upd_mode (mu - 1) (upd_mode mu ms (mkCM c' (cm_U m) (maxabs_q (m_dat (ts_right an)))))
                            (mkCM cp' (cm_U pv) (Qred (nat_q (a_d2 cp) * maxabs_q (m_dat (ts_left an)) * cm_sc pv))))
                  (s_ans (r_st s)) (s_ok (r_st s)))
            rest (r_ok s && arr2_close_sc (nfloor * cm_sc m) M (ts_M an) && close5 d2 (ts_d2 an) && Nat.eqb (ts_rmax an) (nth (mu - 1) rmaxs O))
  end.
Fixpoint sweep (rmaxs : list nat) (mu n : nat) (d2 : Q) (s : rst) : rst :=     (* mu, mu-1, ..., mu-n+1; rmax=rmax[mu-1] *)
  match n with O => s | S n' => sweep rmaxs (mu - 1) n' d2 (tt_step rmaxs mu d2 s) end.

Definition round_tt (eps2 : Q) (rmaxs : list nat) (s0 : st) (ts : list ts_answer) : rst :=
  let N := length (s_modes s0) in
  let s1 := factor_step (N - 1) (orthogonalize (N - 1) s0) in
  let last := cm_core (nth_mode (N - 1) (s_modes s1)) in
  (* delta = eps / max(1, sqrt(N-1)) * ||cores[-1]||   =>   delta^2 = eps^2 / max(1, N-1) * ||cores[-1]||^2 *)
  let d2 := Qred (eps2 / (inject_Z (Z.of_nat (Nat.max 1 (N - 1)))) * frob2 last) in
  sweep rmaxs (N - 1) (N - 1) d2 (mkRst s1 ts true).
